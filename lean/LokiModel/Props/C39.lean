import LokiModel.C39.Sound
import LokiModel.C39.Guard
import LokiModel.C39.Entry
/-!
# C39 — Parametrisation preserves behaviour for matching inputs

`T_model` = `LokiModel.C39.transformProgram` (Model.lean), tied to `ParametriseTransformation` by the correspondence check.

What is proved (all fuel, all programs, all states — no bounds):

* `param_sound_partial` — the core of `param_sound`: in a state where the parametrised variable `x` holds its fixed value `v`
  (`Inv`: integer scalar cell with value `v`; the matching-input hypothesis σ(x) = v), replacing `x` by the literal in a statement
  list (`substStmts`, the body rewrite of `replace_by_value=True`; with `replace_by_value=False` the body is not rewritten at all)
  does not change the execution: same result, same fuel, for every program `P` the calls go to.  Hypothesis `safeStmts`: the
  statements do not write `x` (what the transformation requires: the dummy becomes a PARAMETER / a literal) and lie in the
  covered class (no ASSOCIATE, no array-section assignment target, no actual argument that mentions `x` — bare `x` actuals are
  removed by the transformation before the rewrite).
  **Partial** with respect to the property text: the theorem is about statement lists in one state.  Not proved: that removing
  the dummy from the callee's signature and the actual from the call (the callee then finds `x` in a PARAMETER cell, or not at
  all, instead of a dummy cell) leaves the callee's run unchanged — this needs a frame/renaming lemma for the whole FIR semantics
  (execution is insensitive to cells it never reads and to the position of a cell in the store).  That part is covered by the
  correspondence check and the direct oracle only.
* `param_invariant` — safe statements keep `x` at its value (so the hypothesis of `param_sound_partial` propagates through
  sequences, loops, branches and calls).
* `entry_points_guarded` — in the model every entry point of the processing order (several drivers, several `entry_points`) gets a
  guard for every parametrised dummy it declares (PARAMETER mode; with `replace_by_value` the guards additionally pass through the
  literal substitution, which is not covered by this statement).
* `guard_fires` / `guard_passes` — the guard inserted at an entry point: for a value different from the fixed one the run ends at
  the guard's abort, before anything else happens, and the only output is the guard's report; for the fixed value the guard is
  transparent.
-/
namespace LokiModel.C39
open LokiModel.Fir
open LokiModel.Expr (Val CmpOp)

/-- substitution of the fixed value preserves the execution of safe statements (see the module docstring for what is missing
towards whole call trees) -/
theorem param_sound_partial (P : Program) (x : String) (v : Int) (f : Nat) (body : List Stmt) (st : St)
    (hmatch : Inv x v st) (hsafe : safeStmts x body = true) :
    execStmts P f (substStmts x (litInt v) body) st = execStmts P f body st :=
  (sim P x v f).stmts body st hmatch hsafe

/-- safe statements never change the parametrised variable -/
theorem param_invariant (P : Program) (x : String) (v : Int) (f : Nat) (body : List Stmt) (st st' : St) (sig : Sig)
    (hmatch : Inv x v st) (hsafe : safeStmts x body = true) (hrun : execStmts P f body st = .ok st' sig) : Inv x v st' :=
  (pres P x v f).stmts body st st' sig hmatch hsafe hrun

/-- the rewrite of the model for a unit with one PARAMETER is this substitution -/
theorem inlineParams_single (decls : List Decl) (body : List Stmt) (x : String) (e : Ex) (h : paramEnv decls = [(x, e)]) :
    (inlineParams decls body).2 = substStmts x e body := by
  simp [inlineParams, h]

/-- σ(arg) ≠ value: the guard's abort is reached before any other effect -/
theorem guard_fires (cfg : Cfg) (P : Program) (y : String) (v w : Int) (rest : List Stmt) (st : St) (f : Nat)
    (h : Holds st y w) (hne : w ≠ v) :
    execStmts P (f + 7) (guard cfg y v ++ rest) st =
      .ok { st with out := if cfg.printAbort then st.out ++ [[.int w]] else st.out } .exit :=
  guard_fires_stmts cfg P y v w rest st f h hne

/-- σ(arg) = value: the guard is transparent -/
theorem guard_passes (cfg : Cfg) (P : Program) (y : String) (v : Int) (rest : List Stmt) (st : St) (f : Nat)
    (h : Holds st y v) :
    execStmts P (f + 4) (guard cfg y v ++ rest) st = execStmts P (f + 2) rest st :=
  guard_passes_stmts cfg P y v rest st f h

/-- **every entry point is guarded** (any number of drivers / `entry_points`; PARAMETER mode): if the tree is processed without an
exception, then for every unit `name` of the processing order that is an entry point, and every dummy `a` of it that is a key of
the dictionary (value `v`), the processed unit's body contains the guard `IF (parametrised_a /= v) <abort>` — and by
`processUnit_entry_body` the guards are the first statements of the body.  Together with `guard_fires` this is "a non-matching
value aborts at every entry point"; no guard depends on what was generated for another unit. -/
theorem entry_points_guarded (cfg : Cfg) (p : Program) (ds : List Done) (name a : String) (v : Int) (u : Fir.Unit)
    (hrun : runAll cfg p cfg.order [] [] = (ds, none)) (hrbv : cfg.rbv = false)
    (hord : name ∈ cfg.order) (hent : isEntry cfg p name = true) (hu : findUnit p name = some u)
    (ha : a ∈ u.args) (hlow : a.toLower = a) (hv : lookupExact cfg.dic a = some v) :
    ∃ d ∈ ds, d.name = name ∧ ∃ l r, d.unit.body = l ++ guard cfg (pfx ++ a) v ++ r := by
  obtain ⟨d, hd, hn, upd, hp⟩ := runAll_entry cfg p cfg.order [] [] ds hrun name hord hent u hu
  have hne : cfg.dic.isEmpty = false := by
    cases hdic : cfg.dic with
    | nil => simp [hdic, lookupExact] at hv
    | cons kv rest => rfl
  obtain ⟨rest, hb⟩ := processUnit_entry_body cfg p cfg.dic u d.unit upd hne hrbv hp
  obtain ⟨l, r, hg⟩ := guards_complete cfg cfg.dic u.args a v ha hlow hv
  exact ⟨d, hd, hn, l, r ++ rest, by rw [hb, hg]; simp [List.append_assoc]⟩

/-! ### non-vacuity -/

def exState : St := { store := [("n", .scalar .int (some (.int 3))), ("r1", .scalar .int (some (.int 0)))] }

def exBody : List Stmt :=
  [.doLoop "i1" (.lit (.int 1)) (.var "n") none [.assign (.var "r1") (.bin .add (.var "r1") (.var "n"))],
   .ifte (.bin (.cmp .gt) (.var "n") (.lit (.int 2))) [.print [.var "r1"]] [],
   .callSub "sub1" [.var "r1"]]

example : Inv "n" 3 exState := ⟨rfl, rfl⟩
example : safeStmts "n" exBody = true := by decide
example : Holds exState "n" 3 := ⟨rfl, rfl⟩

/-- two drivers sharing a kernel: both get their guards -/
def twoDrivers : Program := { main := "kernel", units := [
  { name := "kernel", args := ["n", "r1"], decls := [{ name := "n", ty := .int, dims := [], intent := .in_ },
      { name := "r1", ty := .int, dims := [], intent := .inout }], body := [.callSub "sub1" [.var "n", .var "r1"]] },
  { name := "kernel2", args := ["n", "r1"], decls := [{ name := "n", ty := .int, dims := [], intent := .in_ },
      { name := "r1", ty := .int, dims := [], intent := .inout }],
    body := [.assign (.var "r1") (.lit (.int 0)), .callSub "sub1" [.var "n", .var "r1"]] },
  { name := "sub1", args := ["n", "r1"], decls := [{ name := "n", ty := .int, dims := [], intent := .in_ },
      { name := "r1", ty := .int, dims := [], intent := .inout }], body := [.assign (.var "r1") (.bin .add (.var "r1") (.var "n"))] }] }

def twoDriversCfg : Cfg :=
  { dic := [("n", 4)], rbv := false, entry := none, printAbort := true, order := ["kernel", "kernel2", "sub1"], roots := ["kernel", "kernel2"] }

example : (runAll twoDriversCfg twoDrivers twoDriversCfg.order [] []).2 = none := by decide +kernel
example : isEntry twoDriversCfg twoDrivers "kernel2" = true := by decide +kernel
example : lookupExact twoDriversCfg.dic "n" = some 4 := by decide +kernel
example : "n".toLower = "n" := by decide +kernel

end LokiModel.C39
