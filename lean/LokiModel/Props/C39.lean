import LokiModel.C39.Sound
import LokiModel.C39.Guard
/-!
# C39 — Parametrisation preserves behaviour for matching inputs

`T_model` = `LokiModel.C39.transformProgram` (Model.lean), tied to `ParametriseTransformation` by the correspondence check.

What is proved (all fuel, all programs, all states — no bounds):

* `param_sound_partial` — the core of `param_sound`: in a state where the parametrised variable `x` holds its fixed value `v`
  (`Inv`: integer scalar cell with value `v`; the matching-input hypothesis σ(x) = v), replacing `x` by the literal in a statement
  list (`substStmts`, the body rewrite of `replace_by_value=True`; with `replace_by_value=False` the body is not rewritten at all)
  does not change the execution: same result, same fuel, for every program `P` the calls go to.  Hypothesis `safeStmts`: the
  statements do not write `x` (what the transformation requires: the dummy becomes a PARAMETER / a literal) and lie in the
  covered class (no ASSOCIATE, no array-section assignment target, no actual argument that mentions `x` — bare `x` actuals are
  removed by the transformation before the rewrite).
  **Partial** with respect to the property text: the theorem is about statement lists in one state.  Not proved: that removing
  the dummy from the callee's signature and the actual from the call (the callee then finds `x` in a PARAMETER cell, or not at
  all, instead of a dummy cell) leaves the callee's run unchanged — this needs a frame/renaming lemma for the whole FIR semantics
  (execution is insensitive to cells it never reads and to the position of a cell in the store).  That part is covered by the
  correspondence check and the direct oracle only.
* `param_invariant` — safe statements keep `x` at its value (so the hypothesis of `param_sound_partial` propagates through
  sequences, loops, branches and calls).
* `guard_fires` / `guard_passes` — the guard inserted at an entry point: for a value different from the fixed one the run ends at
  the guard's abort, before anything else happens, and the only output is the guard's report; for the fixed value the guard is
  transparent.
-/
namespace LokiModel.C39
open LokiModel.Fir
open LokiModel.Expr (Val CmpOp)

/-- substitution of the fixed value preserves the execution of safe statements (see the module docstring for what is missing
towards whole call trees) -/
theorem param_sound_partial (P : Program) (x : String) (v : Int) (f : Nat) (body : List Stmt) (st : St)
    (hmatch : Inv x v st) (hsafe : safeStmts x body = true) :
    execStmts P f (substStmts x (litInt v) body) st = execStmts P f body st :=
  (sim P x v f).stmts body st hmatch hsafe

/-- safe statements never change the parametrised variable -/
theorem param_invariant (P : Program) (x : String) (v : Int) (f : Nat) (body : List Stmt) (st st' : St) (sig : Sig)
    (hmatch : Inv x v st) (hsafe : safeStmts x body = true) (hrun : execStmts P f body st = .ok st' sig) : Inv x v st' :=
  (pres P x v f).stmts body st st' sig hmatch hsafe hrun

/-- the rewrite of the model for a unit with one PARAMETER is this substitution -/
theorem inlineParams_single (decls : List Decl) (body : List Stmt) (x : String) (e : Ex) (h : paramEnv decls = [(x, e)]) :
    (inlineParams decls body).2 = substStmts x e body := by
  simp [inlineParams, h]

/-- σ(arg) ≠ value: the guard's abort is reached before any other effect -/
theorem guard_fires (cfg : Cfg) (P : Program) (y : String) (v w : Int) (rest : List Stmt) (st : St) (f : Nat)
    (h : Holds st y w) (hne : w ≠ v) :
    execStmts P (f + 7) (guard cfg y v ++ rest) st =
      .ok { st with out := if cfg.printAbort then st.out ++ [[.int w]] else st.out } .exit :=
  guard_fires_stmts cfg P y v w rest st f h hne

/-- σ(arg) = value: the guard is transparent -/
theorem guard_passes (cfg : Cfg) (P : Program) (y : String) (v : Int) (rest : List Stmt) (st : St) (f : Nat)
    (h : Holds st y v) :
    execStmts P (f + 4) (guard cfg y v ++ rest) st = execStmts P (f + 2) rest st :=
  guard_passes_stmts cfg P y v rest st f h

/-! ### non-vacuity -/

def exState : St := { store := [("n", .scalar .int (some (.int 3))), ("r1", .scalar .int (some (.int 0)))] }

def exBody : List Stmt :=
  [.doLoop "i1" (.lit (.int 1)) (.var "n") none [.assign (.var "r1") (.bin .add (.var "r1") (.var "n"))],
   .ifte (.bin (.cmp .gt) (.var "n") (.lit (.int 2))) [.print [.var "r1"]] [],
   .callSub "sub1" [.var "r1"]]

example : Inv "n" 3 exState := ⟨rfl, rfl⟩
example : safeStmts "n" exBody = true := by decide
example : Holds exState "n" 3 := ⟨rfl, rfl⟩

end LokiModel.C39
