import LokiModel.C26.SoundB
/-!
# C26 — dataflow def/use sets over-approximate actual reads and writes (property theorems)

Objects: `du c s` = `(defines_symbols, uses_symbols)` the model of `DataflowAnalysisAttacher` attaches to the node of
statement `s` (`LokiModel/C26/Model.lean`, tied to the real attacher node by node on every check run);
`execT p f s σ` = result of the reference FIR interpreter together with the trace of variable reads and writes of that
run (`LokiModel/C26/Trace.lean`); `writes r x` = `x` is written in the trace, `readBeforeWrite r x` = `x` is read in the
trace before any complete definition of `x` in the trace.  All theorems hold for every program, context (enriched or
not), fuel, statement (list), state and variable; `covered…` restricts to statements without ASSOCIATE and CALL (not
instrumented by `execT`; they are handled by correspondence and the instrumented-execution oracle only).
-/
namespace LokiModel.C26
open LokiModel.Fir

/-- **defines_sound (partial)**: every variable written while a statement executes is in the node's `defines_symbols`,
except DO variables of loops at or inside the node (class `loop-variable-not-defined`; see `Findings.C26`).
What is missing for the full property: exactly that class. -/
theorem defines_sound_partial (p : Program) (c : Ctx) (f : Nat) (s : Stmt) (st : St) (x : String)
    (_hcov : coveredS s = true) (hw : writes (execT p f s st) x) (hk : KnownDefS x s = false) :
    x ∈ names (du c s).1 := by
  rcases (invA p c f).stmt s st x hw with h | h
  · exact h
  · exact absurd h (not_mem_of_contains_false hk)

/-- the same for a block (statement list; `bodyDU` is what `_visit_body` returns for it, e.g. the routine body) -/
theorem defines_sound_block_partial (p : Program) (c : Ctx) (f : Nat) (ss : List Stmt) (st : St) (x : String)
    (_hcov : coveredL ss = true) (hw : writes (execTs p f ss st) x) (hk : KnownDefL x ss = false) :
    x ∈ names (bodyDU c ss).1 := by
  rcases (invA p c f).stmts ss st x hw with h | h
  · exact h
  · exact absurd h (not_mem_of_contains_false hk)

/-- loop-free statements: `defines` is sound at full strength -/
theorem defines_sound_loopfree (p : Program) (c : Ctx) (f : Nat) (s : Stmt) (st : St) (x : String)
    (hcov : coveredS s = true) (hl : loopVarsS s = []) (hw : writes (execT p f s st) x) :
    x ∈ names (du c s).1 :=
  defines_sound_partial p c f s st x hcov hw (by simp [KnownDefS, hl])

/-- **must-definitions are real**: when a statement completes normally every variable in `mustS` (assignment to a
plain name, on every path through IF / SELECT CASE) has been completely defined.  This is the fact `_visit_body` would
need for every subtracted definition, and does not have. -/
theorem must_define_sound (p : Program) (f : Nat) (s : Stmt) (st st' : St) (x : String)
    (h : execStmt p f s st = .ok st' .normal) (hx : x ∈ mustS s) : fullB x (execT p f s st).2 = true :=
  (invC p f).stmt s st st' h x hx

/-- **uses_sound (partial)**: every variable read before being (completely) written while a statement executes is in the
node's `uses_symbols`, outside the decidable class `knownUS` (may-kill by a conditional / zero-trip / partial
definition, PRINT arguments, DO variable read by its own bounds).  Without the class the statement is false
(`Findings.C26.uses_full_false`). -/
theorem uses_sound_partial (p : Program) (c : Ctx) (f : Nat) (s : Stmt) (st : St) (x : String)
    (_hcov : coveredS s = true) (hr : readBeforeWrite (execT p f s st) x) (hk : knownUS c x s = false) :
    x ∈ names (du c s).2 :=
  (invB p c f).stmt s st x hr hk

theorem uses_sound_block_partial (p : Program) (c : Ctx) (f : Nat) (ss : List Stmt) (st : St) (x : String)
    (_hcov : coveredL ss = true) (hr : readBeforeWrite (execTs p f ss st) x) (hk : knownUL c x ss = false) :
    x ∈ names (bodyDU c ss).2 :=
  (invB p c f).stmts ss st x hr hk

/-- the formulation of the design: under `NoMayKill` the used set of a block over-approximates its reads -/
theorem uses_sound_NoMayKill (p : Program) (c : Ctx) (f : Nat) (ss : List Stmt) (st : St)
    (hcov : coveredL ss = true) (h : NoMayKill c ss) :
    ∀ x, readBeforeWrite (execTs p f ss st) x → x ∈ names (bodyDU c ss).2 :=
  fun x hr => uses_sound_block_partial p c f ss st x hcov hr (h x)

/-! ### non-vacuity -/

/-- `y = x; x = 1` : `x` is read before written, is outside the class, and is reported -/
example : knownUL ⟨⟨[], "k"⟩, false⟩ "x" [.assign (.var "y") (.var "x"), .assign (.var "x") (.lit (.int 1))] = false := by
  decide

example : rbwB "x" (assignEvts (.var "y") (.var "x") ++ assignEvts (.var "x") (.lit (.int 1))) = true := by decide

/-- `x = 0; y = x` : the definition is complete, nothing is in the class, `NoMayKill` holds for `x` and `y` -/
example : knownUL ⟨⟨[], "k"⟩, false⟩ "x" [.assign (.var "x") (.lit (.int 0)), .assign (.var "y") (.var "x")] = false := by
  decide

end LokiModel.C26
