import LokiModel.C12.Refine
import LokiModel.C12.DictRefine
import LokiModel.C12.Alias
/-!
# C12 — symbol tables behave as scoped, case-insensitive mappings (property theorems)

Concrete side: `step` / `run` (`LokiModel/C12/Model.lean`), the state machine of `SymbolTable`, `Scope` and
`SymbolAttributes` handles, and `dstep` / `drun` for `CaseInsensitiveDict` / `CaseInsensitiveDefaultDict`.
Abstract side: `specStep` / `specRun` and `dspecStep` / `dspecRun` (`LokiModel/C12/Spec.lean`): every scope is a mapping
`folded name → Option value`, look-up finds the innermost declaration, `del` / `pop` / `in` agree for any spelling.

The full statement `C12_full` (refinement for **all** histories) is false for the unchanged code
(`C12_full_false`, four-op witness).  `C12_partial` proves it for every history that stays outside the decidable
known-finding classes `KnownSt` (state) and, for outputs, additionally `setdefault` (`maskOuts`).
-/
namespace LokiModel.C12

/-- the initial state satisfies the invariant -/
theorem C12_inv_init : Inv St.init :=
  ⟨fun _ h => by simp [St.init] at h, fun i t h => by simp [St.init] at h⟩

/-- **one step, state**: outside the state-deviating classes the abstraction commutes with the step and the
invariant of reachable states is kept — for every state satisfying the invariant and every operation -/
theorem C12_step_state (s : St) (op : Op) (hi : Inv s) (hK : KnownSt s op = false) :
    abs (step s op).1 = (specStep (abs s) op).1 ∧ Inv (step s op).1 := by
  simp only [KnownSt, Bool.or_eq_false_iff] at hK
  obtain ⟨⟨h1, h2⟩, h3⟩ := hK
  cases op with
  | new c => exact ⟨(ref_new s c hi).st, (ref_new s c hi).inv⟩
  | mutate h c => exact ⟨(ref_mutate s h c hi).st, (ref_mutate s h c hi).inv⟩
  | newtab p => exact ⟨(ref_newtab s p hi).st, (ref_newtab s p hi).inv⟩
  | newscope p => exact ⟨(ref_newscope s p hi).st, (ref_newscope s p hi).inv⟩
  | set i k h => exact ⟨(ref_set s i k h hi).st, (ref_set s i k h hi).inv⟩
  | setdefault i k h => exact ref_setdefault s i k h hi
  | update i kvs => exact ⟨(ref_update s i kvs hi).st, (ref_update s i kvs hi).inv⟩
  | get i k => exact ⟨(ref_get s i k hi).st, (ref_get s i k hi).inv⟩
  | getitem i k => exact ⟨(ref_getitem s i k hi).st, (ref_getitem s i k hi).inv⟩
  | lookup i k r => exact ⟨(ref_lookup s i k r hi).st, (ref_lookup s i k r hi).inv⟩
  | contains i k => exact ⟨(ref_contains s i k hi).st, (ref_contains s i k hi).inv⟩
  | del i k => exact ⟨(ref_del s i k hi h1).st, (ref_del s i k hi h1).inv⟩
  | pop i k => exact ⟨(ref_pop s i k hi h1).st, (ref_pop s i k hi h1).inv⟩
  | popd i k => exact ⟨(ref_popd s i k hi h1).st, (ref_popd s i k hi h1).inv⟩
  | clone i pk => exact ⟨(ref_clone s i pk hi h2).st, (ref_clone s i pk hi h2).inv⟩
  | setparent i p => exact ⟨(ref_setparent s i p hi).st, (ref_setparent s i p hi).inv⟩
  | declare i k c f => exact ⟨(ref_declare s i k c f hi).st, (ref_declare s i k c f hi).inv⟩
  | supdate i k c f => exact ⟨(ref_supdate s i k c f hi).st, (ref_supdate s i k c f hi).inv⟩
  | gettype i k r f => exact ⟨(ref_gettype s i k r f hi).st, (ref_gettype s i k r f hi).inv⟩
  | symscope i k => exact ⟨(ref_symscope s i k hi).st, (ref_symscope s i k hi).inv⟩
  | reparent i p => exact ⟨(ref_reparent s i p hi h3).st, (ref_reparent s i p hi h3).inv⟩

/-- **one step, output**: outside the output-deviating classes the value returned by the real operation (value,
`None`, `KeyError`, `ValueError`, membership, declaring scope) is the one the specification mapping returns -/
theorem C12_step_out (s : St) (op : Op) (hi : Inv s) (hK : KnownOut s op = false) :
    (step s op).2 = (specStep (abs s) op).2 := by
  simp only [KnownOut, KnownSt, Bool.or_eq_false_iff] at hK
  obtain ⟨⟨⟨h1, h2⟩, h3⟩, h4⟩ := hK
  cases op with
  | new c => exact (ref_new s c hi).out
  | mutate h c => exact (ref_mutate s h c hi).out
  | newtab p => exact (ref_newtab s p hi).out
  | newscope p => exact (ref_newscope s p hi).out
  | set i k h => exact (ref_set s i k h hi).out
  | setdefault i k h => simp [KnownSetdefault] at h4
  | update i kvs => exact (ref_update s i kvs hi).out
  | get i k => exact (ref_get s i k hi).out
  | getitem i k => exact (ref_getitem s i k hi).out
  | lookup i k r => exact (ref_lookup s i k r hi).out
  | contains i k => exact (ref_contains s i k hi).out
  | del i k => exact (ref_del s i k hi h1).out
  | pop i k => exact (ref_pop s i k hi h1).out
  | popd i k => exact (ref_popd s i k hi h1).out
  | clone i pk => exact (ref_clone s i pk hi h2).out
  | setparent i p => exact (ref_setparent s i p hi).out
  | declare i k c f => exact (ref_declare s i k c f hi).out
  | supdate i k c f => exact (ref_supdate s i k c f hi).out
  | gettype i k r f => exact (ref_gettype s i k r f hi).out
  | symscope i k => exact (ref_symscope s i k hi).out
  | reparent i p => exact (ref_reparent s i p hi h3).out

/-- refinement lifted to histories, from any state satisfying the invariant -/
theorem C12_run_refines (ops : List Op) : ∀ (s : St), Inv s → KnownFree s ops = true →
    abs (run s ops).1 = (specRun (abs s) ops).1 ∧
    maskOuts ops (run s ops).2 = maskOuts ops (specRun (abs s) ops).2 ∧
    Inv (run s ops).1 := by
  induction ops with
  | nil => intro s hi _; exact ⟨rfl, rfl, hi⟩
  | cons op ops ih =>
    intro s hi hK
    simp only [KnownFree, Bool.and_eq_true, Bool.not_eq_true'] at hK
    obtain ⟨hst, hinv⟩ := C12_step_state s op hi hK.1
    obtain ⟨h1, h2, h3⟩ := ih (step s op).1 hinv hK.2
    simp only [run, specRun]
    rw [← hst]
    refine ⟨h1, ?_, h3⟩
    simp only [maskOuts]
    rw [h2]
    congr 1
    cases hsd : KnownSetdefault op with
    | true => rfl
    | false =>
      simp only [Bool.false_eq_true, if_false]
      exact C12_step_out s op hi (by simp [KnownOut, hK.1, hsd])

/-- the full statement of the property on the model: for every history from the empty state, every output equals the
output of the scoped case-insensitive mapping and the final state abstracts to the mapping's final state -/
def C12_full : Prop :=
  ∀ ops : List Op, (run St.init ops).2 = (specRun (abs St.init) ops).2 ∧
    abs (run St.init ops).1 = (specRun (abs St.init) ops).1

/-- witness: `t = SymbolTable(); t['abc'] = a; del t['ABC']` raises `KeyError` although `'ABC' in t` -/
def witnessDel : List Op :=
  [.newtab none, .new 1, .set 0 ['a', 'b', 'c'] 0, .contains 0 ['A', 'B', 'C'], .del 0 ['A', 'B', 'C']]

/-- the unchanged code violates the full statement -/
theorem C12_full_false : ¬ C12_full := by
  intro h
  have h1 := (h witnessDel).1
  revert h1
  decide

/-- **C12 (partial)**: every history from the empty state that stays outside the state-deviating known-finding classes
(`del`/`pop` with a spelling other than the stored key of a present entry; `clone()` under an empty parent table;
`_reset_parent(None)` on a scope whose table has a parent) refines the specification: same final abstract state, and the
same output for every operation except the return value of `setdefault` (class `symtab-setdefault-returns-none`).
Missing for the full statement: exactly those classes. -/
theorem C12_partial (ops : List Op) (hK : KnownFree St.init ops = true) :
    abs (run St.init ops).1 = (specRun (abs St.init) ops).1 ∧
    maskOuts ops (run St.init ops).2 = maskOuts ops (specRun (abs St.init) ops).2 :=
  let r := C12_run_refines ops St.init C12_inv_init hK
  ⟨r.1, r.2.1⟩

/-- membership, look-up and deletion agree for any spelling (consequence on the specification side, stated on the model):
in a reachable state, if `del t[k]` is outside the known class then it succeeds exactly when `k in t` -/
theorem C12_del_agrees_with_contains (s : St) (i : Nat) (k : Name) (hi : Inv s)
    (hK : KnownDelPop s (.del i k) = false) :
    ((step s (.del i k)).2 = .unit ↔ (step s (.contains i k)).2 = .bool true) := by
  have h1 := (ref_del s i k hi hK).out
  have h2 := (ref_contains s i k hi).out
  rw [h1, h2]
  simp only [specStep]
  cases (abs s).tabs[i]? with
  | none => simp
  | some t => cases hm : t.map (fold k) <;> simp [hm]

/-- the class `symtab-del-pop-spelling` is tight: inside it `del` really deviates (it raises `KeyError` where the mapping
deletes the entry) -/
theorem C12_known_del_deviates (s : St) (i : Nat) (k : Name) (hi : Inv s) (hK : KnownDelPop s (.del i k) = true) :
    (step s (.del i k)).2 = .keyError ∧ (specStep (abs s) (.del i k)).2 = .unit := by
  cases ht : s.tabs[i]? with
  | none => simp [KnownDelPop, ht] at hK
  | some t =>
    have hm := hi.1 t (List.mem_of_getElem? ht)
    simp only [KnownDelPop, ht, Bool.and_eq_true, bne_iff_ne, ne_eq] at hK
    have hraw : alookup k t.ents = none := by
      cases h : alookup k t.ents with
      | none => rfl
      | some v => exact absurd (hm.1.1 _ (alookup_mem h)).symm hK.1
    cases hl : alookup (fold k) t.ents with
    | none => simp [hl] at hK
    | some v => constructor <;> simp [step, specStep, ht, hraw, hl, dabs]

/-- in the by-value model `step`, mutating a handle (`attrs.tag = c`) never changes what any scope maps any name to
(true by construction of that model; the identity-level statement is `C12_copies_independent` below) -/
theorem C12_mutate_independent (s : St) (h c : Nat) : (abs (step s (.mutate h c)).1).tabs = (abs s).tabs := by
  simp only [step]; split <;> rfl

/-! ### object identity (second model, `LokiModel/C12/Alias.lean`: one table, heap of `SymbolAttributes` objects) -/

/-- after ANY history of `new / mutate / set / setdefault / get / pop / del` on a `SymbolTable`, no object is shared
between two entries or between the table and the caller (the copies made by `__setitem__`, `setdefault`, `lookup`
suffice, and `pop` handing out the stored object is harmless because the entry is removed) -/
theorem C12_no_sharing (ops : List Alias.HOp) : Alias.HInv (Alias.hrun ⟨[], [], []⟩ ops) := Alias.no_sharing ops

/-- **returned attributes are independent copies**: in every reachable state, mutating any object the caller holds
(an argument passed to `t[k] = …` earlier, or an object returned by `get` / `pop`) leaves the content of the table unchanged -/
theorem C12_copies_independent (ops : List Alias.HOp) (h c : Nat) :
    Alias.view (Alias.hstep (Alias.hrun ⟨[], [], []⟩ ops) (.mutate h c)) = Alias.view (Alias.hrun ⟨[], [], []⟩ ops) :=
  Alias.mutate_view _ (Alias.no_sharing ops) h c

/-- `t[k] = handle` stores the content the handle has at that moment, under the folded key, and touches nothing else -/
theorem C12_set_stores_copy (ops : List Alias.HOp) (k : Name) (h id : Nat)
    (hh : (Alias.hrun ⟨[], [], []⟩ ops).hs[h]? = some id) :
    alookup (fold k) (Alias.view (Alias.hstep (Alias.hrun ⟨[], [], []⟩ ops) (.set k h))) =
        some (Alias.content (Alias.hrun ⟨[], [], []⟩ ops) id) ∧
      ∀ n, n ≠ fold k → alookup n (Alias.view (Alias.hstep (Alias.hrun ⟨[], [], []⟩ ops) (.set k h))) =
        alookup n (Alias.view (Alias.hrun ⟨[], [], []⟩ ops)) :=
  Alias.set_view _ (Alias.no_sharing ops) k h id hh

/-- non-vacuity: a history in which a popped and a looked-up object are mutated -/
example : Alias.view (Alias.hrun ⟨[], [], []⟩
    [.new 5, .set ['A'] 0, .mutate 0 6, .get ['a'], .mutate 1 7, .set ['b'] 1, .pop ['a'], .mutate 2 8]) = [(['b'], 7)] := by decide

/-- key normalisation is idempotent (`format_lookup_name` applied to a stored key gives the stored key) -/
theorem C12_fold_idem (k : Name) : fold (fold k) = fold k := fold_idem k

/-! ## case-insensitive dictionaries -/

/-- one step of `CaseInsensitiveDict` / `CaseInsensitiveDefaultDict` refines the mapping keyed by the lower-cased key,
outside the known classes -/
theorem C12_dict_step (kind : DKind) (d : DSt) (op : DOp) (hi : DInv d) (hK : DKnown kind d op = false) :
    dabs (dstep kind d op).1 = (dspecStep kind (dabs d) op).1 ∧ (dstep kind d op).2 = (dspecStep kind (dabs d) op).2 ∧
    DInv (dstep kind d op).1 :=
  let r := dstep_refines kind d op hi hK
  ⟨r.st, r.out, r.inv⟩

theorem C12_dict_run (kind : DKind) (ops : List DOp) : ∀ (d : DSt), DInv d → DKnownFree kind d ops = true →
    dabs (drun kind d ops).1 = (dspecRun kind (dabs d) ops).1 ∧ (drun kind d ops).2 = (dspecRun kind (dabs d) ops).2 := by
  induction ops with
  | nil => intro d _ _; exact ⟨rfl, rfl⟩
  | cons op ops ih =>
    intro d hi hK
    simp only [DKnownFree, Bool.and_eq_true, Bool.not_eq_true'] at hK
    obtain ⟨hst, hout, hinv⟩ := C12_dict_step kind d op hi hK.1
    obtain ⟨h1, h2⟩ := ih (dstep kind d op).1 hinv hK.2
    simp only [drun, dspecRun]
    rw [← hst, hout, h2]
    exact ⟨h1, rfl⟩

def C12_dict_full (kind : DKind) : Prop :=
  ∀ ops : List DOp, (drun kind [] ops).2 = (dspecRun kind (dabs []) ops).2

/-- `d['Key'] = 1; d.pop('KEY', None)` returns `None` and leaves the entry -/
theorem C12_dict_full_false_ordered : ¬ C12_dict_full .ordered := by
  intro h
  have h1 := h [.set ['K', 'e', 'y'] 1, .popd ['K', 'E', 'Y']]
  revert h1
  decide

/-- `d['Key'] = 1; d.setdefault('KEY', 2)` returns 2 and stores a second, unreachable entry -/
theorem C12_dict_full_false_dflt : ¬ C12_dict_full .dflt := by
  intro h
  have h1 := h [.set ['K', 'e', 'y'] 1, .setdefault ['K', 'E', 'Y'] 2]
  revert h1
  decide

/-- **dictionaries (partial)**: every history from the empty dictionary outside the known classes refines the mapping -/
theorem C12_dict_partial (kind : DKind) (ops : List DOp) (hK : DKnownFree kind [] ops = true) :
    dabs (drun kind [] ops).1 = (dspecRun kind (dabs []) ops).1 ∧ (drun kind [] ops).2 = (dspecRun kind (dabs []) ops).2 :=
  C12_dict_run kind ops [] (fun _ h => by simp at h) hK

/-- `CaseInsensitiveDict` without `del`/`pop`: no hypothesis at all is needed (the ordered dictionary is a correct
case-insensitive mapping for `set, get, getitem, in, setdefault, update`) -/
theorem C12_dict_ordered_nodel (d : DSt) (op : DOp) (hi : DInv d)
    (hop : match op with | .del _ | .pop _ | .popd _ => False | _ => True) :
    dabs (dstep .ordered d op).1 = (dspecStep .ordered (dabs d) op).1 ∧
      (dstep .ordered d op).2 = (dspecStep .ordered (dabs d) op).2 := by
  have hK : DKnown .ordered d op = false := by
    cases op <;> simp [DKnown] at hop ⊢
  exact ⟨(C12_dict_step .ordered d op hi hK).1, (C12_dict_step .ordered d op hi hK).2.1⟩

/-! ## non-vacuity -/

/-- a history with mixed spellings, nested scopes, deletion by stored key, clone and re-parenting that satisfies the
hypothesis of `C12_partial` -/
example : KnownFree St.init
    [.newscope none, .newscope (some 0), .new 7, .set 0 ['A', 'b', 'c', '(', '1', ')'] 0, .lookup 1 ['a', 'B', 'C'] true,
     .mutate 1 9, .declare 1 ['x'] 3 true, .pop 0 ['a', 'b', 'c'], .clone 1 (.some 0), .newscope none, .reparent 1 (some 3),
     .setdefault 1 ['Y'] none, .symscope 1 ['y', '(', ')']] = true := by decide

example : (run St.init witnessDel).2 = [.unit, .unit, .unit, .bool true, .keyError] := by decide
example : (specRun (abs St.init) witnessDel).2 = [.unit, .unit, .unit, .bool true, .unit] := by decide
example : KnownFree St.init witnessDel = false := by decide
example : fold ['a', 'B', 'c', '(', '1', ')'] = ['a', 'b', 'c'] := by decide
example : DKnownFree .dflt [] [.set ['K'] 1, .getitem ['z'], .setdefault ['k'] 2, .pop ['k']] = true := by decide

end LokiModel.C12
