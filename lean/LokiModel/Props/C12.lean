import LokiModel.C12.Refine
import LokiModel.C12.DictRefine
import LokiModel.C12.Alias
/-!
# C12 — symbol tables behave as scoped, case-insensitive mappings (property theorems)

Concrete side: `step` / `run` (`LokiModel/C12/Model.lean`), the state machine of `SymbolTable`, `Scope` and
`SymbolAttributes` handles, and `dstep` / `drun` for `CaseInsensitiveDict` / `CaseInsensitiveDefaultDict`.
Abstract side: `specStep` / `specRun` and `dspecStep` / `dspecRun` (`LokiModel/C12/Spec.lean`): every scope is a mapping
`folded name → Option value`, look-up finds the innermost declaration, `del` / `pop` / `in` agree for any spelling.

Since the six `fix:` commits recorded in `known_findings.json` the full statement holds: `C12_full_holds` (every history
from the empty state refines the specification, every output included) and `C12_dict_full_holds`.  The behaviour before the
fixes is kept as regression statements in `LokiModel/Findings/C12.lean`.
-/
namespace LokiModel.C12

/-- the initial state satisfies the invariant -/
theorem C12_inv_init : Inv St.init :=
  ⟨fun _ h => by simp [St.init] at h, fun i t h => by simp [St.init] at h⟩

/-- **one step**: for every state satisfying the invariant and every one of the 23 operations, the abstraction commutes
with the step, the value returned by the real operation (value, `None`, `KeyError`, `ValueError`, membership, declaring
scope) is the one the specification mapping returns, and the invariant of reachable states is kept -/
theorem C12_step (s : St) (op : Op) (hi : Inv s) :
    abs (step s op).1 = (specStep (abs s) op).1 ∧ (step s op).2 = (specStep (abs s) op).2 ∧ Inv (step s op).1 := by
  have key : Ref s op := by
    cases op with
    | new c => exact ref_new s c hi
    | mutate h c => exact ref_mutate s h c hi
    | newtab p => exact ref_newtab s p hi
    | newscope p => exact ref_newscope s p hi
    | set i k h => exact ref_set s i k h hi
    | setdefault i k h => exact ref_setdefault s i k h hi
    | update i kvs => exact ref_update s i kvs hi
    | get i k => exact ref_get s i k hi
    | getd i k d => exact ref_getd s i k d hi
    | getitem i k => exact ref_getitem s i k hi
    | lookup i k r => exact ref_lookup s i k r hi
    | contains i k => exact ref_contains s i k hi
    | del i k => exact ref_del s i k hi
    | pop i k => exact ref_pop s i k hi
    | popd i k => exact ref_popd s i k hi
    | popdv i k d => exact ref_popdv s i k d hi
    | clone i pk => exact ref_clone s i pk hi
    | setparent i p => exact ref_setparent s i p hi
    | declare i k c f => exact ref_declare s i k c f hi
    | supdate i k c f => exact ref_supdate s i k c f hi
    | gettype i k r f => exact ref_gettype s i k r f hi
    | symscope i k => exact ref_symscope s i k hi
    | reparent i p => exact ref_reparent s i p hi
  exact ⟨key.st, key.out, key.inv⟩

/-- refinement lifted to histories, from any state satisfying the invariant -/
theorem C12_run_refines (ops : List Op) : ∀ (s : St), Inv s →
    abs (run s ops).1 = (specRun (abs s) ops).1 ∧ (run s ops).2 = (specRun (abs s) ops).2 ∧ Inv (run s ops).1 := by
  induction ops with
  | nil => intro s hi; exact ⟨rfl, rfl, hi⟩
  | cons op ops ih =>
    intro s hi
    obtain ⟨hst, hout, hinv⟩ := C12_step s op hi
    obtain ⟨h1, h2, h3⟩ := ih (step s op).1 hinv
    simp only [run, specRun]
    rw [← hst, hout, h2]
    exact ⟨h1, rfl, h3⟩

/-- the full statement of the property on the model: for every history from the empty state, every output equals the
output of the scoped case-insensitive mapping and the final state abstracts to the mapping's final state -/
def C12_full : Prop :=
  ∀ ops : List Op, (run St.init ops).2 = (specRun (abs St.init) ops).2 ∧
    abs (run St.init ops).1 = (specRun (abs St.init) ops).1

/-- **C12 (full strength)**: every history of operations on nested symbol tables / scopes, with any spellings, behaves as
the scoped mapping keyed by the case-folded name (no hypothesis; before the `fix:` commits this was false, see
`Findings/C12.lean`) -/
theorem C12_full_holds : C12_full := fun ops =>
  let r := C12_run_refines ops St.init C12_inv_init
  ⟨r.2.1, r.1⟩

/-- membership and deletion agree for any spelling: in a reachable state `del t[k]` succeeds exactly when `k in t` -/
theorem C12_del_agrees_with_contains (s : St) (i : Nat) (k : Name) (hi : Inv s) :
    ((step s (.del i k)).2 = .unit ↔ (step s (.contains i k)).2 = .bool true) := by
  have h1 := (ref_del s i k hi).out
  have h2 := (ref_contains s i k hi).out
  rw [h1, h2]
  simp only [specStep]
  cases (abs s).tabs[i]? with
  | none => simp
  | some t => cases hm : t.map (fold k) <;> simp [hm]

/-- an explicit default is returned ONLY when the name is not declared: if `k in t` (any spelling) then `t.get(k, d)` and
`t.pop(k, d)` return the stored value, never `d` -/
theorem C12_default_only_when_absent (s : St) (i : Nat) (k : Name) (d : Nat) (hi : Inv s)
    (hin : (step s (.contains i k)).2 = .bool true) :
    (step s (.getd i k d)).2 ≠ .dflt d ∧ (step s (.popdv i k d)).2 ≠ .dflt d ∧
    (step s (.getd i k d)).2 = (step s (.getitem i k)).2 ∧ (step s (.popdv i k d)).2 = (step s (.pop i k)).2 := by
  rw [(ref_contains s i k hi).out] at hin
  rw [(ref_getd s i k d hi).out, (ref_popdv s i k d hi).out, (ref_getitem s i k hi).out, (ref_pop s i k hi).out]
  simp only [specStep, abs_get] at hin ⊢
  cases ht : s.tabs[i]? with
  | none => simp [ht] at hin
  | some t =>
    simp only [ht, Option.map_some] at hin ⊢
    cases hm : (absTab t).map (fold k) with
    | none => simp [hm] at hin
    | some v => simp [aRet]

/-- the same for both dictionaries, falsy values included: `d.get(k, dv)` / `d.pop(k, dv)` return `dv` only if `k not in d` -/
theorem C12_dict_default_only_when_absent (kind : DKind) (d : DSt) (k : Name) (dv v : Nat)
    (hin : alookup (lower k) d = some v) :
    (dstep kind d (.getd k dv)).2 = .val v ∧ (dstep kind d (.popdv k dv)).2 = .val v ∧ (dstep kind d (.get k)).2 = .val v := by
  simp [dstep, hin]

/-- only the folded name matters: two spellings of the same name are interchangeable in every keyed operation -/
theorem C12_spelling_irrelevant (s : St) (i : Nat) (k k' : Name) (h : fold k = fold k') :
    step s (.get i k) = step s (.get i k') ∧ step s (.getitem i k) = step s (.getitem i k') ∧
    step s (.contains i k) = step s (.contains i k') ∧ step s (.del i k) = step s (.del i k') ∧
    step s (.pop i k) = step s (.pop i k') ∧ step s (.popd i k) = step s (.popd i k') ∧
    (∀ d, step s (.getd i k d) = step s (.getd i k' d)) ∧ (∀ d, step s (.popdv i k d) = step s (.popdv i k' d)) ∧
    (∀ r, step s (.lookup i k r) = step s (.lookup i k' r)) ∧ (∀ hd, step s (.set i k hd) = step s (.set i k' hd)) := by
  simp only [step, lookup, h]
  exact ⟨trivial, trivial, trivial, trivial, trivial, trivial, fun _ => trivial, fun _ => trivial, fun _ => trivial, fun _ => trivial⟩

/-- in the by-value model `step`, mutating a handle (`attrs.tag = c`) never changes what any scope maps any name to
(true by construction of that model; the identity-level statement is `C12_copies_independent` below) -/
theorem C12_mutate_independent (s : St) (h c : Nat) : (abs (step s (.mutate h c)).1).tabs = (abs s).tabs := by
  simp only [step]; split <;> rfl

/-! ### object identity (second model, `LokiModel/C12/Alias.lean`: one table, heap of `SymbolAttributes` objects) -/

/-- after ANY history of `new / mutate / set / setdefault / get / pop / del` on a `SymbolTable`, no object is shared
between two entries or between the table and the caller (the copies made by `__setitem__`, `setdefault`, `lookup`
suffice, and `pop` handing out the stored object is harmless because the entry is removed) -/
theorem C12_no_sharing (ops : List Alias.HOp) : Alias.HInv (Alias.hrun ⟨[], [], []⟩ ops) := Alias.no_sharing ops

/-- **returned attributes are independent copies**: in every reachable state, mutating any object the caller holds
(an argument passed to `t[k] = …` earlier, or an object returned by `get` / `pop`) leaves the content of the table unchanged -/
theorem C12_copies_independent (ops : List Alias.HOp) (h c : Nat) :
    Alias.view (Alias.hstep (Alias.hrun ⟨[], [], []⟩ ops) (.mutate h c)) = Alias.view (Alias.hrun ⟨[], [], []⟩ ops) :=
  Alias.mutate_view _ (Alias.no_sharing ops) h c

/-- `t[k] = handle` stores the content the handle has at that moment, under the folded key, and touches nothing else -/
theorem C12_set_stores_copy (ops : List Alias.HOp) (k : Name) (h id : Nat)
    (hh : (Alias.hrun ⟨[], [], []⟩ ops).hs[h]? = some id) :
    alookup (fold k) (Alias.view (Alias.hstep (Alias.hrun ⟨[], [], []⟩ ops) (.set k h))) =
        some (Alias.content (Alias.hrun ⟨[], [], []⟩ ops) id) ∧
      ∀ n, n ≠ fold k → alookup n (Alias.view (Alias.hstep (Alias.hrun ⟨[], [], []⟩ ops) (.set k h))) =
        alookup n (Alias.view (Alias.hrun ⟨[], [], []⟩ ops)) :=
  Alias.set_view _ (Alias.no_sharing ops) k h id hh

/-- non-vacuity: a history in which a popped and a looked-up object are mutated -/
example : Alias.view (Alias.hrun ⟨[], [], []⟩
    [.new 5, .set ['A'] 0, .mutate 0 6, .get ['a'], .mutate 1 7, .set ['b'] 1, .pop ['a'], .mutate 2 8]) = [(['b'], 7)] := by decide

/-- key normalisation is idempotent (`format_lookup_name` applied to a stored key gives the stored key) -/
theorem C12_fold_idem (k : Name) : fold (fold k) = fold k := fold_idem k

/-! ## case-insensitive dictionaries -/

/-- one step of `CaseInsensitiveDict` / `CaseInsensitiveDefaultDict` refines the mapping keyed by the lower-cased key:
every state, every operation, no hypothesis -/
theorem C12_dict_step (kind : DKind) (d : DSt) (op : DOp) :
    dabs (dstep kind d op).1 = (dspecStep kind (dabs d) op).1 ∧ (dstep kind d op).2 = (dspecStep kind (dabs d) op).2 :=
  let r := dstep_refines kind d op
  ⟨r.st, r.out⟩

theorem C12_dict_run (kind : DKind) (ops : List DOp) : ∀ (d : DSt),
    dabs (drun kind d ops).1 = (dspecRun kind (dabs d) ops).1 ∧ (drun kind d ops).2 = (dspecRun kind (dabs d) ops).2 := by
  induction ops with
  | nil => intro d; exact ⟨rfl, rfl⟩
  | cons op ops ih =>
    intro d
    obtain ⟨hst, hout⟩ := C12_dict_step kind d op
    obtain ⟨h1, h2⟩ := ih (dstep kind d op).1
    simp only [drun, dspecRun]
    rw [← hst, hout, h2]
    exact ⟨h1, rfl⟩

def C12_dict_full (kind : DKind) : Prop :=
  ∀ ops : List DOp, (drun kind [] ops).2 = (dspecRun kind (dabs []) ops).2 ∧
    dabs (drun kind [] ops).1 = (dspecRun kind (dabs []) ops).1

/-- **dictionaries (full strength)**: every history on either dictionary behaves as the mapping keyed by the lower-cased key -/
theorem C12_dict_full_holds (kind : DKind) : C12_dict_full kind := fun ops =>
  let r := C12_dict_run kind ops []
  ⟨r.2, r.1⟩

/-! ## non-vacuity -/

/-- the former witness of the del/pop defect now behaves like the mapping -/
def witnessDel : List Op :=
  [.newtab none, .new 1, .set 0 ['a', 'b', 'c'] 0, .contains 0 ['A', 'B', 'C'], .del 0 ['A', 'B', 'C'], .contains 0 ['a', 'b', 'c']]

example : (run St.init witnessDel).2 = [.unit, .unit, .unit, .bool true, .unit, .bool false] := by decide

example : (run St.init
    [.newscope none, .newscope (some 0), .new 7, .set 0 ['A', 'b', 'c', '(', '1', ')'] 0, .lookup 1 ['a', 'B', 'C'] true,
     .mutate 1 9, .declare 1 ['x'] 3 true, .pop 0 ['A', 'B', 'C'], .clone 1 .inherit, .reparent 1 none,
     .setdefault 1 ['Y'] none, .symscope 1 ['y', '(', ')'], .lookup 1 ['a', 'b', 'c'] true]).2 =
    [.unit, .unit, .unit, .unit, .val 7, .unit, .unit, .val 7, .unit, .unit, .val 0, .scope 1, .none] := by decide

example : fold ['a', 'B', 'c', '(', '1', ')'] = ['a', 'b', 'c'] := by decide
example : (drun .dflt [] [.set ['K'] 1, .getitem ['z'], .setdefault ['k'] 2, .pop ['K'], .contains ['k']]).2 =
    [.unit, .val 0, .val 1, .val 1, .bool false] := by decide
/-- a stored falsy value (`0`) is returned by `get` with an explicit default; the default only for the absent key -/
example : (drun .ordered [] [.set ['M', 'a', 'x'] 0, .getd ['M', 'A', 'X'] 5, .getd ['m', 'i', 'n'] 5, .popdv ['m', 'a', 'x'] 7]).2 =
    [.unit, .val 0, .val 5, .val 0] := by decide

end LokiModel.C12
