import LokiModel.C33.Call
/-!
# C33 — region outlining preserves behaviour: property theorems

Setting: `P` any FIR program, `u` the outlined unit with `findUnit P g = some u` (body = the region `R`, dummies `A`), the region
replaced by `callSub g (A.map var)`.  `V` = a set of names containing every variable that occurs in the region (PRINT arguments
included); `Ok V R` = the region is in the covered class (no ASSOCIATE, no CALL: the latter is the known-finding class
`outline-call-in-region`) and mentions only names in `V`.  `Agree V a b` = no active associations, same printed output, same
cell (type, bounds, values, definedness) for every name in `V`.
-/
namespace LokiModel.C33
open LokiModel.Fir

/-- **Coincidence**: a region body of the covered class runs identically (same signal / same error / same fuel exhaustion,
same printed output, same final cells of its variables) from any two states that agree on its variables — in particular from
the caller's state and from the entry state of the outlined routine, for every fuel.  Unbounded: all programs, regions, states. -/
theorem region_coincidence (P : Program) (V : String → Prop) (f : Nat) (R : List Stmt) (a b : St)
    (hR : Ok V R) (hab : Agree V a b) : RAgree V (execStmts P f R a) (execStmts P f R b) :=
  (sim P V f).stmts R a b hR hab

/-- **Outlining is sound (partial)**: if the region `R` terminates normally from the caller's state `σ` with result `σ'`, then
the CALL to the outlined unit (copy-in/copy-out semantics of `Sem.lean`), started from the same `σ`, runs the unit's body to a
callee state `cs'` that agrees with `σ'` on every variable of the region and on the printed output, and the CALL's result is
exactly the copy-out of that `cs'` into `σ` (`copyOut`, the interpreter's own copy-out loop: every dummy that is not
INTENT(IN) is written back to its actual argument).

Hypotheses: `hent`/`hagree` — the interpreter's entry state of the callee (`entryState` = the text of `Sem.lean`,
`call_unfold`) agrees with the caller on the region's variables.  This is where the real code can fail and what the
known-finding classes decide: it fails when a variable read by the region is not passed (`outline-print-var`), when an
array's shape symbol is not a scalar dummy (`outline-shape-symbol`: `entryState` is `none`), and for the caller's old value of
a variable kept local (DO variables).  `_partial` because two steps are not carried out in Lean: deriving `hagree` from a
typing invariant of `σ` (cells conform to the declarations) plus "every region variable that is live at entry is a dummy", and
the lemma that `copyOut` makes the caller's final state agree with `σ'` on the INOUT/OUT dummies (then the final states differ
exactly on the variables the region writes but that are locals or INTENT(IN) dummies of the new unit: classes
`outline-local-live`, `outline-loopvar-intent-in`).  Under `Sem.lean` (and by-reference compilers) OUT and INOUT dummies behave
alike, so the hazard "only conditionally written ⇒ must be INOUT" is not forced by this semantics; it is class
`outline-out-maybe-undefined`, checked by the strict interpreter of the harness and witnessed in `Findings/C33.lean`. -/
theorem outline_sound_partial (P : Program) (V : String → Prop) (g : String) (u : Fir.Unit) (f : Nat) (σ σ' cs : St)
    (hu : findUnit P g = some u) (hR : Ok V u.body)
    (hent : entryState u (u.args.map Ex.var) σ = some cs) (hagree : Agree V σ cs)
    (hrun : execStmts P f u.body σ = .ok σ' .normal) :
    ∃ cs', execStmts P f u.body cs = .ok cs' .normal ∧ Agree V σ' cs' ∧
      execStmt P (f + 1) (.callSub g (u.args.map Ex.var)) σ =
        (match copyOut u (u.args.map Ex.var) σ cs' with
         | some st' => .ok st' .normal
         | none => .err "copy out") := by
  have h1 := region_coincidence P V f u.body σ cs hR hagree
  rw [hrun] at h1
  cases hb : execStmts P f u.body cs with
  | fuel => rw [hb] at h1; exact absurd h1 (by simp [RAgree])
  | err m => rw [hb] at h1; exact absurd h1 (by simp [RAgree])
  | ok cs' sg =>
    rw [hb] at h1
    obtain ⟨hs, hag⟩ := h1
    subst hs
    refine ⟨cs', rfl, hag, ?_⟩
    rw [call_unfold P f g (u.args.map Ex.var) (u.args.map Ex.var) u σ cs hu (by simp) (freeze_vars σ u.args) hent, hb]
    rfl

/-- errors and fuel exhaustion of the region are reproduced by the CALL as well (same hypotheses) -/
theorem outline_failure_preserved (P : Program) (V : String → Prop) (g : String) (u : Fir.Unit) (f : Nat) (σ cs : St)
    (hu : findUnit P g = some u) (hR : Ok V u.body)
    (hent : entryState u (u.args.map Ex.var) σ = some cs) (hagree : Agree V σ cs) (m : String)
    (hrun : execStmts P f u.body σ = .err m) :
    execStmt P (f + 1) (.callSub g (u.args.map Ex.var)) σ = .err m := by
  have h1 := region_coincidence P V f u.body σ cs hR hagree
  rw [hrun] at h1
  cases hb : execStmts P f u.body cs with
  | fuel => rw [hb] at h1; exact absurd h1 (by simp [RAgree])
  | ok cs' sg => rw [hb] at h1; exact absurd h1 (by simp [RAgree])
  | err m' =>
    rw [hb] at h1
    have : m = m' := h1
    subst this
    rw [call_unfold P f g (u.args.map Ex.var) (u.args.map Ex.var) u σ cs hu (by simp) (freeze_vars σ u.args) hent, hb]
    rfl

/-! non-vacuity: a region `x = k; a(2) = x` outlined as `f(a, k, x)`; the hypotheses hold for a concrete caller state -/
section Example
open LokiModel.Expr (Val)

def exBody : List Stmt :=
  [.assign (.var "x") (.var "k"), .assign (.idx "a" [.lit (.int 2)]) (.var "x")]
def exUnit : Fir.Unit :=
  { name := "f", args := ["a", "k", "x"],
    decls := [{ name := "a", ty := .int, dims := [(.lit (.int 1), .lit (.int 2))], intent := .out },
              { name := "k", ty := .int, dims := [], intent := .in_ },
              { name := "x", ty := .int, dims := [], intent := .out }],
    body := exBody }
def exV : String → Prop := fun x => x = "a" ∨ x = "k" ∨ x = "x"

example : Ok exV exBody := by
  simp [Ok, OkS, okE, okEs, exBody, exV]

/-- the model produces exactly this unit for the region (intents, order, declarations) -/
example : (outlineRegion
    [{ name := "k", ty := .int, dims := [] }, { name := "a", ty := .int, dims := [(.lit (.int 1), .lit (.int 2))] },
     { name := "x", ty := .int, dims := [] }] "f" { name := none, pin := [], pinout := [], pout := [] } exBody).unit.args
    = ["a", "k", "x"] := by decide

end Example

end LokiModel.C33
