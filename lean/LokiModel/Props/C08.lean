import LokiModel.C08.Model
namespace LokiModel.C08
end LokiModel.C08
