import LokiModel.C08.Main
import LokiModel.C08.Flat
import LokiModel.C08.Bridge
import LokiModel.C08.Beq
/-!
# C08 — symbolic simplification preserves expression values

Model: `simp k fl fuel t` (`LokiModel/C08/Model.lean`) mirrors `SimplifyMapper` and its helpers function by function
(checked against the real `simplify` on every run, tree for tree).  `k : K` carries the string-dependent Python
operations (the re-entry test `new_expr != expr`, dict-key equality, `sorted(key=str)`) and the switch `strict`;
with `strict = true` the model stops (`none`) at the steps that are wrong for integers (quotient distribution in
`distribute_product` / `distribute_quotient`, the family of the open finding) and is otherwise the same function (the driver checks on every input that both agree whenever
the strict one answers).  Values: `evalS env (den t)` of the shared expression layer (truncating integer division).

The full statement is false of the code (`C08_full`, refuted in `LokiModel/Findings/C08.lean`).  Proved here:
for **every** re-entry test, every fuel, the 8 flag sets without `CollectCoefficients` and
`FloatingPointArithmetic` (all subsets of Flatten, IntegerArithmetic, LogicEvaluation), every tree of unbounded size
without real literals whose n-ary nodes have ≥ 2 operands, and every valuation without real-valued variables: if the
tree has a value, the simplified tree has the same value.
-/
namespace LokiModel.C08
open LokiModel.Expr LokiModel.C06

/-- the full statement of C08 for the code as it is (`strict = false`), modelled flag sets: false, see Findings -/
def C08_full : Prop :=
  ∀ (k : K), k.strict = false → ∀ (fl : Flags) (fuel : Nat) (t t' : E), simp k fl fuel t = some t' →
    ∀ (env : Env) (v : Val), evalS env (den t) = some v → evalS env (den t') = some v

/-- transfer from the integer reading to the shared reference semantics -/
theorem transfer {env : Env} (hI : IntEnv env) {t t' : E} (hr : noRlit t = true) (hw : wf2 t = true)
    (h : Ref (envOf env) t t') {v : Val} (hv : evalS env (den t) = some v) : evalS env (den t') = some v := by
  rcases fwd_all env hI t hr hw v hv with ⟨i, rfl, hi⟩ | ⟨b, rfl, hb⟩
  · exact (back_all env t').1 i (h.1 i hi)
  · exact (back_all env t').2 b (h.2 b hb)

/-- **C08, partial** (the 8 flag sets without `CollectCoefficients` and `FloatingPointArithmetic`; integer trees):
whatever the re-entry test and the fuel, if the strict model returns `t'` then `t'` has the value of `t` under every
valuation without real-valued variables under which `t` has a value.  Covers `flatten_expr` / `distribute_product`
(distribution of products over sums, elimination of `-1` pairs, dropped zero terms) and the sign normalisation of
`distribute_quotient`, `sum_literals`, `separate_coefficients`, `mul_literals`, `div_literals` (gcd reduction, sign
normalisation under truncating division), `map_power`, `map_comparison`, `map_logical_and/or/not`, the re-entry,
unbounded trees.  Strict mode excludes exactly the distribution of integer quotients (open finding).  Missing for the
full statement: `CollectCoefficients`, `FloatingPointArithmetic`, real-typed operands. -/
theorem C08_partial (k : K) (hk : k.strict = true) (fl : Flags) (hc : fl.collect = false)
    (fuel : Nat) (t t' : E) (h : simp k fl fuel t = some t')
    (env : Env) (hI : IntEnv env) (hr : noRlit t = true) (hw : wf2 t = true)
    (v : Val) (hv : evalS env (den t) = some v) : evalS env (den t') = some v :=
  transfer hI hr hw (simp_sound k hk fl hc (fun _ => flattenExpr_sound) fuel t t' h (envOf env)) hv

/-! ### the helper functions, one statement each (integer reading, every valuation, every fuel) -/

theorem C08_sum_literals_sound (ρ : IEnv) (f : Nat) (e e' : E) (h : sumLiterals f e = some e') : RefA ρ e e' :=
  sumLiterals_sound f e e' h
theorem C08_mul_literals_sound (ρ : IEnv) (f : Nat) (e e' : E) (h : mulLiterals f e = some e') : RefA ρ e e' :=
  mulLiterals_sound f e e' h
theorem C08_div_literals_sound (ρ : IEnv) (f : Nat) (e e' : E) (h : divLiterals f e = some e') : RefA ρ e e' :=
  divLiterals_sound f e e' h
theorem C08_flatten_expr_sound (ρ : IEnv) (f : Nat) (e e' : E) (h : flattenExpr true f e = some e') : RefA ρ e e' :=
  flattenExpr_sound ρ f e e' h
theorem C08_distribute_product_sound (ρ : IEnv) (f : Nat) (e e' : E) (h : distributeProduct true f e = some e') :
    RefA ρ e e' := distributeProduct_sound f e e' h
theorem C08_separate_coefficients_sound (ρ : IEnv) (f : Nat) (e : E) (r : Int × List E)
    (h : sepCoeff f e = some r) (a : Int) (ha : aval ρ e = some a) :
    ∃ b, aprod ρ r.2 = some b ∧ a = r.1 * b :=
  sepCoeff_sound f e r h a ha
/-- `get_constant_value` (the model of the recursion over minus prefixes, any nesting depth): the constant read off an
operand of a comparison is the value of the operand -/
theorem C08_constant_value_sound (ρ : IEnv) (f : Nat) (e : E) (x a : Int) (h : getConstantValue f e = some x)
    (ha : aval ρ e = some a) : a = x :=
  getConstantValue_sound f e x a h ha

/-- `c` under `n` nested minus prefixes `Product((-1, …))` -/
def negN : Nat → E → E
  | 0, e => e
  | n + 1, e => .prod false [.pyint (-1), negN n e]

/-- explicitly, for every nesting depth: `is_constant` accepts the operand and `get_constant_value` reads `(-1)^n * c` -/
theorem C08_constant_value_nested (n : Nat) (c : Int) : ∀ f, n < f →
    isConstant f (negN n (.ilit c)) = some true ∧ getConstantValue f (negN n (.ilit c)) = some ((-1) ^ n * c) := by
  induction n with
  | zero =>
    intro f hf
    obtain ⟨g, rfl⟩ : ∃ g, f = g + 1 := ⟨f - 1, by omega⟩
    simp [negN, isConstant, getConstantValue, isMinusPrefix]
  | succ n ih =>
    intro f hf
    obtain ⟨g, rfl⟩ : ∃ g, f = g + 1 := ⟨f - 1, by omega⟩
    obtain ⟨h1, h2⟩ := ih g (by omega)
    have hm : isMinusPrefix (negN (n + 1) (.ilit c)) = true := by simp [negN, isMinusPrefix, isPyMinusOne]
    have hs : stripMinus (negN (n + 1) (.ilit c)) = negN n (.ilit c) := by simp [negN, stripMinus, stripTail]
    refine ⟨by unfold isConstant; simp only [hm, if_true, hs]; exact h1, ?_⟩
    unfold getConstantValue; simp only [hm, if_true, hs, h2, Option.map_some]
    congr 1
    rw [Int.pow_succ, Int.mul_assoc, Int.mul_comm ((-1) ^ n) (-1 * c), Int.mul_assoc, Int.mul_comm c]

/-- the integer reading is the reference semantics of the shared layer -/
theorem C08_reading_back (env : Env) (t : E) : Back env t := back_all env t
theorem C08_reading_fwd (env : Env) (hI : IntEnv env) (t : E) : Fwd env t := fwd_all env hI t

/-! ### non-vacuity: the strict model answers on non-trivial trees -/

/-- `(6*a) / 4 + (2 - 5)` with IntegerArithmetic → `-3 + 3*a / 2` -/
example : (simp (kEq true) ⟨false, true, false, false⟩ 12
    (.sum false [.quot false (.prod false [.ilit 6, .var "a"]) (.ilit 4),
                 .sum false [.ilit 2, .prod false [.pyint (-1), .ilit 5]]])).map
    (beqE · (.sum false [.ilit (-3), .quot false (.prod false [.ilit 3, .var "a"]) (.ilit 2)])) = some true := by decide

/-- `(-a) / (-b) < 2**3 .and. .true.` with IntegerArithmetic | LogicEvaluation → `a / b < 8` -/
example : (simp (kEq true) ⟨false, true, false, true⟩ 12
    (.land [.cmp .lt (.quot false (.prod false [.pyint (-1), .var "a"]) (.prod false [.pyint (-1), .var "b"]))
                     (.pow false (.ilit 2) (.ilit 3)), .blit true])).map
    (beqE · (.land [.cmp .lt (.quot false (.var "a") (.var "b")) (.ilit 8)])) = some true := by decide

/-- `a * (b - c) * (n + 1)` with Flatten | IntegerArithmetic: the strict model answers (a sum of four products) -/
example : (simp (kEq true) ⟨true, true, false, false⟩ 20
    (.prod false [.var "a", .sum false [.var "b", .prod false [.pyint (-1), .var "c"]],
                  .sum false [.var "n", .ilit 1]])).isSome = true := by decide

/-- the hypotheses on the tree and the valuation are satisfiable together with a defined value -/
example : noRlit (.quot false (.prod false [.ilit 6, .var "a"]) (.ilit 4)) = true ∧
    wf2 (.quot false (.prod false [.ilit 6, .var "a"]) (.ilit 4)) = true := by decide
example : IntEnv ⟨fun _ => some (.int 3), fun _ => 0⟩ := by intro x q h; cases h

/-- regression (fixed finding `separate-coefficients-drops-factors`): all operands of a minus-prefixed factor are kept -/
example : (sepCoeff 6 (.prod false [.var "b", .prod false [.pyint (-1), .var "c", .var "n"]])).map
    (fun r => (r.1, beqEs r.2 [.var "b", .prod false [.var "c", .var "n"]])) = some (-1, true) := by decide

end LokiModel.C08
