import LokiModel.C13.Lemmas
import LokiModel.Generated.C13Tables
/-!
# C13 — symbols are classified by their declared type and share it by scope (property theorems)

* classification: `C13_classify_spec` (the tier chain equals the decision table `Guard`, for every input),
  `C13_guards_exhaustive_exclusive`, the five rows spelled out (`C13_classify_proc` …), `C13_create_class`
  (every symbol the factory returns has the class of the table applied to the type it resolved);
  against the table of the property statement (`refClass`, subscripts *given* = non-empty) the code differs
  exactly on `KnownEmptyDims`: `C13_class_full_false`, `C13_class_partial` (a repair that popped `dimensions=()` like
  `None` was reverted: it broke stable tests of the CUF transformation, see notes/C13.md).
* sharing: `C13_type_shared_partial` (all states, hence all histories: after `scope[name] = τ` every symbol of that
  name attached to a scope resolving the name to that scope reports `τ`, unless `τ` is DEFERRED *and* the
  symbol is a derived-type member, class `KnownDeferredMember`, `C13_type_shared_full_false`),
  `C13_unattached_stable`, `C13_create_reports`, `C13_create_inherits_and_pins`, `C13_no_recursion` (no evaluation
  ends in the former `RecursionError`, full strength since the `fix:` commit for `deferred-member-recursion`).
* rescoping: `C13_rescope_keeps_existing`, `C13_rescope_inserts_missing`.
-/
namespace LokiModel.C13

/-! ## A. classification -/

/-- the decision table of `Variable.__new__`, one row per class, each row carrying the negation of the rows above it -/
def Guard : SymClass → Option Ty → Name → Option Nat → Prop
  | .procedureSymbol, ty, _, _ => isProc ty = true
  | .derivedTypeSymbol, ty, n, _ => isProc ty = false ∧ isDerivedNamed ty n = true
  | .array, ty, n, d => isProc ty = false ∧ isDerivedNamed ty n = false ∧ (d.isSome = true ∨ shapeTruthy ty = true)
  | .scalar, ty, n, d =>
      isProc ty = false ∧ isDerivedNamed ty n = false ∧ d = none ∧ shapeTruthy ty = false ∧ cleanOpt ty = true
  | .deferredTypeSymbol, ty, n, d =>
      isProc ty = false ∧ isDerivedNamed ty n = false ∧ d = none ∧ shapeTruthy ty = false ∧ cleanOpt ty = false

/-- **decision table**: for every declared type (or none), name and subscripts, the class chosen by the tier
chain is `c` iff row `c` of the table holds -/
theorem C13_classify_spec (ty : Option Ty) (n : Name) (d : Option Nat) (c : SymClass) :
    classify ty n d = c ↔ Guard c ty n d := by
  unfold classify
  cases h1 : isProc ty <;> cases h2 : isDerivedNamed ty n <;> cases h3 : shapeTruthy ty <;>
    cases h4 : cleanOpt ty <;> cases d <;> cases c <;> simp [Guard, h1, h2, h3, h4]

/-- the rows are exhaustive and mutually exclusive for every input -/
theorem C13_guards_exhaustive_exclusive (ty : Option Ty) (n : Name) (d : Option Nat) :
    ∃ c, Guard c ty n d ∧ ∀ c', Guard c' ty n d → c' = c :=
  ⟨classify ty n d, (C13_classify_spec ty n d _).1 rfl, fun c' h => ((C13_classify_spec ty n d c').2 h).symm⟩

/-- row 1: a procedure type makes a `ProcedureSymbol`, whatever the name, shape or subscripts -/
theorem C13_classify_proc (t : Ty) (p n : Name) (d : Option Nat) (h : t.dtype = .proc p) :
    classify (some t) n d = .procedureSymbol := by
  obtain ⟨dt, sh, tg⟩ := t
  simp only at h
  subst h
  simp [classify, isProc]

/-- row 2: a derived type whose name equals the symbol's name (case-insensitively) makes a `DerivedTypeSymbol` -/
theorem C13_classify_derived_name (t : Ty) (dn n : Name) (i : Option Nat) (d : Option Nat)
    (h : t.dtype = .derived dn i) (hn : lower n = lower dn) : classify (some t) n d = .derivedTypeSymbol := by
  obtain ⟨dt, sh, tg⟩ := t
  simp only at h
  subst h
  simp [classify, isProc, isDerivedNamed, hn]

/-- row 3: otherwise a `dimensions` tuple (even an empty one) or a non-empty recorded shape makes an `Array` -/
theorem C13_classify_array (ty : Option Ty) (n : Name) (d : Option Nat)
    (h1 : isProc ty = false) (h2 : isDerivedNamed ty n = false)
    (h : (∃ k, d = some k) ∨ (∃ t r, ty = some t ∧ t.shape = some (r + 1))) : classify ty n d = .array := by
  apply (C13_classify_spec ty n d _).2
  refine ⟨h1, h2, ?_⟩
  cases h with
  | inl h => obtain ⟨k, rfl⟩ := h; simp
  | inr h =>
    obtain ⟨t, r, rfl, hs⟩ := h
    obtain ⟨dt, sh, tg⟩ := t
    simp only at hs
    subst hs
    simp [shapeTruthy]

/-- row 4: otherwise a type whose dtype is not DEFERRED makes a `Scalar` -/
theorem C13_classify_scalar (t : Ty) (n : Name)
    (h1 : isProc (some t) = false) (h2 : isDerivedNamed (some t) n = false)
    (hs : t.shape = none ∨ t.shape = some 0) (hd : t.dtype ≠ .deferred) : classify (some t) n none = .scalar := by
  apply (C13_classify_spec _ n none _).2
  refine ⟨h1, h2, rfl, ?_, ?_⟩
  · obtain ⟨dt, sh, tg⟩ := t
    cases hs with
    | inl h => simp only at h; subst h; simp [shapeTruthy]
    | inr h => simp only at h; subst h; simp [shapeTruthy]
  · obtain ⟨dt, sh, tg⟩ := t
    cases dt <;> simp_all [cleanOpt, Dtype.truthy]

/-- row 5: no type at all, or DEFERRED without shape, and no subscripts: `DeferredTypeSymbol` -/
theorem C13_classify_deferred (ty : Option Ty) (n : Name)
    (h : ty = none ∨ ∃ t, ty = some t ∧ t.dtype = .deferred ∧ (t.shape = none ∨ t.shape = some 0)) :
    classify ty n none = .deferredTypeSymbol := by
  cases h with
  | inl h => subst h; simp [classify, isProc, isDerivedNamed, shapeTruthy, cleanOpt]
  | inr h =>
    obtain ⟨t, rfl, hd, hs⟩ := h
    obtain ⟨dt, sh, tg⟩ := t
    simp only at hd hs
    subst hd
    cases hs with
    | inl h => subst h; simp [classify, isProc, isDerivedNamed, shapeTruthy, cleanOpt, Dtype.truthy]
    | inr h => subst h; simp [classify, isProc, isDerivedNamed, shapeTruthy, cleanOpt, Dtype.truthy]

/-- full statement against the property's own table (`refClass`: subscripts count when non-empty) -/
def C13_class_full : Prop := ∀ ty n d, classify ty n d = refClass ty n d

/-- `Variable(name='x', type=INTEGER, dimensions=())` is an `Array` (reached through `Array.rescope`, which always
passed `dimensions=self.dimensions` before its `fix:` commit, and through `clone(dimensions=())`) -/
theorem C13_class_full_false : ¬ C13_class_full := by
  intro h
  have := h (some { dtype := .integer }) ['x'] (some 0)
  revert this
  decide

/-- outside the class `empty-dimensions-array` the tier chain is the table of the property statement -/
theorem C13_class_partial (ty : Option Ty) (n : Name) (d : Option Nat) (hk : KnownEmptyDims ty n d = false) :
    classify ty n d = refClass ty n d := by
  unfold classify refClass
  unfold KnownEmptyDims at hk
  cases h1 : isProc ty <;> cases h2 : isDerivedNamed ty n <;> cases h3 : shapeTruthy ty <;>
    simp [h1, h2, h3] at hk ⊢
  cases d with
  | none => simp
  | some k =>
    cases k with
    | zero => simp at hk
    | succ k => simp

/-- non-vacuity: inputs outside the class exist in every row -/
example : KnownEmptyDims (some { dtype := .real, shape := some 2 }) ['x'] (some 0) = false ∧
          KnownEmptyDims (some { dtype := .integer }) ['x'] none = false ∧
          KnownEmptyDims none ['x'] (some 1) = false := by decide

/-- the type `Variable.__new__` classifies: the one given, else the one `_get_type_from_scope` finds -/
def resolved (tds : TDefs) (ss : Scopes) (parts : List Name) (sc : Option Nat) (ty : Option Ty)
    (parent : Option Link) : Res (Option Ty) :=
  match sc, ty with
  | some i, none => (getTypeFromScope tds ss parts i parent).2
  | _, _ => .ok ty

theorem construct_class (tds : TDefs) (ss ss' : Scopes) (parts : List Name) (sc : Option Nat) (ty : Option Ty)
    (parent : Option Link) (dims : Option Nat) (s : Sym)
    (h : construct tds ss parts sc ty parent dims = (ss', .ok s)) :
    s.self.cls = classify ty (joinParts parts) dims ∧ s.self.scope = sc ∧ s.parent = parent ∧
    s.self.base = parts.getLast?.getD [] := by
  unfold construct at h
  simp only at h
  split at h
  · simp only [Prod.mk.injEq, Res.ok.injEq] at h; obtain ⟨_, rfl⟩ := h; simp [mkSym]
  · simp only [Prod.mk.injEq, Res.ok.injEq] at h; obtain ⟨_, rfl⟩ := h; simp [mkSym]
  · simp only [Prod.mk.injEq, Res.ok.injEq] at h; obtain ⟨_, rfl⟩ := h; simp [mkSym]
  · split at h
    · simp at h
    · simp only [Prod.mk.injEq, Res.ok.injEq] at h; obtain ⟨_, rfl⟩ := h; simp [mkSym]
    · simp only [Prod.mk.injEq, Res.ok.injEq] at h; obtain ⟨_, rfl⟩ := h; simp [mkSym]

/-- **every created symbol is classified by the type the factory resolved** (for every state, name, scope,
type argument, parent and subscripts): if `Variable(...)` returns, its class is the decision table applied to
the given type or, when none is given and a scope is, to the type found through the scope / the parent -/
theorem C13_create_class (tds : TDefs) (ss ss' : Scopes) (parts : List Name) (sc : Option Nat) (ty : Option Ty)
    (parent : Option Link) (dims : Option Nat) (s : Sym)
    (h : create tds ss parts sc ty parent dims = (ss', .ok s)) :
    ∃ t, resolved tds ss parts sc ty parent = .ok t ∧ s.self.cls = classify t (joinParts parts) dims := by
  unfold create at h
  unfold resolved
  split at h
  · rename_i i
    simp only at h
    split at h
    · simp at h
    · rename_i t ht
      exact ⟨t, by simp [ht], (construct_class _ _ _ _ _ _ _ _ _ h).1⟩
  · rename_i hne
    refine ⟨ty, ?_, (construct_class _ _ _ _ _ _ _ _ _ h).1⟩
    split
    · rename_i i
      exact (hne i rfl rfl).elim
    · rfl

/-! ## B. sharing -/

theorem typeOf_clean_or_top (tds : TDefs) (ss : Scopes) (s : Sym) (sc : Nat) (t : Ty)
    (hs : s.self.scope = some sc) (hl : lookup ss sc (key s.name) = some t)
    (hc : t.dtype.truthy = true ∨ s.parent = none) : typeOf tds ss s = (ss, .ok (some t)) := by
  unfold typeOf
  rw [hs]
  simp only
  unfold lookupType
  simp only [hl]
  cases hc with
  | inl hc => simp [cleanOpt, hc]
  | inr hp =>
    cases ht : t.dtype.truthy
    · simp [cleanOpt, ht, hp]
    · simp [cleanOpt, ht]

/-- the sharing statement for one update and one symbol -/
def SharedStmt (tds : TDefs) (st : St) (s : Nat) (name : Name) (τ : Ty) (sym : Sym) (s' : Nat) : Prop :=
  s < st.scopes.length → sym.self.scope = some s' → key sym.name = key name →
  resolve (step tds st (.setType s name τ)).1.scopes s' (key name) = some s →
  typeOf tds (step tds st (.setType s name τ)).1.scopes sym
    = ((step tds st (.setType s name τ)).1.scopes, .ok (some τ))

/-- full statement: every state (in particular every state reached by a history), scope, name, type, symbol -/
def C13_type_shared_full : Prop := ∀ tds st s name τ sym s', SharedStmt tds st s name τ sym s'

/-- known-finding class `deferred-update-on-member`: a DEFERRED type recorded for a derived-type member -/
def KnownDeferredMember (τ : Ty) (sym : Sym) : Bool := !τ.dtype.truthy && sym.parent.isSome

/-- **type sharing**: in every state, after `scope.symbol_attrs[name] = τ` every symbol of that name (any
spelling) attached to a scope whose chain resolves the name to that scope reports exactly `τ`, and reading it
changes nothing — outside the class `deferred-update-on-member` -/
theorem C13_type_shared_partial (tds : TDefs) (st : St) (s : Nat) (name : Name) (τ : Ty) (sym : Sym) (s' : Nat)
    (hk : KnownDeferredMember τ sym = false) : SharedStmt tds st s name τ sym s' := by
  intro hs hsc hname hres
  have hstep : (step tds st (.setType s name τ)).1.scopes = setLocal st.scopes s (key name) τ := by
    simp [step, hs]
  rw [hstep] at hres ⊢
  have hl : lookup (setLocal st.scopes s (key name) τ) s' (key sym.name) = some τ := by
    rw [hname, lookup_of_resolve _ _ _ _ hres]
    exact localGet_setLocal_same _ _ _ _ hs
  apply typeOf_clean_or_top tds _ sym s' τ hsc hl
  unfold KnownDeferredMember at hk
  cases ht : τ.dtype.truthy
  · right
    cases hp : sym.parent
    · rfl
    · simp [ht, hp] at hk
  · left; rfl

/-- the same over histories: whatever operations ran before the update -/
theorem C13_type_shared_history (tds : TDefs) (ops : List Op) (s : Nat) (name : Name) (τ : Ty) (sym : Sym) (s' : Nat)
    (hk : KnownDeferredMember τ sym = false) : SharedStmt tds (run tds {} ops) s name τ sym s' :=
  C13_type_shared_partial tds _ s name τ sym s' hk

/-- witness: `p` of derived type `t` (member `a : integer`); recording DEFERRED for `p%a` is not what the
member symbol reports — it falls back to the type definition and reports INTEGER -/
theorem C13_type_shared_full_false : ¬ C13_type_shared_full := by
  intro h
  have := h [("t".toList, [("a".toList, { dtype := .integer })])]
    { scopes := [{ parent := none, table := [("p".toList, { dtype := .derived "t".toList (some 0) })] }], syms := [] }
    0 "p%a".toList deferredTy
    { self := { cls := .scalar, base := "a".toList, scope := some 0, ty := none },
      parent := some { cls := .scalar, base := "p".toList, scope := some 0, ty := none } } 0
    (by decide) (by decide) (by decide) (by decide)
  revert this
  decide

/-- non-vacuity of `C13_type_shared_partial`: nested scopes, update in the outer one, symbol in the inner one -/
example :
    let st : St := { scopes := [{ parent := none, table := [("x".toList, { dtype := .integer })] }, { parent := some 0 }] }
    let sym : Sym := { self := { cls := .scalar, base := "X".toList, scope := some 1, ty := none } }
    KnownDeferredMember { dtype := .real, shape := some 1 } sym = false ∧
    resolve (step [] st (.setType 0 "x".toList { dtype := .real, shape := some 1 })).1.scopes 1 (key "x".toList) = some 0 ∧
    (typeOf [] (step [] st (.setType 0 "x".toList { dtype := .real, shape := some 1 })).1.scopes sym).2
      = .ok (some { dtype := .real, shape := some 1 }) := by decide

/-- every operation only appends to the list of symbols: existing symbol objects are never modified -/
theorem step_syms_prefix (tds : TDefs) (st : St) (op : Op) : ∃ l, (step tds st op).1.syms = st.syms ++ l := by
  have hfin : ∀ r : Scopes × Res Sym, ∃ l, (finish st r).1.syms = st.syms ++ l := by
    intro r
    unfold finish
    split
    · exact ⟨[_], rfl⟩
    · exact ⟨[], by simp⟩
  cases op <;> simp only [step] <;> (repeat' split) <;> first | exact hfin _ | exact ⟨[], by simp⟩

theorem run_syms_get (tds : TDefs) (ops : List Op) (st : St) (i : Nat) (sym : Sym) (h : st.syms[i]? = some sym) :
    (run tds st ops).syms[i]? = some sym := by
  induction ops generalizing st with
  | nil => exact h
  | cons op ops ih =>
    simp only [run]
    apply ih
    obtain ⟨l, hl⟩ := step_syms_prefix tds st op
    rw [hl]
    have hi : i < st.syms.length := by
      cases hlt : st.syms[i]? with
      | none => simp [hlt] at h
      | some x => exact (List.getElem?_eq_some_iff.1 hlt).1
    rw [List.getElem?_append_left hi]
    exact h

/-- **unattached symbols keep their own type**: for every history of operations (scope updates, creations,
clones, rescopes — of this or any other symbol) a symbol without scope is still the same object afterwards, and
in *every* scope state it reports its own local type and reading it changes nothing -/
theorem C13_unattached_stable (tds : TDefs) (ops : List Op) (st : St) (i : Nat) (sym : Sym)
    (h : st.syms[i]? = some sym) (hu : sym.self.scope = none) :
    (run tds st ops).syms[i]? = some sym ∧ ∀ ss, typeOf tds ss sym = (ss, .ok sym.self.ty) := by
  refine ⟨run_syms_get tds ops st i sym h, ?_⟩
  intro ss
  unfold typeOf
  rw [hu]

theorem construct_typed_unattached (tds : TDefs) (ss : Scopes) (parts : List Name) (t : Ty)
    (parent : Option Link) (dims : Option Nat) :
    construct tds ss parts none (some t) parent dims =
      (ss, .ok { mkSym (classify (some t) (joinParts parts) dims) parts none parent dims with
                 self := { (mkSym (classify (some t) (joinParts parts) dims) parts none parent dims).self with ty := some t } }) := by
  simp [construct]

theorem construct_typed_attached (tds : TDefs) (ss : Scopes) (parts : List Name) (i : Nat) (t : Ty)
    (parent : Option Link) (dims : Option Nat) :
    construct tds ss parts (some i) (some t) parent dims =
      (setLocal ss i (key (mkSym (classify (some t) (joinParts parts) dims) parts (some i) parent dims).name) t,
       .ok (mkSym (classify (some t) (joinParts parts) dims) parts (some i) parent dims)) := by
  simp [construct]

/-- a symbol created unattached with a type reports that type, in every scope state -/
theorem C13_create_unattached_reports (tds : TDefs) (ss ss' : Scopes) (parts : List Name) (t : Ty)
    (parent : Option Link) (dims : Option Nat) (s : Sym)
    (h : create tds ss parts none (some t) parent dims = (ss', .ok s)) :
    ss' = ss ∧ s.self.scope = none ∧ ∀ ss2, typeOf tds ss2 s = (ss2, .ok (some t)) := by
  simp only [create, construct_typed_unattached, Prod.mk.injEq, Res.ok.injEq] at h
  obtain ⟨rfl, rfl⟩ := h
  refine ⟨rfl, rfl, ?_⟩
  intro ss2
  simp [typeOf, mkSym]

/-- **creation with a type in a scope records it and reports it**: `Variable(name, scope=i, type=t)` stores `t`
under the symbol's name in scope `i` itself and the new symbol reports `t` (clean type or no parent) -/
theorem C13_create_reports (tds : TDefs) (ss ss' : Scopes) (parts : List Name) (i : Nat) (t : Ty)
    (parent : Option Link) (dims : Option Nat) (s : Sym) (hi : i < ss.length)
    (hc : t.dtype.truthy = true ∨ parent = none)
    (h : create tds ss parts (some i) (some t) parent dims = (ss', .ok s)) :
    ss' = setLocal ss i (key s.name) t ∧ typeOf tds ss' s = (ss', .ok (some t)) := by
  simp only [create, construct_typed_attached, Prod.mk.injEq, Res.ok.injEq] at h
  obtain ⟨rfl, rfl⟩ := h
  refine ⟨rfl, ?_⟩
  apply typeOf_clean_or_top tds _ _ i t rfl (lookup_setLocal_same _ _ _ _ hi)
  cases hc with
  | inl h => exact Or.inl h
  | inr h => exact Or.inr (by simp [mkSym, h])

theorem mkSym_name_top (cls : SymClass) (n : Name) (sc : Option Nat) (dims : Option Nat) :
    (mkSym cls [n] sc none dims).name = n := by
  simp [mkSym, Sym.name]

/-- **creation without a type inherits the declaration and pins a copy**: for a plain name declared (type `t`)
somewhere up the chain of scope `i`, `Variable(name=n, scope=i)` gets class `classify t`, reports `t`, and stores a
copy of `t` in scope `i` itself; therefore a later update of the name in any *other* scope `j` is not seen by it
(the symbol is attached to `i`, which from now on resolves the name to itself) -/
theorem C13_create_inherits_and_pins (tds : TDefs) (ss ss' : Scopes) (n : Name) (i : Nat) (t : Ty)
    (dims : Option Nat) (s : Sym) (hi : i < ss.length) (hl : lookup ss i (key n) = some t)
    (h : create tds ss [n] (some i) none none dims = (ss', .ok s)) :
    s.self.cls = classify (some t) n dims ∧ typeOf tds ss' s = (ss', .ok (some t)) ∧
    localGet ss' i (key n) = some t ∧
    ∀ j k v, j ≠ i → typeOf tds (setLocal ss' j k v) s = (setLocal ss' j k v, .ok (some t)) := by
  simp only [create, getTypeFromScope, joinParts, hl, construct_typed_attached, mkSym_name_top,
    Prod.mk.injEq, Res.ok.injEq] at h
  obtain ⟨rfl, rfl⟩ := h
  refine ⟨by simp [mkSym], ?_, localGet_setLocal_same _ _ _ _ hi, ?_⟩
  · apply typeOf_clean_or_top tds _ _ i t rfl _ (Or.inr rfl)
    rw [mkSym_name_top]; exact lookup_setLocal_same _ _ _ _ hi
  · intro j k v hj
    apply typeOf_clean_or_top tds _ _ i t rfl _ (Or.inr rfl)
    rw [mkSym_name_top]
    apply lookup_of_localGet
    rw [localGet_setLocal_other _ _ _ _ _ _ (Or.inl (Ne.symm hj))]
    exact localGet_setLocal_same _ _ _ _ hi

/-! ## C. rescoping -/

/-- the subscripts `rescope` hands to the factory: `Array.rescope` passes `dimensions=self.dimensions or None`
(`None` when the array has no subscripts), `TypedSymbol.rescope` passes none -/
def rescopeDims (s : Sym) : Option Nat := if s.self.cls = .array then dimsOrNone s.self.dims else none

theorem create_typed_attached (tds : TDefs) (ss : Scopes) (parts : List Name) (i : Nat) (t : Ty)
    (parent : Option Link) (dims : Option Nat) :
    create tds ss parts (some i) (some t) parent dims =
      (setLocal ss i (key (mkSym (classify (some t) (joinParts parts) dims) parts (some i) parent dims).name) t,
       .ok (mkSym (classify (some t) (joinParts parts) dims) parts (some i) parent dims)) := by
  simp only [create, construct_typed_attached]

/-- **rescoping keeps a type already recorded for the name in the target scope chain**: for a symbol that has a
type (`own`), if the target scope resolves the name to `e` (clean, or the symbol has no parent), then
`sym.rescope(target)` returns a symbol of the same name attached to the target that reports `e` — not `own` —,
classified by `e`; the only write is a copy of `e` into the target scope's own table -/
theorem C13_rescope_keeps_existing (tds : TDefs) (ss : Scopes) (sym : Sym) (sc : Nat) (own e : Ty)
    (hsc : sc < ss.length)
    (hown : (typeOf tds ss sym).2 = .ok (some own))
    (hex : lookup (typeOf tds ss sym).1 sc (key sym.name) = some e)
    (hc : e.dtype.truthy = true ∨ sym.parent = none) :
    rescope tds ss sym sc =
      (setLocal (typeOf tds ss sym).1 sc (key sym.name) e,
       .ok (mkSym (classify (some e) (joinParts sym.parts) (rescopeDims sym)) sym.parts (some sc) sym.parent (rescopeDims sym))) ∧
    typeOf tds (setLocal (typeOf tds ss sym).1 sc (key sym.name) e)
        (mkSym (classify (some e) (joinParts sym.parts) (rescopeDims sym)) sym.parts (some sc) sym.parent (rescopeDims sym))
      = (setLocal (typeOf tds ss sym).1 sc (key sym.name) e, .ok (some e)) := by
  have hsc1 : sc < (typeOf tds ss sym).1.length := by rw [typeOf_length]; exact hsc
  constructor
  · unfold rescope
    simp only [hown]
    by_cases hcls : sym.self.cls = .array
    · simp only [hcls, if_true, hex, clone, Option.getD_none, create_typed_attached, mkSym_name, rescopeDims]
    · simp only [hcls, if_false, lookupType_clean_or_top tds _ sym sc e hex hc, clone, Option.getD_none,
        create_typed_attached, mkSym_name, rescopeDims, Bool.false_and, decide_false, Bool.false_eq_true]
  · apply typeOf_clean_or_top tds _ _ sc e (by simp [mkSym])
    · rw [mkSym_name]; exact lookup_setLocal_same _ _ _ _ hsc1
    · cases hc with
      | inl h => exact Or.inl h
      | inr h => exact Or.inr (by simp [mkSym, h])

/-- **rescoping inserts the symbol's own type when the target knows nothing**: for a symbol without parent that has
a type `own`, if the target chain has no entry for the name, the rescoped symbol reports `own` and `own` is stored in
the target scope -/
theorem C13_rescope_inserts_missing (tds : TDefs) (ss : Scopes) (sym : Sym) (sc : Nat) (own : Ty)
    (hsc : sc < ss.length) (hp : sym.parent = none)
    (hown : (typeOf tds ss sym).2 = .ok (some own))
    (hex : lookup ss sc (key sym.name) = none) :
    rescope tds ss sym sc =
      (setLocal ss sc (key sym.name) own,
       .ok (mkSym (classify (some own) (joinParts sym.parts) (rescopeDims sym)) sym.parts (some sc) sym.parent (rescopeDims sym))) ∧
    typeOf tds (setLocal ss sc (key sym.name) own)
        (mkSym (classify (some own) (joinParts sym.parts) (rescopeDims sym)) sym.parts (some sc) sym.parent (rescopeDims sym))
      = (setLocal ss sc (key sym.name) own, .ok (some own)) := by
  have hpure : typeOf tds ss sym = (ss, .ok (some own)) := by
    have h1 : (typeOf tds ss sym).1 = ss := by
      unfold typeOf
      split
      · rfl
      · rw [lookupType_top _ _ _ _ hp]
    exact Prod.ext h1 hown
  have hjoin : joinParts sym.parts = sym.name := by simp [Sym.parts, Sym.name, hp, joinParts]
  have hloc : localGet ss sc (key sym.name) = none := by
    cases hg : localGet ss sc (key sym.name) with
    | none => rfl
    | some t => rw [lookup_of_localGet _ _ _ _ hg] at hex; exact absurd hex (by simp)
  constructor
  · unfold rescope
    simp only [hpure]
    by_cases hcls : sym.self.cls = .array
    · simp only [hcls, if_true, hex, clone, Option.getD_none, hjoin, hloc, hpure, create_typed_attached, mkSym_name,
        rescopeDims]
    · simp only [hcls, if_false, lookupType_top _ _ _ _ hp, hex, clone, Option.getD_none, hjoin, hloc, hpure,
        create_typed_attached, mkSym_name, rescopeDims, Bool.false_and, decide_false, Bool.false_eq_true]
  · apply typeOf_clean_or_top tds _ _ sc own (by simp [mkSym])
    · rw [mkSym_name]; exact lookup_setLocal_same _ _ _ _ hsc
    · exact Or.inr (by simp [mkSym, hp])

/-- **rescoping never produces an `Array` out of nothing**: the rescoped symbol of a symbol without subscripts is
classified by the recorded type alone — exactly the table of the property statement (`refClass`), for every symbol,
existing entry and target.  (Full strength since the `fix:` commit for the rescope route of `empty-dimensions-array`;
before it `Array.rescope` passed `dimensions=()` and the result stayed an `Array`.) -/
theorem C13_rescope_class (sym : Sym) (e : Ty) (n : Name) :
    classify (some e) n (rescopeDims sym) = refClass (some e) n (rescopeDims sym) := by
  apply C13_class_partial
  unfold KnownEmptyDims rescopeDims dimsOrNone
  split
  · split <;> simp_all
  · simp

/-- `Array.rescope` of an `Array` without subscripts into a scope that declares the name a plain INTEGER gives a `Scalar` -/
theorem C13_rescope_array_to_scalar :
    (rescope [] [{ parent := none, table := [("x".toList, { dtype := .integer })] }]
      { self := { cls := .array, base := "x".toList, scope := none, ty := some { dtype := .real, shape := some 1 } } } 0).2
    = .ok { self := { cls := .scalar, base := "x".toList, scope := some 0, ty := none } } := by decide

/-- non-vacuity of `C13_rescope_keeps_existing`: unattached REAL scalar `x` rescoped into a scope declaring `x` INTEGER -/
example :
    let ss : Scopes := [{ parent := none, table := [("x".toList, { dtype := .integer })] }, { parent := some 0 }]
    let sym : Sym := { self := { cls := .scalar, base := "X".toList, scope := none, ty := some { dtype := .real } } }
    (typeOf [] ss sym).2 = .ok (some { dtype := .real }) ∧ lookup (typeOf [] ss sym).1 1 (key sym.name) = some { dtype := .integer } ∧
    (rescope [] ss sym 1).1 = [{ parent := none, table := [("x".toList, { dtype := .integer })] },
                               { parent := some 0, table := [("x".toList, { dtype := .integer })] }] := by decide

/-- the tables extracted from the current source agree with what the model hard-codes: the order of the `return`s
of `Variable.__new__`, the test under which the `dimensions` keyword is dropped (only `None`, not `()`), `DEFERRED` being the only `BasicType` of value 0, and every other object tested for
truthiness in the anchored code being truthy -/
theorem C13_tables_agree :
    Generated.tierReturns = ["ProcedureSymbol", "DerivedTypeSymbol", "Array", "Scalar", "DeferredTypeSymbol"] ∧
    Generated.dimsPopTest = "'dimensions' in kwargs and kwargs['dimensions'] is None" ∧
    (Generated.basicTypes.filter fun p => p.2 == 0).map (·.1) = ["DEFERRED"] ∧
    Generated.sampleTruthy.all (fun p => p.2) = true := by decide

/-! ## D. further facts behind the oracle's known-finding classes -/

/-- full statement: a symbol created from a name carries that name -/
def C13_create_name_full : Prop :=
  ∀ tds ss parts sc ty dims ss' s, create tds ss parts sc ty none dims = (ss', .ok s) → s.name = joinParts parts

/-- known-finding class `qualified-name-without-parent` -/
def KnownQualifiedNoParent (parts : List Name) (parent : Option Link) : Bool := decide (parts.length ≥ 2) && parent.isNone

theorem create_ok_construct (tds : TDefs) (ss ss' : Scopes) (parts : List Name) (sc : Option Nat) (ty : Option Ty)
    (parent : Option Link) (dims : Option Nat) (s : Sym)
    (h : create tds ss parts sc ty parent dims = (ss', .ok s)) :
    ∃ ss0 t, construct tds ss0 parts sc t parent dims = (ss', .ok s) := by
  unfold create at h
  split at h
  · simp only at h
    split at h
    · simp at h
    · exact ⟨_, _, h⟩
  · exact ⟨_, _, h⟩

/-- a plain (unqualified) name is the name of the symbol created from it — for every state, scope, type, subscripts -/
theorem C13_create_name_partial (tds : TDefs) (ss ss' : Scopes) (n : Name) (sc : Option Nat) (ty : Option Ty)
    (dims : Option Nat) (s : Sym) (h : create tds ss [n] sc ty none dims = (ss', .ok s)) : s.name = n := by
  obtain ⟨ss0, t, hc⟩ := create_ok_construct _ _ _ _ _ _ _ _ _ h
  obtain ⟨_, _, hp, hb⟩ := construct_class _ _ _ _ _ _ _ _ _ hc
  simp [Sym.name, hp, hb]

/-- witness: `Variable(name='q%a', scope=s)` is a symbol named `a` whose type is filed under `a` -/
theorem C13_create_name_full_false : ¬ C13_create_name_full := by
  intro h
  have := h [] [{ parent := none }] ["q".toList, "a".toList] (some 0) (some { dtype := .integer }) none
  simp only [create, construct_typed_attached] at this
  have h2 := this _ _ rfl
  revert h2
  decide

/-- full statement: reading a symbol's type does not change any symbol table -/
def C13_read_pure_full : Prop := ∀ tds ss sym, (typeOf tds ss sym).1 = ss

/-- known-finding class `member-lookup-rewrites-siblings`: the read goes through the parent's type definition
(attached member whose own entry is missing or DEFERRED) -/
def KnownMemberFallback (ss : Scopes) (sym : Sym) : Bool :=
  match sym.self.scope with
  | none => false
  | some sc => sym.parent.isSome && !cleanOpt (lookup ss sc (key sym.name))

theorem C13_read_pure_partial (tds : TDefs) (ss : Scopes) (sym : Sym) (hk : KnownMemberFallback ss sym = false) :
    (typeOf tds ss sym).1 = ss := by
  unfold KnownMemberFallback at hk
  unfold typeOf
  split
  · rfl
  · rename_i sc hsc
    simp only [hsc] at hk
    cases hp : sym.parent with
    | none => rw [lookupType_top _ _ _ _ hp]
    | some p =>
      simp only [hp, Option.isSome_some, Bool.true_and, Bool.not_eq_false'] at hk
      unfold lookupType
      simp [hk]

/-- witness: `p` of type `t` (members `a : integer`, `b : real`); the entry `p%a` was updated to LOGICAL; reading the
type of `p%b` (no entry yet) rewrites `p%a` back to INTEGER -/
theorem C13_read_pure_full_false : ¬ C13_read_pure_full := by
  intro h
  have := h [("t".toList, [("a".toList, { dtype := .integer }), ("b".toList, { dtype := .real })])]
    [{ parent := none, table := [("p".toList, { dtype := .derived "t".toList (some 0) }),
                                 ("p%a".toList, { dtype := .logical })] }]
    { self := { cls := .scalar, base := "b".toList, scope := some 0, ty := none },
      parent := some { cls := .scalar, base := "p".toList, scope := some 0, ty := none } }
  revert this
  decide

/-! ### no evaluation ends in the former `RecursionError` -/

theorem tdefVarType_ok (ss : Scopes) (p : Link) (m : Name × Ty) : tdefVarType ss p m ≠ .recursion := by
  unfold tdefVarType; split <;> simp

theorem viaHolder_ok (tds : TDefs) (ss : Scopes) (p : Link) (b : Name) (d : Option Ty) :
    (viaHolder tds ss p b d).2 ≠ .recursion := by
  unfold viaHolder
  simp only
  split
  · exact tdefVarType_ok _ _ _
  · simp

theorem lookupType_ok (tds : TDefs) (ss : Scopes) (s : Sym) (sc : Nat) : (lookupType tds ss s sc).2 ≠ .recursion := by
  unfold lookupType
  simp only
  repeat' split
  all_goals first
    | exact tdefVarType_ok _ _ _
    | exact viaHolder_ok _ _ _ _ _
    | simp

theorem typeOf_ok (tds : TDefs) (ss : Scopes) (s : Sym) : (typeOf tds ss s).2 ≠ .recursion := by
  unfold typeOf
  split
  · simp
  · exact lookupType_ok _ _ _ _

theorem getTypeFromScope_ok (tds : TDefs) (ss : Scopes) (parts : List Name) (sc : Nat) (parent : Option Link) :
    (getTypeFromScope tds ss parts sc parent).2 ≠ .recursion := by
  unfold getTypeFromScope
  simp only
  repeat' split
  all_goals first
    | exact viaHolder_ok _ _ _ _ _
    | simp

theorem construct_ok (tds : TDefs) (ss : Scopes) (parts : List Name) (sc : Option Nat) (ty : Option Ty)
    (parent : Option Link) (dims : Option Nat) : (construct tds ss parts sc ty parent dims).2 ≠ .recursion := by
  unfold construct
  simp only
  split
  · simp
  · simp
  · simp
  · split
    · rename_i h; exact absurd h (lookupType_ok _ _ _ _)
    · simp
    · simp

theorem create_ok (tds : TDefs) (ss : Scopes) (parts : List Name) (sc : Option Nat) (ty : Option Ty)
    (parent : Option Link) (dims : Option Nat) : (create tds ss parts sc ty parent dims).2 ≠ .recursion := by
  unfold create
  split
  · simp only
    split
    · rename_i h; exact absurd h (getTypeFromScope_ok _ _ _ _ _)
    · exact construct_ok _ _ _ _ _ _ _
  · exact construct_ok _ _ _ _ _ _ _

theorem clone_ok (tds : TDefs) (ss : Scopes) (s : Sym) (ov : Overrides) : (clone tds ss s ov).2 ≠ .recursion := by
  unfold clone
  simp only
  split
  · exact create_ok _ _ _ _ _ _ _
  · split
    · exact create_ok _ _ _ _ _ _ _
    · split
      · rename_i h; exact absurd h (typeOf_ok _ _ _)
      · exact create_ok _ _ _ _ _ _ _

theorem rescope_ok (tds : TDefs) (ss : Scopes) (s : Sym) (sc : Nat) : (rescope tds ss s sc).2 ≠ .recursion := by
  unfold rescope
  simp only
  split
  · rename_i h; exact absurd h (typeOf_ok _ _ _)
  · split <;> exact clone_ok _ _ _ _
  · split
    · split <;> exact clone_ok _ _ _ _
    · split
      · rename_i h; exact absurd h (lookupType_ok _ _ _ _)
      · exact clone_ok _ _ _ _
      · exact clone_ok _ _ _ _

/-- **no type resolution diverges**: reading a type, creating, cloning and rescoping a symbol always return, for every
type-definition environment (members of DEFERRED type included), state and arguments.  Full strength since the `fix:`
commit for `deferred-member-recursion` (before it a DEFERRED member with an attached parent raised `RecursionError`,
see `LokiModel/Findings/C13.lean`). -/
theorem C13_no_recursion (tds : TDefs) (ss : Scopes) (s : Sym) (sc : Nat) (ov : Overrides) (parts : List Name)
    (sco : Option Nat) (ty : Option Ty) (parent : Option Link) (dims : Option Nat) :
    (typeOf tds ss s).2 ≠ .recursion ∧ (create tds ss parts sco ty parent dims).2 ≠ .recursion ∧
    (clone tds ss s ov).2 ≠ .recursion ∧ (rescope tds ss s sc).2 ≠ .recursion :=
  ⟨typeOf_ok _ _ _, create_ok _ _ _ _ _ _ _, clone_ok _ _ _ _, rescope_ok _ _ _ _⟩

/-- the former witness now resolves: member `d` of DEFERRED type, parent attached, reports the DEFERRED entry -/
example :
    (typeOf [("t".toList, [("d".toList, { dtype := .deferred })])]
      [{ parent := none, table := [("p".toList, { dtype := .derived "t".toList (some 0) })] }]
      { self := { cls := .deferredTypeSymbol, base := "d".toList, scope := some 0, ty := none },
        parent := some { cls := .scalar, base := "p".toList, scope := some 0, ty := none } }).2 = .ok (some deferredTy) := by decide

end LokiModel.C13
