import LokiModel.C01.Model
import LokiModel.Props.C02
import LokiModel.Props.C06
import LokiModel.Props.C07
/-!
# C01 — parsing and regenerating Fortran preserves program behaviour (model level)

What is proved.  Let `ss` be a statement list of the covered class (C02) whose expression slots are Loki expression trees
of C06's class `Good` (where Loki's precedence numbers agree with the Fortran grammar; every known-finding class of C06 is
outside).  Then the text `fgen` writes for `ss` is read by the reference parser — C02's statement parser with C07's
`fparse`, which is sound and complete for the Fortran expression grammar, hence reads a text exactly as the (unambiguous)
grammar does — to the same statement skeleton (up to the dropped unit DO step) in which every expression slot holds a
semantic tree with the **same value as the tree that was printed**, under every valuation (integer division truncating,
mixed mode, exact rationals), or the same failure.

What is assumed / missing (hence `_partial`): the real frontend is the reference parser on the subset (checked by
correspondence on every run: exported IR of `parse(src)` = denotation of `pStmts`), and `fgen` is `gStmts`/`printF`
(checked token by token).  The last step "slot-wise equal values ⇒ equal runs of `Fir.Sem`" is not proved here (it needs a
congruence theorem for `execStmts` under value-equivalence of expressions); the direct oracle executes both programs.
Array references, calls inside expressions and declarations are outside the model (oracle only).
-/
namespace LokiModel.C01
open LokiModel.Expr LokiModel.C06 LokiModel.C02

/-- the meaning a Fortran processor gives to the printed text of a `Good` tree (it exists by `C06_F_partial`; it is unique
by `C07_G_unambiguous`) -/
noncomputable def meaning (t : E) : S :=
  if h : Good fcfg t = true then Classical.choose (C06_F_partial_expr t h 0) else .int 0

theorem meaning_spec (t : E) (h : Good fcfg t = true) :
    G 0 (pe t) (meaning t) ∧ ∀ env, evalS env (meaning t) = evalS env (den t) := by
  unfold meaning
  rw [dif_pos h]
  exact Classical.choose_spec (C06_F_partial_expr t h 0)

/-- the expression level of C01: the printed text of a `Good` tree is read back by the reference parser as a tree of
the same value -/
theorem exprRT_good : ExprRT pe reS meaning (fun t => Good fcfg t = true) where
  ne := by
    intro t h
    exact G.nonempty (meaning_spec t h).1
  rd := by
    intro t h
    obtain ⟨f0, hf⟩ := LokiModel.C07.C07_fparse_complete _ _ (meaning_spec t h).1
    exact ⟨f0, fun f hle => by simp [reS, hf f hle]⟩

/-- the meaning is the only one: any derivation of the printed text yields it -/
theorem meaning_unique (t : E) (h : Good fcfg t = true) (s : S) (hs : G 0 (pe t) s) : s = meaning t :=
  LokiModel.C07.C07_G_unambiguous _ _ _ hs (meaning_spec t h).1

/-- **C01, model level, partial**: regenerate-and-reread preserves the statement skeleton and the value of every
expression slot. -/
theorem C01_sem_partial (st : Style) (ss : List (Stmt E)) (hok : OkStmts (fun t => Good fcfg t = true) ss) :
    (∃ f0, ∀ f, f0 ≤ f → pStmts reS f (regen st ss) = some (mapStmts meaning (normStmts isOneE ss), [])) ∧
    (∀ t, Good fcfg t = true → SEq (meaning t) (den t)) := by
  refine ⟨C02_reread_partial st pe isOneE reS meaning _ exprRT_good ss hok, fun t h env => (meaning_spec t h).2 env⟩

/-- the dropped DO step has the value 1 (the default step), so `norm` does not change behaviour either -/
theorem C01_step_one (t : E) (h : isOneE t = true) : den t = .int 1 := by
  unfold isOneE at h
  split at h <;> simp_all [den, denInt]

/-! ### non-vacuity -/

/-- `do i = 1, n - 1, 1; if (a - b*c > (x + 1)**2 / (a*b) .and. .not. p) then; x = -x; end if; end do` -/
def demo : List (Stmt E) :=
  [.doLoop "i" (.ilit 1) (.sum false [.var "n", .prod false [.pyint (-1), .ilit 1]]) (some (.ilit 1))
    [.ifte (.land [.cmp .gt (.sum false [.var "a", .prod false [.pyint (-1), .prod false [.var "b", .var "c"]]])
                            (.quot false (.pow false (.sum true [.var "x", .ilit 1]) (.ilit 2)) (.prod true [.var "a", .var "b"])),
                   .lnot (.var "p")])
       [.assign "x" (.prod false [.pyint (-1), .var "x"])] []]]

example : OkStmts (fun t => Good fcfg t = true) demo := by
  simp only [demo, OkStmts, OkStmt, and_true]
  repeat' constructor
  all_goals first | decide | (intro s hs; cases hs; decide)

end LokiModel.C01
