import LokiModel.C05.Pipeline
import LokiModel.C05.Pinned
import LokiModel.Generated.C05Tables
/-!
# C05 — frontend input sanitisation leaves untargeted text untouched (property theorems)

Model: `LokiModel/C05/Model.lean` (`sanitizeLine` = the six rules of `sanitize_registry[FP]` on one line,
`effective` = statement text after the re-insertion callbacks, `segments` = code / literal / comment pieces).

The full statement `C05_full` ("every literal and comment stretch of every line survives") is **false** for
the unchanged code (`C05_full_false`, witness `print *, '__LINE__'`).  What is proved instead:

* `C05_no_trigger_identity` (full strength): a line that contains none of the trigger texts anywhere is
  returned verbatim with empty `pp_info`.
* `C05_untargeted_partial`: outside the known-finding classes (a macro token inside a literal or comment;
  rule 1 / rule 6 firing; both OPEN rules firing) the statement text after re-insertion is the line with
  only its *code* stretches rewritten — every literal and comment stretch is carried over verbatim, in place.
* `C05_targeted_restored_convert` / `_newunit` / `C05_targeted_restored`: the recorded groups give back
  exactly the line the rule was applied to; with one OPEN rule firing the re-inserted statement text is the
  line as it was before the OPEN rules.  `C05_restored_both_false`: with both rules firing it is not.
-/
namespace LokiModel.C05

/-- the regenerated registry table is the one the model was written for -/
theorem C05_registry_pinned : LokiModel.Generated.C05.fpRules = pinnedRules := rfl

/-! ## lines without trigger text -/

/-- **C05, lines without trigger (full strength)**: for every line (any characters, with or without final
newline) that contains none of `@PROCESS`, `__FILE__`, `__FILENAME__`, `__DATE__`, `__VERSION__`, `__LINE__`,
`CONVERT=`, `NEWUNIT=` (any case), `.fypp"`, `.hypp"`, sanitisation returns the line verbatim and records nothing. -/
theorem C05_no_trigger_identity (b : Line) (nl : Bool) (h : noTrigger b = true) :
    sanitizeLine b nl = ⟨b, nl, emptyInfo⟩ := by
  simp only [noTrigger, Bool.and_eq_true, Bool.not_eq_true'] at h
  obtain ⟨⟨⟨⟨⟨h1, h2⟩, h3⟩, h4⟩, h5⟩, h6⟩ := h
  have hs := hasTok_mono strToks_sub h2
  have hi := hasTok_mono intToks_sub h2
  simp only [sanitizeLine, ruleIbm_id nl h1, ruleStrPP_id hs, ruleIntPP, scan_id hi, hasSub_tLine_of_hasTok hi,
    ruleConvert_id nl h3, ruleNewunit_id h4, ruleFypp_id nl h5 h6, emptyInfo]

/-- non-vacuity -/
example : noTrigger "  print *, 'it''s', a ! comment".toList = true := by decide

/-! ## targeted constructs are restored -/

/-- **CONVERT=**: whenever rule 4 fires on a line `b`, the recorded groups concatenate to `b` (followed by the
newline in the corner case where the group's trailing `\s*` swallowed it) and the sanitised text is `b` without the
`convert` group. -/
theorem C05_targeted_restored_convert (b : Line) (nl : Bool) (g : ConvertGroups)
    (h : (ruleConvert b nl).2.2 = some g) :
    (∃ e, (e = [] ∨ e = ['\n']) ∧ reinsertConvert g = b ++ e) ∧ (ruleConvert b nl).1 = g.ws ++ g.pre ++ g.post :=
  ruleConvert_some h

/-- **NEWUNIT=**: whenever rule 5 fires on a line `b`, the text built by `reinsert_open_newunit` is `b`. -/
theorem C05_targeted_restored_newunit (b : Line) (g : NewunitGroups) (h : (ruleNewunit b).2 = some g) :
    reinsertNewunit g = b :=
  ruleNewunit_some h

/-- **pipeline level**: if at most one of the OPEN rules fires, the statement text after the re-insertion
callbacks is the line as it was before the OPEN rules (up to the swallowed newline), provided rule 6 does not
delete the line. -/
theorem C05_targeted_restored (b : Line) (nl : Bool)
    (hboth : KnownBothOpen b nl = false) (hfypp : (sanitizeLine b nl).info.fypp = false) :
    ∃ e, (e = [] ∨ e = ['\n']) ∧ effective (sanitizeLine b nl) = beforeOpen b nl ++ e := by
  simp only [KnownBothOpen, sanitizeLine, Bool.and_eq_false_iff] at hboth hfypp
  simp only [effective, sanitizeLine, beforeOpen]
  generalize (ruleIntPP (ruleStrPP (ruleIbm b nl).1).1).1 = t3 at *
  generalize (ruleIbm b nl).2.1 = nl1 at *
  cases h5 : (ruleNewunit (ruleConvert t3 nl1).1).2 with
  | some g5 =>
    have h4 : (ruleConvert t3 nl1).2.2 = none := by
      rcases hboth with h | h
      · simpa using h
      · rw [h5] at h; simp at h
    simp only
    rw [ruleNewunit_some h5, ruleConvert_none h4]
    exact ⟨[], Or.inl rfl, by simp⟩
  | none =>
    simp only
    cases h4 : (ruleConvert t3 nl1).2.2 with
    | some g4 => exact (ruleConvert_some h4).1
    | none =>
      simp only
      rw [ruleFypp_not_fired hfypp, ruleNewunit_none h5, ruleConvert_none h4]
      exact ⟨[], Or.inl rfl, by simp⟩

/-! ## untargeted text -/

/-- the hypothesis `tokInProt b = false` of `C05_untargeted_partial` is exactly the complement of the two classes
`macro-in-string` / `macro-in-comment` used by the check -/
theorem C05_tokInProt_eq_classes (b : Line) : tokInProt b = (KnownTokInString b || KnownTokInComment b) := by
  apply Bool.eq_iff_iff.mpr
  simp only [tokInProt, KnownTokInString, KnownTokInComment, tokInKind, Bool.or_eq_true, List.any_eq_true,
    Bool.and_eq_true, beq_iff_eq]
  constructor
  · rintro ⟨p, hp, ht⟩
    cases hk : p.kind with
    | str => exact Or.inl ⟨p, hp, hk, ht⟩
    | comment => exact Or.inr ⟨p, hp, hk, ht⟩
    | none =>
      have := segF_kind _ _ p hp hk
      rw [this] at ht; simp [hasTok] at ht
  · rintro (⟨p, hp, _, ht⟩ | ⟨p, hp, _, ht⟩) <;> exact ⟨p, hp, ht⟩

/-- the full statement: for every line, the statement text after sanitisation and re-insertion is the line with
only code stretches rewritten (every literal and comment stretch verbatim, in place) -/
def C05_full : Prop :=
  ∀ (b : Line) (nl : Bool), ∃ (g : Line → Line) (e : Line),
    effective (sanitizeLine b nl) = flat (mapCode g (segments b)) ++ e ∧ (e = [] ∨ e = ['\n'])

/-- **C05, untargeted text (partial)**: outside the known-finding classes — no macro token inside a literal or
comment (`tokInProt`), rule 1 (`@PROCESS`) and rule 6 (Fypp annotation) do not fire, not both OPEN rules fire —
the statement text after sanitisation and re-insertion is obtained from the line by rewriting code stretches only:
every character-literal stretch and the comment are carried over verbatim, in place.
Missing for the full statement: exactly those classes (see `C05_full_false`); the `&` continuation branch of the
re-insertion callbacks and parsability of the intermediate text are not modelled. -/
theorem C05_untargeted_partial (b : Line) (nl : Bool)
    (htok : tokInProt b = false) (hibm : (sanitizeLine b nl).info.ibm = false)
    (hfypp : (sanitizeLine b nl).info.fypp = false) (hboth : KnownBothOpen b nl = false) :
    ∃ (g : Line → Line) (e : Line),
      effective (sanitizeLine b nl) = flat (mapCode g (segments b)) ++ e ∧ (e = [] ∨ e = ['\n']) := by
  obtain ⟨e, he, heq⟩ := C05_targeted_restored b nl hboth hfypp
  obtain ⟨g, hg⟩ := pp_local b htok
  refine ⟨g, e, ?_, he⟩
  rw [heq, beforeOpen]
  have : ruleIbm b nl = (b, nl, false) := ruleIbm_not_fired (by simpa [sanitizeLine] using hibm)
  rw [this, hg]

/-- non-vacuity: an OPEN statement with a literal, a targeted argument, a code macro and a comment satisfies the hypotheses -/
example : let b := "  OPEN(UNIT=__LINE__, FILE='it''s', CONVERT='BIG_ENDIAN') ! why".toList
    tokInProt b = false ∧ (sanitizeLine b true).info.ibm = false ∧ (sanitizeLine b true).info.fypp = false ∧
    KnownBothOpen b true = false ∧
    effective (sanitizeLine b true) = "  OPEN(UNIT=0, FILE='it''s', CONVERT='BIG_ENDIAN') ! why".toList := by
  decide

/-- the witness of the probed defect: `print *, '__LINE__'` is turned into `print *, '0'` -/
theorem C05_witness : effective (sanitizeLine "print *, '__LINE__'".toList true) = "print *, '0'".toList := by decide

/-- **the full statement is false** for the unchanged code: whatever the code rewriter, the result would have to
contain the literal stretch `'__LINE__'`, but `print *, '0'` contains no underscore -/
theorem C05_full_false : ¬ C05_full := by
  intro h
  obtain ⟨g, e, heq, he⟩ := h "print *, '__LINE__'".toList true
  rw [C05_witness] at heq
  have hseg : segments "print *, '__LINE__'".toList = [⟨"print *, ".toList, .str, "'__LINE__'".toList⟩, ⟨[], .none, []⟩] := by decide
  rw [hseg] at heq
  simp only [flat, mapCode, List.append_nil] at heq
  have hmem : '_' ∈ g "print *, ".toList ++ "'__LINE__'".toList ++ g [] ++ e := by
    apply List.mem_append_left; apply List.mem_append_left; apply List.mem_append_right; decide
  rw [← heq] at hmem
  exact absurd hmem (by decide)

/-- **both OPEN rules on one line**: the NEWUNIT re-insertion is built from the text that no longer has the
CONVERT argument and overwrites the CONVERT re-insertion — the CONVERT argument is lost -/
theorem C05_restored_both_false :
    ¬ (∀ (b : Line) (nl : Bool), (sanitizeLine b nl).info.fypp = false →
        ∃ e, (e = [] ∨ e = ['\n']) ∧ effective (sanitizeLine b nl) = beforeOpen b nl ++ e) := by
  intro h
  obtain ⟨e, he, heq⟩ := h "open(newunit=iu, convert='big_endian')".toList true (by decide)
  have h1 : effective (sanitizeLine "open(newunit=iu, convert='big_endian')".toList true) = "open(newunit=iu)".toList := by decide
  have h2 : beforeOpen "open(newunit=iu, convert='big_endian')".toList true = "open(newunit=iu, convert='big_endian')".toList := by decide
  rw [h1, h2] at heq
  have hlen := congrArg List.length heq
  rcases he with rfl | rfl <;> simp at hlen

/-! ## fix candidate checked in the model -/

/-- fix candidate: apply the re-insertion callbacks in *reverse* registry order (undo the last rewrite first) -/
def effectiveRev (o : Out) : Line :=
  match o.info.convert with
  | some g => reinsertConvert g
  | none =>
    match o.info.newunit with
    | some g => reinsertNewunit g
    | none => o.text

/-- with the callbacks applied in reverse order the statement text is the line as it was before the OPEN rules
for **every** line on which rule 6 does not fire — also when both OPEN rules fire (the fix candidate for the
class `open-convert-and-newunit`, checked in the model) -/
theorem C05_fix_reverse_order (b : Line) (nl : Bool) (hfypp : (sanitizeLine b nl).info.fypp = false) :
    ∃ e, (e = [] ∨ e = ['\n']) ∧ effectiveRev (sanitizeLine b nl) = beforeOpen b nl ++ e := by
  simp only [sanitizeLine] at hfypp
  simp only [effectiveRev, sanitizeLine, beforeOpen]
  generalize (ruleIntPP (ruleStrPP (ruleIbm b nl).1).1).1 = t3 at *
  generalize (ruleIbm b nl).2.1 = nl1 at *
  cases h4 : (ruleConvert t3 nl1).2.2 with
  | some g4 => exact (ruleConvert_some h4).1
  | none =>
    simp only
    cases h5 : (ruleNewunit (ruleConvert t3 nl1).1).2 with
    | some g5 =>
      simp only
      rw [ruleNewunit_some h5, ruleConvert_none h4]
      exact ⟨[], Or.inl rfl, by simp⟩
    | none =>
      simp only
      rw [ruleFypp_not_fired hfypp, ruleNewunit_none h5, ruleConvert_none h4]
      exact ⟨[], Or.inl rfl, by simp⟩

example : effectiveRev (sanitizeLine "open(newunit=iu, convert='big_endian')".toList true)
    = "open(newunit=iu, convert='big_endian')".toList := by decide
end LokiModel.C05
