import LokiModel.C05.Pipeline
import LokiModel.C05.Pinned
import LokiModel.Generated.C05Tables
/-!
# C05 — frontend input sanitisation leaves untargeted text untouched (property theorems)

Model: `LokiModel/C05/Model.lean` (`sanitizeLine` = the six rules of `sanitize_registry[FP]` on one line,
`effective` = statement text after the re-insertion callbacks, `segments` = code / literal / comment pieces).
The model is the code after the three `fix:` commits of the fix wave (callbacks applied in reverse registry order;
`@PROCESS` / Fypp patterns anchored at the line start; `__LINE__` protected inside `#` directive lines).

The full statement `C05_full` ("every literal and comment stretch of every line survives") is still **false**
(`C05_full_false`, witness `print *, '__LINE__'`: the rules are not quote/comment aware).  What is proved:

* `C05_no_trigger_identity` (full strength): a line that contains none of the trigger texts anywhere is
  returned verbatim with empty `pp_info`.
* `C05_directive_rules_anchored` (full strength): rules 1 and 6 fire only on lines that consist of blanks followed by
  the directive, and then delete the whole line (nothing else of a line is ever removed by them).
* `C05_pp_directive_untouched` (full strength): a `#` directive line with a macro token after the `#` passes the
  macro rule (rule 2, and since the fix rule 3 for `__LINE__`) verbatim.
* `C05_targeted_restored_convert` / `_newunit` (full strength) and `C05_targeted_restored` (full strength since the
  fix): the recorded groups give back exactly the line the rule was applied to, and after both callbacks the statement
  text is the line as it was before the OPEN rules — also when both rules fire.
* `C05_untargeted_partial`: outside the open known-finding classes (a macro token inside a literal or comment) and
  when the line is not a directive line deleted by rule 1 / rule 6, the statement text after re-insertion is the line
  with only its *code* stretches rewritten — every literal and comment stretch is carried over verbatim, in place.
-/
namespace LokiModel.C05

/-- the regenerated registry table is the one the model was written for -/
theorem C05_registry_pinned : LokiModel.Generated.C05.fpRules = pinnedRules := rfl

/-! ## lines without trigger text -/

/-- **C05, lines without trigger (full strength)**: for every line (any characters, with or without final
newline) that contains none of `@PROCESS`, `__FILE__`, `__FILENAME__`, `__DATE__`, `__VERSION__`, `__LINE__`,
`CONVERT=`, `NEWUNIT=` (any case), `.fypp"`, `.hypp"`, sanitisation returns the line verbatim and records nothing. -/
theorem C05_no_trigger_identity (b : Line) (nl : Bool) (h : noTrigger b = true) :
    sanitizeLine b nl = ⟨b, nl, emptyInfo⟩ := by
  simp only [noTrigger, Bool.and_eq_true, Bool.not_eq_true'] at h
  obtain ⟨⟨⟨⟨⟨h1, h2⟩, h3⟩, h4⟩, h5⟩, h6⟩ := h
  have hs := hasTok_mono strToks_sub h2
  have hi := hasTok_mono intToks_sub h2
  simp only [sanitizeLine, ruleIbm_id nl h1, ruleStrPP, ruleIntPP, rulePP_id hs, rulePP_id hi,
    ruleConvert_id nl h3, ruleNewunit_id h4, ruleFypp_id nl h5 h6, emptyInfo]

/-- non-vacuity -/
example : noTrigger "  print *, 'it''s', a ! comment".toList = true := by decide

/-! ## targeted constructs are restored -/

/-- **CONVERT=**: whenever rule 4 fires on a line `b`, the recorded groups concatenate to `b` (followed by the
newline in the corner case where the group's trailing `\s*` swallowed it) and the sanitised text is `b` without the
`convert` group. -/
theorem C05_targeted_restored_convert (b : Line) (nl : Bool) (g : ConvertGroups)
    (h : (ruleConvert b nl).2.2 = some g) :
    (∃ e, (e = [] ∨ e = ['\n']) ∧ reinsertConvert g = b ++ e) ∧ (ruleConvert b nl).1 = g.ws ++ g.pre ++ g.post :=
  ruleConvert_some h

/-- **NEWUNIT=**: whenever rule 5 fires on a line `b`, the text built by `reinsert_open_newunit` is `b`. -/
theorem C05_targeted_restored_newunit (b : Line) (g : NewunitGroups) (h : (ruleNewunit b).2 = some g) :
    reinsertNewunit g = b :=
  ruleNewunit_some h

/-- **pipeline level (full strength since the fix)**: for every line that rule 6 does not delete, the statement
text after the re-insertion callbacks (applied in reverse registry order) is the line as it was before the OPEN rules
(up to the swallowed newline) — whether rule 4, rule 5, both or none fired. -/
theorem C05_targeted_restored (b : Line) (nl : Bool) (hfypp : (sanitizeLine b nl).info.fypp = false) :
    ∃ e, (e = [] ∨ e = ['\n']) ∧ effective (sanitizeLine b nl) = beforeOpen b nl ++ e := by
  simp only [sanitizeLine] at hfypp
  simp only [effective, sanitizeLine, beforeOpen]
  generalize (ruleIntPP (ruleStrPP (ruleIbm b nl).1).1).1 = t3 at *
  generalize (ruleIbm b nl).2.1 = nl1 at *
  cases h4 : (ruleConvert t3 nl1).2.2 with
  | some g4 => exact (ruleConvert_some h4).1
  | none =>
    simp only
    cases h5 : (ruleNewunit (ruleConvert t3 nl1).1).2 with
    | some g5 =>
      simp only
      rw [ruleNewunit_some h5, ruleConvert_none h4]
      exact ⟨[], Or.inl rfl, by simp⟩
    | none =>
      simp only
      rw [ruleFypp_not_fired hfypp, ruleNewunit_none h5, ruleConvert_none h4]
      exact ⟨[], Or.inl rfl, by simp⟩

/-- non-vacuity: both OPEN rules fire and the statement is restored -/
example : let o := sanitizeLine "open(newunit=iu, file=fn, convert='big_endian')".toList true
    o.info.convert.isSome = true ∧ o.info.newunit.isSome = true ∧ o.text = "open(iu, file=fn)".toList ∧
    effective o = "open(newunit=iu, file=fn, convert='big_endian')".toList := by decide

/-! ## statements continued with `&` -/

/-- **NEWUNIT=, continuation branch**: rule 5 fired on the first line `b` of a statement, its `args2` group ends with
`&`, the node's source string is the sanitised first line followed by `T` (the remaining lines), and the first
occurrence of `args2` in that string is the one at the end of the first line.  Then `reinsert_open_newunit` gives
the original first line followed by the remaining lines (right-stripped): the whole statement is back.
Without the last hypothesis the slice starts elsewhere (class `open-continued-tail-missing` when `args2` is not found
at all, see `C05_continued_tail_missing_witness`). -/
theorem C05_newunit_continued_restored (b : Line) (g : NewunitGroups) (T : Line)
    (h : (ruleNewunit b).2 = some g) (hamp : endsAmp g.args2 = true)
    (hfind : findSub g.args2 ((ruleNewunit b).1 ++ T) = some ((ruleNewunit b).1.length - g.args2.length)) :
    newunitCont g ((ruleNewunit b).1 ++ T) = b ++ rstripWs T := by
  have htext := ruleNewunit_text h
  rw [htext] at hfind ⊢
  have hlen : (g.ws ++ g.opn ++ g.val ++ g.delim.getD [] ++ g.args1 ++ g.args2).length - g.args2.length
      = (g.ws ++ g.opn ++ g.val ++ g.delim.getD [] ++ g.args1).length := by
    simp only [List.length_append]; omega
  rw [hlen] at hfind
  simp only [newunitCont, hamp, if_true]
  rw [contTail_suffix _ _ _ hfind, ruleNewunit_some h]

/-- **CONVERT=, continuation branch**: the same for `reinsert_convert_endian` and its `post` group. -/
theorem C05_convert_continued_restored (b : Line) (nl : Bool) (g : ConvertGroups) (T : Line)
    (h : (ruleConvert b nl).2.2 = some g) (hamp : endsAmp g.post = true)
    (hfind : findSub g.post ((ruleConvert b nl).1 ++ T) = some ((ruleConvert b nl).1.length - g.post.length)) :
    convertCont g ((ruleConvert b nl).1 ++ T) = b ++ rstripWs T := by
  have htext := (ruleConvert_some h).2
  have hne : g.post ≠ [] := by
    intro he; rw [he] at hamp; simp [endsAmp] at hamp
  rw [htext] at hfind ⊢
  have hlen : (g.ws ++ g.pre ++ g.post).length - g.post.length = (g.ws ++ g.pre).length := by
    simp only [List.length_append]; omega
  rw [hlen] at hfind
  simp only [convertCont, hamp, if_true]
  rw [contTail_suffix _ _ _ hfind, ruleConvert_some_post h hne]

/-- non-vacuity and composition: a continued OPEN with both arguments on its first line, sanitised source string -/
example :
    let o := sanitizeLine "  open(newunit=iu, convert='big_endian', &".toList true
    effectiveCont o (o.text ++ "\n   & file=fn)  ".toList)
      = "  open(newunit=iu, convert='big_endian', &\n   & file=fn)".toList ∧
    KnownContTailMissing o (o.text ++ "\n   & file=fn)  ".toList) = false := by decide

/-- the open class `open-continued-tail-missing` (unchanged code): parsed through `Sourcefile` the node carries the
*raw* text, in which the `args2` group of rule 5 (taken after `CONVERT=` was removed) does not occur; `find` returns
-1 and the statement is garbled -/
theorem C05_continued_tail_missing_witness :
    let o := sanitizeLine "open(newunit=iu, file=fn, convert='big_endian', &".toList true
    let S := "open(newunit=iu, file=fn, convert='big_endian', &\n action='read')".toList
    KnownContTailMissing o S = true ∧
    effectiveCont o S ≠ S := by decide

/-! ## directive rules -/

/-- **rules 1 and 6 are anchored**: when the `@PROCESS` rule fires, the line consists of blanks followed by
`@PROCESS…` and the whole line is replaced by the empty line; when the Fypp rule fires, the line it sees consists of
blanks followed by `# <digit>…` and is deleted as a whole.  No part of any other line is removed by these rules. -/
theorem C05_directive_rules_anchored (b : Line) (nl : Bool) :
    ((ruleIbm b nl).2.2 = true → (litLen tProcess (b.dropWhile isWs)).isSome = true ∧ (ruleIbm b nl).1 = []) ∧
    ((ruleFypp b nl).2.2 = true → fyppAt (b.dropWhile isWs) = true ∧ (ruleFypp b nl).1 = []) ∧
    ((ruleIbm b nl).2.2 = false → ruleIbm b nl = (b, nl, false)) ∧
    ((ruleFypp b nl).2.2 = false → ruleFypp b nl = (b, nl, false)) := by
  refine ⟨?_, ?_, ruleIbm_not_fired, ruleFypp_not_fired⟩
  · intro h
    unfold ruleIbm at h ⊢
    split at h
    · rename_i hc; simp only [Bool.and_eq_true] at hc; simp [hc.2, hc.1]
    · simp at h
  · intro h
    unfold ruleFypp at h ⊢
    split at h
    · rename_i hc; simp only [Bool.and_eq_true] at hc; simp [hc.2, hc.1]
    · simp at h

/-- a literal or comment that merely mentions `@PROCESS` or a Fypp file name is no longer touched -/
example : (sanitizeLine "  print *, '@PROCESS' ! see @PROCESS".toList true).full = "  print *, '@PROCESS' ! see @PROCESS\n".toList := by decide
example : (sanitizeLine "  a = 1 # 1 \"foo.fypp\"".toList true).full = "  a = 1 # 1 \"foo.fypp\"\n".toList := by decide
example : (sanitizeLine "@PROCESS NOOPT".toList true).full = "\n".toList ∧ (sanitizeLine "# 3 \"a.fypp\" 2".toList true).full = [] := by decide

/-- **`#` directive lines keep their macro tokens**: if a rule-2 token follows the `#` the line passes rule 2
verbatim, and if `__LINE__` follows the `#` the line passes rule 3 verbatim (since the fix; before, `__LINE__` was
replaced by `0` inside directives too) -/
theorem C05_pp_directive_untouched (toks : List Line) (f : Line → Line) (b : Line)
    (h : (directiveLen toks b).isSome = true) : (rulePP toks f b).1 = b := by
  unfold rulePP
  cases hd : directiveLen toks b with
  | none => rw [hd] at h; simp at h
  | some n => rfl

example : (sanitizeLine "#define HERE __FILE__ // __LINE__".toList true).full = "#define HERE __FILE__ // __LINE__\n".toList := by decide

/-! ## untargeted text -/

/-- the hypothesis `tokInProt b = false` of `C05_untargeted_partial` is exactly the complement of the two classes
`macro-in-string` / `macro-in-comment` used by the check -/
theorem C05_tokInProt_eq_classes (b : Line) : tokInProt b = (KnownTokInString b || KnownTokInComment b) := by
  apply Bool.eq_iff_iff.mpr
  simp only [tokInProt, KnownTokInString, KnownTokInComment, tokInKind, Bool.or_eq_true, List.any_eq_true,
    Bool.and_eq_true, beq_iff_eq]
  constructor
  · rintro ⟨p, hp, ht⟩
    cases hk : p.kind with
    | str => exact Or.inl ⟨p, hp, hk, ht⟩
    | comment => exact Or.inr ⟨p, hp, hk, ht⟩
    | none =>
      have := segF_kind _ _ p hp hk
      rw [this] at ht; simp [hasTok] at ht
  · rintro (⟨p, hp, _, ht⟩ | ⟨p, hp, _, ht⟩) <;> exact ⟨p, hp, ht⟩

/-- the full statement: for every line, the statement text after sanitisation and re-insertion is the line with
only code stretches rewritten (every literal and comment stretch verbatim, in place) -/
def C05_full : Prop :=
  ∀ (b : Line) (nl : Bool), ∃ (g : Line → Line) (e : Line),
    effective (sanitizeLine b nl) = flat (mapCode g (segments b)) ++ e ∧ (e = [] ∨ e = ['\n'])

/-- **C05, untargeted text (partial)**: if no macro token lies inside a literal or comment (`tokInProt`, the open
known-finding classes `macro-in-string` / `macro-in-comment`) and the line is not a directive line deleted by rule 1
(`@PROCESS`) or rule 6 (Fypp annotation; both anchored, see `C05_directive_rules_anchored`), the statement text after
sanitisation and re-insertion is obtained from the line by rewriting code stretches only: every character-literal
stretch and the comment are carried over verbatim, in place.
Missing for the full statement: exactly the class `tokInProt` (see `C05_full_false`); the `&` continuation branch of
the re-insertion callbacks and parsability of the intermediate text are not modelled. -/
theorem C05_untargeted_partial (b : Line) (nl : Bool)
    (htok : tokInProt b = false) (hibm : (sanitizeLine b nl).info.ibm = false)
    (hfypp : (sanitizeLine b nl).info.fypp = false) :
    ∃ (g : Line → Line) (e : Line),
      effective (sanitizeLine b nl) = flat (mapCode g (segments b)) ++ e ∧ (e = [] ∨ e = ['\n']) := by
  obtain ⟨e, he, heq⟩ := C05_targeted_restored b nl hfypp
  obtain ⟨g, hg⟩ := pp_local b htok
  refine ⟨g, e, ?_, he⟩
  rw [heq, beforeOpen]
  have : ruleIbm b nl = (b, nl, false) := ruleIbm_not_fired (by simpa [sanitizeLine] using hibm)
  rw [this, hg]

/-- non-vacuity: an OPEN statement with a literal, both targeted arguments, a code macro and a comment satisfies the hypotheses -/
example : let b := "  OPEN(NEWUNIT=iu, RECL=__LINE__, FILE='it''s', CONVERT='BIG_ENDIAN') ! why".toList
    tokInProt b = false ∧ (sanitizeLine b true).info.ibm = false ∧ (sanitizeLine b true).info.fypp = false ∧
    effective (sanitizeLine b true) = "  OPEN(NEWUNIT=iu, RECL=0, FILE='it''s', CONVERT='BIG_ENDIAN') ! why".toList := by
  decide

/-- the witness of the probed defect: `print *, '__LINE__'` is turned into `print *, '0'` -/
theorem C05_witness : effective (sanitizeLine "print *, '__LINE__'".toList true) = "print *, '0'".toList := by decide

/-- **the full statement is false** for the unchanged code: whatever the code rewriter, the result would have to
contain the literal stretch `'__LINE__'`, but `print *, '0'` contains no underscore -/
theorem C05_full_false : ¬ C05_full := by
  intro h
  obtain ⟨g, e, heq, he⟩ := h "print *, '__LINE__'".toList true
  rw [C05_witness] at heq
  have hseg : segments "print *, '__LINE__'".toList = [⟨"print *, ".toList, .str, "'__LINE__'".toList⟩, ⟨[], .none, []⟩] := by decide
  rw [hseg] at heq
  simp only [flat, mapCode, List.append_nil] at heq
  have hmem : '_' ∈ g "print *, ".toList ++ "'__LINE__'".toList ++ g [] ++ e := by
    apply List.mem_append_left; apply List.mem_append_left; apply List.mem_append_right; decide
  rw [← heq] at hmem
  exact absurd hmem (by decide)

end LokiModel.C05
