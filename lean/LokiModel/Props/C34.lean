import LokiModel.C34.Seq
import LokiModel.C34.Dedup
import LokiModel.C34.Expand
/-!
# C34 — call-signature rewrites preserve behaviour: property theorems

Sequence association (`seqProgram`, model of `SequenceAssociationTransformer`): for an element actual `x(s, ss)` bound to a
RANK-1 array dummy the model writes the section `x(s:hi, ss)` (`seq_model_rank1`); the elements of that section — computed with
the interpreter's own `secShape`/`positions`/`evalSec` — are the storage sequence FIR's `callSub` copies in and out for the
element actual, cut to the length of the section (`seqassoc_copyin_sound`, `seqassoc_copyout_sound`), so a dummy that is not
longer than the section (`KnownSeqShort = false`) is filled and written back identically.  FIR's `callSub` has no section
actuals, so the statement is at the level of the data copied, as the semantics of a section actual.

Duplicate arguments (`dedupProgram`, model of `remove_duplicate_args_from_calls`): `dedup_sound_partial`.

Derived-type expansion: `expand_consistent` (abstract record flattening).
-/
namespace LokiModel.C34
open LokiModel.Fir
open LokiModel.Expr (Val)

/-- the model's rewrite of an element actual bound to a rank-1 dummy: first subscript becomes `s : declared upper bound` -/
theorem seq_model_rank1 (lo hi : Ex) (ds : List (Ex × Ex)) (s : Ex) (ss : List Ex) :
    seqNewDims 1 ((lo, hi) :: ds) (s :: ss) = .rng (some s) (some hi) none :: ss.map .at := by
  simp [seqNewDims, seqZip]

/-- **seqassoc_sound, copy-in.**  Array `x` with bounds `(l,h) :: rest` and data `data` (holding at least its first-dimension
column from the element on: `hfit`, true of every cell made by `declCell`), element actual `x(s, ss)` denoting the in-bounds
element `(i, is)` with flat offset `o`, `hiE` evaluating to the declared upper bound `h`:
the rewritten actual `x(s:hiE, ss)` has elements whose flat offsets exist, and reading through them gives exactly the first
`h-i+1` values of what `actualData` passes for the element actual.  Hence every dummy cell `c` with at most `h-i+1` elements
(`KnownSeqShort = false`) is filled identically. -/
theorem seqassoc_copyin_sound {st : St} {x : String} {ty : Ty} {l h : Int} {rest : List (Int × Int)}
    {data : List (Option Val)} {s hiE : Ex} {ss : List Ex} {i : Int} {is : List Int} {o : Nat}
    (hcell : lookupCell st x = some (.array ty ((l, h) :: rest) data)) (hal : lookupAlias st x = none)
    (hs : evalE st [] s = some (.int i)) (hss : evalIdx st [] ss = some is) (hlen : rest.length = ss.length)
    (hh : evalE st [] hiE = some (.int h))
    (ho : offset ((l, h) :: rest) (i :: is) = some o) (hfit : o + (h - i + 1).toNat ≤ data.length) :
    actualData st (.idx x (s :: ss)) = some (data.drop o) ∧
    ∃ elems offs, secElems st x (seqNewDims 1 [(.lit (.int l), hiE)] (s :: ss)) = some elems ∧
      elems.mapM (offset ((l, h) :: rest)) = some offs ∧
      secRead data offs = (data.drop o).take (h - i + 1).toNat ∧
      ∀ c : Cell, KnownSeqShort (cellData c).length (h - i + 1).toNat = false →
        fillCell c (secRead data offs) = fillCell c (data.drop o) := by
  have hb : boundsOf st x = some ((l, h) :: rest) := by simp [boundsOf, hal, hcell]
  have hil : l ≤ i ∧ i ≤ h := by
    simp only [offset] at ho
    by_cases hb' : l ≤ i ∧ i ≤ h
    · exact hb'
    · rw [if_neg hb'] at ho; cases ho
  constructor
  · simp [actualData, evalIdx, hs, hss, asInt, resolve, hal, hcell, ho]
  · refine ⟨_, _, ?_, offsets_consecutive ho (h - i + 1).toNat (by omega), ?_, ?_⟩
    · rw [seq_model_rank1]; exact secElems_seq hb hs hss hlen hh
    · exact secRead_consecutive data o _ hfit
    · intro c hc
      rw [secRead_consecutive data o _ hfit]
      have hc' : (cellData c).length ≤ (h - i + 1).toNat := by
        simpa [KnownSeqShort] using hc
      cases c with
      | scalar ty' v =>
        simp only [cellData, List.length_singleton] at hc'
        cases hd : data.drop o with
        | nil => simp
        | cons a as =>
          cases hn : (h - i + 1).toNat with
          | zero => omega
          | succ n => cases a <;> simp [fillCell]
      | array ty' bs d =>
        simp only [cellData] at hc'
        simp only [fillCell, Option.some.injEq, Cell.array.injEq, true_and]
        have hl : (List.drop o data).length = data.length - o := by simp
        by_cases hlt : (data.drop o).length ≤ (h - i + 1).toNat
        · rw [List.take_of_length_le hlt]
        · have hlt' : (h - i + 1).toNat < (data.drop o).length := by omega
          have e1 : min (List.take (h - i + 1).toNat (List.drop o data)).length d.length = d.length := by
            simp; omega
          have e2 : min (List.drop o data).length d.length = d.length := by omega
          rw [e1, e2, List.take_take]
          congr 2
          omega

/-- **seqassoc_sound, copy-out.**  Writing the final values `vals` of the dummy back through the elements of the section
gives the array data `writeBack` produces for the element actual, when the dummy is not longer than the section. -/
theorem seqassoc_copyout_sound {l h : Int} {rest : List (Int × Int)} {data vals : List (Option Val)}
    {i : Int} {is : List Int} {o : Nat}
    (ho : offset ((l, h) :: rest) (i :: is) = some o) (hfit : o + (h - i + 1).toNat ≤ data.length)
    (hshort : KnownSeqShort vals.length (h - i + 1).toNat = false) :
    ∃ offs, ((List.range (h - i + 1).toNat).map fun (k : Nat) => (i + (k : Int)) :: is).mapM (offset ((l, h) :: rest)) = some offs ∧
      secWrite data offs vals
        = data.take o ++ vals.take (min vals.length (data.length - o)) ++ data.drop (o + min vals.length (data.length - o)) := by
  have hil : l ≤ i ∧ i ≤ h := by
    simp only [offset] at ho
    by_cases hb' : l ≤ i ∧ i ≤ h
    · exact hb'
    · rw [if_neg hb'] at ho; cases ho
  have hv : vals.length ≤ (h - i + 1).toNat := by simpa [KnownSeqShort] using hshort
  refine ⟨_, offsets_consecutive ho (h - i + 1).toNat (by omega), ?_⟩
  rw [range_map_add, secWrite_consecutive vals data o _ hfit hv]
  have : min vals.length (data.length - o) = vals.length := by omega
  rw [this, List.take_length]

/-- **dedup_sound_partial.**  Callee state `σ` of the original call and `σ'` of the rewritten call (`Merged`: every removed
dummy reads like the kept dummy of its group — established at entry by `merged_of_equal_cells`, because the dummies of a group
are copied in from the same actual, and preserved as long as no dummy of a group is written, the documented aliasing
precondition): every expression of the callee body, COMPLETELY renamed, evaluates in `σ'` to what the original evaluates to in
`σ`, at every array position; the real renaming `renE` is the complete one whenever the two coincide (`hfull`, decidable; it
fails exactly in class `dedup-removed-name-left-behind`).
Missing for the unqualified `dedup_sound`: lifting from expressions to `execStmts` (a simulation over the four mutually
recursive interpreter functions for bodies that do not write the merged dummies) and the copy-out of the call. -/
theorem dedup_sound_partial {m : List (String × String)} {σ σ' : St} (hm : Merged m σ σ')
    (e : Ex) (hfull : renE m e = renFullE m e) (pos : List Nat) :
    evalE σ' pos (renE m e) = evalE σ pos e := by
  rw [hfull]; exact evalE_renFull hm e pos

/-- entry states: dropping the cells of the removed dummies from the original callee's entry state gives a `Merged` state -/
theorem dedup_entry_merged {m : List (String × String)} {σ : St}
    (hal : σ.alias = [])
    (hkept : ∀ y, inMap m y = true → inMap m (ren m y) = false)
    (heq : ∀ y, inMap m y = true → lookupCell σ (ren m y) = lookupCell σ y) :
    Merged m σ { σ with store := mergeStore m σ.store } :=
  merged_of_equal_cells hal hkept heq

/-- **expand_consistent.**  Caller argument list and callee dummy list expanded position-wise by lists of equal length:
the expanded lists have the same length and pair up exactly the members that belonged together. -/
theorem expand_consistent {δ α δ' α' : Type} (fd : δ → List δ') (fa : δ → α → List α')
    (ds : List δ) (as : List α) (hl : ds.length = as.length)
    (hp : ∀ p ∈ ds.zip as, (fd p.1).length = (fa p.1 p.2).length) :
    (ds.flatMap fd).length = ((ds.zip as).flatMap fun p => fa p.1 p.2).length ∧
    (ds.flatMap fd).zip ((ds.zip as).flatMap fun p => fa p.1 p.2)
      = (ds.zip as).flatMap fun p => (fd p.1).zip (fa p.1 p.2) :=
  ⟨expand_length fd fa ds as hl hp, expand_zip fd fa ds as hl hp⟩

/-! non-vacuity -/

example : KnownSeqShort 2 3 = false := by decide
example : seqNewDims 1 [(.lit (.int 0), .var "n"), (.lit (.int 1), .lit (.int 3))] [.var "i", .lit (.int 2)]
    = [.rng (some (.var "i")) (some (.var "n")) none, .at (.lit (.int 2))] := by
  simp [seqNewDims, seqZip]
example : offset [(0, 4), (1, 3)] [2, 2] = some 7 := by decide

end LokiModel.C34
