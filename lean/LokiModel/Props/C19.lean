import LokiModel.C19.Lemmas
import LokiModel.Generated.C19Tables
/-!
# C19 — property theorems

`discover` is the specification-level discovery on the statement lines of the `Reader` model; `Session` models
`Sourcefile.from_source(frontend=REGEX, parser_classes=…)` followed by `make_complete(frontend=REGEX, parser_classes=…)`.
-/
namespace LokiModel.C19

/-- the regenerated table of `RegexParserClass` members is the one `Classes` was written for -/
theorem C19_classes_pinned :
    LokiModel.Generated.C19.parserClasses.map (·.1) =
      ["ProgramUnitClass", "InterfaceClass", "ImportClass", "TypeDefClass", "DeclarationClass", "CallClass", "PragmaClass"] := by
  decide

/-- every pattern belongs to the class the model files it under -/
theorem C19_patterns_pinned :
    LokiModel.Generated.C19.patternClass =
      [("CallPattern", "CallClass"), ("GenericBindingPattern", "TypeDefClass"), ("ImportPattern", "ImportClass"),
       ("InterfacePattern", "InterfaceClass"), ("ModulePattern", "ProgramUnitClass"), ("PragmaPattern", "PragmaClass"),
       ("ProcedureBindingPattern", "TypeDefClass"), ("ProcedureStatementPattern", "InterfaceClass"),
       ("SubroutineFunctionPattern", "ProgramUnitClass"), ("TypedefPattern", "TypeDefClass"),
       ("VariableDeclarationPattern", "DeclarationClass")] := by
  decide

/-- **incremental_commutes (partial)**: when the first request contains `ProgramUnitClass`, any sequence of further
`make_complete` requests shows exactly the discovery of the union of all requested classes.
Missing for the full statement: histories whose first request lacks `ProgramUnitClass`
(`KnownRequestBeforeUnits`, see `Findings/C19.lean`). -/
theorem C19_incremental_commutes_partial (first : Classes) (more : List Classes) (ss : List Item)
    (h : KnownRequestBeforeUnits first = false) :
    (runHistory first more).view ss = discover (more.foldl (· ∪ ·) first) ss := by
  have hpu : first.pu = true := by simpa [KnownRequestBeforeUnits] using h
  have : (runHistory first more).unitCls = some (more.foldl (· ∪ ·) first) := by
    simp only [runHistory, Session.start, hpu, if_true]
    exact foldl_complete_some _ _ _
  simp only [Session.view, this]

/-- **incremental_commutes (narrow hypothesis)**: for every history outside the class `KnownRequestLost` — i.e. unless
some class was requested only before the program units existed and never again — the view is the discovery of the
union of all requests, wherever `ProgramUnitClass` was first requested.  In particular a history whose last request
re-requests the early classes is covered. -/
theorem C19_incremental_commutes_narrow (first : Classes) (more : List Classes) (ss : List Item)
    (h : KnownRequestLost first more = false) :
    (runHistory first more).view ss = discover (requested first more) ss := by
  unfold KnownRequestLost at h
  cases hu : (runHistory first more).unitCls with
  | some u =>
    rw [hu] at h
    simp only [Session.view, hu]
    exact discover_obs _ _ (by simpa using h) ss
  | none =>
    simp only [Session.view, hu]
    have hf : first.pu = false := by
      by_cases hp : first.pu = true
      · simp only [runHistory, Session.start, hp, if_true] at hu
        rw [foldl_complete_some] at hu
        cases hu
      · simpa using hp
    have hu' : (more.foldl Session.complete ⟨first, none⟩).unitCls = none := by
      simpa [runHistory, Session.start, hf] using hu
    have hpu := foldl_complete_none more first first hu'
    simp [discover, discoverT, requested, hpu, hf]

/-- order and grouping of the requests are irrelevant: two histories (both starting with `ProgramUnitClass`)
requesting the same union of classes end in the same view -/
theorem C19_incremental_order_irrelevant (f f' : Classes) (m m' : List Classes) (ss : List Item)
    (h : KnownRequestBeforeUnits f = false) (h' : KnownRequestBeforeUnits f' = false)
    (hu : m.foldl (· ∪ ·) f = m'.foldl (· ∪ ·) f') :
    (runHistory f m).view ss = (runHistory f' m').view ss := by
  rw [C19_incremental_commutes_partial f m ss h, C19_incremental_commutes_partial f' m' ss h', hu]

/-- `merge (discover C₁ p) (discover C₂ p) = discover (C₁ ∪ C₂) p` in the form the code implements it (a re-parse
with the union): two requests in either order, or one request for the union -/
theorem C19_incremental_two (c₁ c₂ : Classes) (ss : List Item) (h₁ : c₁.pu = true) (h₂ : c₂.pu = true) :
    (runHistory c₁ [c₂]).view ss = discover (c₁ ∪ c₂) ss ∧
    (runHistory c₂ [c₁]).view ss = discover (c₁ ∪ c₂) ss ∧
    (runHistory (c₁ ∪ c₂) []).view ss = discover (c₁ ∪ c₂) ss := by
  refine ⟨?_, ?_, ?_⟩
  · exact C19_incremental_commutes_partial c₁ [c₂] ss (by simp [KnownRequestBeforeUnits, h₁])
  · rw [C19_incremental_commutes_partial c₂ [c₁] ss (by simp [KnownRequestBeforeUnits, h₂])]
    simp [Classes.union_comm]
  · exact C19_incremental_commutes_partial (c₁ ∪ c₂) [] ss (by simp [KnownRequestBeforeUnits, Classes.union_pu, h₁])

/-- what the code does for *every* history: once some request contained `ProgramUnitClass` the view is the discovery of
the union of that request and all later ones; requests before it are forgotten -/
theorem C19_incremental_general (pre : List Classes) (c : Classes) (more : List Classes) (ss : List Item)
    (hpre : ∀ x ∈ pre, x.pu = false) (hc : c.pu = true) (first : Classes) (hf : first.pu = false) :
    (runHistory first (pre ++ c :: more)).view ss = discover (more.foldl (· ∪ ·) c) ss := by
  have key : ∀ (pre : List Classes) (f : Classes), (∀ x ∈ pre, x.pu = false) →
      ((pre ++ c :: more).foldl Session.complete ⟨f, none⟩).unitCls = some (more.foldl (· ∪ ·) c) := by
    intro pre
    induction pre with
    | nil =>
      intro f _
      simp only [List.nil_append, List.foldl_cons, Session.complete, hc, if_true]
      exact foldl_complete_some _ _ _
    | cons x xs ih =>
      intro f hx
      have hx0 : x.pu = false := hx x List.mem_cons_self
      simp only [List.cons_append, List.foldl_cons, Session.complete, hx0]
      exact ih _ (fun y hy => hx y (List.mem_cons_of_mem _ hy))
  have := key pre first hpre
  simp only [runHistory, Session.start, hf] at *
  simp only [Session.view]
  rw [show (if false = true then some first else none) = (none : Option Classes) from rfl, this]

/-- **layout_invariant (token level)**: discovery depends on the statement lines only through their token lists
(lower-cased words, punctuation, opaque literals).  Any re-layout of a source that leaves the reader's token lists
unchanged — re-casing, blanks between tokens, `&` splits at token boundaries, `;` joins, comment and blank lines,
indentation — leaves the discovery unchanged, for every set of requested classes. -/
theorem C19_layout_invariant_tokens (C : Classes) (ss ss' : List Item)
    (h : ss.map (fun s => toks s.text) = ss'.map (fun s => toks s.text)) :
    discover C ss = discover C ss' := by
  simp only [discover, h]

/-- leading blanks of a statement line never matter -/
theorem C19_toks_leading_blank (l : Line) : toks (' ' :: l) = toks l := by
  simp [toks, tokenize, isWord, isWs]

/-- **reader_sound (spans)**: every statement line the reader emits has a well-formed line span -/
theorem C19_reader_spans_ok (src : List Line) : ∀ s ∈ stmts src, s.l1 ≤ s.l2 := by
  intro s hs
  have hmem := sanitizeFrom_sub _ _ s hs
  have hasc := number_asc (prepare src) 1
  exact go_ok _ none ⟨hasc.1, by intro q hq; cases hq⟩ (by intro q hq; cases hq) s hmem

/-- statement lines and queued comments of the whole item stream have well-formed spans too -/
theorem C19_reader_items_ok (src : List Line) : ∀ s ∈ items src, s.l1 ≤ s.l2 := by
  intro s hs
  have hasc := number_asc (prepare src) 1
  exact go_ok _ none ⟨hasc.1, by intro q hq; cases hq⟩ (by intro q hq; cases hq) s hs

example : KnownRequestBeforeUnits { Classes.empty with pu := true, ca := true } = false := by decide
example : KnownRequestLost { Classes.empty with im := true, td := true }
    [{ Classes.empty with pu := true }, { Classes.empty with im := true, td := true }] = false := by decide
example : KnownRequestLost { Classes.empty with im := true } [{ Classes.empty with pu := true }] = true := by decide

end LokiModel.C19
