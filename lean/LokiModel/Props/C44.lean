import LokiModel.C44.Lemmas
/-!
# C44 — parallel JIT library builds compile objects after their module dependencies (property theorems)

All statements quantify over **every** configuration (dependency function, source predicate, order
satisfying the contract `isTopo`, number of workers `w`) and **every** reachable state of the
transition system `step`, i.e. every interleaving of main-thread submissions and worker start/finish
events.  Traces are stored newest-first in `State.trace`; the statements below use the chronological
list `s.trace.reverse`.

* `C44_order` — protocol level: a dependency *that the code knows and that has a source* has finished
  before the dependent object starts.
* `C44_once`, `C44_final`, `C44_serial_eq_parallel` — every object of the walk is submitted, started and
  finished at most once in any run, exactly once in a completed (linked) run, and the set built does not
  depend on the schedule or on `w`.
* `C44_progress`, `C44_serial_run` — no deadlock with `w ≥ 1`; the serial schedule is a complete run.
* `C44_accept_sound` — a log accepted by `replay` (what the driver does with the observed compiler log)
  is a run, so the theorems apply to it.
* `C44_full` is the property itself (w.r.t. the files that *define* the used modules); it is **false**
  for the code as it is (`C44_full_false`: module name ≠ file stem), and holds outside that family
  (`C44_partial`).
-/
namespace LokiModel.C44

theorem rev_split {α} {l pre post : List α} {a : α} (h : l.reverse = pre ++ a :: post) :
    l = post.reverse ++ a :: pre.reverse := by
  have := congrArg List.reverse h
  simpa using this

/-- **C44, ordering (protocol)**: in every run, for every object `o` and every dependency `d` of `o`
that has a source, `fin d` occurs before `start o`. -/
theorem C44_order (c : Cfg) (ht : isTopo c = true) (s : State) (hr : Reach c s)
    (o d : Nat) (hd : d ∈ c.deps o) (hs : c.src d = true)
    (pre post : List Ev) (h : s.trace.reverse = pre ++ Ev.start o :: post) : Ev.fin d ∈ pre := by
  have hi := inv_reach c (isTopo_spec c ht) hr
  have := hi.prec o d post.reverse pre.reverse (rev_split h) hd hs
  simpa using this

/-- the same fact stated at the moment of the step: whenever a worker may start `o`, all its
dependencies with a source are in `done` -/
theorem C44_order_step (c : Cfg) (ht : isTopo c = true) (s s' : State) (hr : Reach c s) (o : Nat)
    (h : step c s (Ev.start o) = some s') : ∀ d ∈ c.deps o, c.src d = true → d ∈ s.done := by
  have hi := inv_reach c (isTopo_spec c ht) hr
  intro d hd hs
  simp only [step] at h
  split at h
  · rename_i hc
    simp only [Bool.and_eq_true] at hc
    exact hi.depsDone o (by simp [List.contains_iff_mem.mp hc.1]) d hd hs
  · cases h

theorem topoGo_w (d : Nat → List Nat) (sr : Nat → Bool) (wk : List Nat) (w1 w2 : Nat) :
    ∀ (l seen : List Nat), topoGo ⟨d, sr, wk, w1⟩ seen l = topoGo ⟨d, sr, wk, w2⟩ seen l := by
  intro l
  induction l with
  | nil => intro seen; rfl
  | cons a rest ih => intro seen; simp only [topoGo, ih]

theorem nodup_parts (c : Cfg) (ht : IsTopo c) (s : State) (hi : Inv c s) :
    (subs s.trace).Nodup ∧ (s.queued ++ s.running ++ s.done).Nodup := by
  have h1 : ((subs s.trace).reverse ++ s.todo).Nodup := hi.walk ▸ ht.1
  have h2 : (subs s.trace).Nodup := (List.reverse_perm _).nodup_iff.mp (List.nodup_append.mp h1).1
  exact ⟨h2, hi.psub.nodup_iff.mp h2⟩

/-- **C44, at most once**: in every run no object is submitted, started or finished twice. -/
theorem C44_once (c : Cfg) (ht : isTopo c = true) (s : State) (hr : Reach c s) :
    (subs s.trace).Nodup ∧ (starts s.trace).Nodup ∧ (fins s.trace).Nodup := by
  have htp := isTopo_spec c ht
  have hi := inv_reach c htp hr
  obtain ⟨h1, h2⟩ := nodup_parts c htp s hi
  have h3 : (s.running ++ s.done).Nodup := by
    rw [List.append_assoc] at h2
    exact (List.nodup_append.mp h2).2.1
  exact ⟨h1, hi.pstart.nodup_iff.mpr h3, hi.pfin.nodup_iff.mpr (List.nodup_append.mp h3).2.1⟩

/-- **C44, exactly once / schedule independence**: in every completed run (after `link`) the objects
started, the objects finished and the set `done` are each a permutation of the walk — every object is
built exactly once (the walk has no repetition) whatever the interleaving and the number of workers. -/
theorem C44_final (c : Cfg) (ht : isTopo c = true) (s : State) (hr : Reach c s) (hl : s.linked = true) :
    (starts s.trace).Perm c.walk ∧ (fins s.trace).Perm c.walk ∧ s.done.Perm c.walk ∧ c.walk.Nodup := by
  have htp := isTopo_spec c ht
  have hi := inv_reach c htp hr
  obtain ⟨h1, h2, h3⟩ := hi.lnk hl
  have hw : c.walk = (subs s.trace).reverse := by rw [hi.walk, h1]; simp
  have hsd : (subs s.trace).Perm s.done := by simpa [h2, h3] using hi.psub
  have hdw : s.done.Perm c.walk := by
    rw [hw]; exact hsd.symm.trans (List.reverse_perm _).symm
  have hst : (starts s.trace).Perm s.done := by simpa [h3] using hi.pstart
  exact ⟨hst.trans hdw, hi.pfin.trans hdw, hdw, htp.1⟩

/-- **C44, serial = parallel**: two completed runs over the same dependency data (any two worker
counts, any two schedules — in particular the serial build and a parallel one) have built the same
objects. -/
theorem C44_serial_eq_parallel (c1 c2 : Cfg) (hd : c1.deps = c2.deps) (hs : c1.src = c2.src)
    (hw : c1.walk = c2.walk) (ht : isTopo c1 = true) (s1 s2 : State)
    (hr1 : Reach c1 s1) (hr2 : Reach c2 s2) (hl1 : s1.linked = true) (hl2 : s2.linked = true) :
    s1.done.Perm s2.done ∧ ∀ o, o ∈ s1.done ↔ o ∈ s2.done := by
  have ht2 : isTopo c2 = true := by
    cases c1; cases c2; simp only at hd hs hw; subst hd hs hw
    simp only [isTopo] at ht ⊢
    rw [← topoGo_w]; exact ht
  have p1 := (C44_final c1 ht s1 hr1 hl1).2.2.1
  have p2 := (C44_final c2 ht2 s2 hr2 hl2).2.2.1
  have p : s1.done.Perm s2.done := p1.trans (hw ▸ p2.symm)
  exact ⟨p, fun o => p.mem_iff⟩

/-- **C44, no deadlock**: with at least one worker every reachable state that is not linked has an
enabled event (needs neither the order contract nor the invariant: a blocked main thread always has
a queued or running dependency). -/
theorem C44_progress (c : Cfg) (hw : 1 ≤ c.w) (s : State) (hl : s.linked = false) :
    ∃ e s', step c s e = some s' := by
  cases hrun : s.running with
  | cons r rs =>
    refine ⟨Ev.fin r, ?_⟩
    simp [step, hrun]
  | nil =>
    cases hq : s.queued with
    | cons q qs =>
      refine ⟨Ev.start q, ?_⟩
      have : 0 < c.w := hw
      simp [step, hq, hrun, this]
    | nil =>
      cases htd : s.todo with
      | nil =>
        refine ⟨Ev.link, ?_⟩
        simp [step, hrun, hq, htd, hl]
      | cons o rest =>
        refine ⟨Ev.submit o, ?_⟩
        have hwait : waitOK c s o = true := by
          simp only [waitOK, List.all_eq_true]
          intro d _
          simp [submitted, hq, hrun]
        simp [step, htd, hwait]

/-- the serial build's event list -/
def serialLog : List Nat → List Ev
  | [] => [Ev.link]
  | o :: rest => Ev.submit o :: Ev.start o :: Ev.fin o :: serialLog rest

theorem serial_aux (c : Cfg) (hw : 1 ≤ c.w) : ∀ (l : List Nat) (s : State), s.todo = l → s.queued = [] →
    s.running = [] → s.linked = false → ∃ s', replay c s (serialLog l) = some s' ∧ s'.linked = true := by
  intro l
  induction l with
  | nil =>
    intro s h1 h2 h3 h4
    refine ⟨{ s with linked := true, trace := Ev.link :: s.trace }, ?_, rfl⟩
    simp [serialLog, replay, step, h1, h2, h3, h4]
  | cons o rest ih =>
    intro s h1 h2 h3 h4
    have hwait : waitOK c s o = true := by
      simp only [waitOK, List.all_eq_true]
      intro d _
      simp [submitted, h2, h3]
    have hpos : 0 < c.w := hw
    let s3 : State := ⟨rest, [], [], o :: s.done, false, Ev.fin o :: Ev.start o :: Ev.submit o :: s.trace⟩
    obtain ⟨s', hs', hl'⟩ := ih s3 rfl rfl rfl rfl
    refine ⟨s', ?_, hl'⟩
    simp only [serialLog, replay]
    simp [step, h1, h2, h3, h4, hwait, hpos]
    exact hs'

/-- **C44, the serial build is a run** (non-vacuity of the statements about completed runs): for every
configuration with `w ≥ 1`, `submit o, start o, fin o` for each object of the walk in turn, then `link`,
is accepted and ends in a linked state. -/
theorem C44_serial_run (c : Cfg) (hw : 1 ≤ c.w) :
    ∃ s, replay c (init c) (serialLog c.walk) = some s ∧ s.linked = true ∧ Reach c s := by
  obtain ⟨s, h1, h2⟩ := serial_aux c hw c.walk (init c) rfl rfl rfl rfl
  exact ⟨s, h1, h2, replay_reach c _ _ _ Reach.init h1⟩

/-- **C44, trace validation is sound**: an event list accepted by `replay` from the initial state is a
run of the transition system (so every theorem above applies to an accepted compiler log). -/
theorem C44_accept_sound (c : Cfg) (log : List Ev) (s : State) (h : replay c (init c) log = some s) :
    Reach c s :=
  replay_reach c log (init c) s Reach.init h

/-! ## the property w.r.t. the files that define the used modules -/

/-- the full statement: for every file set, every order satisfying the contract for the graph *the code
derives*, every worker count and every run, every object starts only after all objects that provide
the modules it uses have finished -/
def C44_full : Prop :=
  ∀ (fs : List FileRec) (walk : List Nat) (w : Nat) (s : State),
    isTopo (cfgOf fs walk w) = true → Reach (cfgOf fs walk w) s →
    ∀ o d, d ∈ trueDeps fs o → ∀ pre post, s.trace.reverse = pre ++ Ev.start o :: post → Ev.fin d ∈ pre

/-- witness: `n10.f90` defines module `n0`, `n1.f90` (module `n1`) uses `n0`; the dependency node is
`Obj(name='n0')`, which has no source, so `[n1, n10]` is a valid order and `n1` starts first -/
def witnessFiles : List FileRec := [⟨10, 0, []⟩, ⟨1, 1, [0]⟩]

theorem C44_full_false : ¬ C44_full := by
  intro h
  have hreach : Reach (cfgOf witnessFiles [1, 10] 1)
      { todo := [10], queued := [], running := [1], done := [], linked := false,
        trace := [Ev.start 1, Ev.submit 1] } :=
    replay_reach _ [Ev.submit 1, Ev.start 1] _ _ Reach.init (by decide)
  have := h witnessFiles [1, 10] 1 _ (by decide) hreach 1 10 (by decide) [Ev.submit 1] [] (by decide)
  revert this
  decide

/-- **C44, ordering w.r.t. the defining files, outside the failing family**: if no used module is
defined by another file of the set under a stem different from the module name, then in every run every
object starts only after all objects providing the modules it uses have finished.
Missing for the full statement: exactly the inputs with `KnownStemMismatch fs = true`. -/
theorem C44_partial (fs : List FileRec) (walk : List Nat) (w : Nat) (s : State)
    (hk : KnownStemMismatch fs = false)
    (ht : isTopo (cfgOf fs walk w) = true) (hr : Reach (cfgOf fs walk w) s)
    (o d : Nat) (hd : d ∈ trueDeps fs o) (pre post : List Ev)
    (h : s.trace.reverse = pre ++ Ev.start o :: post) : Ev.fin d ∈ pre := by
  -- unfold the ground truth
  unfold trueDeps at hd
  cases hl : lookup fs o with
  | none => rw [hl] at hd; simp at hd
  | some f =>
    rw [hl] at hd
    simp only [List.mem_flatMap] at hd
    obtain ⟨u, hu, hp⟩ := hd
    simp only [providers, List.mem_map, List.mem_filter, Bool.and_eq_true, beq_iff_eq, bne_iff_ne] at hp
    obtain ⟨g, ⟨hg, hgm, hgs⟩, rfl⟩ := hp
    have hf : f ∈ fs ∧ f.stem = o := by
      unfold lookup at hl
      exact ⟨List.mem_of_find?_eq_some hl, by simpa using List.find?_some hl⟩
    -- outside the family the provider's stem is the module name
    have hgu : g.stem = u := by
      apply Classical.byContradiction
      intro hne
      have hkt : KnownStemMismatch fs = true := by
        simp only [KnownStemMismatch, List.any_eq_true, Bool.and_eq_true, beq_iff_eq, bne_iff_ne]
        exact ⟨f, hf.1, u, hu, g, hg, ⟨hgm, by rw [hf.2]; exact hgs⟩, hne⟩
      rw [hk] at hkt
      cases hkt
    have hdeps : g.stem ∈ (cfgOf fs walk w).deps o := by
      simp only [cfgOf, codeDeps, hl, hgu]; exact hu
    have hsrc : (cfgOf fs walk w).src g.stem = true := by
      simp only [cfgOf, hasSrc, lookup, List.find?_isSome]
      exact ⟨g, hg, by simp⟩
    exact C44_order (cfgOf fs walk w) ht s hr o g.stem hdeps hsrc pre post h

/-- **C44, incremental builds** (`force=False`, the objects in `fresh` are up to date and get no task — the
same situation as a used module without a source, e.g. `use mpi`): outside the stem-mismatch family, every
object that is rebuilt starts only after all **rebuilt** objects providing the modules it uses have
finished, wherever the task-less dependencies stand in its dependency list, for every order with the
contract, every `w` and every run.  (`C44_partial` is the case `fresh = []`.) -/
theorem C44_partial_incremental (fs : List FileRec) (fresh walk : List Nat) (w : Nat) (s : State)
    (hk : KnownStemMismatch fs = false)
    (ht : isTopo (cfgOfInc fs fresh walk w) = true) (hr : Reach (cfgOfInc fs fresh walk w) s)
    (o d : Nat) (hd : d ∈ trueDepsInc fs fresh o) (pre post : List Ev)
    (h : s.trace.reverse = pre ++ Ev.start o :: post) : Ev.fin d ∈ pre := by
  simp only [trueDepsInc, List.mem_filter, Bool.not_eq_true'] at hd
  obtain ⟨hd, hfresh⟩ := hd
  unfold trueDeps at hd
  cases hl : lookup fs o with
  | none => rw [hl] at hd; simp at hd
  | some f =>
    rw [hl] at hd
    simp only [List.mem_flatMap] at hd
    obtain ⟨u, hu, hp⟩ := hd
    simp only [providers, List.mem_map, List.mem_filter, Bool.and_eq_true, beq_iff_eq, bne_iff_ne] at hp
    obtain ⟨g, ⟨hg, hgm, hgs⟩, rfl⟩ := hp
    have hf : f ∈ fs ∧ f.stem = o := by
      unfold lookup at hl
      exact ⟨List.mem_of_find?_eq_some hl, by simpa using List.find?_some hl⟩
    have hgu : g.stem = u := by
      apply Classical.byContradiction
      intro hne
      have hkt : KnownStemMismatch fs = true := by
        simp only [KnownStemMismatch, List.any_eq_true, Bool.and_eq_true, beq_iff_eq, bne_iff_ne]
        exact ⟨f, hf.1, u, hu, g, hg, ⟨hgm, by rw [hf.2]; exact hgs⟩, hne⟩
      rw [hk] at hkt
      cases hkt
    have hdeps : g.stem ∈ (cfgOfInc fs fresh walk w).deps o := by
      simp only [cfgOfInc, codeDeps, hl, hgu]; exact hu
    have hsrc : (cfgOfInc fs fresh walk w).src g.stem = true := by
      simp only [cfgOfInc, hasSrc, lookup, List.find?_isSome, Bool.and_eq_true, Bool.not_eq_true']
      exact ⟨⟨g, hg, by simp⟩, hfresh⟩
    exact C44_order (cfgOfInc fs fresh walk w) ht s hr o g.stem hdeps hsrc pre post h

/-! non-vacuity -/

/-- `n2` uses the external module `n50` FIRST and then the in-tree module `n0`: submitting `n2` while `n0` is
still running is not a step of the model (the wait does not stop at the task-less dependency) -/
example : (replay (cfgOf [⟨0, 0, []⟩, ⟨2, 2, [50, 0]⟩] [0, 2] 2) (init (cfgOf [⟨0, 0, []⟩, ⟨2, 2, [50, 0]⟩] [0, 2] 2))
    [.submit 0, .start 0, .submit 2]).isSome = false := by decide
/-- incremental: `n1` is up to date, `n0` and `n2` (uses `n1` then `n0`) are rebuilt; `n2` must wait for `n0` -/
example : (replay (cfgOfInc [⟨0, 0, []⟩, ⟨1, 1, []⟩, ⟨2, 2, [1, 0]⟩] [1] [0, 2] 2)
    (init (cfgOfInc [⟨0, 0, []⟩, ⟨1, 1, []⟩, ⟨2, 2, [1, 0]⟩] [1] [0, 2] 2))
    [.submit 0, .start 0, .submit 2]).isSome = false := by decide
example : isTopo (cfgOfInc [⟨0, 0, []⟩, ⟨1, 1, []⟩, ⟨2, 2, [1, 0]⟩] [1] [0, 2] 2) = true := by decide


/-- a three-file chain outside the family: the contract holds for the code's order and a parallel
interleaving with two workers is accepted -/
example : KnownStemMismatch [⟨0, 0, []⟩, ⟨1, 1, [0]⟩, ⟨2, 2, [0]⟩] = false := by decide
example : isTopo (cfgOf [⟨0, 0, []⟩, ⟨1, 1, [0]⟩, ⟨2, 2, [0]⟩] [0, 1, 2] 2) = true := by decide
example : (replay (cfgOf [⟨0, 0, []⟩, ⟨1, 1, [0]⟩, ⟨2, 2, [0]⟩] [0, 1, 2] 2)
    (init (cfgOf [⟨0, 0, []⟩, ⟨1, 1, [0]⟩, ⟨2, 2, [0]⟩] [0, 1, 2] 2))
    [.submit 0, .start 0, .fin 0, .submit 1, .submit 2, .start 2, .start 1, .fin 2, .fin 1, .link]).isSome = true := by decide
/-- submitting `1` while its dependency `0` is still running is *not* a step of the model -/
example : (replay (cfgOf [⟨0, 0, []⟩, ⟨1, 1, [0]⟩] [0, 1] 2) (init (cfgOf [⟨0, 0, []⟩, ⟨1, 1, [0]⟩] [0, 1] 2))
    [.submit 0, .start 0, .submit 1]).isSome = false := by decide
example : KnownStemMismatch witnessFiles = true := by decide
example : trueDeps witnessFiles 1 = [10] := by decide
example : srcDeps witnessFiles 1 = [] := by decide

end LokiModel.C44
