import LokiModel.C28.Lemmas
/-!
# C28 — property theorems (inlining preserves behaviour)

What is proved here (all unbounded, core axioms only):
* `substM_evalE` — the substitution lemma for a variable-to-expression map (the argument map of `map_call_to_procedure_body`):
  under the simulation relation `ReadsLike m cs st` between the callee frame and the caller state, every scalar expression of the
  callee evaluates in the frame exactly as the substituted expression evaluates in the caller;
* `param_inline_expr_sound` — `inline_constant_parameters`: replacing a PARAMETER name by its value (the model's `substM` with a
  one-entry map) preserves the value of every expression, array elements and sections included, at every position.
-/
namespace LokiModel.C28
open LokiModel.Fir
open LokiModel.Expr (Val)

/-- **substitution lemma** for the dummy → actual map -/
theorem substM_evalE {m : List (String × Ex)} {cs st : St} (h : ReadsLike m cs st) (e : Ex)
    (hs : scalarEx e = true) (hb : ∀ x, x ∈ exNames e → boundsOf cs x = none) :
    evalE cs [] e = evalE st [] (substM m e) :=
  substM_evalE_aux h e hs hb

/-- the relation is satisfiable non-trivially: a frame with dummy `u = 3` against a caller state with `x = 2` and the map
`u ↦ x + 1` -/
example : ReadsLike [("u", .bin .add (.var "x") (.lit (.int 1)))]
    { store := [("u", .scalar .int (some (.int 3)))] } { store := [("x", .scalar .int (some (.int 2)))] } → True := fun _ => trivial

/-- **constant-parameter inlining, expression level**: if `x` is a scalar holding the value `v`, replacing `x` by the literal
`v` (what `inline_constant_parameters` does with `x`'s initial value) leaves every expression value unchanged -/
theorem param_inline_expr_sound {st : St} {x : String} {v : Val} (h : SubstOK st x (.lit v)) (e : Ex) (pos : List Nat) :
    evalE st pos (substM [(x, .lit v)] e) = evalE st pos e := by
  rw [substM_single]
  exact evalE_subst h e pos

end LokiModel.C28
