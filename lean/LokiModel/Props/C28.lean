import LokiModel.C28.Check
import LokiModel.C28.Param
/-!
# C28 — property theorems (inlining preserves behaviour)

All statements are unbounded (all programs of the covered class, all states, all fuel); axioms: propext, Quot.sound,
Classical.choice only.

**Subroutine calls.**  `inlineBody u args` is what the model of `map_call_to_procedure_body` (and, by the correspondence check,
the real transformation) puts in place of `call u(args)`: the callee body with every dummy replaced by its actual, PRINT
statements left alone.
* `inline_sound_partial` — call level: a FIR call `callSub g args` (copy-in / copy-out semantics of `Fir/Sem.lean`) that
  finishes is reproduced by running `inlineBody u args` in the caller's state with the same fuel: same printed output, same
  final cell of every variable except the callee's locals (which the transformation hoists into the caller).  Hypotheses are the
  two computable checks `callOKb` (static: conditions (i)–(iv) of the design — written dummies bound to distinct variables that
  occur in no other actual, expression actuals do not mention written variables, no name capture, local names unused by the
  actuals — plus the covered statement class) and `callStb` (the caller state is well typed at the actuals and has the hoisted
  locals).  `_partial`: callee with scalar declarations only and no PARAMETER; body made of scalar assignments, DO, DO WHILE,
  IF, SELECT CASE, EXIT, CYCLE, comments (no PRINT — not substituted by the real code, class `inline-print-not-substituted` —,
  no nested CALL, no ASSOCIATE); no array dummies, no element actuals; locals keep their names (the renaming of clashing locals
  `<callee>_<name>` is covered by the correspondence only); the run is compared for the call statement itself, the congruence
  "equal up to the hoisted locals ⇒ the rest of the caller runs alike" is not proved; only finished runs (an error of the
  call need not be reproduced, e.g. a read of an undefined local may see a stale value of the hoisted variable).
* `inline_body_sim_partial` — the simulation underneath, for any substitution map `m` (so also with renamed locals): the relation
  `Rel` between callee frame and caller state is preserved by every covered statement list.
* `substM_evalE` — substitution lemma for expressions under `ReadsLike`.

**Constant parameters.**
* `param_inline_stmts_sound` — statement level, by reuse of the C31 substitution simulation: for an integer PARAMETER `x = k`,
  a body in C31's class `okSs x` run where `x` holds `k` and the body with `x` replaced by the literal run in a state that
  agrees off `x` (e.g. without the dropped declaration) give the same error or the same signal, output and variables ≠ `x`.
  PRINT statements mentioning `x` are excluded (`okSs`): the real code leaves them alone *and* drops the declaration (class
  `param-print-not-substituted`).  `_partial` in scope: one integer parameter at a time (`paramUnit` substitutes all
  PARAMETERs of a unit simultaneously; real/logical parameters: expression level only).
* `param_inline_expr_sound` — expression level, every type.
-/
namespace LokiModel.C28
open LokiModel.Fir
open LokiModel.Expr (Val)

/-- **substitution lemma** for the dummy → actual map -/
theorem substM_evalE {m : List (String × Ex)} {cs st : St} (h : ReadsLike m cs st) (e : Ex)
    (hs : scalarEx e = true) (hb : ∀ x, x ∈ exNames e → boundsOf cs x = none) :
    evalE cs [] e = evalE st [] (substM m e) :=
  substM_evalE_aux h e hs hb

/-- **constant-parameter inlining, expression level**: if `x` is a scalar holding the value `v`, replacing `x` by the literal
`v` (what `inline_constant_parameters` does with `x`'s initial value) leaves every expression value unchanged -/
theorem param_inline_expr_sound {st : St} {x : String} {v : Val} (h : SubstOK st x (.lit v)) (e : Ex) (pos : List Nat) :
    evalE st pos (substM [(x, .lit v)] e) = evalE st pos e := by
  rw [substM_single]
  exact evalE_subst h e pos

/-- **constant-parameter inlining, statement level** (relational form, reusing `LokiModel.C31.sim`): `σ` holds the integer
PARAMETER `x = k`, `σ'` agrees with `σ` off `x` (`C31.Sim`); the body and the body with `x` replaced by the literal
(`substParamSs`, the model of `inline_constant_parameters` for this parameter) give related results with the same fuel:
both out of fuel, the same error, or states again related by `C31.Sim` with the same signal. -/
theorem param_inline_stmts_sound (P : Program) (x : String) (k : Int) (f : Nat) (ss : List Stmt) (σ σ' : St)
    (hok : C31.okSs x ss = true) (h : C31.Sim x k σ σ') :
    C31.RSim x k (execStmts P f ss σ) (execStmts P f (substParamSs [(x, C31.litInt k)] ss) σ') := by
  rw [substParamSs_single]
  exact (C31.sim P x k f).stmts ss σ σ' hok h

/-- the same, unfolded: no ASSOCIATE names, `x` is the integer scalar `k` in `σ`, `σ'` agrees with `σ` on every other name
(the declaration of `x` may be gone).  A finished run of the original is matched by the inlined body. -/
theorem param_inline_stmts_sound' (P : Program) (x : String) (k : Int) (f : Nat) (ss : List Stmt) (σ σ' : St)
    (hok : C31.okSs x ss = true) (hal : σ.alias = []) (hal' : σ'.alias = []) (hout : σ.out = σ'.out)
    (hx : lookupCell σ x = some (.scalar .int (some (.int k))))
    (hoff : ∀ y, y ≠ x → lookupCell σ y = lookupCell σ' y) :
    (∀ σ1 sg, execStmts P f ss σ = .ok σ1 sg →
        ∃ σ1', execStmts P f (substParamSs [(x, C31.litInt k)] ss) σ' = .ok σ1' sg ∧
          (∀ y, y ≠ x → lookupCell σ1 y = lookupCell σ1' y) ∧ σ1.out = σ1'.out) ∧
    (∀ msg, execStmts P f ss σ = .err msg → execStmts P f (substParamSs [(x, C31.litInt k)] ss) σ' = .err msg) := by
  have h := param_inline_stmts_sound P x k f ss σ σ' hok ⟨⟨hoff, hal, hal', hout⟩, hx⟩
  constructor
  · intro σ1 sg hr
    rw [hr] at h
    cases hr' : execStmts P f (substParamSs [(x, C31.litInt k)] ss) σ' with
    | ok b s' =>
      rw [hr'] at h
      obtain ⟨hs, he⟩ := h
      subst he
      exact ⟨b, rfl, hs.look, hs.out⟩
    | err m => rw [hr'] at h; exact h.elim
    | fuel => rw [hr'] at h; exact h.elim
  · intro msg hr
    rw [hr] at h
    cases hr' : execStmts P f (substParamSs [(x, C31.litInt k)] ss) σ' with
    | ok b s' => rw [hr'] at h; exact h.elim
    | err m => rw [hr'] at h; simp only [C31.RSim] at h; rw [h]
    | fuel => rw [hr'] at h; exact h.elim

/-- **inlining, body level**: under the decidable side condition `sideOK m V W`, a covered statement list that finishes in
the callee frame `cs` finishes with the same signal and the same fuel, after substitution, in any caller state `st` related to
the frame by `Rel`; the final states are related again and the caller's variables other than the targets of written callee
variables are untouched. -/
theorem inline_body_sim_partial (P : Program) (m : List (String × Ex)) (V W D : List String)
    (hside : sideOK m V W = true) (f : Nat) (ss : List Stmt) (cs st : St) (hok : okSs V W ss = true)
    (h : Rel m V W D cs st) (cs' : St) (sg : Sig) (hrun : execStmts P f ss cs = .ok cs' sg) :
    ∃ st', execStmts P f (substSs m ss) st = .ok st' sg ∧ Rel m V W D cs' st' ∧ Frame m W st st' := by
  obtain ⟨st', e, step⟩ := (sim P m V W D hside f).stmts ss cs st hok h cs' sg hrun
  exact ⟨st', e, step.rel, step.frame⟩

/-- **inlining, call level**: see the module docstring.  `W` is any list of callee variables that passes the check (take the
variables the body assigns and its DO variables). -/
theorem inline_sound_partial (P : Program) (g : String) (u : Fir.Unit) (args : List Ex) (W : List String) (f : Nat)
    (st st1 : St) (sg : Sig) (hu : findUnit P g = some u)
    (hok : callOKb u args W = true) (hst : callStb u args W st = true)
    (hrun : execStmt P (f + 1) (.callSub g args) st = .ok st1 sg) :
    sg = .normal ∧ ∃ st1', execStmts P f (inlineBody u args) st = .ok st1' .normal ∧
      (∀ n, n ∉ calleeLocals u → lookupCell st1 n = lookupCell st1' n) ∧ st1.out = st1'.out :=
  let ⟨h1, st1', h2, h3, h4, _, _⟩ :=
    inline_call P g u args W f st st1 sg hu (callOKb_sound hok) (callStb_sound hst) hrun
  ⟨h1, st1', h2, h3, h4⟩

/-! ### non-vacuity -/

/-- `sub1(u, v, w)`: `integer, intent(in) :: u; integer, intent(inout) :: v, w; integer :: t` -/
def exCallee : Fir.Unit :=
  { name := "sub1", args := ["u", "v", "w"],
    decls := [{ name := "u", ty := .int, dims := [], intent := .in_ }, { name := "v", ty := .int, dims := [], intent := .inout },
              { name := "w", ty := .int, dims := [], intent := .inout }, { name := "t", ty := .int, dims := [] }],
    body := [.assign (.var "t") (.bin .add (.var "u") (.lit (.int 1))),
             .ifte (.bin (.cmp .gt) (.var "t") (.lit (.int 2)))
               [.assign (.var "v") (.bin .mul (.var "t") (.lit (.int 2)))] [.assign (.var "v") (.lit (.int 0))],
             .doLoop "t" (.lit (.int 1)) (.var "u") none [.assign (.var "w") (.bin .add (.var "w") (.var "t"))]] }

/-- `call sub1(x + 1, y, z)` -/
def exArgs : List Ex := [.bin .add (.var "x") (.lit (.int 1)), .var "y", .var "z"]

def exState : St :=
  { store := [("x", .scalar .int (some (.int 1))), ("y", .scalar .int (some (.int 5))), ("z", .scalar .int none),
              ("t", .scalar .int (some (.int 99)))] }

example : callOKb exCallee exArgs ["v", "w", "t"] = true := by decide
example : callStb exCallee exArgs ["v", "w", "t"] exState = true := by decide
/-- the re-evaluation class is rejected by the check: `call sub1(x + 1, x, z)` binds the written `v` to `x` -/
example : callOKb exCallee [.bin .add (.var "x") (.lit (.int 1)), .var "x", .var "z"] ["v", "w", "t"] = false := by decide
/-- a caller variable named like the callee's local (used by an actual) is rejected: `call sub1(t + 1, y, z)` -/
example : callOKb exCallee [.bin .add (.var "t") (.lit (.int 1)), .var "y", .var "z"] ["v", "w", "t"] = false := by decide

example : C31.okSs "c"
    [.assign (.var "k") (.bin .add (.bin .mul (.var "c") (.lit (.int 2))) (.var "k")),
     .ifte (.bin (.cmp .gt) (.var "c") (.lit (.int 2))) [.print [.var "k"]] []] = true := by decide

end LokiModel.C28
