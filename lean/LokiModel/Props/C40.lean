import LokiModel.C40.Lemmas
import LokiModel.C40.AbstractLemmas
/-!
# C40 — normalising transformations are idempotent (property theorems)

Statements about the models of `LokiModel/C40/Model.lean` (FIR) and `LokiModel/C40/Abstract.lean` (declaration lists,
import lists); the correspondence check ties the models to the real functions, the direct oracle compares `fgen` after one
and after two real applications for all eight listed normalisers.
-/
namespace LokiModel.C40
open LokiModel.Fir

/-- `convert_to_lower_case` twice = once, for every FIR program (names of any letter case) -/
theorem lower_idem (p : Program) : lowerProgram (lowerProgram p) = lowerProgram p := by
  simp [lowerProgram, lowerUnits_idem]

/-- statement-list form of `deadcode_idem`: the pruned body is a fixpoint of the pruning and the transformer does not raise on it -/
theorem deadcode_idem_stmts (ss : List Stmt) : deadS (deadS ss) = deadS ss ∧ crashS (deadS ss) = false :=
  ⟨deadS_idem ss, crash_deadS ss⟩

/-- `do_remove_dead_code(·, use_simplify=False)`: whenever the first application returns (the model of the real code can
raise, see `Findings/C40.lean`), the second application returns the same program -/
theorem deadcode_idem (p q : Program) (h : deadProgram p = some q) : deadProgram q = some q := by
  unfold deadProgram at h
  split at h
  · cases h
  · cases h
    simp [deadProgram, crash_deadUnits, deadUnits_idem]

/-- `single_variable_declaration(routine, variables, group_by_shape)` for every combination of its options -/
theorem single_decl_idem (vars : Option (List String)) (g : Bool) (ds : List DeclStmt) :
    singleDecl vars g (singleDecl vars g ds) = singleDecl vars g ds := by
  unfold singleDecl
  cases g with
  | false => simpa using flatMapD_idem (splitDecl vars) (splitDecl vars) (splitDecl_fix vars) ds
  | true =>
      simp only [if_true]
      split
      · -- group, then split by `variables`
        have hhom : ∀ d ∈ flatMapD (splitDecl vars) (flatMapD groupDecl ds), Homog d := by
          intro d hd
          obtain ⟨d1, hd1, hd'⟩ := mem_flatMapD _ _ d hd
          obtain ⟨d0, _, hd1'⟩ := mem_flatMapD _ _ d1 hd1
          exact splitDecl_homog vars d1 (groupDecl_out_homog d0 d1 hd1') d hd'
        rw [flatMapD_fix groupDecl _ (fun d hd => groupDecl_fix_of_homog d (hhom d hd))]
        exact flatMapD_idem (splitDecl vars) (splitDecl vars) (splitDecl_fix vars) _
      · exact flatMapD_idem groupDecl groupDecl groupDecl_fix ds

/-- `eliminate_unused_imports` with a fixed set of used names (the set is computed from the routine without its imports) -/
theorem sanitise_imports_idem (used : List String) (imps : List Imp) :
    elimImports used (elimImports used imps) = elimImports used imps :=
  elimImports_idem used imps

/-- `sanitise_imports` on a routine with member procedures -/
theorem sanitise_routine_idem (s : Scope1) : sanitiseRoutine (sanitiseRoutine s) = sanitiseRoutine s := by
  simp [sanitiseRoutine, cleanMembers_idem, membersUsed_clean, elimImports_idem]

/-! non-vacuity -/
example : deadS [.ifte (.lit (.bool true)) [.exit] [.cycle],
      .ifte (.not (.var "p")) [.nop "comment" "a"] [.ifte (.lit (.bool false)) [] [.exit]]]
    = [.exit, .ifte (.not (.var "p")) [.nop "comment" "a"] [.exit]] := by
  simp [deadS, deadStmt, isTrueC, isFalseC]

example : singleDecl (some ["b"]) true [{ attrs := "real", syms := [⟨"a", some ["n"]⟩, ⟨"b", some ["n"]⟩, ⟨"c", none⟩] }]
  = [{ attrs := "real", syms := [⟨"a", some ["n"]⟩] }, { attrs := "real", syms := [⟨"b", some ["n"]⟩] },
     { attrs := "real", syms := [⟨"c", none⟩] }] := by decide

end LokiModel.C40
