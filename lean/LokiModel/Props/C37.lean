import LokiModel.C37.Final
import LokiModel.C37.Model
/-!
# C37 — property theorems (single-column pipelines): the core laws the SCC devector/revector steps rely on

`columnLocal jl S` (decidable, `LokiModel.C37.Frame`): every statement of `S` is `a(jl, …) = rhs`; every reference to an
array that is assigned somewhere in `S` has the loop variable `jl` itself as first subscript; no sections; hence no scalar is
written in the body (nothing is carried across iterations through a scalar) and no column other than `jl` of an assigned
array is touched.  `boundOK`: the loop bounds are literals or scalars that are not assigned in the bodies.
States are alias free (`st.alias = []`: no ASSOCIATE block is open; SCCBase resolves associates first).
-/
namespace LokiModel.C37
open LokiModel.Fir
open LokiModel.Expr (Val)

/-- **column_local_fusion** — for a column-local pair of bodies, two successive horizontal loops over the same bounds
compute exactly the state (all variables, the final value of the loop variable and the output included) that the single
fused loop computes: whenever the two-loop program finishes normally, the fused loop finishes normally with the same state
for every sufficiently large fuel.  Universally quantified over programs, bodies, bounds, states and fuel. -/
theorem column_local_fusion (p : Program) (jl : String) (lo hi : Ex) (S1 S2 : List Stmt)
    (hcl : columnLocal jl (S1 ++ S2) = true)
    (hlo : boundOK jl (targets (S1 ++ S2)) lo = true) (hhi : boundOK jl (targets (S1 ++ S2)) hi = true)
    (f : Nat) (st st' : St) (hs : st.alias = [])
    (h : execStmts p f [.doLoop jl lo hi none S1, .doLoop jl lo hi none S2] st = .ok st' .normal) :
    ∃ f', ∀ f'', f' ≤ f'' → execStmts p f'' [.doLoop jl lo hi none (S1 ++ S2)] st = .ok st' .normal :=
  fusion_exec p jl lo hi S1 S2 hcl hlo hhi f st st' hs h

/-- the commutation law behind it: iteration steps of different columns commute (`atom` = set the loop variable, execute one
column-local assignment, reset the loop variable) -/
theorem column_steps_commute {Wt : List String} {jl : String} (hjl : ¬ jl ∈ Wt) {c j j' : Int} (hne : j ≠ j') {A B : Stmt}
    (hA : clStmt jl Wt A = true) (hB : clStmt jl Wt B = true) {s t : St} (hs : s.alias = [])
    (h : (atom jl c j A s).bind (atom jl c j' B) = some t) : (atom jl c j' B s).bind (atom jl c j A) = some t :=
  atom_comm hjl hne hA hB hs h

/-- evaluation of a column-local expression in column `j` does not see a write to another column `j'` of an assigned array -/
theorem column_local_eval_frame {Wt : List String} {jl : String} {j j' : Int} {s s2 : St} (F : Frame Wt j' s s2)
    (hjl : readAt s jl [] = some (.int j)) (hne : j ≠ j') (e : Ex) (he : clE jl Wt e = true) :
    evalE s2 [] e = evalE s [] e :=
  evalE_frame F hjl hne e he

mutual
theorem demE_nil : ∀ (e : Ex), demE [] e = e
  | .lit _ => by simp [demE]
  | .var _ => by simp [demE]
  | .idx a subs => by simp [demE, demEs_nil subs]
  | .sec _ _ => by simp [demE]
  | .neg a => by simp [demE, demE_nil a]
  | .not a => by simp [demE, demE_nil a]
  | .bin o a b => by simp [demE, demE_nil a, demE_nil b]
  | .call f args => by simp [demE, demEs_nil args]
theorem demEs_nil : ∀ (es : List Ex), demEs [] es = es
  | [] => by simp [demEs]
  | e :: es => by simp [demEs, demE_nil e, demEs_nil es]
end

theorem demS_nil (s : Stmt) : demS [] s = s := by
  cases s <;> simp [demS, demE_nil]

/-- **the flat-kernel model is sound for two loops without temporaries**: on a flat kernel (see `Model.lean`) consisting of
two horizontal loops and having no local arrays, the modelled SCCBase+Devector+Demote+Revector output computes the same
final state as the original body.  Partial: kernels with more than two loops need the n-ary iteration of
`column_local_fusion` (sequencing lemmas with fuel, not done), kernels with demoted temporaries need `demote_sound`
(not proved; covered by correspondence + oracle only). -/
theorem scc_flat_two_loops_sound_partial (cfg : Cfg) (u : Fir.Unit) (S1 S2 : List Stmt)
    (hb : u.body = [.doLoop cfg.jl (.var cfg.lo) (.var cfg.hi) none S1, .doLoop cfg.jl (.var cfg.lo) (.var cfg.hi) none S2])
    (hflat : flatKernel cfg u = true) (hloc : localArrays u = [])
    (p : Program) (f : Nat) (st st' : St) (hs : st.alias = [])
    (h : execStmts p f u.body st = .ok st' .normal) :
    ∃ f', execStmts p f' (sccFlat cfg u).body st = .ok st' .normal := by
  unfold flatKernel at hflat
  cases hF : flatBodies cfg u.body with
  | none => simp [hF] at hflat
  | some S =>
    simp only [hF, Bool.and_eq_true] at hflat
    obtain ⟨⟨⟨⟨⟨⟨_, hcl⟩, hlj⟩, hhj⟩, hlt⟩, hht⟩, _⟩ := hflat
    -- S = S1 ++ S2
    have hS : S = S1 ++ S2 := by
      rw [hb] at hF
      simp [flatBodies, flatLoop] at hF
      by_cases e1 : S1 = []
      · simp [e1] at hF
      · by_cases e2 : S2 = []
        · simp [e1, e2] at hF
        · simp [e1, e2] at hF; exact hF.symm
    subst hS
    have hlo : boundOK cfg.jl (targets (S1 ++ S2)) (.var cfg.lo) = true := by
      simp only [boundOK, Bool.and_eq_true]; exact ⟨hlj, hlt⟩
    have hhi : boundOK cfg.jl (targets (S1 ++ S2)) (.var cfg.hi) = true := by
      simp only [boundOK, Bool.and_eq_true]; exact ⟨hhj, hht⟩
    rw [hb] at h
    obtain ⟨f', hf'⟩ := column_local_fusion p cfg.jl (.var cfg.lo) (.var cfg.hi) S1 S2 hcl hlo hhi f st st' hs h
    refine ⟨f', ?_⟩
    have : (sccFlat cfg u).body = [.doLoop cfg.jl (.var cfg.lo) (.var cfg.hi) none (S1 ++ S2)] := by
      have hm : List.map (demS []) (S1 ++ S2) = S1 ++ S2 := by
        rw [List.map_congr_left (fun s _ => demS_nil s)]; simp
      simp only [sccFlat, hF, hloc, List.map_nil, hm]
    rw [this]
    exact hf' f' (Nat.le_refl _)

/-! ### non-vacuity -/

/-- `t(jl) = q(jl, 1) * 0.5` then `q(jl, 2) = t(jl) + q(jl, 1)` is column local -/
example : columnLocal "jl"
    [.assign (.idx "t" [.var "jl"]) (.bin .mul (.idx "q" [.var "jl", .lit (.int 1)]) (.lit (.real (1/2)))),
     .assign (.idx "q" [.var "jl", .lit (.int 2)]) (.bin .add (.idx "t" [.var "jl"]) (.idx "q" [.var "jl", .lit (.int 1)]))]
    = true := by decide

/-- a horizontal dependence `q(jl) = q(jl - 1)` is rejected -/
example : columnLocal "jl" [.assign (.idx "q" [.var "jl"]) (.idx "q" [.bin .sub (.var "jl") (.lit (.int 1))])] = false := by
  decide

example : boundOK "jl" ["t", "q"] (.var "start") = true := by decide

end LokiModel.C37
