import LokiModel.C42.Lemmas
/-!
# C42 — lint results do not depend on parallelism or completion order (property theorems)

All statements hold for **every** configuration (per-file lint function, handlers) and **every** reachable
state of the transition system `step`: every *session* — any sequence of `lint_files_glob` calls
(`call files w`, arbitrary file lists and worker counts) on one reporter — and within each call every
interleaving of `start` / per-handler `append` / `finish` events.  "Final" means no file is pending or
running (where `Reporter.output()` may be called); `s.all` is the list of all files submitted so far.

* `C42_handlers_perm` — in every final state the list of every handler `k < nh` is a permutation of
  `all.map (handle k ∘ lint)`, which is exactly what the session run with one worker produces
  (`C42_serial_run`); so the per-file entries (and every sub-multiset selected by a predicate,
  `C42_per_file`) do not depend on the schedule or on the worker counts of the calls; only their order
  does (and the order may differ between two handlers).
* `C42_each_once` — at every moment `pending ++ running ++ done` is a permutation of the files submitted
  (no file lost or linted twice, reports of earlier calls are kept); in a final state the completion order
  and the list of files appended to each handler are permutations of it.
* `C42_count` — the summed `checked_count` is the number of files whose check succeeded.
* `C42_workers_independent` — two sessions submitting the same files (whatever the worker counts, the
  schedules and even the grouping into calls) end with permutation-equal handler lists and equal counts.
* `C42_progress`, `C42_serial_run`, `C42_accept_sound`.
* `C42_disk` — the same permutation statement for what is on disk after `Reporter.output`.
-/
namespace LokiModel.C42

variable {ρ β : Type}

/-- **C42, each file exactly once**: in every reachable state the files pending, running and done are
together a permutation of the files submitted so far; in a final state the completion order, and for
every handler the list of files that appended to it, are permutations of the files submitted. -/
theorem C42_each_once (c : Cfg ρ β) (s : State β) (hr : Reach c s) :
    (s.pending ++ s.running.map Prod.fst ++ s.done).Perm s.all ∧
    (isFinal s = true → s.done.Perm s.all ∧ ∀ k, k < c.nh → (s.apps k).Perm s.all) := by
  have hi := inv_reach c hr
  refine ⟨hi.perm, ?_⟩
  intro hf
  obtain ⟨h1, h2⟩ := final_lists hf
  have hd : s.done.Perm s.all := by simpa [h1, h2] using hi.perm
  refine ⟨hd, ?_⟩
  intro k hk
  have := hi.apps k hk
  rw [h2] at this
  exact (by simpa [served] using this : (s.apps k).Perm s.done).trans hd

/-- **C42, handler lists are permutations of the serial result**: for every session and schedule reaching
a final state, the list of handler `k` is a permutation of `all.map (handle k ∘ lint)`. -/
theorem C42_handlers_perm (c : Cfg ρ β) (s : State β) (hr : Reach c s) (hf : isFinal s = true)
    (k : Nat) (hk : k < c.nh) : (s.outs k).Perm (serialOut c s.all k) := by
  have hi := inv_reach c hr
  rw [hi.outs k]
  exact (((C42_each_once c s hr).2 hf).2 k hk).map _

/-- **C42, per-file violation sets**: for every predicate `p` on handler entries (e.g. "belongs to
file `f`") the selected entries of a final handler list are a permutation of the selected entries of the
serial result. -/
theorem C42_per_file (c : Cfg ρ β) (s : State β) (hr : Reach c s) (hf : isFinal s = true)
    (k : Nat) (hk : k < c.nh) (p : β → Bool) : ((s.outs k).filter p).Perm ((serialOut c s.all k).filter p) :=
  (C42_handlers_perm c s hr hf k hk).filter p

/-- **C42, checked count**: in a final state the summed `checked_count` is the number of submitted files
whose check returned `True`, whatever the schedule. -/
theorem C42_count (c : Cfg ρ β) (s : State β) (hr : Reach c s) (hf : isFinal s = true) :
    s.count = s.all.countP (fun f => c.ok (c.lint f)) := by
  have hi := inv_reach c hr
  rw [hi.count]
  exact ((C42_each_once c s hr).2 hf).1.countP_eq _

theorem all_of_replay (c : Cfg ρ β) : ∀ (es : List Ev) (s s' : State β), replay c s es = some s' →
    s'.all = s.all ++ filesOf es := by
  intro es
  induction es with
  | nil => intro s s' h; simp only [replay, Option.some.injEq] at h; subst h; simp [filesOf]
  | cons e es ih =>
    intro s s' h
    simp only [replay] at h
    split at h
    · rename_i s1 hs1
      have h2 := ih s1 s' h
      cases e with
      | call fs w =>
        simp only [step] at hs1
        split at hs1
        · simp only [Option.some.injEq] at hs1; subst hs1
          simp only [filesOf]; rw [h2]; simp
        · cases hs1
      | start i =>
        simp only [step] at hs1
        split at hs1
        · simp only [Option.some.injEq] at hs1; subst hs1; simpa [filesOf] using h2
        · cases hs1
      | append i pc =>
        simp only [step] at hs1
        split at hs1
        · simp only [Option.some.injEq] at hs1; subst hs1; simpa [filesOf] using h2
        · cases hs1
      | finish i =>
        simp only [step] at hs1
        split at hs1
        · simp only [Option.some.injEq] at hs1; subst hs1; simpa [filesOf] using h2
        · cases hs1
    · cases h

/-- **C42, independence of worker counts and schedules**: two sessions (event lists from a fresh
reporter) whose calls submit the same files — with any worker counts, any interleavings, any grouping
into calls, in particular the session run entirely with one worker — end, when final, with the same count
and permutation-equal handler lists.  (`Reporter.init_parallel` keeping the accumulated lists is what
makes this true across calls.) -/
theorem C42_workers_independent (c : Cfg ρ β) (es1 es2 : List Ev) (s1 s2 : State β)
    (h1 : replay c init es1 = some s1) (h2 : replay c init es2 = some s2)
    (hfiles : (filesOf es1).Perm (filesOf es2)) (hf1 : isFinal s1 = true) (hf2 : isFinal s2 = true) :
    s1.count = s2.count ∧ ∀ k, k < c.nh → (s1.outs k).Perm (s2.outs k) := by
  have hr1 := replay_reach c es1 init s1 Reach.init h1
  have hr2 := replay_reach c es2 init s2 Reach.init h2
  have ha : s1.all.Perm s2.all := by
    rw [all_of_replay c es1 init s1 h1, all_of_replay c es2 init s2 h2]
    simpa [init] using hfiles
  refine ⟨?_, ?_⟩
  · rw [C42_count c s1 hr1 hf1, C42_count c s2 hr2 hf2]
    exact ha.countP_eq _
  · intro k hk
    have p1 := C42_handlers_perm c s1 hr1 hf1 k hk
    have p2 := C42_handlers_perm c s2 hr2 hf2 k hk
    exact p1.trans ((ha.map _).trans p2.symm)

/-- **C42, no deadlock**: with at least one worker every reachable non-final state has an enabled event
(in a final state the next `call` is always enabled). -/
theorem C42_progress (c : Cfg ρ β) (s : State β) (hw : 1 ≤ s.w) (hr : Reach c s) (hf : isFinal s = false) :
    ∃ e s', step c s e = some s' := by
  cases hrun : s.running with
  | cons r rs =>
    obtain ⟨i, pc⟩ := r
    by_cases hlt : pc < c.nh
    · refine ⟨Ev.append i pc, ?_⟩
      simp [step, hrun, hlt]
    · by_cases heq : pc = c.nh
      · refine ⟨Ev.finish i, ?_⟩
        subst heq
        simp [step, hrun]
      · exfalso
        exact pc_le c s hr i pc (by simp [hrun]) (by omega)
  | nil =>
    cases hp : s.pending with
    | nil => simp [isFinal, hrun, hp] at hf
    | cons p ps =>
      refine ⟨Ev.start p, ?_⟩
      have : 0 < s.w := hw
      simp [step, hrun, hp, this]
where
  pc_le (c : Cfg ρ β) (s : State β) (hr : Reach c s) (i pc : Nat) (hm : (i, pc) ∈ s.running) (hgt : c.nh < pc) : False := by
    induction hr generalizing i pc with
    | init => simp [init] at hm
    | @step s0 s1 e _ hs ih =>
      cases e with
      | call fs w =>
        simp only [step] at hs
        split at hs
        · simp only [Option.some.injEq] at hs; subst hs
          exact ih i pc hm hgt
        · cases hs
      | start j =>
        simp only [step] at hs
        split at hs
        · simp only [Option.some.injEq] at hs; subst hs
          simp only [List.mem_append, List.mem_cons, List.not_mem_nil, or_false, Prod.mk.injEq] at hm
          rcases hm with hm | ⟨_, rfl⟩
          · exact ih i pc hm hgt
          · omega
        · cases hs
      | append j q =>
        simp only [step] at hs
        split at hs
        · rename_i hc
          simp only [Bool.and_eq_true, decide_eq_true_eq] at hc
          simp only [Option.some.injEq] at hs; subst hs
          simp only [List.mem_append, List.mem_cons, List.not_mem_nil, or_false, Prod.mk.injEq] at hm
          rcases hm with hm | ⟨_, rfl⟩
          · exact ih i pc (List.mem_of_mem_erase hm) hgt
          · omega
        · cases hs
      | finish j =>
        simp only [step] at hs
        split at hs
        · simp only [Option.some.injEq] at hs; subst hs
          exact ih i pc (List.mem_of_mem_erase hm) hgt
        · cases hs

theorem appends_aux (c : Cfg ρ β) (f : Nat) : ∀ (n pc : Nat) (s : State β), s.running = [(f, pc)] → pc + n = c.nh →
    ∃ s', replay c s (appendsFrom f pc n) = some s' ∧ s'.running = [(f, c.nh)] ∧ s'.pending = s.pending ∧
      s'.done = s.done ∧ s'.w = s.w := by
  intro n
  induction n with
  | zero =>
    intro pc s h1 h2
    exact ⟨s, rfl, by rw [h1]; simp at h2; rw [h2], rfl, rfl, rfl⟩
  | succ n ih =>
    intro pc s h1 h2
    have hlt : pc < c.nh := by omega
    let s2 : State β := { s with running := [(f, pc + 1)], apps := upd s.apps pc (s.apps pc ++ [f]),
                                 outs := upd s.outs pc (s.outs pc ++ [c.handle pc (c.lint f)]) }
    obtain ⟨s', hs', hr', hp', hd', hw'⟩ := ih (pc + 1) s2 rfl (by omega)
    refine ⟨s', ?_, hr', hp', hd', hw'⟩
    simp only [appendsFrom, replay]
    simp [step, h1, hlt]
    exact hs'

theorem replay_append (c : Cfg ρ β) : ∀ (es1 es2 : List Ev) (s s1 : State β), replay c s es1 = some s1 →
    replay c s (es1 ++ es2) = replay c s1 es2 := by
  intro es1
  induction es1 with
  | nil => intro es2 s s1 h; simp only [replay, Option.some.injEq] at h; subst h; rfl
  | cons e es ih =>
    intro es2 s s1 h
    simp only [replay, List.cons_append] at h ⊢
    split at h
    · rename_i s0 hs0
      exact ih es2 s0 s1 h
    · cases h

theorem serial_aux (c : Cfg ρ β) : ∀ (l : List Nat) (s : State β), 1 ≤ s.w → s.pending = l → s.running = [] →
    ∃ s', replay c s (serialEvents c.nh l) = some s' ∧ isFinal s' = true ∧ s'.done = s.done ++ l := by
  intro l
  induction l with
  | nil =>
    intro s _ h1 h2
    exact ⟨s, rfl, by simp [isFinal, h1, h2], by simp⟩
  | cons f fs ih =>
    intro s hw h1 h2
    have hpos : 0 < s.w := hw
    let s1 : State β := { s with pending := fs, running := [(f, 0)] }
    obtain ⟨s2, hs2, hr2, hp2, hd2, hw2⟩ := appends_aux c f c.nh 0 s1 rfl (by omega)
    let s3 : State β := { s2 with running := [], done := s2.done ++ [f],
                                  count := s2.count + (if c.ok (c.lint f) then 1 else 0) }
    obtain ⟨s', hs', hf', hd'⟩ := ih s3 (by simp [s3, hw2, s1]; exact hw) (by simp [s3, hp2, s1]) rfl
    refine ⟨s', ?_, hf', by rw [hd']; simp [s3, hd2, s1]⟩
    simp only [serialEvents, replay]
    have hstart : step c s (Ev.start f) = some s1 := by simp [step, h1, h2, hpos, s1]
    rw [hstart]
    show replay c s1 (appendsFrom f 0 c.nh ++ Ev.finish f :: serialEvents c.nh fs) = some s'
    rw [replay_append c _ _ s1 s2 hs2]
    simp only [replay]
    have hfin : step c s2 (Ev.finish f) = some s3 := by simp [step, hr2, s3]
    rw [hfin]
    exact hs'

theorem session_aux (c : Cfg ρ β) : ∀ (calls : List (List Nat)) (s : State β), isFinal s = true →
    ∃ s', replay c s (sessionSerial c.nh calls) = some s' ∧ isFinal s' = true ∧
      s'.done = s.done ++ calls.flatten := by
  intro calls
  induction calls with
  | nil => intro s hf; exact ⟨s, rfl, hf, by simp⟩
  | cons fs rest ih =>
    intro s hf
    let s1 : State β := { s with all := s.all ++ fs, w := 1, pending := fs }
    have hcall : step c s (Ev.call fs 1) = some s1 := by simp [step, hf, s1]
    have hrun : s.running = [] := (final_lists hf).2
    obtain ⟨s2, hs2, hf2, hd2⟩ := serial_aux c fs s1 (by simp [s1]) rfl (by simp [s1, hrun])
    obtain ⟨s3, hs3, hf3, hd3⟩ := ih s2 hf2
    refine ⟨s3, ?_, hf3, by rw [hd3, hd2]; simp [s1]⟩
    simp only [sessionSerial, replay]
    rw [hcall]
    show replay c s1 (serialEvents c.nh fs ++ sessionSerial c.nh rest) = some s3
    rw [replay_append c _ _ s1 s2 hs2]
    exact hs3

/-- **C42, the one-worker session is a run**: for every sequence of calls, running each call with the
serial loop is accepted, ends final, has submitted exactly the files of the calls and completed them in
file order (so its handler lists are exactly `serialOut`, by the invariant). -/
theorem C42_serial_run (c : Cfg ρ β) (calls : List (List Nat)) :
    ∃ s : State β, replay c init (sessionSerial c.nh calls) = some s ∧ Reach c s ∧ isFinal s = true ∧
      s.done = calls.flatten ∧ s.all.Perm calls.flatten := by
  obtain ⟨s, h1, h2, h3⟩ := session_aux c calls init (by simp [isFinal, init])
  have hr := replay_reach c _ _ _ Reach.init h1
  have hd : s.done = calls.flatten := by simpa [init] using h3
  exact ⟨s, h1, hr, h2, hd, hd ▸ (((C42_each_once c s hr).2 h2).1).symm⟩

/-- **C42, trace validation is sound**: an event list accepted by `replay` is a run. -/
theorem C42_accept_sound (c : Cfg ρ β) (es : List Ev) (s : State β) (h : replay c init es = some s) :
    Reach c s :=
  replay_reach c es init s Reach.init h

/-! ## what reaches the disk -/

/-- **C42 including the output files (full strength since the `fix:` commit)**: for every configuration,
every session and every final state, the content on disk of every handler's file is defined and is a
permutation of the serial result.  Before the fix this held only for the serial path
(`Findings/C42.lean: C42_old_output_lost`). -/
theorem C42_disk (c : Cfg ρ β) (s : State β) (hr : Reach c s) (hf : isFinal s = true) (k : Nat) (hlt : k < c.nh) :
    ∃ l, onDisk c s k = some l ∧ l.Perm (serialOut c s.all k) :=
  ⟨s.outs k, rfl, C42_handlers_perm c s hr hf k hlt⟩

/-! non-vacuity: two calls on one reporter (serial, then two workers); the two handler lists end up in
different orders and the reports of the first call are still there -/
def exCfg : Cfg Nat Nat := { lint := fun f => 10 * f, ok := fun r => r != 10, nh := 2, handle := fun k r => r + k + 1 }
example : (replay exCfg init [.call [7] 1, .start 7, .append 7 0, .append 7 1, .finish 7,
      .call [0, 1, 2] 2, .start 0, .start 1, .append 0 0, .append 1 0, .append 1 1, .append 0 1,
      .finish 1, .start 2, .finish 0, .append 2 0, .append 2 1, .finish 2]).map
    (fun s => (s.done, s.outs 0, s.outs 1, s.count, isFinal s)) =
    some ([7, 1, 0, 2], [71, 1, 11, 21], [72, 12, 2, 22], 3, true) := by decide
example : acceptEvents [0, 1, 2] 2 2 [[0, 1, 2], [1, 0, 2]] =
    some [.start 0, .append 0 0, .start 1, .append 1 0, .append 1 1, .finish 1, .append 0 1, .finish 0,
          .start 2, .append 2 0, .append 2 1, .finish 2] := by decide
/-- with two workers the third file cannot be served first under FIFO starts -/
example : acceptEvents [0, 1, 2] 2 2 [[2, 0, 1], [2, 0, 1]] = none := by decide

end LokiModel.C42
