import LokiModel.C21.Lemmas
import LokiModel.Generated.C21Tables
/-!
# C21 — the scheduler graph is exactly the pruned dependency closure of the seeds (property theorems)

All statements are about the executable model in `LokiModel/C21/Model.lean` (tied to `loki/batch` by the
correspondence check) and hold for every project abstraction `A`, configuration `cfg` and seed list.

* `C21_populate_nodes` / `C21_populate_edges` / `C21_populate_terminates` / `C21_populate_error`:
  `SGraph._populate` computes exactly the inductive closure `Reach`, with one edge per child and no self-edge;
  the fuel `|names| + 1` always suffices; an exception is the exception of a reachable item.
* `C21_children_spec`, `C21_node_one`, `C21_node_imp`, `C21_node_uq`: what "child" means, stated outright.
* `C21_match_*`, `C21_glob_spec`: the decision logic of `match_item_keys` and its case-insensitivity.
* `C21_full` is the full statement for the whole `Scheduler` construction; it is **false** for the unchanged
  code (`C21_full_false`: with `full_parse` a cyclic *file* graph makes `_parse_items` raise although the item
  graph is a DAG); `C21_partial` proves it outside the class `KnownFileGraphCycle`.
* `C21_discover_full` ("every definition in the search path is found") is **false** (`C21_discover_full_false`:
  `Foo.F90` / `foo.F90`); `C21_discover_partial` proves it when no two paths are equal up to case.
-/
namespace LokiModel.C21

/-- the pruned dependency closure: a seed item, or a child (`children`: dependency of an expanded item that is
neither disabled nor blocked) of a reachable item -/
inductive Reach (A : Abs) (cfg : Config) (seeds : List Name) : Name → Prop
  | seed {n : Name} : n ∈ seedItems A cfg seeds → Reach A cfg seeds n
  | dep {a c : Name} {cs : List Name} :
      Reach A cfg seeds a → children A cfg a = .ok cs → c ∈ cs → Reach A cfg seeds c

theorem reach_iff (A : Abs) (cfg : Config) (seeds : List Name) (n : Name) :
    Reach A cfg seeds n ↔ ReachG (children A cfg) (seedItems A cfg seeds) n := by
  constructor
  · intro h
    induction h with
    | seed h => exact ReachG.seed h
    | dep _ h2 h3 ih => exact ReachG.step ih h2 h3
  · intro h
    induction h with
    | seed h => exact Reach.seed h
    | step _ h2 h3 ih => exact Reach.dep ih h2 h3

theorem populate_inv {A : Abs} {cfg : Config} {seeds : List Name} {g : Graph Name}
    (h : populate A cfg seeds = .ok g) :
    ∃ done, Inv (children A cfg) (seedItems A cfg seeds) (allNames A (seedItems A cfg seeds)) done []
      g.nodes g.edges := by
  unfold populate at h
  exact bfs_ok_inv (fun a cs c h1 h2 => children_in_allNames _ h1 h2) (fun a cs h1 => children_nodup h1)
    _ _ _ _ [] g
    (inv_init _ _ _ (nodup_dedup _) (fun x hx => by unfold allNames; exact List.mem_append_left _ hx)) h

/-- **nodes**: the items of the graph are exactly the pruned dependency closure of the seeds -/
theorem C21_populate_nodes (A : Abs) (cfg : Config) (seeds : List Name) (g : Graph Name)
    (h : populate A cfg seeds = .ok g) (n : Name) : n ∈ g.nodes ↔ Reach A cfg seeds n := by
  obtain ⟨done, inv⟩ := populate_inv h
  constructor
  · intro hn
    exact (reach_iff ..).2 (inv.sound n hn)
  · intro hr
    induction hr with
    | seed hs => exact inv.seeds_in _ hs
    | @dep a c cs _ h2 h3 ih =>
      have : a ∈ done := by
        rcases (inv.mem_ns a).1 ih with h' | h'
        · exact h'
        · cases h'
      obtain ⟨cs', hc1, hc2⟩ := inv.closed a this
      have : cs' = cs := by
        have := hc1.symm.trans h2
        injection this
      subst this
      exact hc2 c h3

/-- **edges**: `(a, b)` is a dependency edge iff `a` is in the closure and `b` is one of its children other
than `a` itself (self-edges are excluded, as `_add_children` does for recursive typedefs / procedures) -/
theorem C21_populate_edges (A : Abs) (cfg : Config) (seeds : List Name) (g : Graph Name)
    (h : populate A cfg seeds = .ok g) (a b : Name) :
    (a, b) ∈ g.edges ↔ Reach A cfg seeds a ∧ ∃ cs, children A cfg a = .ok cs ∧ b ∈ cs ∧ b ≠ a := by
  obtain ⟨done, inv⟩ := populate_inv h
  have hd : a ∈ done ↔ Reach A cfg seeds a := by
    rw [← C21_populate_nodes A cfg seeds g h a, inv.mem_ns a]
    simp
  rw [inv.edges a b, hd]

/-- **termination**: the worklist loop never exhausts its fuel (`number of names + 1`) -/
theorem C21_populate_terminates (A : Abs) (cfg : Config) (seeds : List Name) :
    populate A cfg seeds ≠ .error .fuel := by
  unfold populate
  refine bfs_fuel (fun a cs c h1 h2 => children_in_allNames _ h1 h2) (fun a cs h1 => children_nodup h1)
    (children_ne_fuel A cfg) _ _ _ _ []
    (inv_init _ _ _ (nodup_dedup _) (fun x hx => by unfold allNames; exact List.mem_append_left _ hx)) ?_
  exact Nat.le_succ_of_le (List.length_filter_le _ _)

/-- **exceptions**: if building the graph raises, a reachable item's `create_dependency_items` raised that error -/
theorem C21_populate_error (A : Abs) (cfg : Config) (seeds : List Name) (e : Err)
    (h : populate A cfg seeds = .error e) : ∃ a, Reach A cfg seeds a ∧ children A cfg a = .error e := by
  have hne : e ≠ .fuel := fun he => C21_populate_terminates A cfg seeds (he ▸ h)
  unfold populate at h
  rcases bfs_err_inv (fun a cs c h1 h2 => children_in_allNames _ h1 h2) (fun a cs h1 => children_nodup h1)
    _ _ _ _ [] e
    (inv_init _ _ _ (nodup_dedup _) (fun x hx => by unfold allNames; exact List.mem_append_left _ hx)) h with h' | ⟨a, h1, h2⟩
  · exact absurd h' hne
  · exact ⟨a, (reach_iff ..).2 h1, h2⟩

/-! ## what a child is -/

theorem matchesAny_nil (n : Name) (p q : Bool) : matchesAny n [] p q = false := by
  unfold matchesAny matchItemKeys
  cases candidates (lower n) q with
  | none => rfl
  | some cs => cases p <;> simp

/-- children of `a`: nothing unless `a` is expanded; otherwise the items its dependency nodes yield
(`nodesItems`, which applies `_is_ignored` = pattern/parent match against the global disable list and the
item's disable and block lists) that the plain disable and block filters of `create_dependency_items` /
`_add_children` let through -/
theorem C21_children_spec (A : Abs) (cfg : Config) (a : Name) (cs : List Name)
    (h : children A cfg a = .ok cs) (c : Name) :
    c ∈ cs ↔ (itemConf cfg a).expand = true ∧
      ∃ raw, nodesItems cfg (itemConf cfg a) (depsOf A a) = .ok raw ∧ c ∈ raw ∧
        plainMatch c (itemConf cfg a).disable = false ∧ plainMatch c (itemConf cfg a).block = false := by
  simp only [children] at h
  split at h
  · rename_i hexp
    injection h with h; subst h
    simp at hexp
    simp [hexp]
  · rename_i hexp
    simp at hexp
    split at h
    · cases h
    · rename_i raw hraw
      injection h with h; subst h
      simp only [List.mem_filter, mem_dedup, hexp, true_and, hraw]
      constructor
      · rintro ⟨h1, h2⟩
        refine ⟨raw, rfl, ?_⟩
        split at h1
        · rename_i hemp
          have : (itemConf cfg a).disable = [] := by simpa using hemp
          refine ⟨h1, ?_, by simpa using h2⟩
          rw [this]; exact matchesAny_nil _ _ _
        · simp only [List.mem_filter] at h1
          exact ⟨h1.1, by simpa using h1.2, by simpa using h2⟩
      · rintro ⟨raw', hr, h1, h2, h3⟩
        injection hr with hr; subst hr
        refine ⟨?_, by simpa using h3⟩
        split
        · exact h1
        · simp only [List.mem_filter]; exact ⟨h1, by simpa using h2⟩

/-- a plainly resolved dependency (`one n`) yields `n` unless `_is_ignored n` -/
theorem C21_node_one (cfg : Config) (ic : ItemConf) (n c : Name) :
    (∃ xs, nodeItems cfg ic (.one n) = .ok xs ∧ c ∈ xs) ↔ c = n ∧ ignored cfg ic n = false := by
  simp only [nodeItems]
  by_cases h : ignored cfg ic n = true
  · simp [h]
  · simp [h]

/-- a call resolved through unqualified imports is filtered by the *global* disable list only -/
theorem C21_node_uq_single (cfg : Config) (ic : ItemConf) (f m : Name) (fex : Bool)
    (h : gIgnored cfg m = false) : nodeItems cfg ic (.uq f fex [m]) = .ok [m] := by
  simp [nodeItems, h, dedup]

/-- a candidate that is listed twice (a module procedure also named in an interface of its module) counts once -/
theorem C21_node_uq_duplicate (cfg : Config) (ic : ItemConf) (f m : Name) (fex : Bool)
    (h : gIgnored cfg m = false) : nodeItems cfg ic (.uq f fex [m, m]) = .ok [m] := by
  simp [nodeItems, h, dedup]

/-- `USE m, ONLY: …` of a known module: nothing if `m` is ignored; else the non-ignored imported items that are
not subroutines, plus the module itself iff a non-ignored imported symbol is a global variable -/
theorem C21_node_imp (cfg : Config) (ic : ItemConf) (m : Name) (syms : List (Name × SymKind)) (c : Name)
    (hm : ignored cfg ic m = false) :
    (∃ xs, nodeItems cfg ic (.imp m syms) = .ok xs ∧ c ∈ xs) ↔
      (c = m ∧ ∃ s, s ∈ syms ∧ s.2 = SymKind.var ∧ ignored cfg ic (qual m s.1) = false) ∨
      (∃ s, s ∈ syms ∧ s.2 = SymKind.item ∧ ignored cfg ic (qual m s.1) = false ∧ c = qual m s.1) := by
  simp only [nodeItems, hm, Bool.false_eq_true, if_false]
  constructor
  · rintro ⟨xs, hxs, hc⟩
    injection hxs with hxs; subst hxs
    split at hc
    · rename_i hg
      rcases List.mem_cons.1 hc with hc | hc
      · left
        simp only [List.any_eq_true, List.mem_filter, decide_eq_true_eq] at hg
        obtain ⟨s, ⟨hs1, hs2⟩, hs3⟩ := hg
        exact ⟨hc, s, hs1, hs3, by simpa using hs2⟩
      · right
        simp only [List.mem_map, List.mem_filter, decide_eq_true_eq] at hc
        obtain ⟨s, ⟨⟨hs1, hs2⟩, hs3⟩, rfl⟩ := hc
        exact ⟨s, hs1, hs3, by simpa using hs2, rfl⟩
    · right
      simp only [List.mem_map, List.mem_filter, decide_eq_true_eq] at hc
      obtain ⟨s, ⟨⟨hs1, hs2⟩, hs3⟩, rfl⟩ := hc
      exact ⟨s, hs1, hs3, by simpa using hs2, rfl⟩
  · rintro (⟨rfl, s, hs1, hs2, hs3⟩ | ⟨s, hs1, hs2, hs3, rfl⟩)
    · refine ⟨_, rfl, ?_⟩
      have : (syms.filter (fun s => !ignored cfg ic (qual c s.1))).any (fun s => s.2 = SymKind.var) = true := by
        simp only [List.any_eq_true, List.mem_filter, decide_eq_true_eq]
        exact ⟨s, ⟨hs1, by simp [hs3]⟩, hs2⟩
      simp [this]
    · refine ⟨_, rfl, ?_⟩
      have hmem : qual m s.1 ∈ ((syms.filter (fun s => !ignored cfg ic (qual m s.1))).filter
          (fun s => s.2 = SymKind.item)).map (fun s => qual m s.1) := by
        simp only [List.mem_map, List.mem_filter, decide_eq_true_eq]
        exact ⟨s, ⟨⟨hs1, by simp [hs3]⟩, hs2⟩, rfl⟩
      split
      · exact List.mem_cons_of_mem _ hmem
      · exact hmem

/-! ## `match_item_keys` -/

/-- case-insensitivity: the result only depends on the lower-cased name and keys -/
theorem C21_match_case_insensitive (n n' : Name) (ks ks' : List Name) (p q : Bool)
    (hn : lower n = lower n') (hk : ks.map lower = ks'.map lower) :
    matchItemKeys n ks p q = matchItemKeys n' ks' p q := by
  unfold matchItemKeys
  rw [hn, hk]

/-- plain matching: a key matches iff it equals (lower-cased) the whole name or its local part -/
theorem C21_match_plain_spec (n : Name) (ks r : List Name) (h : matchItemKeys n ks false false = some r)
    (k : Name) :
    k ∈ r ↔ k ∈ ks.map lower ∧ ∃ sl, nameParts (lower n) = some sl ∧ (k = lower n ∨ k = sl.2) := by
  unfold matchItemKeys candidates at h
  cases hp : nameParts (lower n) with
  | none => simp [hp] at h
  | some sl =>
    obtain ⟨s, l⟩ := sl
    simp only [hp, Bool.not_false, if_true, Bool.false_eq_true, if_false] at h
    injection h with h; subst h
    simp [List.mem_filter]

/-- pattern matching with parents (`is_disabled`, `_is_ignored`): a key matches iff it fnmatch-es one of the
candidate names (whole name, local name, scope name, type/member prefixes with and without scope) -/
theorem C21_match_pattern_spec (n : Name) (ks r : List Name) (par : Bool)
    (h : matchItemKeys n ks true par = some r) (k : Name) :
    k ∈ r ↔ k ∈ ks.map lower ∧ ∃ cands, candidates (lower n) par = some cands ∧ ∃ c, c ∈ cands ∧ glob k c = true := by
  unfold matchItemKeys at h
  cases hc : candidates (lower n) par with
  | none => simp [hc] at h
  | some cands =>
    simp only [hc, if_true] at h
    injection h with h; subst h
    simp [List.mem_filter]

/-- the candidate names of a scoped name without `%` -/
theorem C21_candidates_scoped (s l : Name) (hs : '#' ∉ s) (hl : '#' ∉ l) (hne : s ≠ []) (hpc : '%' ∉ l) :
    candidates (qual s l) true = some [qual s l, l, s] := by
  have hsplit : ∀ (s : Name), '#' ∉ s → splitOn '#' (s ++ '#' :: l) = [s, l] := by
    intro s
    induction s with
    | nil =>
      intro _
      have : ∀ l : Name, '#' ∉ l → splitOn '#' l = [l] := by
        intro l
        induction l with
        | nil => intro _; rfl
        | cons c cs ih =>
          intro h
          have hc : c ≠ '#' := fun e => h (e ▸ List.mem_cons_self)
          have := ih (fun h' => h (List.mem_cons_of_mem _ h'))
          simp [splitOn, hc, this]
      simp [splitOn, this l hl]
    | cons c cs ih =>
      intro h
      have hc : c ≠ '#' := fun e => h (e ▸ List.mem_cons_self)
      have := ih (fun h' => h (List.mem_cons_of_mem _ h'))
      simp [splitOn, hc, this]
  have hemp : s.isEmpty = false := by
    cases s with
    | nil => exact absurd rfl hne
    | cons _ _ => rfl
  simp [candidates, nameParts, qual, hsplit s hs, hpc, hemp]

/-- the model calls `matchesAny` with the flags of the corresponding call sites of `match_item_keys` in the code
(`Generated.matchFlags` is re-extracted from /repo on every run): `_is_ignored` / `is_disabled` use patterns and
parents (`ignored`, `gIgnored`), the disable filter of `create_dependency_items`, the block filter of
`_add_children` and `create_item_config` use neither (`plainMatch`, `itemConf`); an absent `expand` is `False` -/
theorem C21_tables :
    Generated.matchFlags = [
      ("_add_children", "config.routines", false, false),
      ("_add_children", "item.block", false, false),
      ("_add_children", "item.ignore", false, true),
      ("_is_generated", "keys", true, true),
      ("_is_ignored", "keys", true, true),
      ("create_dependency_items", "self.disable", false, false),
      ("create_item_config", "self.routines", false, false),
      ("is_disabled", "self.disable", true, true),
      ("match_symbol_or_name", "keys", true, true)] ∧ Generated.expandDefault = false := by decide

/-! ## fnmatch -/

/-- relational semantics of `*` / `?` / literal patterns -/
inductive GlobRel : List Char → List Char → Prop
  | nil : GlobRel [] []
  | star {p : Char} {ps s : List Char} (pre : List Char) : p = '*' → GlobRel ps s → GlobRel (p :: ps) (pre ++ s)
  | any {p : Char} {ps s : List Char} (c : Char) : p = '?' → GlobRel ps s → GlobRel (p :: ps) (c :: s)
  | lit {p : Char} {ps s : List Char} : p ≠ '*' → GlobRel ps s → GlobRel (p :: ps) (p :: s)

theorem GlobRel.inv_cons {p : Char} {ps s : List Char} (h : GlobRel (p :: ps) s) :
    (p = '*' ∧ ∃ pre suf, s = pre ++ suf ∧ GlobRel ps suf) ∨
    (p = '?' ∧ ∃ c cs, s = c :: cs ∧ GlobRel ps cs) ∨
    (p ≠ '*' ∧ ∃ cs, s = p :: cs ∧ GlobRel ps cs) := by
  generalize hq : p :: ps = q at h
  cases h with
  | nil => cases hq
  | star pre h1 h2 => injection hq with e1 e2; subst e1 e2; exact Or.inl ⟨h1, pre, _, rfl, h2⟩
  | any c h1 h2 => injection hq with e1 e2; subst e1 e2; exact Or.inr (Or.inl ⟨h1, c, _, rfl, h2⟩)
  | lit h1 h2 => injection hq with e1 e2; subst e1 e2; exact Or.inr (Or.inr ⟨h1, _, rfl, h2⟩)

theorem starLoop_iff (k : List Char → Bool) : ∀ s : List Char,
    starLoop k s = true ↔ ∃ pre suf, s = pre ++ suf ∧ k suf = true
  | [] => by
    simp only [starLoop]
    constructor
    · intro h; exact ⟨[], [], rfl, h⟩
    · rintro ⟨pre, suf, h1, h2⟩
      have : suf = [] := by
        cases pre with
        | nil => simpa using h1.symm
        | cons _ _ => cases h1
      rw [this] at h2; exact h2
  | c :: cs => by
    simp only [starLoop, Bool.or_eq_true, starLoop_iff k cs]
    constructor
    · rintro (h | ⟨pre, suf, h1, h2⟩)
      · exact ⟨[], c :: cs, rfl, h⟩
      · exact ⟨c :: pre, suf, by rw [h1]; rfl, h2⟩
    · rintro ⟨pre, suf, h1, h2⟩
      cases pre with
      | nil => left; rw [h1]; exact h2
      | cons d pre =>
        right
        injection h1 with _ h1
        exact ⟨pre, suf, h1, h2⟩

/-- the executable matcher decides the relational fnmatch semantics -/
theorem C21_glob_spec : ∀ (p s : List Char), glob p s = true ↔ GlobRel p s
  | [], s => by
    simp only [glob]
    constructor
    · intro h
      cases s with
      | nil => exact GlobRel.nil
      | cons _ _ => simp at h
    · intro h; cases h; rfl
  | p :: ps, s => by
    simp only [glob]
    by_cases hp : p = '*'
    · simp only [hp, if_true, starLoop_iff]
      constructor
      · rintro ⟨pre, suf, rfl, h⟩
        exact GlobRel.star pre rfl ((C21_glob_spec ps suf).1 h)
      · intro h
        rcases GlobRel.inv_cons h with ⟨_, pre, suf, h1, h2⟩ | ⟨h1, _⟩ | ⟨h1, _⟩
        · exact ⟨pre, suf, h1, (C21_glob_spec ps suf).2 h2⟩
        · exact absurd h1 (by decide)
        · exact absurd rfl h1
    · simp only [hp, if_false]
      cases s with
      | nil =>
        simp only [Bool.false_eq_true, false_iff]
        intro h
        rcases GlobRel.inv_cons h with ⟨h1, _⟩ | ⟨_, c, cs, h1, _⟩ | ⟨_, cs, h1, _⟩
        · exact hp h1
        · cases h1
        · cases h1
      | cons c cs =>
        simp only [Bool.and_eq_true, Bool.or_eq_true, decide_eq_true_eq, C21_glob_spec ps cs]
        constructor
        · rintro ⟨h1 | h1, h2⟩
          · exact GlobRel.any c h1 h2
          · subst h1; exact GlobRel.lit hp h2
        · intro h
          rcases GlobRel.inv_cons h with ⟨h1, _⟩ | ⟨h1, c', cs', h2, h3⟩ | ⟨_, cs', h2, h3⟩
          · exact absurd h1 hp
          · injection h2 with e1 e2; subst e2; exact ⟨Or.inl h1, h3⟩
          · injection h2 with e1 e2; subst e2; exact ⟨Or.inr e1.symm, h3⟩

/-- non-vacuity -/
example : glob "*_util".toList "abc_util".toList = true := by decide
example : glob "m#*".toList "m#kernel".toList = true := by decide
example : glob "ker?".toList "kern".toList = true := by decide
example : glob "ker?".toList "kernel".toList = false := by decide

/-! ## the whole `Scheduler` construction -/

/-- full statement: whenever the closure is computed, constructing the scheduler (with or without full parse)
yields exactly that graph -/
def C21_full : Prop :=
  ∀ (A : Abs) (cfg : Config) (seeds : List Name) (fullparse : Bool) (g : Graph Name),
    populate A cfg seeds = .ok g → schedule A cfg seeds fullparse = .ok g

def wName (s : String) : Name := s.toList

/-- witness: module `m` (file m.f90) with `a` and `c`; free routine `b` (file b.f90); `a → b → c`.
The item graph is a DAG, the file graph `m.f90 ⇄ b.f90` is not. -/
def witnessAbs : Abs :=
  { free := [wName "b"],
    modules := [(wName "m", [(wName "a", MKind.proc), (wName "c", MKind.proc)])],
    items := [
      { name := wName "m#a", kind := wName "proc", file := wName "m.f90", deps := [.one (wName "#b")] },
      { name := wName "#b", kind := wName "proc", file := wName "b.f90", deps := [.one (wName "m#c")] },
      { name := wName "m#c", kind := wName "proc", file := wName "m.f90", deps := [] }] }

def witnessCfg : Config :=
  { expand := true, strict := true, imports := false, disable := [], block := [], ignore := [], routines := [] }

def witnessGraph : Graph Name :=
  ⟨[wName "m#a", wName "#b", wName "m#c"], [(wName "m#a", wName "#b"), (wName "#b", wName "m#c")]⟩

theorem witness_populate : populate witnessAbs witnessCfg [wName "a"] = .ok witnessGraph := by decide

theorem witness_schedule : schedule witnessAbs witnessCfg [wName "a"] true = .error .unfeasible := by decide

/-- the unchanged code violates the full statement -/
theorem C21_full_false : ¬ C21_full := by
  intro h
  have := h witnessAbs witnessCfg [wName "a"] true witnessGraph witness_populate
  rw [witness_schedule] at this
  cases this

/-- outside the known-finding class `file-graph-cycle` the scheduler graph is the closure graph -/
theorem C21_partial (A : Abs) (cfg : Config) (seeds : List Name) (fullparse : Bool) (g : Graph Name)
    (h : populate A cfg seeds = .ok g) (hk : KnownFileGraphCycle A cfg fullparse g = false) :
    schedule A cfg seeds fullparse = .ok g := by
  simp [schedule, h, hk]

/-- without `full_parse` there is nothing beyond `_populate` -/
theorem C21_no_full_parse (A : Abs) (cfg : Config) (seeds : List Name) :
    schedule A cfg seeds false = populate A cfg seeds := by
  unfold schedule
  cases populate A cfg seeds with
  | error e => rfl
  | ok g => simp [KnownFileGraphCycle]

/-- non-vacuity of `C21_partial`: the witness project without full parse -/
example : KnownFileGraphCycle witnessAbs witnessCfg false witnessGraph = false := by decide
example : schedule witnessAbs witnessCfg [wName "a"] false = .ok witnessGraph := by decide

/-! ## discovery -/

/-- full statement: every definition of every file in the search path ends up in the cache -/
def C21_discover_full : Prop :=
  ∀ (files : List (Name × List Name)) (f : Name × List Name) (d : Name),
    f ∈ files → d ∈ f.2 → ∃ e, e ∈ discover [] files ∧ d ∈ e.2

theorem C21_discover_full_false : ¬ C21_discover_full := by
  intro h
  have := h [(wName "Foo.F90", [wName "a"]), (wName "foo.F90", [wName "b"])] (wName "foo.F90", [wName "b"])
    (wName "b") (by decide) (by decide)
  revert this
  decide

theorem discover_mono : ∀ (files cache : List (Name × List Name)) (e : Name × List Name),
    e ∈ cache → e ∈ discover cache files
  | [], _, _, h => h
  | (p, ds) :: rest, cache, e, h => by
    simp only [discover]
    split
    · exact discover_mono rest cache e h
    · exact discover_mono rest _ e (List.mem_append_left _ h)

theorem discover_partial_aux : ∀ (files cache : List (Name × List Name)),
    KnownCaseCollision (files.map (fun f => f.1)) = false →
    (∀ f, f ∈ files → ∀ e, e ∈ cache → e.1 ≠ lower f.1) →
    ∀ f d, f ∈ files → d ∈ f.2 → ∃ e, e ∈ discover cache files ∧ d ∈ e.2
  | [], _, _, _, f, _, hf, _ => by cases hf
  | (p, ds) :: rest, cache, hk, hc, f, d, hf, hd => by
    simp only [List.map_cons, KnownCaseCollision, Bool.or_eq_false_iff] at hk
    have hfresh : cache.any (fun e => e.1 = lower p) = false := by
      simp only [List.any_eq_false, decide_eq_true_eq]
      intro e he
      exact hc (p, ds) List.mem_cons_self e he
    simp only [discover, hfresh, Bool.false_eq_true, if_false]
    rcases List.mem_cons.1 hf with hf | hf
    · subst hf
      exact ⟨(lower p, ds), discover_mono rest _ _ (List.mem_append_right _ (List.mem_singleton.2 rfl)), hd⟩
    · refine discover_partial_aux rest _ hk.2 ?_ f d hf hd
      intro f' hf' e he
      rcases List.mem_append.1 he with he | he
      · exact hc f' (List.mem_cons_of_mem _ hf') e he
      · have : e = (lower p, ds) := List.mem_singleton.1 he
        subst this
        have h1 := hk.1
        simp only [List.any_eq_false, List.mem_map, decide_eq_true_eq] at h1
        intro heq
        exact h1 f'.1 ⟨f', hf', rfl⟩ heq.symm

/-- when no two paths are equal up to case, every definition of every file is discovered -/
theorem C21_discover_partial (files : List (Name × List Name))
    (hk : KnownCaseCollision (files.map (fun f => f.1)) = false) (f : Name × List Name) (d : Name)
    (hf : f ∈ files) (hd : d ∈ f.2) : ∃ e, e ∈ discover [] files ∧ d ∈ e.2 :=
  discover_partial_aux files [] hk (fun _ _ e he => by cases he) f d hf hd

example : KnownCaseCollision [wName "a.F90", wName "b.F90"] = false := by decide
example : KnownCaseCollision [wName "Foo.F90", wName "foo.F90"] = true := by decide

end LokiModel.C21
