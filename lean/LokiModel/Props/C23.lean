import LokiModel.C23.Lemmas
import LokiModel.Generated.C23Tables
/-!
# C23 — batch processing does not depend on the letter case of names (property theorems)

* `C23_recase_invariant` (T1): for every project abstraction, configuration, seed list and re-casing `π` of names
  (sources, config keys and lists, seeds), constructing the scheduler on the re-cased input gives the *same*
  result as on the original — under the stated premise that item names pass the factory's lower-casing points
  (`foldAbs`).  `C23_config_recase_invariant` needs no premise at all: re-casing configuration and seeds never
  changes anything, because every comparison goes through `match_item_keys`, which folds both sides.
  `C23_recase_invariant_norm` is the "up to letter case" form; `C23_order_recase_invariant` the processing order.
* `C23_eq_hash_partial`, `C23_set_mem_partial` (T2): `Item.__eq__` and `Item.__hash__` agree, and `set`/`dict` lookup
  agrees with `==`, when the stored names are lower-case; `C23_eq_hash_fixed`: hashing the lower-cased name is
  consistent without any premise (fix candidate).  The failing witnesses are in `Findings/C23.lean`.
* `C23_frontend_args_pattern`, `C23_frontend_args_recase`: which `frontend_args` entry applies to a file depends on
  keys and path only through their lower-cased forms (absolute and relative keys alike).
* `C23_dup_keys` (T3, full since the `fix:` commit): the cache keys produced by `DuplicateKernel` →
  `get_or_create_item_from_item` depend on the suffix options only through their lower-cased form, and cloning never
  fails (`C23_dup_never_fails`).  The old behaviour (kernel outside any module, suffix that changes under
  `.lower()`) is kept as a regression statement in `Findings/C23.lean`.
-/
namespace LokiModel.C23
open LokiModel.C21

/-- **T1 (configuration and seeds)**: re-casing config keys, disable/block/ignore lists, per-routine overrides and
seed names leaves the result of `Scheduler.__init__` unchanged — for every abstraction, folded or not -/
theorem C23_config_recase_invariant (π : Recasing) (A : Abs) (cfg : Config) (seeds : List Name) (fp : Bool) :
    schedule A (recaseCfg π cfg) (seeds.map π.f) fp = schedule A cfg seeds fp :=
  schedule_equiv (recaseCfg_equiv π cfg) A (LE_recase π seeds) fp

/-- **T1**: re-casing names in the sources (`recaseAbs`), the configuration and the seeds; the premise "every stored
name passed a lower-casing point of the item factory" is the `foldAbs` on both sides -/
theorem C23_recase_invariant (π : Recasing) (A : Abs) (cfg : Config) (seeds : List Name) (fp : Bool) :
    schedule (foldAbs (recaseAbs π A)) (recaseCfg π cfg) (seeds.map π.f) fp = schedule (foldAbs A) cfg seeds fp := by
  rw [foldAbs_recase, C23_config_recase_invariant]

theorem C23_populate_recase_invariant (π : Recasing) (A : Abs) (cfg : Config) (seeds : List Name) :
    populate (foldAbs (recaseAbs π A)) (recaseCfg π cfg) (seeds.map π.f) = populate (foldAbs A) cfg seeds := by
  rw [foldAbs_recase]
  exact populate_equiv (recaseCfg_equiv π cfg) _ (LE_recase π seeds)

/-- the "up to letter case" form of the statement -/
theorem C23_recase_invariant_norm (π : Recasing) (A : Abs) (cfg : Config) (seeds : List Name) (fp : Bool) :
    normResult (schedule (foldAbs (recaseAbs π A)) (recaseCfg π cfg) (seeds.map π.f) fp) =
      normResult (schedule (foldAbs A) cfg seeds fp) := by
  rw [C23_recase_invariant]

/-- processing order (`SFilter` over the graph, procedure items) of the re-cased run = that of the original -/
theorem C23_order_recase_invariant (π : Recasing) (A : Abs) (g : Graph Name) :
    procOrder (foldAbs (recaseAbs π A)) g = procOrder (foldAbs A) g := by
  rw [foldAbs_recase]

/-- a re-casing that upper-cases the one name `b` -/
def upB : Recasing :=
  ⟨fun n => if n = ['b'] then ['B'] else n, fun n => by
    by_cases h : n = ['b']
    · subst h; decide
    · simp [h]⟩

/-- the premise of T1 is needed: on an abstraction whose names did not pass a lower-casing point the graph changes
under re-casing even up to letter case (free routine stored as `B`, seed `b`) -/
theorem C23_folding_needed :
    ∃ (π : Recasing) (A : Abs) (cfg : Config) (seeds : List Name),
      normResult (populate (recaseAbs π A) cfg seeds) ≠ normResult (populate A cfg seeds) :=
  ⟨upB,
    { free := [['b']], modules := [], items := [{ name := ['#', 'b'], kind := "proc".toList, file := [], deps := [] }] },
    { expand := true, strict := false, imports := false, disable := [], block := [], ignore := [], routines := [] },
    [['b']], by decide⟩

/-- non-vacuity: a re-casing that actually changes names -/
example : ∃ π : Recasing, π.f ['a', 'b'] = ['A', 'b'] :=
  ⟨⟨fun n => if n = ['a', 'b'] then ['A', 'b'] else n, fun n => by
    by_cases h : n = ['a', 'b']
    · subst h; decide
    · simp [h]⟩, by simp⟩

/-! ## T2: item identity -/

theorem lower_folded_eq {a b : Name} (ha : lower a = a) (hb : lower b = b) (h : itemEq a b = true) : a = b := by
  have : lower a = lower b := by simpa [itemEq] using h
  rw [ha, hb] at this
  exact this

/-- `==` implies equal hashes when both stored names are lower-case (whatever the hash function) -/
theorem C23_eq_hash_partial (h : Name → Nat) (a b : Name) (ha : lower a = a) (hb : lower b = b)
    (he : itemEq a b = true) : h a = h b := by
  rw [lower_folded_eq ha hb he]

/-- fix candidate `__hash__ = hash(self.name.lower())`: consistent with `==` for all names -/
theorem C23_eq_hash_fixed (h : Name → Nat) (a b : Name) (he : itemEq a b = true) : h (lower a) = h (lower b) := by
  have : lower a = lower b := by simpa [itemEq] using he
  rw [this]

/-- the hash as the code in /repo computes it (`Generated.hashFoldsName` is re-read from `Item.__hash__` on every run):
consistent with `==` if the code folds, or else when both stored names are lower-case -/
theorem C23_eq_hash_current (h : Name → Nat) (a b : Name)
    (hyp : Generated.hashFoldsName = true ∨ (lower a = a ∧ lower b = b)) (he : itemEq a b = true) :
    itemHash Generated.hashFoldsName h a = itemHash Generated.hashFoldsName h b := by
  generalize Generated.hashFoldsName = folds at hyp ⊢
  cases folds with
  | true => simp only [itemHash, if_true]; exact C23_eq_hash_fixed h a b he
  | false =>
    rcases hyp with hyp | ⟨ha, hb⟩
    · cases hyp
    · simp only [itemHash, Bool.false_eq_true, if_false]; exact C23_eq_hash_partial h a b ha hb he

/-- premise of T1, read off the sources: every place where the item factory builds an item name lower-cases it -/
theorem C23_tables : Generated.itemNameFolded.all (fun p => p.2) = true ∧ Generated.itemNameFolded.length ≠ 0 := by decide

/-- `x in set` agrees with `x in list` (hash lookup agrees with `==`) when all names involved are lower-case -/
theorem C23_set_mem_partial (h : Name → Nat) (s : List Name) (x : Name) (hs : ∀ y, y ∈ s → lower y = y)
    (hx : lower x = x) : pyMem h s x = listMem s x := by
  unfold pyMem listMem
  induction s with
  | nil => rfl
  | cons y ys ih =>
    simp only [List.any_cons]
    rw [ih (fun z hz => hs z (List.mem_cons_of_mem _ hz))]
    congr 1
    by_cases he : itemEq y x = true
    · have := C23_eq_hash_partial h y x (hs y List.mem_cons_self) hx he
      simp [he, this]
    · simp [he]

/-- a set built from lower-case names never holds two names that are `==` -/
theorem C23_set_no_case_duplicates (h : Name → Nat) (xs : List Name) (hx : ∀ y, y ∈ xs → lower y = y) :
    ∀ a b, a ∈ pySet h xs → b ∈ pySet h xs → itemEq a b = true → a = b := by
  have hsub : ∀ (l acc : List Name), (∀ y, y ∈ acc → lower y = y) → (∀ y, y ∈ l → lower y = y) →
      ∀ y, y ∈ l.foldl (pyAdd h) acc → lower y = y := by
    intro l
    induction l with
    | nil => intro acc ha _ y hy; exact ha y hy
    | cons z zs ih =>
      intro acc ha hl y hy
      simp only [List.foldl_cons] at hy
      refine ih _ ?_ (fun w hw => hl w (List.mem_cons_of_mem _ hw)) y hy
      intro w hw
      unfold pyAdd at hw
      split at hw
      · exact ha w hw
      · rcases List.mem_append.1 hw with hw | hw
        · exact ha w hw
        · rw [List.mem_singleton.1 hw]; exact hl z List.mem_cons_self
  intro a b ha hb he
  unfold pySet at ha hb
  exact lower_folded_eq (hsub xs [] (by simp) hx a ha) (hsub xs [] (by simp) hx b hb) he

/-! ## T3: cache keys produced by `DuplicateKernel` -/

theorem lower_append (a b : Name) : lower (a ++ b) = lower a ++ lower b := by simp [lower]

theorem lower_length (a : Name) : (lower a).length = a.length := by simp [lower]

theorem lower_qual (a b : Name) : lower (qual a b) = qual (lower a) (lower b) := by
  have : Char.toLower '#' = '#' := by decide
  simp [lower, qual, this]

theorem isEmpty_of_lower_eq {a b : Name} (h : lower a = lower b) : a.isEmpty = b.isEmpty := by
  have := congrArg List.length h
  rw [lower_length, lower_length] at this
  cases a <;> cases b <;> simp_all

theorem newItemName_scope_isEmpty (scope loc s ms : Name) :
    (newItemName scope loc s ms).1.isEmpty = scope.isEmpty := by
  unfold newItemName
  cases scope with
  | nil => simp
  | cons c cs => simp

theorem newItemName_lower (scope loc s s' ms ms' : Name) (h1 : lower s = lower s') (h2 : lower ms = lower ms') :
    lower (newItemName scope loc s ms).1 = lower (newItemName scope loc s' ms').1 ∧
    lower (newItemName scope loc s ms).2.2 = lower (newItemName scope loc s' ms').2.2 := by
  have he := isEmpty_of_lower_eq h2
  have hsc : lower (newItemName scope loc s ms).1 = lower (newItemName scope loc s' ms').1 := by
    simp only [newItemName, he]
    by_cases hs : scope.isEmpty = true
    · simp [hs]
    · by_cases hm : ms'.isEmpty = true
      · simp [hs, hm, lower_append, h1]
      · simp [hs, hm, lower_append, h2]
  refine ⟨hsc, ?_⟩
  have : ∀ (x y : Name), (newItemName scope loc x y).2.2 = qual (newItemName scope loc x y).1 (loc ++ x) := by
    intros; rfl
  rw [this, this, lower_qual, lower_qual, hsc, lower_append, lower_append, h1]

theorem cacheHas_lower (cache : List Name) {a b : Name} (h : lower a = lower b) : cacheHas cache a = cacheHas cache b := by
  unfold cacheHas; rw [h]

theorem not_contains_longer {a n : Name} (h : a.length < n.length) : [lower a].contains (lower n) = false := by
  simp only [List.contains_cons, List.contains_nil, Bool.or_false, beq_eq_false_iff_ne, ne_eq]
  intro he
  have := congrArg List.length he
  rw [lower_length, lower_length] at this
  omega

/-- the value of `cloneItem`, case by case -/
theorem cloneItem_eq (cache : List Name) (scope loc s ms : Name) :
    cloneItem cache scope loc s ms =
      if cacheHas cache (newItemName scope loc s ms).2.2 = true then CloneRes.ok []
      else if scope.isEmpty = true then CloneRes.ok [lower (newItemName scope loc s ms).2.2]
      else CloneRes.ok ([lower (newItemName scope loc s ms).1] ++ [lower (newItemName scope loc s ms).2.2]) := by
  have hlen : (newItemName scope loc s ms).1.length < (newItemName scope loc s ms).2.2.length := by
    have : (newItemName scope loc s ms).2.2 = qual (newItemName scope loc s ms).1 (loc ++ s) := rfl
    rw [this]
    simp [qual]
  by_cases hsc : scope.isEmpty = true
  · simp [cloneItem, newItemName_scope_isEmpty, hsc]
  · simp only [cloneItem, newItemName_scope_isEmpty, hsc, not_contains_longer hlen, Bool.false_eq_true, if_false,
      Bool.not_false, if_true]

/-- **T3 (full)**: the produced cache keys depend on the suffix options only through their lower-cased form -/
theorem C23_dup_keys (cache : List Name) (scope loc s s' ms ms' : Name)
    (h1 : lower s = lower s') (h2 : lower ms = lower ms') :
    cloneItem cache scope loc s ms = cloneItem cache scope loc s' ms' := by
  obtain ⟨ha, hb⟩ := newItemName_lower scope loc s s' ms ms' h1 h2
  rw [cloneItem_eq, cloneItem_eq, cacheHas_lower cache hb, ha, hb]

/-- cloning a kernel never ends in "Failed to clone item" -/
theorem C23_dup_never_fails (cache : List Name) (scope loc s ms : Name) :
    cloneItem cache scope loc s ms ≠ .failed := by
  rw [cloneItem_eq]
  split
  · intro h; cases h
  · split <;> (intro h; cases h)

/-- non-vacuity -/
example : cloneItem [] "km".toList "kern".toList "_Dup".toList [] = .ok ["km_dup".toList, "km_dup#kern_dup".toList] := by decide
example : cloneItem [] [] "fk".toList "_dup".toList [] = .ok ["#fk_dup".toList] := by decide
example : cloneItem [] [] "fk".toList "_Dup".toList [] = .ok ["#fk_dup".toList] := by decide


/-! ## `frontend_args` keys -/

theorem toLower_eq_slash (c : Char) : c.toLower = '/' ↔ c = '/' := by
  constructor
  · intro h
    unfold Char.toLower at h
    split at h
    · rename_i hc
      exfalso
      have := congrArg Char.val h
      simp at this
      have h1 := hc.1
      have h2 := hc.2
      simp [UInt32.le_iff_toNat_le] at h1 h2
      have := congrArg UInt32.toNat this
      simp at this
      omega
    · exact h
  · intro h; subst h; decide

theorem head_slash_of_lower_eq {k k' : Name} (h : lower k = lower k') :
    (k.head? = some '/') = (k'.head? = some '/') := by
  cases k with
  | nil =>
    cases k' with
    | nil => rfl
    | cons _ _ => simp [lower] at h
  | cons c cs =>
    cases k' with
    | nil => simp [lower] at h
    | cons c' cs' =>
      simp only [lower, List.map_cons, List.cons.injEq] at h
      simp only [List.head?_cons, Option.some.injEq]
      apply propext
      constructor
      · intro hc
        have : c'.toLower = '/' := by rw [← h.1, hc]; decide
        exact (toLower_eq_slash c').1 this
      · intro hc
        have : c.toLower = '/' := by rw [h.1, hc]; decide
        exact (toLower_eq_slash c).1 this

/-- the pattern a `frontend_args` key stands for depends on the key only through its lower-cased form -/
theorem C23_frontend_args_pattern (k k' : Name) (h : lower k = lower k') : faPattern k = faPattern k' := by
  have hs : Char.toLower '*' = '*' := by decide
  have hh := head_slash_of_lower_eq h
  unfold faPattern
  by_cases hk : k.head? = some '/'
  · have hk' : k'.head? = some '/' := by rw [← hh]; exact hk
    simp only [hk, hk', if_true, h]
  · have hk' : ¬ k'.head? = some '/' := by rw [← hh]; exact hk
    simp only [hk, hk', if_false]
    simp only [lower, List.map_cons, hs] at h ⊢
    rw [h]

/-- **frontend_args**: which entry applies to a file does not depend on the letter case of the keys or of the path -/
theorem C23_frontend_args_recase {α : Type} (path path' : Name) (hp : lower path = lower path') :
    ∀ (es es' : List (Name × α)), es.map (fun e => (lower e.1, e.2)) = es'.map (fun e => (lower e.1, e.2)) →
      faLookup path es = faLookup path' es'
  | [], [], _ => rfl
  | [], _ :: _, h => by simp at h
  | _ :: _, [], h => by simp at h
  | (k, v) :: es, (k', v') :: es', h => by
    simp only [List.map_cons, List.cons.injEq, Prod.mk.injEq] at h
    obtain ⟨⟨hk, hv⟩, hrest⟩ := h
    have ih := C23_frontend_args_recase path path' hp es es' hrest
    by_cases hm : glob (faPattern k') (lower path') = true
    · simp [faLookup, faMatch, C23_frontend_args_pattern k k' hk, hp, hv, hm]
    · simp [faLookup, faMatch, C23_frontend_args_pattern k k' hk, hp, hm, ih]

/-- non-vacuity: an absolute key with upper-case letters matches its file -/
example : faMatch "/tmp/Proj/Comp2.F90".toList "/tmp/Proj/comp2.F90".toList = true := by decide
example : faMatch "/tmp/Proj/Comp2.F90".toList "COMP2.f90".toList = true := by decide
example : faMatch "/tmp/Proj/Comp2.F90".toList "comp3.F90".toList = false := by decide

end LokiModel.C23
