import LokiModel.C22.Lemmas
/-!
# C22 — Scheduler processing visits each selected item once, in dependency order

Statements about `LokiModel.C22.process` (model of `Scheduler.process_transformation` with `SFilter`,
`SGraph.as_filegraph` and the `Transformation.apply*` dispatch) for **all** graphs, all orders satisfying the
contract of `nx.topological_sort` (`IsTopo` / `IsTopoF`), all manifests and configurations.
`topNames cs` = the item names of the calls the scheduler issues itself (first call of every `apply`).
-/
namespace LokiModel.C22

/-- traversal direction -/
def trav {α} (m : Manifest) (order : List α) : List α := if m.reverse then order.reverse else order

/-- **the items the property calls "selected"**: not external, of a kind in the manifest's item filter (an empty
filter selects every kind), not ignored unless the manifest processes ignored items, and of the requested mode
(type definitions and interfaces carry no mode) -/
def selected (m : Manifest) (c : Cfg) (it : Item) : Bool :=
  !it.ext && kindMatch m.flt it.kind && (m.procIgnored || !it.ignored) &&
    (c.mode.isNone || it.kind == .typedef || it.kind == .iface || it.mode == c.mode)

/-- the selection `as_filegraph` makes (no mode rule there) -/
def selectedFG (m : Manifest) (it : Item) : Bool :=
  !it.ext && kindMatch m.flt it.kind && (m.procIgnored || !it.ignored)

/-- an external item the item-graph traversal stops at: strict configuration, matches the filter, and is not a
build-generated item met in planning mode -/
def blockingSel (m : Manifest) (c : Cfg) (it : Item) : Bool :=
  it.ext && c.strict && kindMatch m.flt it.kind && (m.procIgnored || !it.ignored) && !(c.plan && it.generated)

/-- files the file-graph traversal keeps: the file item's *own* mode decides -/
def fileVisited (c : Cfg) (f : FileNode) : Bool := c.mode.isNone || f.mode == c.mode

/-! ## SFilter does what it says -/

theorem accepts_item (m : Manifest) (c : Cfg) (it : Item) :
    accepts (itemSF m c) it.attr = (selected m c it || (it.ext && c.strict && kindMatch m.flt it.kind &&
      (m.procIgnored || !it.ignored))) := by
  unfold accepts selected itemSF Item.attr
  cases it.ext <;> cases c.strict <;> cases kindMatch m.flt it.kind <;> cases m.procIgnored <;>
    cases it.ignored <;> cases h0 : c.mode.isNone <;> cases h3 : (it.mode == c.mode) <;>
    cases h1 : (it.kind == Kind.typedef) <;> cases h2 : (it.kind == Kind.iface) <;> simp [h0, h3]

theorem accepts_fg (m : Manifest) (it : Item) : accepts (fgSF m) it.attr = selectedFG m it := by
  unfold accepts selectedFG fgSF Item.attr
  cases it.ext <;> cases kindMatch m.flt it.kind <;> cases m.procIgnored <;> cases it.ignored <;>
    simp [Option.isNone]

theorem accepts_file (m : Manifest) (c : Cfg) (f : FileNode) :
    accepts (fileSF m c) f.attr = fileVisited c f := by
  unfold accepts fileVisited fileSF FileNode.attr
  cases h0 : c.mode.isNone <;> cases h3 : (f.mode == c.mode) <;> simp [h0, h3, kindMatch]

/-- `SFilter` over the item graph yields, in traversal order, exactly the selected items plus (strict mode) the
external items matching the filter -/
theorem C22_sfilter_spec (m : Manifest) (c : Cfg) (order : List Item) :
    sfilter Item.attr (itemSF m c) order =
      (trav m order).filter (fun it => selected m c it || (it.ext && c.strict && kindMatch m.flt it.kind &&
        (m.procIgnored || !it.ignored))) := by
  rw [sfilter_eq_filter]
  have : (itemSF m c).reverse = m.reverse := rfl
  simp only [trav, this]
  congr 1
  funext it
  exact accepts_item m c it

theorem sfilter_nonext (m : Manifest) (c : Cfg) (order : List Item) :
    (sfilter Item.attr (itemSF m c) order).filter (fun it => !it.ext) = (trav m order).filter (selected m c) := by
  rw [C22_sfilter_spec, List.filter_filter]
  congr 1
  funext it
  unfold selected
  cases it.ext <;> simp

theorem nodup_names_trav (m : Manifest) {order : List Item} (h : (order.map (·.name)).Nodup) :
    ((trav m order).map (·.name)).Nodup := by
  unfold trav; split
  · rw [List.map_reverse]; exact (List.reverse_perm _).nodup_iff.2 h
  · exact h

theorem mem_trav {α} (m : Manifest) (order : List α) (x : α) : x ∈ trav m order ↔ x ∈ order := by
  unfold trav; split <;> simp

/-! ## item-graph traversal -/

/-- **once**: when no error is raised, the scheduler's calls are on exactly the selected items of the graph, each
exactly once, in traversal order -/
theorem C22_once (g : Graph) (irs : List FileIR) (order : List Item) (forder : Option (List FileNode))
    (m : Manifest) (c : Cfg) (ht : IsTopo g order) (hf : m.fileGraph = false)
    (he : (process g irs order forder m c).err = none) :
    topNames (process g irs order forder m c).calls = ((trav m order).filter (selected m c)).map (·.name) ∧
    (topNames (process g irs order forder m c).calls).Nodup ∧
    ∀ n, n ∈ topNames (process g irs order forder m c).calls ↔
      ∃ it ∈ g.items, selected m c it = true ∧ it.name = n := by
  simp only [process, hf] at he ⊢
  simp only [Bool.false_eq_true, if_false] at he ⊢
  have he' : (processItems m c (sfilter Item.attr (itemSF m c) order)).2 = none := by
    cases h : (processItems m c (sfilter Item.attr (itemSF m c) order)).2 with
    | none => rfl
    | some n => rw [h] at he; simp at he
  have heq := processItems_ok m c _ he'
  rw [sfilter_nonext] at heq
  refine ⟨heq, ?_, ?_⟩
  · rw [heq]
    exact (nodup_names_trav m ht.1).sublist ((List.filter_sublist).map _)
  · intro n
    rw [heq]
    simp only [List.mem_map, List.mem_filter, mem_trav]
    constructor
    · rintro ⟨it, ⟨ho, hs⟩, rfl⟩; exact ⟨it, (ht.2.2.1 it).1 ho, hs, rfl⟩
    · rintro ⟨it, hg, hs, rfl⟩; exact ⟨it, ⟨(ht.2.2.1 it).2 hg, hs⟩, rfl⟩

/-- **external / strict rule**: processing of the item graph raises exactly when the graph contains an external
item of a selected kind in strict mode (unless it is build-generated and we are planning); the calls made before
are a prefix of the calls on the selected items; the error names the first such item of the traversal -/
theorem C22_external_strict (g : Graph) (irs : List FileIR) (order : List Item)
    (forder : Option (List FileNode)) (m : Manifest) (c : Cfg) (ht : IsTopo g order) (hf : m.fileGraph = false) :
    ((process g irs order forder m c).err ≠ none ↔ ∃ it ∈ g.items, blockingSel m c it = true) ∧
    topNames (process g irs order forder m c).calls <+: ((trav m order).filter (selected m c)).map (·.name) ∧
    ∀ e, (process g irs order forder m c).err = some e →
      ∃ it ∈ g.items, blockingSel m c it = true ∧ e = .external it.name := by
  simp only [process, hf]
  simp only [Bool.false_eq_true, if_false]
  have hblock : ∀ it, (it ∈ sfilter Item.attr (itemSF m c) order ∧ Blocking c it) ↔
      (it ∈ g.items ∧ blockingSel m c it = true) := by
    intro it
    rw [C22_sfilter_spec]
    simp only [List.mem_filter, mem_trav, Blocking, blockingSel, selected, (ht.2.2.1 it)]
    cases it.ext <;> cases c.strict <;> cases kindMatch m.flt it.kind <;> cases m.procIgnored <;>
      cases it.ignored <;> cases c.plan <;> cases it.generated <;> simp
  refine ⟨?_, ?_, ?_⟩
  · have := processItems_err_iff m c (sfilter Item.attr (itemSF m c) order)
    constructor
    · intro h
      have h' : (processItems m c (sfilter Item.attr (itemSF m c) order)).2 ≠ none := by
        intro e; rw [e] at h; simp at h
      obtain ⟨it, hi, hb⟩ := this.1 h'
      exact ⟨it, ((hblock it).1 ⟨hi, hb⟩).1, ((hblock it).1 ⟨hi, hb⟩).2⟩
    · rintro ⟨it, hi, hb⟩
      have := this.2 ⟨it, ((hblock it).2 ⟨hi, hb⟩).1, ((hblock it).2 ⟨hi, hb⟩).2⟩
      cases h : (processItems m c (sfilter Item.attr (itemSF m c) order)).2 with
      | none => exact absurd h this
      | some n => simp
  · have := processItems_prefix m c (sfilter Item.attr (itemSF m c) order)
    rwa [sfilter_nonext] at this
  · intro e he
    cases h : (processItems m c (sfilter Item.attr (itemSF m c) order)).2 with
    | none => rw [h] at he; simp at he
    | some n =>
      rw [h] at he
      simp only [Option.map_some, Option.some.injEq] at he
      obtain ⟨pre, it, post, hl, hn, hb, _⟩ := processItems_err_first m c _ n h
      have hmem : it ∈ sfilter Item.attr (itemSF m c) order := by rw [hl]; simp
      refine ⟨it, ((hblock it).1 ⟨hmem, hb⟩).1, ((hblock it).1 ⟨hmem, hb⟩).2, ?_⟩
      rw [← he, hn]

/-- **order**: for every dependency `a → b` between selected items, `a` is processed before `b`
(after `b` in reverse mode) -/
theorem C22_order_ok (g : Graph) (irs : List FileIR) (order : List Item) (forder : Option (List FileNode))
    (m : Manifest) (c : Cfg) (ht : IsTopo g order) (hf : m.fileGraph = false)
    (he : (process g irs order forder m c).err = none)
    (a b : Item) (hab : (a, b) ∈ g.edges) (ha : selected m c a = true) (hb : selected m c b = true) :
    (m.reverse = false → [a.name, b.name].Sublist (topNames (process g irs order forder m c).calls)) ∧
    (m.reverse = true → [b.name, a.name].Sublist (topNames (process g irs order forder m c).calls)) := by
  rw [(C22_once g irs order forder m c ht hf he).1]
  have hs : [a, b].Sublist order := ht.2.2.2 (a, b) hab
  constructor
  · intro hr
    simp only [trav, hr]
    have := (pair_sublist_filter (selected m c) hs ha hb).map (·.name)
    simpa using this
  · intro hr
    simp only [trav, hr, if_true]
    have := (pair_sublist_filter (selected m c) (pair_sublist_reverse hs) hb ha).map (·.name)
    simpa using this

/-- the same in terms of positions -/
theorem C22_order_index (g : Graph) (irs : List FileIR) (order : List Item) (forder : Option (List FileNode))
    (m : Manifest) (c : Cfg) (ht : IsTopo g order) (hf : m.fileGraph = false)
    (he : (process g irs order forder m c).err = none)
    (a b : Item) (hab : (a, b) ∈ g.edges) (ha : selected m c a = true) (hb : selected m c b = true) :
    let ns := topNames (process g irs order forder m c).calls
    (m.reverse = false → ns.idxOf a.name < ns.idxOf b.name) ∧
    (m.reverse = true → ns.idxOf b.name < ns.idxOf a.name) := by
  have hn := (C22_once g irs order forder m c ht hf he).2.1
  have ho := C22_order_ok g irs order forder m c ht hf he a b hab ha hb
  exact ⟨fun hr => idxOf_lt_of_pair_sublist hn (ho.1 hr), fun hr => idxOf_lt_of_pair_sublist hn (ho.2 hr)⟩

theorem mem_applySub {m : Manifest} {base : Call} {s : Sub} {t : Bool} {x : Call} (hx : x ∈ applySub m base s t) :
    x.item = base.item ∧ x.role = base.role ∧ x.mode = base.mode ∧ x.targets = base.targets ∧
      x.plan = base.plan ∧ x.items = base.items ∧ x.meth = .sub ∧ (x.top = true → t = true ∧ x.ir = s.name) := by
  unfold applySub at hx
  rcases List.mem_cons.1 hx with rfl | hx
  · simp
  · split at hx
    · simp only [List.mem_map] at hx
      obtain ⟨n, _, rfl⟩ := hx
      simp
    · simp at hx

/-- **arguments of the calls**: in an item-graph traversal every call (also the ones `apply_module` /
`apply_subroutine` make when recursing) carries the role, the mode and the targets of its own item, no `items`,
and is a `plan_*` call exactly in planning mode; the scheduler's own call is on the item's `transformation_ir` -/
theorem C22_call_attrs (g : Graph) (irs : List FileIR) (order : List Item) (forder : Option (List FileNode))
    (m : Manifest) (c : Cfg) (ht : IsTopo g order) (hf : m.fileGraph = false) :
    ∀ x ∈ (process g irs order forder m c).calls, ∃ it ∈ g.items, it.ext = false ∧
      x.item = it.name ∧ x.role = it.role ∧ x.mode = it.mode ∧ x.targets = targets it ∧ x.plan = c.plan ∧
      x.items = none ∧
      (x.top = true → x.ir = it.irName ∧ x.meth = (if it.irMod then .module else .sub)) := by
  simp only [process, hf]
  simp only [Bool.false_eq_true, if_false]
  have key : ∀ l : List Item, (∀ it ∈ l, it ∈ g.items) → ∀ x ∈ (processItems m c l).1, ∃ it ∈ g.items,
      it.ext = false ∧ x.item = it.name ∧ x.role = it.role ∧ x.mode = it.mode ∧ x.targets = targets it ∧
      x.plan = c.plan ∧ x.items = none ∧
      (x.top = true → x.ir = it.irName ∧ x.meth = (if it.irMod then .module else .sub)) := by
    intro l
    induction l with
    | nil => intro _ x hx; simp [processItems] at hx
    | cons it rest ih =>
      intro hl x hx
      have hrest : ∀ y ∈ rest, y ∈ g.items := fun y hy => hl y (List.mem_cons_of_mem _ hy)
      simp only [processItems] at hx
      by_cases hext : it.ext = true
      · simp only [hext, if_true] at hx
        split at hx
        · exact ih hrest x hx
        · simp at hx
      · simp only [hext] at hx
        simp only [Bool.false_eq_true, if_false] at hx
        rcases List.mem_append.1 hx with hx | hx
        · refine ⟨it, hl it List.mem_cons_self, by simpa using hext, ?_⟩
          unfold applyItem at hx
          split at hx
          · rename_i hmod
            rcases List.mem_cons.1 hx with rfl | hx
            · simp [hmod]
            · split at hx
              · simp only [List.mem_flatMap] at hx
                obtain ⟨s, _, hs⟩ := hx
                have := mem_applySub hs
                refine ⟨this.1, this.2.1, this.2.2.1, this.2.2.2.1, this.2.2.2.2.1, this.2.2.2.2.2.1, ?_⟩
                intro ht; exact absurd (this.2.2.2.2.2.2.2 ht).1 (by simp)
              · simp at hx
          · rename_i hmod
            have := mem_applySub hx
            refine ⟨this.1, this.2.1, this.2.2.1, this.2.2.2.1, this.2.2.2.2.1, this.2.2.2.2.2.1, ?_⟩
            intro ht
            refine ⟨(this.2.2.2.2.2.2.2 ht).2, ?_⟩
            simp [hmod, this.2.2.2.2.2.2.1]
        · exact ih hrest x hx
  apply key
  intro it hit
  rw [C22_sfilter_spec] at hit
  exact (ht.2.2.1 it).1 ((mem_trav m order it).1 (List.mem_filter.1 hit).1)

/-- **targets**: `Item.targets` are the names of the item's dependencies, without those for which some
dependency entry of that name is excluded by the item's `disable`/`block` lists; no duplicates -/
theorem C22_targets_eq (it : Item) :
    (∀ t, t ∈ targets it ↔
      (∃ d ∈ it.deps, d.name = t) ∧ ∀ d ∈ it.deps, d.name = t → d.excluded it.excl = false) ∧
    (targets it).Nodup := by
  have inv := childInv_final it.excl it.deps
  constructor
  · intro t
    unfold targets
    simp only [List.mem_map, List.mem_filter, Bool.not_eq_true']
    constructor
    · rintro ⟨⟨k, v⟩, ⟨hmem, hv⟩, rfl⟩
      simp only at hv; subst hv
      obtain ⟨hex, hany⟩ := (inv.2 k false).1 hmem
      refine ⟨hex, ?_⟩
      intro d hd hn
      have := List.any_eq_false.1 hany.symm d hd
      simpa [hn] using this
    · rintro ⟨hex, hall⟩
      refine ⟨(t, false), ⟨(inv.2 t false).2 ⟨hex, ?_⟩, rfl⟩, rfl⟩
      symm
      rw [List.any_eq_false]
      intro d hd
      by_cases hn : d.name = t
      · simp [hn, hall d hd hn]
      · simp [hn]
  · unfold targets
    exact inv.1.sublist ((List.filter_sublist).map _)

/-! ## file-graph traversal -/

theorem sfilter_fg (m : Manifest) (order : List Item) :
    sfilter Item.attr (fgSF m) order = order.filter (selectedFG m) := by
  rw [sfilter_eq_filter]
  simp only [fgSF, Bool.false_eq_true, if_false]
  congr 1
  funext it
  exact accepts_fg m it

theorem eq_of_name_eq {l : List Item} (h : (l.map (·.name)).Nodup) {x y : Item} (hx : x ∈ l) (hy : y ∈ l)
    (hn : x.name = y.name) : x = y := by
  induction l with
  | nil => cases hx
  | cons z rest ih =>
    have hz : z.name ∉ rest.map (·.name) ∧ (rest.map (·.name)).Nodup := List.nodup_cons.1 h
    rcases List.mem_cons.1 hx with hxz | hx'
    · rcases List.mem_cons.1 hy with hyz | hy'
      · rw [hxz, hyz]
      · exact (hz.1 (List.mem_map.2 ⟨y, hy', by rw [← hn, hxz]⟩)).elim
    · rcases List.mem_cons.1 hy with hyz | hy'
      · exact (hz.1 (List.mem_map.2 ⟨x, hx', by rw [hn, hyz]⟩)).elim
      · exact ih hz.2 hx' hy'

/-- **file graph**: its nodes are exactly the files containing an item selected by kind / ignore rule, each
once; its edges are exactly the file pairs of dependencies between two such items in different files -/
theorem C22_filegraph_spec (g : Graph) (order : List Item) (m : Manifest) (ht : IsTopo g order) :
    (∀ f, f ∈ (asFileGraph g order m).nodes ↔ ∃ it ∈ g.items, selectedFG m it = true ∧ it.file = f) ∧
    (asFileGraph g order m).nodes.Nodup ∧
    (∀ fa fb, (fa, fb) ∈ (asFileGraph g order m).edges ↔
      ∃ a b, (a, b) ∈ g.edges ∧ selectedFG m a = true ∧ selectedFG m b = true ∧
        b.file.name ≠ a.file.name ∧ fa = a.file ∧ fb = b.file) := by
  simp only [asFileGraph, sfilter_fg]
  refine ⟨?_, nodup_fileNodes _, ?_⟩
  · intro f
    rw [mem_fileNodes]
    simp only [List.mem_filter]
    constructor
    · rintro ⟨it, ⟨ho, hs⟩, rfl⟩; exact ⟨it, (ht.2.2.1 it).1 ho, hs, rfl⟩
    · rintro ⟨it, hg, hs, rfl⟩; exact ⟨it, ⟨(ht.2.2.1 it).2 hg, hs⟩, rfl⟩
  · intro fa fb
    rw [mem_fileEdges]
    simp only [List.mem_filter]
    constructor
    · rintro ⟨a, ⟨_, hsa⟩, b, hab, ⟨s, ⟨hso, hss⟩, hsn⟩, hne, rfl, rfl⟩
      have hbo : b ∈ order := (ht.2.2.2 (a, b) hab).subset (by simp)
      have : s = b := eq_of_name_eq ht.1 hso hbo hsn
      subst this
      exact ⟨a, s, hab, hsa, hss, hne, rfl, rfl⟩
    · rintro ⟨a, b, hab, hsa, hsb, hne, rfl, rfl⟩
      have hao : a ∈ order := (ht.2.2.2 (a, b) hab).subset (by simp)
      have hbo : b ∈ order := (ht.2.2.2 (a, b) hab).subset (by simp)
      exact ⟨a, ⟨hao, hsa⟩, b, hab, ⟨b, ⟨hbo, hsb⟩, rfl⟩, hne, rfl, rfl⟩

theorem sfilter_files (m : Manifest) (c : Cfg) (fo : List FileNode) :
    sfilter FileNode.attr (fileSF m c) fo = (trav m fo).filter (fileVisited c) := by
  rw [sfilter_eq_filter]
  simp only [trav, fileSF]
  congr 1
  funext f
  exact accepts_file m c f

/-- **file graph, once**: given a topological order of the file graph, processing raises nothing and the
scheduler's calls are on exactly the files of that order whose own mode matches, each once, in traversal order -/
theorem C22_filegraph_once (g : Graph) (irs : List FileIR) (order : List Item) (fo : List FileNode)
    (m : Manifest) (c : Cfg) (hf : m.fileGraph = true) (hfo : IsTopoF (asFileGraph g order m) fo) :
    (process g irs order (some fo) m c).err = none ∧
    topNames (process g irs order (some fo) m c).calls = ((trav m fo).filter (fileVisited c)).map (·.name) ∧
    (topNames (process g irs order (some fo) m c).calls).Nodup := by
  simp only [process, hf, if_true, topNames_processFiles, sfilter_files, true_and]
  have hn : ((trav m fo).map (·.name)).Nodup := by
    unfold trav; split
    · rw [List.map_reverse]; exact (List.reverse_perm _).nodup_iff.2 hfo.1
    · exact hfo.1
  exact hn.sublist ((List.filter_sublist).map _)

/-- **file graph, mode-agnostic processing**: without a mode argument the processed files are exactly the files
that contain a selected item -/
theorem C22_filegraph_mode_partial (g : Graph) (irs : List FileIR) (order : List Item) (fo : List FileNode)
    (m : Manifest) (c : Cfg) (ht : IsTopo g order) (hf : m.fileGraph = true)
    (hfo : IsTopoF (asFileGraph g order m) fo) (hmode : c.mode = none) :
    ∀ n, n ∈ topNames (process g irs order (some fo) m c).calls ↔
      ∃ it ∈ g.items, selected m c it = true ∧ it.file.name = n := by
  intro n
  rw [(C22_filegraph_once g irs order fo m c hf hfo).2.1]
  have hsel : ∀ it, selected m c it = selectedFG m it := by
    intro it; simp [selected, selectedFG, hmode]
  have hvis : ∀ f, fileVisited c f = true := by intro f; simp [fileVisited, hmode]
  simp only [List.mem_map, List.mem_filter, mem_trav, hvis, and_true, hsel]
  constructor
  · rintro ⟨f, hfm, rfl⟩
    obtain ⟨it, hi, hs, rfl⟩ := ((C22_filegraph_spec g order m ht).1 f).1 ((hfo.2.2.1 f).1 hfm)
    exact ⟨it, hi, hs, rfl⟩
  · rintro ⟨it, hi, hs, rfl⟩
    exact ⟨it.file, (hfo.2.2.1 _).2 (((C22_filegraph_spec g order m ht).1 it.file).2 ⟨it, hi, hs, rfl⟩), rfl⟩

/-- **file graph, order**: if `a → b` is a dependency between selected items living in different files and both
files are processed, the file of `a` is processed before the file of `b` (after it in reverse mode) -/
theorem C22_filegraph_order (g : Graph) (irs : List FileIR) (order : List Item) (fo : List FileNode)
    (m : Manifest) (c : Cfg) (ht : IsTopo g order) (hf : m.fileGraph = true)
    (hfo : IsTopoF (asFileGraph g order m) fo)
    (a b : Item) (hab : (a, b) ∈ g.edges) (ha : selectedFG m a = true) (hb : selectedFG m b = true)
    (hne : b.file.name ≠ a.file.name) (hva : fileVisited c a.file = true) (hvb : fileVisited c b.file = true) :
    (m.reverse = false →
      [a.file.name, b.file.name].Sublist (topNames (process g irs order (some fo) m c).calls)) ∧
    (m.reverse = true →
      [b.file.name, a.file.name].Sublist (topNames (process g irs order (some fo) m c).calls)) := by
  rw [(C22_filegraph_once g irs order fo m c hf hfo).2.1]
  have he : (a.file, b.file) ∈ (asFileGraph g order m).edges :=
    ((C22_filegraph_spec g order m ht).2.2 _ _).2 ⟨a, b, hab, ha, hb, hne, rfl, rfl⟩
  have hs : [a.file, b.file].Sublist fo := hfo.2.2.2 _ he
  constructor
  · intro hr
    simp only [trav, hr]
    have := (pair_sublist_filter (fileVisited c) hs hva hvb).map (·.name)
    simpa using this
  · intro hr
    simp only [trav, hr, if_true]
    have := (pair_sublist_filter (fileVisited c) (pair_sublist_reverse hs) hvb hva).map (·.name)
    simpa using this

/-! ## Where the unchanged code violates the property (known findings)

Four families; for each: the full statement as a `Prop`, its refutation by a concrete witness, the decidable class
`Known…` of failing inputs, and what holds outside (`…_partial`). -/

/-- contract of `nx.topological_sort` on the file graph: an order, or `none` (NetworkXUnfeasible) only if there is none -/
def TopoContractF (fg : FGraph) : Option (List FileNode) → Prop
  | some fo => IsTopoF fg fo
  | none => ¬ ∃ fo, IsTopoL fg.nodes fg.edges fo

def sameMembers (a b : List String) : Bool := a.all b.contains && b.all a.contains

private def fA : FileNode := ⟨"f0", some "idem", some "kernel"⟩
private def fB : FileNode := ⟨"f1", some "idem", some "kernel"⟩
private def mkItem (n : String) (f : FileNode) (mode : String) : Item :=
  { name := n, kind := .proc, ext := false, generated := false, ignored := false, mode := some mode,
    role := some "kernel", file := f, scope := none, deps := [], excl := [], irMod := false, irName := n,
    irMembers := [], irSubs := [] }
private def iA := mkItem "#a" fA "idem"
private def iB := mkItem "#b" fB "idem"
private def iD := mkItem "#d" fA "idem"
private def iS := mkItem "#s" fA "special"
private def mFile : Manifest := ⟨[.proc], false, true, false, false, true, false⟩
private def gCyc : Graph := ⟨[iA, iB, iD], [(iA, iB), (iB, iD)]⟩
private def gOne : Graph := ⟨[iS], []⟩

/-- (1) **cyclic file graph.**  Full statement: the file graph of an acyclic item graph can be ordered (so that every
file can be visited once, dependencies first). -/
def C22_filegraph_total_full : Prop :=
  ∀ (g : Graph) (order : List Item) (m : Manifest), IsTopo g order →
    ∃ fo, IsTopoL (asFileGraph g order m).nodes (asFileGraph g order m).edges fo

/-- class: Kahn's algorithm gets stuck on the file graph -/
def KnownCyclic (g : Graph) (order : List Item) (m : Manifest) : Bool :=
  m.fileGraph && (kahn (asFileGraph g order m).nodes (asFileGraph g order m).edges).isNone

/-- witness: free routines `a`, `d` in file f0, `b` in f1, `a` calls `b` calls `d` (legal Fortran): the file graph is
f0 ⇄ f1; networkx raises NetworkXUnfeasible and no file is processed -/
theorem C22_filegraph_total_full_false : ¬ C22_filegraph_total_full := by
  intro h
  have ht : IsTopo gCyc [iA, iB, iD] := (isTopo_iff _ _).1 (by decide)
  obtain ⟨fo, hn, _, he⟩ := h gCyc [iA, iB, iD] mFile ht
  have e1 : (fA, fB) ∈ (asFileGraph gCyc [iA, iB, iD] mFile).edges := by decide
  have e2 : (fB, fA) ∈ (asFileGraph gCyc [iA, iB, iD] mFile).edges := by decide
  have h1 : fo.idxOf fA < fo.idxOf fB := idxOf_lt_of_pair_sublist hn (he _ e1)
  have h2 : fo.idxOf fB < fo.idxOf fA := idxOf_lt_of_pair_sublist hn (he _ e2)
  omega

example : KnownCyclic gCyc [iA, iB, iD] mFile = true := by decide
example : (process gCyc [] [iA, iB, iD] none mFile ⟨true, none, true⟩).err = some .unfeasible := by decide

/-- outside the class `KnownCyclic` the file graph of an acyclic item graph has a topological order (the one Kahn's
sort finds), so `C22_filegraph_once` / `C22_filegraph_order` apply -/
theorem C22_filegraph_total_partial (g : Graph) (order : List Item) (m : Manifest) (ht : IsTopo g order)
    (hf : m.fileGraph = true) (hk : KnownCyclic g order m = false) :
    ∃ fo, IsTopoL (asFileGraph g order m).nodes (asFileGraph g order m).edges fo := by
  simp only [KnownCyclic, hf, Bool.true_and] at hk
  cases h : kahn (asFileGraph g order m).nodes (asFileGraph g order m).edges with
  | none => rw [h] at hk; simp at hk
  | some o =>
    refine ⟨o, kahn_sound _ _ (C22_filegraph_spec g order m ht).2.1 ?_ o h⟩
    rintro ⟨fa, fb⟩ he
    obtain ⟨a, b, hab, hsa, hsb, _, rfl, rfl⟩ := ((C22_filegraph_spec g order m ht).2.2 fa fb).1 he
    have hao : a ∈ g.items := (ht.2.2.1 a).1 ((ht.2.2.2 (a, b) hab).subset (by simp))
    have hbo : b ∈ g.items := (ht.2.2.1 b).1 ((ht.2.2.2 (a, b) hab).subset (by simp))
    exact ⟨((C22_filegraph_spec g order m ht).1 _).2 ⟨a, hao, hsa, rfl⟩,
           ((C22_filegraph_spec g order m ht).1 _).2 ⟨b, hbo, hsb, rfl⟩⟩


/-- (2) **mode in a file-graph traversal.**  Full statement: the processed files are the files that contain an item
selected under the item rules, mode rule included. -/
def C22_filegraph_mode_full : Prop :=
  ∀ (g : Graph) (irs : List FileIR) (order : List Item) (fo : List FileNode) (m : Manifest) (c : Cfg),
    IsTopo g order → m.fileGraph = true → IsTopoF (asFileGraph g order m) fo →
    ∀ n, n ∈ topNames (process g irs order (some fo) m c).calls ↔
      ∃ it ∈ g.items, selected m c it = true ∧ it.file.name = n

/-- class: a mode is requested and the files whose *own* mode matches are not the files holding matching items -/
def KnownFileMode (g : Graph) (order : List Item) (fo : List FileNode) (m : Manifest) (c : Cfg) : Bool :=
  m.fileGraph && c.mode.isSome &&
    !sameMembers ((fo.filter (fileVisited c)).map (·.name)) ((order.filter (selected m c)).map (·.file.name))

/-- witness: routine `s` with mode "special" in a file whose item has the default mode "idem"; processing with
mode "special" visits nothing -/
theorem C22_filegraph_mode_full_false : ¬ C22_filegraph_mode_full := by
  intro h
  have ht : IsTopo gOne [iS] := (isTopo_iff _ _).1 (by decide)
  have hf : IsTopoF (asFileGraph gOne [iS] mFile) [fA] := (isTopoF_iff _ _).1 (by decide)
  have := (h gOne [] [iS] [fA] mFile ⟨true, some "special", true⟩ ht rfl hf "f0").2
    ⟨iS, by decide, by decide, rfl⟩
  revert this
  decide

example : KnownFileMode gOne [iS] [fA] mFile ⟨true, some "special", true⟩ = true := by decide

/-- outside the class the full statement holds -/
theorem C22_filegraph_mode_known (g : Graph) (irs : List FileIR) (order : List Item) (fo : List FileNode)
    (m : Manifest) (c : Cfg) (ht : IsTopo g order) (hf : m.fileGraph = true)
    (hfo : IsTopoF (asFileGraph g order m) fo) (hk : KnownFileMode g order fo m c = false) :
    ∀ n, n ∈ topNames (process g irs order (some fo) m c).calls ↔
      ∃ it ∈ g.items, selected m c it = true ∧ it.file.name = n := by
  cases hm : c.mode with
  | none => exact C22_filegraph_mode_partial g irs order fo m c ht hf hfo hm
  | some md =>
    intro n
    rw [(C22_filegraph_once g irs order fo m c hf hfo).2.1]
    simp only [KnownFileMode, hf, hm, Option.isSome_some, Bool.true_and, Bool.not_eq_false', sameMembers,
      Bool.and_eq_true, List.all_eq_true, List.contains_iff_mem] at hk
    have hvis : ∀ x, x ∈ ((trav m fo).filter (fileVisited c)).map (·.name) ↔
        x ∈ (fo.filter (fileVisited c)).map (·.name) := by
      intro x; simp only [List.mem_map, List.mem_filter, mem_trav]
    rw [hvis]
    constructor
    · intro hn
      have := hk.1 n (by simpa [hm] using hn)
      simp only [List.mem_map, List.mem_filter] at this
      obtain ⟨it, ⟨ho, hs⟩, rfl⟩ := this
      exact ⟨it, (ht.2.2.1 it).1 ho, by simpa [hm] using hs, rfl⟩
    · rintro ⟨it, hi, hs, rfl⟩
      have := hk.2 it.file.name (List.mem_map.2 ⟨it, List.mem_filter.2 ⟨(ht.2.2.1 it).2 hi, by simpa [hm] using hs⟩, rfl⟩)
      simpa [hm] using this

/-- (3) **mode passed when recursing from a file.**  Full statement: every call made for a graph item carries that
item's mode. -/
def C22_call_mode_full : Prop :=
  ∀ (g : Graph) (irs : List FileIR) (order : List Item) (forder : Option (List FileNode)) (m : Manifest) (c : Cfg),
    IsTopo g order → TopoContractF (asFileGraph g order m) forder →
    ∀ x ∈ (process g irs order forder m c).calls, ∀ it ∈ g.items, x.item = it.name → x.mode = it.mode

/-- class: file-graph traversal recursing to modules/procedures over a processed file one of whose definition items
(of the kind recursed to) has a mode different from the file item's -/
def KnownRecurseMode (g : Graph) (irs : List FileIR) (fo : List FileNode) (m : Manifest) (c : Cfg) : Bool :=
  m.fileGraph && (fo.filter (fileVisited c)).any fun f =>
    (defItemsL m g.items (lookupIR irs f).defs).any fun it =>
      ((m.recProc && it.kind == .proc) || (m.recMod && it.kind == .module)) && !(it.mode == f.mode)

private def irsOne : List FileIR := [⟨"f0", [], ["s"], [.node iS []]⟩]

/-- witness: `apply_file` calls `transform_subroutine(item=s, role=s.role, targets=s.targets, **kwargs)` where
`kwargs['mode']` is still the file item's mode -/
theorem C22_call_mode_full_false : ¬ C22_call_mode_full := by
  intro h
  have ht : IsTopo gOne [iS] := (isTopo_iff _ _).1 (by decide)
  have hf : IsTopoF (asFileGraph gOne [iS] mFile) [fA] := (isTopoF_iff _ _).1 (by decide)
  have := h gOne irsOne [iS] (some [fA]) mFile ⟨true, none, true⟩ ht hf
    ⟨.sub, true, "#s", "#s", some "kernel", some "idem", [], none, false⟩ (by decide) iS (by decide) rfl
  revert this
  decide

example : KnownRecurseMode gOne irsOne [fA] mFile ⟨true, none, true⟩ = true := by decide

/-- outside file-graph traversals the full statement holds (see `C22_call_attrs` for role, targets, … as well) -/
theorem C22_call_mode_partial (g : Graph) (irs : List FileIR) (order : List Item) (forder : Option (List FileNode))
    (m : Manifest) (c : Cfg) (ht : IsTopo g order) (hf : m.fileGraph = false) :
    ∀ x ∈ (process g irs order forder m c).calls, ∀ it ∈ g.items, x.item = it.name → x.mode = it.mode := by
  intro x hx it hit hn
  obtain ⟨it', hit', _, hn', _, hm, _⟩ := C22_call_attrs g irs order forder m c ht hf x hx
  have : it' = it := eq_of_name_eq (l := order) ht.1 ((ht.2.2.1 _).2 hit') ((ht.2.2.1 _).2 hit) (by rw [← hn', hn])
  rw [hm, this]

/-- (4) **items handed to a file-level transformation.**  Full statement: the `items` of the call on a file contain
every non-external graph item of that file that is to be processed (not ignored, or ignored items are processed). -/
def C22_file_items_full : Prop :=
  ∀ (g : Graph) (irs : List FileIR) (order : List Item) (fo : List FileNode) (m : Manifest) (c : Cfg),
    IsTopo g order → m.fileGraph = true → IsTopoF (asFileGraph g order m) fo →
    ∀ x ∈ (process g irs order (some fo) m c).calls, x.top = true →
      ∀ it ∈ g.items, it.ext = false → it.file.name = x.item → (m.procIgnored = true ∨ it.ignored = false) →
        ∃ ns, x.items = some ns ∧ it.name ∈ ns

/-- class: ignored items are not processed and a processed file has a graph item that is not ignored but missing
from `_get_definition_items` (an enclosing definition item is ignored, which drops the whole subtree) -/
def KnownIgnoredParent (g : Graph) (irs : List FileIR) (fo : List FileNode) (m : Manifest) (c : Cfg) : Bool :=
  m.fileGraph && !m.procIgnored && (fo.filter (fileVisited c)).any fun f =>
    g.items.any fun it => !it.ext && it.file.name == f.name && !it.ignored &&
      !((defItemsL m g.items (lookupIR irs f).defs).any (fun d => d.name == it.name))

private def iM : Item :=
  { mkItem "mm" fA "idem" with kind := .module, ignored := true, irMod := true }
private def iR : Item := { mkItem "mm#r" fA "idem" with scope := some "mm", irName := "r" }
private def gIgn : Graph := ⟨[iR], []⟩
private def irsIgn : List FileIR := [⟨"f0", ["mm"], ["r"], [.node iM [.node iR []]]⟩]

/-- witness: module `mm` is marked ignored (it is somebody's ignored dependency), its routine `mm#r` is a regular,
non-ignored graph item: the file's `items` are empty, so a transformation recursing from the file never sees `r` -/
theorem C22_file_items_full_false : ¬ C22_file_items_full := by
  intro h
  have ht : IsTopo gIgn [iR] := (isTopo_iff _ _).1 (by decide)
  have hf : IsTopoF (asFileGraph gIgn [iR] mFile) [fA] := (isTopoF_iff _ _).1 (by decide)
  obtain ⟨ns, h1, h2⟩ := h gIgn irsIgn [iR] [fA] mFile ⟨true, none, true⟩ ht rfl hf
    ⟨.file, true, "f0", "f0", some "kernel", some "idem", [], some [], true⟩ (by decide) rfl iR (by decide) rfl rfl
    (Or.inr rfl)
  simp only [Option.some.injEq] at h1
  subst h1
  simp at h2

example : KnownIgnoredParent gIgn irsIgn [fA] mFile ⟨true, none, true⟩ = true := by decide

/-! ## Non-vacuity: the hypotheses are satisfiable by non-trivial inputs -/

private def gLin : Graph := ⟨[iA, iB], [(iA, iB)]⟩
example : IsTopo gLin [iA, iB] := (isTopo_iff _ _).1 (by decide)
example : IsTopoF (asFileGraph gLin [iA, iB] mFile) [fA, fB] := (isTopoF_iff _ _).1 (by decide)
example : (process gLin [] [iA, iB] none { mFile with fileGraph := false } ⟨true, none, false⟩).err = none := by decide
example : topNames (process gLin [] [iA, iB] none { mFile with fileGraph := false, reverse := true }
    ⟨true, none, false⟩).calls = ["#b", "#a"] := by decide
example : topNames (process gLin [] [iA, iB] (some [fA, fB]) mFile ⟨true, none, false⟩).calls = ["f0", "f1"] := by
  decide
example : KnownFileMode gLin [iA, iB] [fA, fB] mFile ⟨true, some "idem", false⟩ = false := by decide
example : kahn (asFileGraph gLin [iA, iB] mFile).nodes (asFileGraph gLin [iA, iB] mFile).edges = some [fA, fB] := by
  decide

end LokiModel.C22
