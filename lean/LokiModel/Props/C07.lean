import LokiModel.C07.FSound
import LokiModel.C07.FComplete
import LokiModel.C07.PMain
import LokiModel.C07.Cover
/-!
# C07 — the standalone expression parser follows Fortran semantics

Reference side: `fparse` (`LokiModel/C07/FParse.lean`) is an executable deterministic recursive-descent parser for
the shared Fortran expression grammar `G` (`LokiModel/Expr/Grammar.lean`); it is sound and complete for `G`, hence
`G` is unambiguous and "the meaning of a well-formed text" is well defined.

Code side: `pparseF` (`LokiModel/C07/Model.lean`) models `loki.expression.parser.ExpressionParser` on top of
pymbolic's precedence-climbing `Parser` (checked against the real `parse_expr` on every run).  Well-formed texts
are exactly the texts `unparse c` of well-formed concrete syntax trees `c` (`C07_cover`, `C07_unparse_wf`).
The full statement — every well-formed text is parsed to a tree of the Fortran meaning — is false of the code
(`LokiModel/Findings/C07.lean`); `C07_partial` is the statement outside three decidable classes of concrete trees
(`Known`): a sign applied to a power (`-a**2`), `.not.` applied to anything but a primary (`.not. a == b`), and a
`* /` chain in which a `*` is followed by a `/` that is not the last operator (`a*b/c*d`).
-/
namespace LokiModel.C07
open LokiModel.Expr
open LokiModel.C06 (E den)

/-- **reference parser, soundness**: what `fparse` accepts with nothing left over is derivable, with that meaning -/
theorem C07_fparse_sound (f : Nat) (ts : List Tok) (s : S) (h : fparse f ts = some (s, [])) : G 0 ts s :=
  fparse_sound h

/-- **reference parser, completeness**: every derivation is found, for every large enough fuel -/
theorem C07_fparse_complete (ts : List Tok) (s : S) (h : G 0 ts s) :
    ∃ f0, ∀ f, f0 ≤ f → fparse f ts = some (s, []) :=
  fparse_complete h

/-- **the grammar is unambiguous** -/
theorem C07_G_unambiguous (ts : List Tok) (s s' : S) (h : G 0 ts s) (h' : G 0 ts s') : s = s' :=
  G_unambiguous h h'

/-- every well-formed text is the text of a well-formed concrete tree with the same meaning -/
theorem C07_cover (ts : List Tok) (s : S) (h : G 0 ts s) :
    ∃ c : C, c.WF = true ∧ c.unparse = ts ∧ c.sem = s := by
  obtain ⟨c, hw, _, hu, hs⟩ := cover h
  exact ⟨c, hw, hu, hs⟩

/-- and conversely the text of a well-formed concrete tree is a well-formed text with meaning `sem c` -/
theorem C07_unparse_wf (c : C) (hw : c.WF = true) : G 0 c.unparse c.sem :=
  (unparse_G c hw).weaken (Nat.zero_le _) c.lvl_le7

/-- the full statement of C07 on the modelled token set, for the executable `pparse` of the driver (kept visible;
false of the current code) -/
def C07_full : Prop :=
  ∀ c : C, c.WF = true → ∃ e, pparse (plex c.unparse) = some e ∧ SEq (den e) c.sem

/-- **C07, partial**: for every well-formed concrete syntax tree `c` (unbounded size and nesting) outside the three
known classes, the model of `parse_expr` applied to the lexer tags of its text succeeds — for every large enough
fuel — with a tree whose meaning has the value of `sem c` (or fails like it) under every valuation: integer
division truncating, mixed mode, exact rationals.  Missing for the full statement: the classes `Known`; tokens
outside `Tok` (calls, subscripts, members, strings, kinds, `.eqv.`); an explicit fuel bound (the driver uses
`4·length+4`, checked by correspondence only). -/
theorem C07_partial (c : C) (hw : c.WF = true) (hk : Known c = false) :
    ∃ e, (∃ f0, ∀ f, f0 ≤ f → pparseF f (plex c.unparse) = some e) ∧ SEq (den e) c.sem := by
  obtain ⟨e, hs, hp, _, _⟩ := res_all c hw hk
  have h := (hp.mono (Nat.zero_le _)) 0 [] (e, []) (by have := prec_order; simp [Mlt]; omega) rfl (loop_stop rfl)
  obtain ⟨f0, hf⟩ := h
  refine ⟨e, ⟨f0, fun f hle => ?_⟩, hs⟩
  have := hf f hle
  simp only [List.append_nil] at this
  show pparseF f (tg c) = some e
  simp [pparseF, this]

/-- the same for token lists: a well-formed text has a concrete tree; outside the classes the parser gives its meaning -/
theorem C07_partial_tokens (ts : List Tok) (s : S) (h : G 0 ts s) :
    ∃ c : C, c.WF = true ∧ c.unparse = ts ∧ c.sem = s ∧
      (Known c = false → ∃ e, (∃ f0, ∀ f, f0 ≤ f → pparseF f (plex ts) = some e) ∧ SEq (den e) s) := by
  obtain ⟨c, hw, hu, hs⟩ := C07_cover ts s h
  refine ⟨c, hw, hu, hs, fun hk => ?_⟩
  obtain ⟨e, he, hse⟩ := C07_partial c hw hk
  exact ⟨e, by rw [← hu]; exact he, by rw [← hs]; exact hse⟩

/-- value of a `* /` chain as Loki builds it (`T`), outside the class: the loop on the rest of the chain -/
theorem C07_chain_value (tl : List (Bool × Opd)) (L : E) (sL : S)
    (hall : ∀ x ∈ tl, x.2.semOK) (hL : SEq (den L) sL) (hb : badChain (opsOf tl) = false) :
    SEq (den (T L (eOf tl))) (semFold sL (sOf tl)) :=
  T_sem tl L sL hall hL hb

/-- **array sections keep their bounds**: for every combination of present/absent lower bound, upper bound and stride
(whatever the bounds are — in particular the literal `0`), the `RangeIndex` built by `map_slice` has exactly these
three parts -/
theorem C07_section_faithful {α : Type} (lo hi st : Option α) :
    rangeOf (mapSlice (sliceChildren lo hi st)) = (lo, hi, st) := by
  cases lo <;> cases hi <;> cases st <;> rfl

/-! ### non-vacuity -/

/-- `a - b*c/d + (-e)**2 < f .and. .not. (p .or. q)` satisfies the hypotheses of `C07_partial` -/
example : let c : C := .and (.cmp .lt (.add (.sub (.var "a") (.div (.mul (.var "b") (.var "c")) (.var "d")))
      (.pow (.paren (.neg (.var "e"))) (.int 2))) (.var "f")) (.not (.paren (.or (.var "p") (.var "q"))))
    c.WF = true ∧ Known c = false := by decide

/-- `a/b*c/d` and `a*b*c/d` are outside the chain class -/
example : Known (.div (.mul (.div (.var "a") (.var "b")) (.var "c")) (.var "d")) = false ∧
    Known (.div (.mul (.mul (.var "a") (.var "b")) (.var "c")) (.var "d")) = false := by decide

end LokiModel.C07
