import LokiModel.C32.DcProof
import LokiModel.C32.CpProof
import LokiModel.C32.CpLoop
/-!
# C32 — constant propagation and code removal preserve behaviour (property theorems)

Model: `LokiModel/C32/Model.lean` (`dcStmts`/`dcProgram` = `RemoveDeadCodeTransformer`, `cpE` = `ConstantPropagationMapper`
on the covered expression class, `cpStmts`/`cpProgram` = `ConstantPropagationTransformer`).  Semantics: `LokiModel/Fir/Sem.lean`.
"Finished run" = `Res.ok st sig`: final state (all variables, printed output `st.out`) and control signal.

* `C32_deadcode_sound`, `C32_deadcode_runMain` — full strength for the modelled class (every statement kind, calls into
  the transformed callees included, all states, all fuel): whatever a finished run of the original computes, the program
  after dead-code removal computes with some fuel.
* `C32_mapper_sound` — the expression mapper preserves values under a constants map that holds in the state, outside the
  two folds that are correct only for integer operands.
* `C32_constprop_sound_loopfree` — the invariant "every entry of the constants map holds in every state reaching this
  point" for straight-line code and conditionals, hence behaviour preservation for loop-free bodies.
* `C32_constprop_sound` — the same through DO and DO WHILE loops with EXIT / CYCLE (the repaired `visit_Loop` /
  `visit_WhileLoop`, fix: be169e3): the map the body is visited with holds at the top of every iteration
  (`C32_loop_body_frame`), the map after the loop holds when the loop has been left.
  SELECT, ASSOCIATE and calls are outside the theorems (SELECT and ASSOCIATE are still wrong in the code, see
  `LokiModel/Findings/C32.lean`; calls are repaired, 7abc3d8, but not covered by a theorem).
-/
namespace LokiModel.C32
open LokiModel.Fir
open LokiModel.Expr (Val CmpOp)

/-- **deadcode_sound**: removing the branches whose condition evaluates to a constant preserves execution, for every
statement list, state and fuel; `P'` is the program with all bodies transformed (callees too). -/
theorem C32_deadcode_sound (useSimp : Bool) (P P' : Program) (hP : dcProgram useSimp P = some P')
    (f : Nat) (ss ss' : List Stmt) (hs : dcStmts useSimp ss = some ss') (st st' : St) (sig : Sig)
    (h : execStmts P f ss st = .ok st' sig) : ∃ f', execStmts P' f' ss' st = .ok st' sig :=
  (sim (dcProgram_rel hP) f).stmts ss ss' st st' sig hs h

/-- the same for a run of the main unit on arbitrary inputs -/
theorem C32_deadcode_runMain (useSimp : Bool) (P P' : Program) (hP : dcProgram useSimp P = some P')
    (f : Nat) (ins : List (String × List (Option Val))) (st' : St) (sig : Sig)
    (h : runMain P f ins = .ok st' sig) : ∃ f', runMain P' f' ins = .ok st' sig := by
  have hrel := dcProgram_rel hP
  have hmain : P'.main = P.main := by
    simp only [dcProgram] at hP
    cases hu : dcUnits useSimp P.units with
    | none => simp [hu] at hP
    | some us => simp [hu] at hP; subst hP; rfl
  have hr := hrel P.main
  simp only [runMain] at h
  cases hu : findUnit P P.main with
  | none => simp [hu] at h
  | some u =>
    rw [hu] at hr
    obtain ⟨body', hb', hu'⟩ := hr
    simp only [hu] at h
    split at h
    · simp at h
    · rename_i cs hcs
      obtain ⟨f1, h1⟩ := (sim hrel f).stmts u.body body' cs st' sig hb' h
      refine ⟨f1, ?_⟩
      have hfd : ∀ x, findDecl { name := u.name, args := u.args, decls := u.decls, body := body' } x
          = findDecl u x := fun x => rfl
      simp only [runMain, hmain, hu', hfd, hcs]
      exact h1

/-- **the mapper is sound**: under a constants map that holds in `st` (`Holds`), outside the folds `v - v → 0`, `0 * v → 0`
(`typeFold`), a value of the original expression is a value of the rewritten one.  With the empty map this is the
soundness of `simplify` on the covered class. -/
theorem C32_mapper_sound (m : CMap) (st : St) (hm : Holds m st) (pos : List Nat) (e e' : Ex) (r : Val)
    (hc : cpE m e = some e') (hty : typeFold m e = false) (h : evalE st pos e = some r) : evalE st pos e' = some r :=
  cpE_sound hm pos e e' r hc hty h

/-- **constprop_sound (loop-free bodies)**: for a body of scalar / element assignments, IF/ELSE, PRINT and comments
(`cpOK`, which also excludes the known-finding class `cp-literal-type-conversion`), in a state without aliases whose scalar
cells have their declared types (`Inv`), if the incoming map holds then the rewritten body computes the same finished
run with the same fuel, and the outgoing map holds in the final state. -/
theorem C32_constprop_sound_loopfree (arrs : List String) (Γ : String → Option Ty) (P : Program) (f : Nat)
    (ss ss' : List Stmt) (m m' : CMap) (st st' : St) (sig : Sig)
    (hok : cpOK arrs Γ ss m = true) (hc : cpStmts arrs ss m = some (ss', m'))
    (hi : Inv arrs Γ st) (hm : Holds m st) (h : execStmts P f ss st = .ok st' sig) :
    execStmts P f ss' st = .ok st' sig ∧ Holds m' st' :=
  let r := (cpSim (arrs := arrs) (Γ := Γ) (P := P) f).stmts ss ss' m m' st st' sig hok hc hi hm h
  ⟨r.1, r.2.2.1⟩

/-- the invariant is what the proof maintains at every statement: map entries are facts of the state -/
theorem C32_constprop_invariant (arrs : List String) (Γ : String → Option Ty) (P : Program) (f : Nat)
    (s s' : Stmt) (m m' : CMap) (st st' : St) (sig : Sig)
    (hok : cpOKS arrs Γ s m = true) (hc : cpStmt arrs s m = some (s', m'))
    (hi : Inv arrs Γ st) (hm : Holds m st) (h : execStmt P f s st = .ok st' sig) :
    Inv arrs Γ st' ∧ Holds m' st' :=
  let r := (cpSim (arrs := arrs) (Γ := Γ) (P := P) f).stmt s s' m m' st st' sig hok hc hi hm h
  ⟨r.2.1, r.2.2.1⟩

/-- **constprop_sound** (bodies with DO / DO WHILE loops, EXIT, CYCLE, IF/ELSE, scalar and element assignments, PRINT):
domain `cpOKL` (decidable, computed along the model's run; excludes the open class `cp-literal-type-conversion` and the two
type-dependent folds), map keys are scalar names (`KeysScalar`, true of `declMap`), alias-free state whose scalar cells have
their declared types (`Inv`).  If the incoming map holds, the rewritten body computes the same finished run with the same
fuel, and after a normal completion the outgoing map holds in the final state. -/
theorem C32_constprop_sound (arrs : List String) (Γ : String → Option Ty) (P : Program) (f : Nat)
    (ss ss' : List Stmt) (m m' : CMap) (st st' : St) (sig : Sig)
    (hok : cpOKL arrs Γ ss m = true) (hc : cpStmts arrs ss m = some (ss', m')) (hk : KeysScalar arrs m)
    (hi : Inv arrs Γ st) (hm : Holds m st) (h : execStmts P f ss st = .ok st' sig) :
    execStmts P f ss' st = .ok st' sig ∧ (sig = .normal → Holds m' st') :=
  let r := (cpSimL (arrs := arrs) (Γ := Γ) (P := P) f).stmts ss ss' m m' st st' sig hok hc hk hi hm h
  ⟨r.1, fun hn => (r.2.2.1 hn).1⟩

/-- what makes the loop rule sound: a body of the covered statement kinds leaves the cell of every scalar name outside
`modNames` (what `_modified_symbols` collects) alone, whatever the number of iterations and however it is left -/
theorem C32_loop_body_frame (arrs : List String) (P : Program) (f : Nat) (ss : List Stmt) (st st' : St) (sig : Sig)
    (hok : frameOK arrs ss = true) (ha : st.alias = []) (h : execStmts P f ss st = .ok st' sig)
    (x : String) (hx : arrs.contains x = false) (hm : x ∉ modNames arrs ss) : lookupCell st' x = lookupCell st x :=
  ((frame arrs P f).stmts ss st st' sig hok ha h).2 x hx hm

/-! ### non-vacuity -/

/-- `x = 1; do i = 1, 3; y(i) = x; x = 2; end do; z = x` is inside the domain; the model leaves `y(i) = x` and
propagates `z = 2` -/
example : cpOKL ["y"] (fun _ => some .int)
    [.assign (.var "x") (.lit (.int 1)),
     .doLoop "i" (.lit (.int 1)) (.lit (.int 3)) none
       [.assign (.idx "y" [.var "i"]) (.var "x"), .assign (.var "x") (.lit (.int 2))],
     .assign (.var "z") (.var "x")] [] = true := by
  rfl

example : (cpStmts ["y"]
    [.assign (.var "x") (.lit (.int 1)),
     .doLoop "i" (.lit (.int 1)) (.lit (.int 3)) none
       [.assign (.idx "y" [.var "i"]) (.var "x"), .assign (.var "x") (.lit (.int 2))],
     .assign (.var "z") (.var "x")] []).map (·.1) = some
    [.assign (.var "x") (.lit (.int 1)),
     .doLoop "i" (.lit (.int 1)) (.lit (.int 3)) none
       [.assign (.idx "y" [.var "i"]) (.var "x"), .assign (.var "x") (.lit (.int 2))],
     .assign (.var "z") (.lit (.int 2))] := by
  rfl

example : KeysScalar ["y"] [] := by intro x v h; simp [CMap.get] at h


/-- `if (1 < 2 .and. p) then x = 1 else x = 2` keeps the IF with condition `p`; `if (.not. (3 == 3)) …` is pruned -/
example : dcStmts true
    [.ifte (.bin .and (.bin (.cmp .lt) (.lit (.int 1)) (.lit (.int 2))) (.var "p"))
       [.assign (.var "x") (.lit (.int 1))] [.assign (.var "x") (.lit (.int 2))],
     .ifte (.not (.bin (.cmp .eq) (.lit (.int 3)) (.lit (.int 3)))) [.assign (.var "y") (.lit (.int 1))] []]
    = some [.ifte (.var "p") [.assign (.var "x") (.lit (.int 1))] [.assign (.var "x") (.lit (.int 2))]] := by
  rfl

/-- `x = 3; y = x + 2; if (p) then z = y else z = 5` becomes `x = 3; y = 5; if (p) then z = 5 else z = 5`, map `z ↦ 5` -/
example : (cpStmts []
    [.assign (.var "x") (.lit (.int 3)), .assign (.var "y") (.bin .add (.var "x") (.lit (.int 2))),
     .ifte (.var "p") [.assign (.var "z") (.var "y")] [.assign (.var "z") (.lit (.int 5))]] []).map (·.1)
    = some [.assign (.var "x") (.lit (.int 3)), .assign (.var "y") (.lit (.int 5)),
            .ifte (.var "p") [.assign (.var "z") (.lit (.int 5))] [.assign (.var "z") (.lit (.int 5))]] := by
  rfl

example : cpOK [] (fun x => if x == "p" then some .logical else some .int)
    [.assign (.var "x") (.lit (.int 3)), .assign (.var "y") (.bin .add (.var "x") (.lit (.int 2))),
     .ifte (.var "p") [.assign (.var "z") (.var "y")] [.assign (.var "z") (.lit (.int 5))]] [] = true := by
  decide

/-- a state satisfying `Inv` and `Holds []` -/
example : Inv [] (fun _ => some .int) { store := [("x", .scalar .int none)] } ∧
    Holds [] { store := [("x", .scalar .int none)] } := by
  refine ⟨⟨rfl, ?_⟩, holds_nil _⟩
  intro x c _ h
  simp [lookupCell] at h
  obtain ⟨_, h2⟩ := h
  exact ⟨.int, none, h2.symm, rfl⟩

end LokiModel.C32
