import LokiModel.C02.Final
import LokiModel.C02.Norm
/-!
# C02 — read-write of generated Fortran is a fixpoint (statement level)

Model (`LokiModel/C02/Model.lean`): `gStmts st pe isOne` mirrors the statement visitors of `loki/backend/fgen.py`
(`FortranCodegen.visit_*`, both `FortranStyle` and `IFSFortranStyle`) on token lines; `pStmts re` is the reference
statement parser that builds the shapes the FP frontend builds.  Both are checked against the real `fgen` / frontend on
every run (token lines of the regenerated text; exported IR).  The development is parametric in the expression language:
`X` with token printer `pe` (for Loki: `printF fcfg · 0` of C06), expression reader `re` with results in `Y`.

`ExprRT pe re φ P` is the hypothesis on the expression level: a printed expression of the class `P` is a non-empty
token list that the reader reads back as `φ x` (for every large enough fuel).  Under it the theorems below hold for
statement lists of unbounded length and nesting.  They are named `_partial` because (a) the expression level is a
hypothesis here (it is discharged for atoms in `C02_fix_atoms`, and for the *meaning* of C06's trees in
`Props/C01.lean`; a proof of `parse (printF t) = t` for frontend-shaped trees is not given), (b) declarations and the
subroutine header are covered by correspondence only, (c) known classes outside the covered class are listed in
`Findings/C02.lean` and `known_findings.json`.
-/
namespace LokiModel.C02
open LokiModel.Expr

section
variable {X Y : Type}

/-- **re-read, partial**: the reference parser reads the printed statement list back — for every large enough fuel, with
nothing left over — as the normal form of the list (a DO step that `fgen` does not print is gone), slots mapped by `φ`. -/
theorem C02_reread_partial (st : Style) (pe : X → List Tok) (isOne : X → Bool) (re : Nat → List Tok → Option Y) (φ : X → Y)
    (P : X → Prop) (h : ExprRT pe re φ P) (ss : List (Stmt X)) (hok : OkStmts P ss) :
    ∃ f0, ∀ f, f0 ≤ f → pStmts re f (gStmts st pe isOne ss) = some (mapStmts φ (normStmts isOne ss), []) := by
  have := stmts_rt (st := st) (isOne := isOne) h ss hok [] (Or.inl rfl)
  simpa [Ev] using this

/-- `norm` is idempotent: one write/read reaches the normal form -/
theorem C02_norm_idem (isOne : X → Bool) (ss : List (Stmt X)) :
    normStmts isOne (normStmts isOne ss) = normStmts isOne ss :=
  normStmts_idem isOne ss

/-- **fixpoint, partial**: write, read, write again gives the same token lines, and the re-read IR is `norm` of the IR
that was written (so identical to it when it is already normal, in particular when it was itself read from text). -/
theorem C02_fix_partial (st : Style) (pe : X → List Tok) (isOne : X → Bool) (re : Nat → List Tok → Option X)
    (P : X → Prop) (h : ExprRT pe re (fun x => x) P) (ss : List (Stmt X)) (hok : OkStmts P ss) :
    ∃ f0, ∀ f, f0 ≤ f → ∃ ss', pStmts re f (gStmts st pe isOne ss) = some (ss', []) ∧ ss' = normStmts isOne ss ∧
      gStmts st pe isOne ss' = gStmts st pe isOne ss := by
  obtain ⟨f0, hf⟩ := C02_reread_partial st pe isOne re (fun x => x) P h ss hok
  refine ⟨f0, fun f hle => ⟨normStmts isOne ss, ?_, rfl, gStmts_norm isOne st pe ss⟩⟩
  have := hf f hle
  rwa [mapStmts_id] at this

/-- the text of a program that was read from text is read back to the identical IR (no normalisation left) -/
theorem C02_fix_of_normal (st : Style) (pe : X → List Tok) (isOne : X → Bool) (re : Nat → List Tok → Option X)
    (P : X → Prop) (h : ExprRT pe re (fun x => x) P) (ss : List (Stmt X)) (hok : OkStmts P ss)
    (hn : normStmts isOne ss = ss) :
    ∃ f0, ∀ f, f0 ≤ f → pStmts re f (gStmts st pe isOne ss) = some (ss, []) := by
  obtain ⟨f0, hf⟩ := C02_reread_partial st pe isOne re (fun x => x) P h ss hok
  refine ⟨f0, fun f hle => ?_⟩
  have := hf f hle
  rwa [mapStmts_id, hn] at this

end

/-! ### the expression hypothesis discharged for atomic expressions (variables and unsigned integer literals) -/

inductive Atom where
  | var (s : String)
  | num (n : Nat)
deriving Repr, DecidableEq

def Atom.pr : Atom → List Tok
  | .var s => [.id s]
  | .num n => [.num n]

def Atom.rd (_ : Nat) : List Tok → Option Atom
  | [.id s] => some (.var s)
  | [.num n] => some (.num n)
  | _ => none

def Atom.isOne : Atom → Bool
  | .num 1 => true
  | _ => false

theorem atom_rt : ExprRT Atom.pr Atom.rd (fun x => x) (fun _ => True) where
  ne := by intro x _; cases x <;> simp [Atom.pr]
  rd := by intro x _; cases x <;> exact ⟨0, fun f _ => rfl⟩

/-- **fixpoint for programs over atomic expressions, without hypotheses on the expression level** -/
theorem C02_fix_atoms (st : Style) (ss : List (Stmt Atom)) (hok : OkStmts (fun _ => True) ss) :
    ∃ f0, ∀ f, f0 ≤ f → ∃ ss', pStmts Atom.rd f (gStmts st Atom.pr Atom.isOne ss) = some (ss', []) ∧
      ss' = normStmts Atom.isOne ss ∧ gStmts st Atom.pr Atom.isOne ss' = gStmts st Atom.pr Atom.isOne ss :=
  C02_fix_partial st Atom.pr Atom.isOne Atom.rd _ atom_rt ss hok

/-! ### non-vacuity: a nested program satisfies the hypotheses and round-trips in the executable model -/

def demo : List (Stmt Atom) :=
  [.doLoop "i" (.num 1) (.var "n") (some (.num 1))
     [.ifte (.var "p") [.assign "x" (.num 2)] [.ifte (.var "q") [.exit] [.cycle, .nop false "c"]],
      .select (.var "k") [([1, -2], [.callSub "f" [.var "x", .num 3]]), ([3], [.print [.var "x"]])] [.nop true "loki foo"]],
   .assoc [("z", .var "x")] [.while (.var "p") [.assign "z" (.num 0)]]]

example : OkStmts (fun _ => True) demo := by simp [demo, OkStmts, OkStmt, OkCases]

/-- the executable parser reads the demo text back, and printing the result gives the same lines -/
example : (pStmts Atom.rd 50 (gStmts ifsStyle Atom.pr Atom.isOne demo)).map
    (fun r => (gStmts ifsStyle Atom.pr Atom.isOne r.1, r.2)) = some (gStmts ifsStyle Atom.pr Atom.isOne demo, []) := by
  decide

/-- `CASE DEFAULT` written first (or in the middle) is read as the default body and the other blocks keep their selectors: the
reference parser, followed by the printer, moves the block to the end and changes nothing else -/
example : (pStmts Atom.rd 20
    [[kw "select", kw "case", .e .lp, kw "n", .e .rp],
     [kw "case", kw "default"], [kw "r", .assign, .e (.num 9)],
     [kw "case", .e .lp, .e (.num 1), .comma, .e (.num 2), .e .rp], [kw "r", .assign, .e (.num 10)],
     [kw "case", .e .lp, .e (.num 5), .e .rp], [kw "r", .assign, .e (.num 20)],
     [kw "end", kw "select"]]).map (fun r => (gStmts fortranStyle Atom.pr Atom.isOne r.1, r.2)) =
  some ([[kw "select", kw "case", .e .lp, kw "n", .e .rp],
     [kw "case", .e .lp, .e (.num 1), .comma, .e (.num 2), .e .rp], [kw "r", .assign, .e (.num 10)],
     [kw "case", .e .lp, .e (.num 5), .e .rp], [kw "r", .assign, .e (.num 20)],
     [kw "case", kw "default"], [kw "r", .assign, .e (.num 9)],
     [kw "end", kw "select"]], []) := by
  decide

/-- a second `CASE DEFAULT` is rejected -/
example : (pStmts Atom.rd 20
    [[kw "select", kw "case", .e .lp, kw "n", .e .rp],
     [kw "case", kw "default"], [kw "r", .assign, .e (.num 9)],
     [kw "case", .e .lp, .e (.num 1), .e .rp], [kw "r", .assign, .e (.num 10)],
     [kw "case", kw "default"], [kw "r", .assign, .e (.num 8)],
     [kw "end", kw "select"]]).isNone = true := by
  decide

/-- the normal form differs from the written IR exactly in the dropped step -/
example : normStmts Atom.isOne [Stmt.doLoop "i" (Atom.num 1) (.var "n") (some (.num 1)) []] =
    [Stmt.doLoop "i" (Atom.num 1) (.var "n") none []] := rfl

end LokiModel.C02
