import LokiModel.C16.Lemmas
import LokiModel.Generated.C16Tables
/-!
# C16 — analysis attach/detach leaves the IR unchanged (property theorems)

State after the `fix:` commits for the classes `attach-overwrites-slot`, `stray-pragma-post`, `dataflow-scoped-node-stale` and
`region-match-indexerror` (the old behaviour is kept as regression statements in `LokiModel/Findings/C16.lean`).
`attachList`/`detachList` model `PragmaAttacher.visit_tuple` / `PragmaDetacher.visit_tuple` (any nesting), `regAtt`/`unregList`
model `PragmaRegionAttacher` / `PragmaRegionDetacher`, `dfAttList`/`dfDetList` the dataflow attacher/detacher, `runOp`
the context managers.  Pragmas, dataflow and the context managers hold at full strength; the region statement is false for the code
(`C16_regions_full_false`) and holds outside the decidable class `KnownRegionIndex` (open finding `region-index-by-value`).
-/
namespace LokiModel.C16

/-! ## pragmas -/

def wP (n : Nat) : Pragma := ⟨n, "loki", "x", n, false⟩

/-- **C16 pragmas, full statement** (holds since the `fix:` commits for `attach-overwrites-slot` and `stray-pragma-post`):
on every body — any nesting, any node types, with or without `pragma_post` handling, slots possibly already attached
(attach; edit; attach; detach) — detaching after attaching gives exactly what detaching the input gives. -/
theorem C16_full (T : List String) (post : Bool) (xs : List Item) :
    detachList T post (attachList T post xs) = detachList T post xs :=
  detach_attachList T post xs

/-- **C16 pragmas, frontend state**: for every body with all slots empty (what the frontends produce), pragmas in any
position (leading, trailing, between two qualifying nodes, at tuple end), `detach (attach xs) = xs`. -/
theorem C16_detach_attach (T : List String) (post : Bool) (xs : List Item) (hc : cleanList xs = true) :
    detachList T post (attachList T post xs) = xs := by
  rw [detach_attachList T post xs, detachList_clean T post xs hc]

/-- the former witness of `attach-overwrites-slot` (new pragma in front of a loop whose slot is attached): both pragmas
come back, the new one first -/
example : detachList ["Loop"] true (attachList ["Loop"] true [.pragma (wP 4), .node 2 "Loop" true false [wP 1] [] []]) =
    [.pragma (wP 4), .pragma (wP 1), .node 2 "Loop" true false [] [] []] := by
  simp [attachList, attachGo, attachItem, detachList, detachItem, Item.qual, Item.prependPre, wP]

/-- the former witness of `stray-pragma-post`: a call without `pragma_post` attribute keeps its trailing pragma in the tuple -/
example : attachList ["CallStatement"] true [.node 1 "CallStatement" false false [] [] [], .pragma (wP 2)] =
    [.node 1 "CallStatement" false false [] [] [], .pragma (wP 2)] := by
  simp [attachList, attachGo, attachItem, Item.qual, lastOf]

/-- non-vacuity of `C16_detach_attach` -/
example : cleanList [.pragma (wP 1), .node 2 "Loop" true false [] [] [.pragma (wP 3), .node 4 "Loop" true false [] [] []],
    .pragma (wP 5), .node 6 "Loop" true false [] [] [], .pragma (wP 7)] = true := by
  simp [cleanList, cleanItem]

/-- identities: `attach` never adds, drops or reorders a non-pragma node (unconditionally) -/
theorem C16_nodeIds_attach (T : List String) (post : Bool) (xs : List Item) :
    nodeIdsList (attachList T post xs) = nodeIdsList xs := nodeIds_attachList T post xs

theorem C16_nodeIds_detach (T : List String) (post : Bool) (xs : List Item) :
    nodeIdsList (detachList T post xs) = nodeIdsList xs := nodeIds_detachList T post xs

/-! ## pragma regions -/

/-- full statement for regions: whatever pairs of pragmas of the body are handed to `PragmaRegionAttacher`, detaching
the regions restores the body -/
def C16_regions_full : Prop :=
  ∀ (f : Nat) (pairs : List (Pragma × Pragma)) (xs : List Item), regionFreeList xs = true →
    (∀ pr ∈ pairs, pr.1 ∈ pragmasList xs ∧ pr.2 ∈ pragmasList xs) →
    unregList (regAtt f pairs xs) = xs

/-- witness: `e'` is value-equal (`==`) to the end pragma `e` but another object, and comes first:
`tuple.index(stop)` finds `e'`, the slice is empty and elements get duplicated -/
theorem C16_regions_full_false : ¬ C16_regions_full := by
  intro h
  have := congrArg List.length (h 2
    [(⟨2, "loki", "region", 0, false⟩, ⟨4, "loki", "end region", 0, false⟩)]
    [.pragma ⟨1, "loki", "end region", 0, false⟩, .pragma ⟨2, "loki", "region", 0, false⟩,
     .node 3 "Assignment" false false [] [] [], .pragma ⟨4, "loki", "end region", 0, false⟩]
    (by simp [regionFreeList, regionFreeItem])
    (by simp [pragmasList, pragmasItem]))
  simp [regAtt, regAttB, regionStepB, idxOfVal, Pragma.valEq, mapBodiesB, unregList, unregItem] at this

/-- **C16 regions, outside the class**: if every pragma located by value-`index` is the paired object itself and the
start precedes the stop (`KnownRegionIndex = false`; in particular when all pragmas are pairwise `!=`), detaching the
regions gives what detaching gives on the input: well-nested, unmatched and cross-level pragmas included, for every fuel. -/
theorem C16_regions_roundtrip_partial (f : Nat) (pairs : List (Pragma × Pragma)) (xs : List Item)
    (h : KnownRegionIndex f pairs xs = false) :
    unregList (regAtt f pairs xs) = unregList xs := regAttB_ok f pairs xs h

theorem C16_regions_roundtrip (f : Nat) (pairs : List (Pragma × Pragma)) (xs : List Item)
    (h : KnownRegionIndex f pairs xs = false) (hf : regionFreeList xs = true) :
    unregList (regAtt f pairs xs) = xs := by
  rw [C16_regions_roundtrip_partial f pairs xs h, unregList_free xs hf]

/-- identities across a region round trip -/
theorem C16_nodeIds_regions (f : Nat) (pairs : List (Pragma × Pragma)) (xs : List Item)
    (h : KnownRegionIndex f pairs xs = false) :
    nodeIdsList (regAtt f pairs xs) = nodeIdsList xs := by
  rw [← nodeIds_unregList (regAtt f pairs xs), C16_regions_roundtrip_partial f pairs xs h, nodeIds_unregList]

/-! ## mixed `pragma_post` flags and non-LIFO interleavings -/

/-- detaching in two steps: a detach with flag `b` followed by one with flag `a` (same node types) is the detach with
flag `a || b`; in particular `detach_pragma_post=False` leaves the `pragma_post` slots intact and a later full detach
re-inserts them -/
theorem C16_detach_detach (T : List String) (a b : Bool) (ys : List Item) :
    detachList T a (detachList T b ys) = detachList T (a || b) ys := detach_detach_list T a b ys

/-- `attach_pragmas(ir, T)`; `detach_pragmas(ir, T, detach_pragma_post=False)`; `detach_pragmas(ir, T)` -/
theorem C16_mixed_flags (T : List String) (xs : List Item) :
    detachList T true (detachList T false (attachList T true xs)) = detachList T true xs := by
  rw [detach_detach_list, Bool.true_or, C16_full]

theorem C16_mixed_flags_clean (T : List String) (xs : List Item) (hc : cleanList xs = true) :
    detachList T true (detachList T false (attachList T true xs)) = xs := by
  rw [C16_mixed_flags, detachList_clean T true xs hc]

/-- an inner `pragmas_attached(…, attach_pragma_post=False)` inside an outer `pragmas_attached(…)` (also when the inner
body raises: the two exit parts still run in this order) -/
theorem C16_nested_mixed_contexts (T : List String) (xs : List Item) :
    detachList T true (detachList T false (attachList T false (attachList T true xs))) = detachList T true xs := by
  rw [C16_full T false, detach_detach_list, Bool.true_or, C16_full]

/-- the pragma detacher and the region detacher commute -/
theorem C16_detach_unreg_comm (T : List String) (post : Bool) (xs : List Item) :
    detachList T post (unregList xs) = unregList (detachList T post xs) := detach_unreg_list T post xs

/-- the non-LIFO interleaving `attach_pragma_regions; attach_pragmas; detach_pragma_regions; attach_pragmas; detach_pragmas`:
outside the open class `region-index-by-value` the result is what detaching the input gives (the input itself for
frontend state) -/
theorem C16_interleaved_regions (T : List String) (post : Bool) (f : Nat) (pairs : List (Pragma × Pragma)) (xs : List Item)
    (h : KnownRegionIndex f pairs xs = false) :
    detachList T post (attachList T post (unregList (attachList T post (regAtt f pairs xs)))) =
      detachList T post (unregList xs) := by
  rw [C16_full, detach_unreg_list, C16_full, ← detach_unreg_list, C16_regions_roundtrip_partial f pairs xs h]

theorem C16_interleaved_regions_clean (T : List String) (post : Bool) (f : Nat) (pairs : List (Pragma × Pragma))
    (xs : List Item) (h : KnownRegionIndex f pairs xs = false) (hf : regionFreeList xs = true) (hc : cleanList xs = true) :
    detachList T post (attachList T post (unregList (attachList T post (regAtt f pairs xs)))) = xs := by
  rw [C16_interleaved_regions T post f pairs xs h, unregList_free xs hf, detachList_clean T post xs hc]

/-! ## dataflow fields -/

def C16_dataflow_full : Prop :=
  ∀ (tab : DfTab) (xs : List Item), dfFreeList xs = true → dfDetList tab (dfAttList tab xs) = xs

/-- witness: a node class whose detacher handler is `Transformer.visit_ScopedNode` (e.g. `Associate`) keeps the fields -/
theorem C16_dataflow_full_false : ¬ C16_dataflow_full := by
  intro h
  have := h ⟨[], [], ["Associate"]⟩ [.node 1 "Associate" false false [] [] []] (by simp [dfFreeList, dfFreeItem])
  simp [dfAttList, dfAttItem, dfDetList, dfDetItem] at this

/-- **C16 dataflow, outside the class**: if no node is annotated by the attacher and skipped by the detacher, detaching
clears exactly what attaching set -/
theorem C16_dataflow_roundtrip_partial (tab : DfTab) (xs : List Item)
    (hs : dfStaleList tab xs = false) (hf : dfFreeList xs = true) :
    dfDetList tab (dfAttList tab xs) = xs := dfDet_dfAtt_list tab xs hs hf

example : dfStaleList ⟨["TypeDef"], ["Interface"], ["Associate", "TypeDef"]⟩
    [.node 1 "Loop" true false [] [] [.pragma (wP 2), .node 3 "Assignment" false false [] [] []]] = false := by
  simp [dfStaleList, dfStaleItem]

/-- a detacher that skips no class (the state since the `fix:` commit for `dataflow-scoped-node-stale`) leaves nothing stale -/
theorem dfStale_noClear_nil (ns nd : List String) : ∀ (xs : List Item), dfStaleList ⟨ns, nd, []⟩ xs = false := by
  intro xs
  have key : ∀ n : Nat, (∀ i, sizeItem i ≤ n → dfStaleItem ⟨ns, nd, []⟩ i = false) ∧
      (∀ ys, sizeList ys ≤ n → dfStaleList ⟨ns, nd, []⟩ ys = false) := by
    intro n
    induction n with
    | zero =>
      refine ⟨fun i h => ?_, fun ys h => ?_⟩
      · cases i <;> simp [sizeItem] at h
      · cases ys with
        | nil => simp [dfStaleList]
        | cons y ys => cases y <;> simp [sizeList, sizeItem] at h <;> omega
    | succ n ih =>
      have hitem : ∀ i, sizeItem i ≤ n + 1 → dfStaleItem ⟨ns, nd, []⟩ i = false := by
        intro i h
        cases i with
        | pragma p => simp [dfStaleItem]
        | node id k hp df pre po body =>
          simp only [sizeItem] at h
          have := ih.2 body (by omega)
          simp [dfStaleItem, this]
        | region df s e body =>
          simp only [sizeItem] at h
          simpa [dfStaleItem] using ih.2 body (by omega)
      refine ⟨hitem, fun ys h => ?_⟩
      induction ys with
      | nil => simp [dfStaleList]
      | cons y ys ihy =>
        simp only [sizeList] at h
        have hy : 1 ≤ sizeItem y := by cases y <;> simp [sizeItem] <;> omega
        simp [dfStaleList, hitem y (by omega), ihy (by omega)]
  exact (key (sizeList xs)).2 xs (Nat.le_refl _)

/-- **C16 dataflow, full statement for the current code**: with the handler table generated from the real classes
(`Generated.dfNoClear = []`), detaching clears exactly what attaching set, on every tree. -/
theorem C16_dataflow_roundtrip (xs : List Item) (hf : dfFreeList xs = true) :
    dfDetList ⟨Generated.dfNoSet, Generated.dfNoDescend, Generated.dfNoClear⟩
      (dfAttList ⟨Generated.dfNoSet, Generated.dfNoDescend, Generated.dfNoClear⟩ xs) = xs := by
  have e : Generated.dfNoClear = [] := rfl
  rw [e]
  exact dfDet_dfAtt_list _ xs (dfStale_noClear_nil _ _ xs) hf

/-! ## context managers -/

/-- once an exception propagates nothing else of the history runs -/
theorem runOps_exc (tab : DfTab) (ops : List Op) (rs : List Item) (e : String) :
    runOps tab ops ⟨rs, some e⟩ = ⟨rs, some e⟩ := by
  induction ops with
  | nil => simp [runOps]
  | cons op ops ih => simp [runOps, runOp, ih]

/-- a root in the state the frontend produces -/
def RootOK (r : Item) : Prop :=
  ∃ id k hp df body, r = .node id k hp df [] [] body ∧ cleanList body = true

theorem detachRoot_attachItem (T : List String) (post : Bool) (r : Item) (h : RootOK r) :
    detachRoot T post (attachItem T post r) = r := by
  obtain ⟨id, k, hp, df, body, rfl, hc⟩ := h
  have := C16_detach_attach T post body hc
  simp only [attachList] at this
  simp [attachItem, detachRoot, this]

theorem detachRoots_attachRoots (T : List String) (post : Bool) (rs : List Item) (h : ∀ r ∈ rs, RootOK r) :
    detachRoots T post (attachRoots T post rs) = rs := by
  induction rs with
  | nil => simp [attachRoots, detachRoots]
  | cons r rs ih =>
    have h1 := detachRoot_attachItem T post r (h r (by simp))
    have h2 := ih (fun r hr => h r (by simp [hr]))
    simp only [attachRoots, detachRoots, List.map_cons, List.map_map] at h2 ⊢
    simp [h1, h2]

/-- **C16 `pragmas_attached`, normal and exceptional exit**: whatever the body of the `with` block does that leaves the
attached IR in place (read-only bodies, bodies that raise at any point — the history stops there —, properly bracketed
inner contexts), the exit part runs, the unit is back in its initial state and the exception (if any) propagates. -/
theorem C16_bracket_restores (tab : DfTab) (T : List String) (post : Bool) (ops : List Op) (rs : List Item)
    (hr : ∀ r ∈ rs, RootOK r)
    (hb : (runOps tab ops ⟨attachRoots T post rs, none⟩).roots = attachRoots T post rs) :
    runOp tab (.ctxPragmas T post ops) ⟨rs, none⟩ =
      ⟨rs, (runOps tab ops ⟨attachRoots T post rs, none⟩).exc⟩ := by
  simp [runOp, hb, detachRoots_attachRoots T post rs hr]

/-- the exception path is not vacuous: a body that raises first satisfies the hypothesis, and the exception leaves the context -/
theorem C16_bracket_raise (tab : DfTab) (T : List String) (post : Bool) (rest : List Op) (rs : List Item)
    (hr : ∀ r ∈ rs, RootOK r) :
    runOp tab (.ctxPragmas T post (.raise :: rest)) ⟨rs, none⟩ = ⟨rs, some "raised"⟩ := by
  have e : runOps tab (.raise :: rest) ⟨attachRoots T post rs, none⟩ = ⟨attachRoots T post rs, some "raised"⟩ := by
    simp [runOps, runOp, runOps_exc]
  rw [C16_bracket_restores tab T post _ rs hr (by rw [e]), e]

/-- `dataflow_analysis_attached`, both exits -/
theorem C16_bracket_df (tab : DfTab) (ops : List Op) (rs : List Item)
    (hs : dfStaleList tab rs = false) (hf : dfFreeList rs = true)
    (hb : (runOps tab ops ⟨dfAttachRoots tab rs, none⟩).roots = dfAttachRoots tab rs) :
    runOp tab (.ctxDf ops) ⟨rs, none⟩ = ⟨rs, (runOps tab ops ⟨dfAttachRoots tab rs, none⟩).exc⟩ := by
  have e1 : ∀ xs, dfAttachRoots tab xs = dfAttList tab xs := by
    intro xs; induction xs with
    | nil => simp [dfAttachRoots, dfAttList]
    | cons x xs ih => simp only [dfAttachRoots, List.map_cons] at ih ⊢; simp [dfAttList, ih]
  have e2 : ∀ xs, dfDetachRoots tab xs = dfDetList tab xs := by
    intro xs; induction xs with
    | nil => simp [dfDetachRoots, dfDetList]
    | cons x xs ih => simp only [dfDetachRoots, List.map_cons] at ih ⊢; simp [dfDetList, ih]
  rw [e1] at hb
  simp [runOp, e2, e1, hb, dfDet_dfAtt_list tab rs hs hf]

theorem regDetach_regAttach_root (kw : Option String) (r : Item) (hb : regRootBad kw r = false)
    (hf : regionFreeList r.body = true) : Item.mapBody unregList (regAttachRoot kw r) = r := by
  have h := C16_regions_roundtrip (rootFuel kw r) (rootPairs kw r) r.body hb hf
  cases r with
  | pragma p => simp [regAttachRoot, Item.mapBody]
  | node id k hp df pre po body => simpa [regAttachRoot, Item.mapBody, Item.body] using h
  | region df s e body => simpa [regAttachRoot, Item.mapBody, Item.body] using h

theorem regDetach_regAttach_roots (kw : Option String) (rs : List Item)
    (h : ∀ r ∈ rs, regRootBad kw r = false ∧ regionFreeList r.body = true) :
    regDetachRoots (regAttachRoots kw rs) = rs := by
  induction rs with
  | nil => simp [regAttachRoots, regDetachRoots]
  | cons r rs ih =>
    have h1 := regDetach_regAttach_root kw r (h r (by simp)).1 (h r (by simp)).2
    have h2 := ih (fun r hr => h r (by simp [hr]))
    simp only [regAttachRoots, regDetachRoots, List.map_cons, List.map_map] at h2 ⊢
    simp [h1, h2]

/-- `pragma_regions_attached`, both exits (the enter part cannot raise any more since the `fix:` commit for
`region-match-indexerror`): exit undoes enter on every region-free root outside the class `region-index-by-value` -/
theorem C16_bracket_regions (tab : DfTab) (kw : Option String) (ops : List Op) (rs : List Item)
    (h : ∀ r ∈ rs, regRootBad kw r = false ∧ regionFreeList r.body = true)
    (hb : (runOps tab ops ⟨regAttachRoots kw rs, none⟩).roots = regAttachRoots kw rs) :
    runOp tab (.ctxRegions kw ops) ⟨rs, none⟩ = ⟨rs, (runOps tab ops ⟨regAttachRoots kw rs, none⟩).exc⟩ := by
  simp [runOp, hb, regDetach_regAttach_roots kw rs h]

end LokiModel.C16
