import LokiModel.C16.Lemmas
/-!
# C16 — analysis attach/detach leaves the IR unchanged (property theorems)

`attachList`/`detachList` model `PragmaAttacher.visit_tuple` / `PragmaDetacher.visit_tuple` (any nesting), `regAtt`/`unregList`
model `PragmaRegionAttacher` / `PragmaRegionDetacher`, `dfAttList`/`dfDetList` the dataflow attacher/detacher, `runOp`
the context managers.  The full statements are false for the unchanged code (`*_full_false`); each `_partial` theorem holds
outside a decidable class (`KnownOverwrite`, `KnownStrayPost`, `KnownRegionIndex`, `dfStaleList`).
-/
namespace LokiModel.C16

/-! ## pragmas -/

/-- full statement: on every body (slots possibly already attached), `attach` followed by `detach` gives what `detach`
alone gives -/
def C16_full : Prop :=
  ∀ (T : List String) (post : Bool) (xs : List Item),
    detachList T post (attachList T post xs) = detachList T post xs

def wP (n : Nat) : Pragma := ⟨n, "loki", "x", n, false⟩

/-- witness: a new pragma in front of a loop whose `pragma` slot is already attached (state after
attach → insert): the second `attach` overwrites the slot and the first pragma is lost -/
theorem C16_full_false : ¬ C16_full := by
  intro h
  have := congrArg List.length
    (h ["Loop"] true [.pragma (wP 4), .node 2 "Loop" true false [wP 1] [] []])
  simp [attachList, attachGo, attachItem, detachList, detachItem, Item.qual, Item.setPre, wP] at this

example : KnownOverwrite ["Loop"] true [.pragma (wP 4), .node 2 "Loop" true false [wP 1] [] []] = true := by
  simp [KnownOverwrite, owGo, owItem, Item.qual, Item.preNE, lastOf, wP]

/-- **C16 pragmas, all bodies outside the two classes**: if no `_update` of `visit_tuple` replaces a non-empty slot and
none creates a `pragma_post` attribute on a node that lacks it, detaching after attaching gives exactly what detaching
the input gives (any nesting, any node types, with or without `pragma_post` handling). -/
theorem C16_detach_attach_partial (T : List String) (post : Bool) (xs : List Item)
    (h1 : KnownOverwrite T post xs = false) (h2 : KnownStrayPost T post xs = false) :
    detachList T post (attachList T post xs) = detachList T post xs :=
  detach_attachList T post xs h1 h2

/-- **C16 pragmas, frontend state**: for every body with all slots empty (what the frontends produce), pragmas in any
position (leading, trailing, between two qualifying nodes, at tuple end), `detach (attach xs) = xs`, provided no
trailing pragmas follow a qualifying node without `pragma_post` attribute at a tuple end (`KnownStrayPost`). -/
theorem C16_detach_attach (T : List String) (post : Bool) (xs : List Item)
    (hc : cleanList xs = true) (h2 : KnownStrayPost T post xs = false) :
    detachList T post (attachList T post xs) = xs := by
  rw [detach_attachList T post xs (knownOverwrite_clean T post xs hc) h2, detachList_clean T post xs hc]

/-- the `KnownStrayPost` hypothesis cannot be dropped: a call followed by a pragma at the end of a tuple comes back
with a `pragma_post` instance attribute it did not have -/
theorem C16_detach_attach_clean_full_false :
    ¬ ∀ (T : List String) (post : Bool) (xs : List Item), cleanList xs = true →
      detachList T post (attachList T post xs) = xs := by
  intro h
  have := h ["CallStatement"] true [.node 1 "CallStatement" false false [] [] [], .pragma (wP 2)] (by simp [cleanList, cleanItem])
  simp [attachList, attachGo, attachItem, detachList, detachItem, Item.qual, Item.setPost] at this

/-- non-vacuity: a body with leading, trailing and in-between pragmas and a nested loop satisfies the hypotheses -/
example : cleanList [.pragma (wP 1), .node 2 "Loop" true false [] [] [.pragma (wP 3), .node 4 "Loop" true false [] [] []],
    .pragma (wP 5), .node 6 "Loop" true false [] [] [], .pragma (wP 7)] = true ∧
    KnownStrayPost ["Loop"] true [.pragma (wP 1), .node 2 "Loop" true false [] [] [.pragma (wP 3), .node 4 "Loop" true false [] [] []],
    .pragma (wP 5), .node 6 "Loop" true false [] [] [], .pragma (wP 7)] = false := by
  simp [cleanList, cleanItem, KnownStrayPost, strayGo, strayItem, lastOf, Last.none]

/-- identities: `attach` never adds, drops or reorders a non-pragma node (unconditionally, also in the failing classes) -/
theorem C16_nodeIds_attach (T : List String) (post : Bool) (xs : List Item) :
    nodeIdsList (attachList T post xs) = nodeIdsList xs := nodeIds_attachList T post xs

theorem C16_nodeIds_detach (T : List String) (post : Bool) (xs : List Item) :
    nodeIdsList (detachList T post xs) = nodeIdsList xs := nodeIds_detachList T post xs

/-! ## pragma regions -/

/-- full statement for regions: whatever pairs of pragmas of the body are handed to `PragmaRegionAttacher`, detaching
the regions restores the body -/
def C16_regions_full : Prop :=
  ∀ (f : Nat) (pairs : List (Pragma × Pragma)) (xs : List Item), regionFreeList xs = true →
    (∀ pr ∈ pairs, pr.1 ∈ pragmasList xs ∧ pr.2 ∈ pragmasList xs) →
    unregList (regAtt f pairs xs) = xs

/-- witness: `e'` is value-equal (`==`) to the end pragma `e` but another object, and comes first:
`tuple.index(stop)` finds `e'`, the slice is empty and elements get duplicated -/
theorem C16_regions_full_false : ¬ C16_regions_full := by
  intro h
  have := congrArg List.length (h 2
    [(⟨2, "loki", "region", 0, false⟩, ⟨4, "loki", "end region", 0, false⟩)]
    [.pragma ⟨1, "loki", "end region", 0, false⟩, .pragma ⟨2, "loki", "region", 0, false⟩,
     .node 3 "Assignment" false false [] [] [], .pragma ⟨4, "loki", "end region", 0, false⟩]
    (by simp [regionFreeList, regionFreeItem])
    (by simp [pragmasList, pragmasItem]))
  simp [regAtt, regAttB, regionStepB, idxOfVal, Pragma.valEq, mapBodiesB, unregList, unregItem] at this

/-- **C16 regions, outside the class**: if every pragma located by value-`index` is the paired object itself and the
start precedes the stop (`KnownRegionIndex = false`; in particular when all pragmas are pairwise `!=`), detaching the
regions gives what detaching gives on the input: well-nested, unmatched and cross-level pragmas included, for every fuel. -/
theorem C16_regions_roundtrip_partial (f : Nat) (pairs : List (Pragma × Pragma)) (xs : List Item)
    (h : KnownRegionIndex f pairs xs = false) :
    unregList (regAtt f pairs xs) = unregList xs := regAttB_ok f pairs xs h

theorem C16_regions_roundtrip (f : Nat) (pairs : List (Pragma × Pragma)) (xs : List Item)
    (h : KnownRegionIndex f pairs xs = false) (hf : regionFreeList xs = true) :
    unregList (regAtt f pairs xs) = xs := by
  rw [C16_regions_roundtrip_partial f pairs xs h, unregList_free xs hf]

/-- identities across a region round trip -/
theorem C16_nodeIds_regions (f : Nat) (pairs : List (Pragma × Pragma)) (xs : List Item)
    (h : KnownRegionIndex f pairs xs = false) :
    nodeIdsList (regAtt f pairs xs) = nodeIdsList xs := by
  rw [← nodeIds_unregList (regAtt f pairs xs), C16_regions_roundtrip_partial f pairs xs h, nodeIds_unregList]

/-! ## dataflow fields -/

def C16_dataflow_full : Prop :=
  ∀ (tab : DfTab) (xs : List Item), dfFreeList xs = true → dfDetList tab (dfAttList tab xs) = xs

/-- witness: a node class whose detacher handler is `Transformer.visit_ScopedNode` (e.g. `Associate`) keeps the fields -/
theorem C16_dataflow_full_false : ¬ C16_dataflow_full := by
  intro h
  have := h ⟨[], [], ["Associate"]⟩ [.node 1 "Associate" false false [] [] []] (by simp [dfFreeList, dfFreeItem])
  simp [dfAttList, dfAttItem, dfDetList, dfDetItem] at this

/-- **C16 dataflow, outside the class**: if no node is annotated by the attacher and skipped by the detacher, detaching
clears exactly what attaching set -/
theorem C16_dataflow_roundtrip_partial (tab : DfTab) (xs : List Item)
    (hs : dfStaleList tab xs = false) (hf : dfFreeList xs = true) :
    dfDetList tab (dfAttList tab xs) = xs := dfDet_dfAtt_list tab xs hs hf

example : dfStaleList ⟨["TypeDef"], ["Interface"], ["Associate", "TypeDef"]⟩
    [.node 1 "Loop" true false [] [] [.pragma (wP 2), .node 3 "Assignment" false false [] [] []]] = false := by
  simp [dfStaleList, dfStaleItem]

/-! ## context managers -/

/-- once an exception propagates nothing else of the history runs -/
theorem runOps_exc (tab : DfTab) (ops : List Op) (rs : List Item) (e : String) :
    runOps tab ops ⟨rs, some e⟩ = ⟨rs, some e⟩ := by
  induction ops with
  | nil => simp [runOps]
  | cons op ops ih => simp [runOps, runOp, ih]

/-- a root in the state the frontend produces, outside the stray class -/
def RootOK (T : List String) (post : Bool) (r : Item) : Prop :=
  ∃ id k hp df body, r = .node id k hp df [] [] body ∧ cleanList body = true ∧ KnownStrayPost T post body = false

theorem detachRoot_attachItem (T : List String) (post : Bool) (r : Item) (h : RootOK T post r) :
    detachRoot T post (attachItem T post r) = r := by
  obtain ⟨id, k, hp, df, body, rfl, hc, hs⟩ := h
  have := C16_detach_attach T post body hc hs
  simp only [attachList] at this
  simp [attachItem, detachRoot, this]

theorem detachRoots_attachRoots (T : List String) (post : Bool) (rs : List Item) (h : ∀ r ∈ rs, RootOK T post r) :
    detachRoots T post (attachRoots T post rs) = rs := by
  induction rs with
  | nil => simp [attachRoots, detachRoots]
  | cons r rs ih =>
    have h1 := detachRoot_attachItem T post r (h r (by simp))
    have h2 := ih (fun r hr => h r (by simp [hr]))
    simp only [attachRoots, detachRoots, List.map_cons, List.map_map] at h2 ⊢
    simp [h1, h2]

/-- **C16 `pragmas_attached`, normal and exceptional exit**: whatever the body of the `with` block does that leaves the
attached IR in place (read-only bodies, bodies that raise at any point — the history stops there —, properly bracketed
inner contexts), the exit part runs, the unit is back in its initial state and the exception (if any) propagates. -/
theorem C16_bracket_restores (tab : DfTab) (T : List String) (post : Bool) (ops : List Op) (rs : List Item)
    (hr : ∀ r ∈ rs, RootOK T post r)
    (hb : (runOps tab ops ⟨attachRoots T post rs, none⟩).roots = attachRoots T post rs) :
    runOp tab (.ctxPragmas T post ops) ⟨rs, none⟩ =
      ⟨rs, (runOps tab ops ⟨attachRoots T post rs, none⟩).exc⟩ := by
  simp [runOp, hb, detachRoots_attachRoots T post rs hr]

/-- the exception path is not vacuous: a body that raises first satisfies the hypothesis, and the exception leaves the context -/
theorem C16_bracket_raise (tab : DfTab) (T : List String) (post : Bool) (rest : List Op) (rs : List Item)
    (hr : ∀ r ∈ rs, RootOK T post r) :
    runOp tab (.ctxPragmas T post (.raise :: rest)) ⟨rs, none⟩ = ⟨rs, some "raised"⟩ := by
  have e : runOps tab (.raise :: rest) ⟨attachRoots T post rs, none⟩ = ⟨attachRoots T post rs, some "raised"⟩ := by
    simp [runOps, runOp, runOps_exc]
  rw [C16_bracket_restores tab T post _ rs hr (by rw [e]), e]

/-- `dataflow_analysis_attached`, both exits -/
theorem C16_bracket_df (tab : DfTab) (ops : List Op) (rs : List Item)
    (hs : dfStaleList tab rs = false) (hf : dfFreeList rs = true)
    (hb : (runOps tab ops ⟨dfAttachRoots tab rs, none⟩).roots = dfAttachRoots tab rs) :
    runOp tab (.ctxDf ops) ⟨rs, none⟩ = ⟨rs, (runOps tab ops ⟨dfAttachRoots tab rs, none⟩).exc⟩ := by
  have e1 : ∀ xs, dfAttachRoots tab xs = dfAttList tab xs := by
    intro xs; induction xs with
    | nil => simp [dfAttachRoots, dfAttList]
    | cons x xs ih => simp only [dfAttachRoots, List.map_cons] at ih ⊢; simp [dfAttList, ih]
  have e2 : ∀ xs, dfDetachRoots tab xs = dfDetList tab xs := by
    intro xs; induction xs with
    | nil => simp [dfDetachRoots, dfDetList]
    | cons x xs ih => simp only [dfDetachRoots, List.map_cons] at ih ⊢; simp [dfDetList, ih]
  rw [e1] at hb
  simp [runOp, e2, e1, hb, dfDet_dfAtt_list tab rs hs hf]

/-- `pragma_regions_attached`, both exits, when the enter part does not raise: exit undoes enter on every root outside
the class -/
theorem C16_bracket_regions (tab : DfTab) (kw : Option String) (ops : List Op) (rs : List Item)
    (he : (regAttachRoots kw rs).2 = false)
    (hu : regDetachRoots (regAttachRoots kw rs).1 = rs)
    (hb : (runOps tab ops ⟨(regAttachRoots kw rs).1, none⟩).roots = (regAttachRoots kw rs).1) :
    runOp tab (.ctxRegions kw ops) ⟨rs, none⟩ = ⟨rs, (runOps tab ops ⟨(regAttachRoots kw rs).1, none⟩).exc⟩ := by
  simp [runOp, he, hb, hu]

end LokiModel.C16
