import LokiModel.C38.Model
/-!
# C38 — property theorems: arithmetic of the stack model
-/
namespace LokiModel.C38

theorem starts_length (base : Nat) (sizes : List Nat) : (starts base sizes).length = sizes.length := by
  induction sizes generalizing base with
  | nil => rfl
  | cons s r ih => simp [starts, ih]

/-- every temporary lies inside `[base, base + total)` -/
theorem intervals_fit (base : Nat) (sizes : List Nat) :
    ∀ p ∈ intervals base sizes, base ≤ p.1 ∧ p.1 + p.2 ≤ base + total sizes := by
  induction sizes generalizing base with
  | nil => intro p hp; simp [intervals, starts] at hp
  | cons s r ih =>
    intro p hp
    simp only [intervals, starts, List.zip_cons_cons, List.mem_cons] at hp
    cases hp with
    | inl h => subst h; simp only [total, List.foldr]; omega
    | inr h =>
      have := ih (base + s) p h
      simp only [total, List.foldr] at this ⊢
      omega

/-- temporaries are laid out in order without overlap: each one ends before the next one starts -/
theorem intervals_disjoint (base : Nat) (sizes : List Nat) :
    List.Pairwise (fun a b => a.1 + a.2 ≤ b.1) (intervals base sizes) := by
  induction sizes generalizing base with
  | nil => simp [intervals, starts]
  | cons s r ih =>
    simp only [intervals, starts, List.zip_cons_cons, List.pairwise_cons]
    refine ⟨?_, ih (base + s)⟩
    intro b hb
    exact (intervals_fit (base + s) r b hb).1

/-- **stack_no_overlap_and_fits** — pointer-bump allocation of any list of sizes (extent products × kind size; all kinds and
ranks: only the sizes matter) gives pairwise disjoint intervals inside `[base, base + total)` -/
theorem stack_no_overlap_and_fits (base : Nat) (sizes : List Nat) :
    List.Pairwise (fun a b => a.1 + a.2 ≤ b.1) (intervals base sizes) ∧
    ∀ p ∈ intervals base sizes, base ≤ p.1 ∧ p.1 + p.2 ≤ base + total sizes :=
  ⟨intervals_disjoint base sizes, intervals_fit base sizes⟩

/-- substitution lemma: evaluating the substituted callee size in the caller = evaluating the callee size under the binding -/
theorem eval_subst (ρ : String → Nat) (m : List (String × SE)) (e : SE) :
    (e.subst m).eval ρ = e.eval (bindVal ρ m) := by
  induction e with
  | lit n => rfl
  | var x =>
    simp only [SE.subst, SE.eval, bindVal]
    cases lookup m x <;> rfl
  | add a b iha ihb => simp [SE.subst, SE.eval, iha, ihb]
  | mul a b iha ihb => simp [SE.subst, SE.eval, iha, ihb]
  | max a b iha ihb => simp [SE.subst, SE.eval, iha, ihb]

mutual
/-- the computed stack size evaluates to the peak simultaneous use, for every call tree and valuation -/
theorem stackSize_eq_peak : ∀ (t : CT) (ρ : String → Nat), (stackSize t).eval ρ = peak ρ t
  | .node locals calls, ρ => by
      simp only [stackSize, SE.eval, peak]
      rw [succSizes_eq_peak calls ρ]
theorem succSizes_eq_peak : ∀ (c : Calls) (ρ : String → Nat), (maxSE (succSizes c)).eval ρ = peakCalls ρ c
  | .nil, ρ => by simp [succSizes, maxSE, SE.eval, peakCalls]
  | .cons m t rest, ρ => by
      simp only [succSizes, maxSE, SE.eval, peakCalls]
      rw [eval_subst, stackSize_eq_peak t (bindVal ρ m), succSizes_eq_peak rest ρ]
end

mutual
theorem pathUse_le : ∀ (t : CT) (ρ : String → Nat) (above : Nat), ∀ u ∈ pathUse ρ above t, u ≤ above + peak ρ t
  | .node locals calls, ρ, above => by
      intro u hu
      simp only [pathUse, List.mem_cons] at hu
      simp only [peak]
      cases hu with
      | inl h => subst h; omega
      | inr h =>
        have := pathUseCalls_le calls ρ (above + (sumSE locals).eval ρ) u h
        omega
theorem pathUseCalls_le : ∀ (c : Calls) (ρ : String → Nat) (above : Nat), ∀ u ∈ pathUseCalls ρ above c, u ≤ above + peakCalls ρ c
  | .nil, ρ, above => by intro u hu; simp [pathUseCalls] at hu
  | .cons m t rest, ρ, above => by
      intro u hu
      simp only [pathUseCalls, List.mem_append] at hu
      simp only [peakCalls]
      cases hu with
      | inl h => have := pathUse_le t (bindVal ρ m) above u h; omega
      | inr h => have := pathUseCalls_le rest ρ above u h; omega
end

/-- **stack_size_covers_every_path** — at every point of every call path the cells in use (temporaries of all active
routines, allocated by pointer bump from the caller's current top) are at most the size `_determine_stack_size` computes
for the root, evaluated under the root's valuation -/
theorem stack_size_covers_every_path (t : CT) (ρ : String → Nat) :
    ∀ u ∈ pathUse ρ 0 t, u ≤ (stackSize t).eval ρ := by
  intro u hu
  have := pathUse_le t ρ 0 u hu
  rw [stackSize_eq_peak]; omega

/-- the bound is attained (the computed size is not larger than needed) -/
theorem stack_size_is_peak (t : CT) (ρ : String → Nat) : (stackSize t).eval ρ = peak ρ t := stackSize_eq_peak t ρ

example : intervals 1 [4, 2, 6] = [(1, 4), (5, 2), (7, 6)] := by decide

end LokiModel.C38
