import LokiModel.C29.ExprSim
/-!
# C29 — associate resolution preserves behaviour (property theorems)

What is proved (unbounded, every expression / state / position): the SUBSTITUTION THEOREM for the names of one ASSOCIATE
block — `resolve_sound_partial`.  `Sim b σL σR` says: `σL` is `σR` (a state without associations) plus the association
table of a block `b` whose selectors are whole variables or array elements, and every element selector's subscripts
evaluate, in `σR`, to the element that was bound.  That last clause is exactly the precondition the proof forces:
ASSOCIATE binds the location at entry, the resolved code re-evaluates the subscripts, so they must still have their entry
value (decidable syntactic sufficient condition = complement of the class `index_modified`).  Under `Sim` every covered
expression (`covE`: a subscripted associate name must be bound to a whole variable; sections carry a triplet) has the same
value in the block and after resolution, for scalars, elements, sections and at every position of an array assignment.

`_partial` because the lifting to statements (every statement form evaluates its operands through `evalE`/`evalIdx`/
`evalSec`, `Sim` re-established after each store when the written variable is not a selector subscript, entry of the block
establishing `Sim` from `bindAll`) is NOT proved here; section selectors (class `bounds_shift`), value selectors and PRINT
(class `print_unresolved`) are outside; merging has no theorem.  Those parts are covered by the correspondence and the
direct oracle only.
-/
namespace LokiModel.C29
open LokiModel.Fir

/-- **substitution theorem for one ASSOCIATE block**: in related states a covered expression and its resolved form have
the same value (scalar operands, subscript lists, intrinsic arguments and section subscripts) -/
theorem resolve_sound_partial {b : Binds} {σL σR : St} (S : Sim b σL σR) :
    (∀ e pos, covE b e = true → evalE σL pos e = evalE σR pos (rsE b e)) ∧
    (∀ es pos, covEs b es = true → evalIdx σL pos es = evalIdx σR pos (rsEs b es)) ∧
    (∀ es pos, covEs b es = true → evalArgs σL pos es = evalArgs σR pos (rsEs b es)) ∧
    (∀ ds bs pos ks, covD b ds = true → evalSec σL pos bs ds ks = evalSec σR pos bs (rsDims b ds) ks) :=
  ⟨rsE_sound S, rsEs_sound S, rsArgs_sound S, rsD_sound S⟩

/-- conditions of IF / DO WHILE, SELECT expressions and DO bounds are evaluated at position `[]` -/
theorem resolve_condition_sound {b : Binds} {σL σR : St} (S : Sim b σL σR) (c : Ex) (h : covE b c = true) :
    evalE σL [] c = evalE σR [] (rsE b c) := rsE_sound S c [] h

/-! non-vacuity: a state with `w => a` (whole array) and `z => a(2)` related to the state without the two names -/

def exStore : List (String × Cell) :=
  [("a", .array .int [(1, 3)] [some (.int 5), some (.int 6), some (.int 7)]), ("i", .scalar .int (some (.int 2)))]
def exR : St := { store := exStore }
def exL : St := { store := exStore, alias := [("z", .elem "a" [2]), ("w", .whole "a")] }
def exB : Binds := [("w", .var "a"), ("z", .idx "a" [.lit (.int 2)])]

theorem exSim : Sim exB exL exR where
  store := rfl
  out := rfl
  noAliasR := rfl
  den := by
    intro x e h
    by_cases hz : x = "z"
    · subst hz
      have : e = .idx "a" [.lit (.int 2)] := by
        have h' : lookupB exB "z" = some (.idx "a" [.lit (.int 2)]) := by rfl
        rw [h'] at h; exact (Option.some.inj h).symm
      subst this
      exact ⟨.elem "a" [2], by rfl, .elem "a" _ [2] (fun pos => by simp [evalIdx, evalE, asInt])⟩
    · by_cases hw : x = "w"
      · subst hw
        have : e = .var "a" := by
          have h' : lookupB exB "w" = some (.var "a") := by rfl
          rw [h'] at h; exact (Option.some.inj h).symm
        subst this
        exact ⟨.whole "a", by rfl, .whole "a"⟩
      · have hz' : ("z" == x) = false := by simpa using fun h => hz h.symm
        have hw' : ("w" == x) = false := by simpa using fun h => hw h.symm
        simp [exB, lookupB, hz', hw'] at h
  other := by
    intro x h
    by_cases hz : x = "z"
    · subst hz
      have h' : lookupB exB "z" = some (.idx "a" [.lit (.int 2)]) := by rfl
      rw [h'] at h; exact absurd h (by simp)
    · by_cases hw : x = "w"
      · subst hw
        have h' : lookupB exB "w" = some (.var "a") := by rfl
        rw [h'] at h; exact absurd h (by simp)
      · have hz' : ("z" == x) = false := by simpa using fun h => hz h.symm
        have hw' : ("w" == x) = false := by simpa using fun h => hw h.symm
        simp [lookupAlias, exL, List.find?, hz', hw']

/-- `z + w(i)` in the block is `a(2) + a(i)` after resolution, and both are 12 -/
example : evalE exL [] (.bin .add (.var "z") (.idx "w" [.var "i"])) =
    evalE exR [] (rsE exB (.bin .add (.var "z") (.idx "w" [.var "i"]))) :=
  (resolve_sound_partial exSim).1 _ [] (by decide)

end LokiModel.C29
