import LokiModel.C06.Proof4
/-!
# C06 — printed expressions denote the expression tree they were printed from (Fortran backend)

Model: `printF cfg t p` (`LokiModel/C06/Model.lean`) mirrors `FCodeMapper` / `LokiStringifyMapper` /
pymbolic's `StringifyMapper` token for token (checked against the real `fgen` on every run); `G ℓ ts s`
(`LokiModel/Expr/Grammar.lean`) is the Fortran expression grammar as a derivation relation; `evalS` is the
reference semantics (integer division truncates, mixed-mode promotion, exact rationals for reals).

The full statement — for **every** tree the printed text is a Fortran expression with the value of the tree — is
false of the code as it stands (see `LokiModel/Findings/C06.lean` and `known_findings.json`).  `C06_F_partial` is the statement
for every tree in the decidable class `Good`, which is closed under everything the frontend produces and under
substitution of sums into sums and products into products (re-association is proved value-preserving), and
excludes exactly the positions where Loki's precedence numbers disagree with the grammar.
-/
namespace LokiModel.C06
open LokiModel.Expr Tables Tok

/-- the full statement of C06 for the Fortran backend (kept visible; false of the current code) -/
def C06_F_full : Prop :=
  ∀ (t : E) (p : Nat), ∃ s, G 0 (printF fcfg t p) s ∧ ∀ env, evalS env s = evalS env (den t)

/-- **C06, Fortran printer, partial**: for every printer configuration, every tree of the class `Good` and every
enclosing precedence, the printed token list is derivable in the Fortran expression grammar — at the level
`outLv t p` its position requires — with a semantic tree that has the value of the tree (or fails like it) under
every valuation.  Unbounded depth and width. -/
theorem C06_F_partial (cfg : Cfg) (t : E) (hg : Good cfg t = true) (p : Nat) :
    ∃ s, G (outLv t p) (printF cfg t p) s ∧ ∀ env, evalS env s = evalS env (den t) := by
  obtain ⟨hA, _⟩ := P_all cfg t hg
  obtain ⟨s, hs, he⟩ := hA p
  exact ⟨s, hs, he⟩

/-- the same at expression level, for the configuration read from the current `FCodeMapper` -/
theorem C06_F_partial_expr (t : E) (hg : Good fcfg t = true) (p : Nat) :
    ∃ s, G 0 (printF fcfg t p) s ∧ ∀ env, evalS env s = evalS env (den t) := by
  obtain ⟨s, hs, he⟩ := C06_F_partial fcfg t hg p
  exact ⟨s, hs.weaken (Nat.zero_le _) (outLv_le _ _), he⟩

/-- substitution closure, sums: a `Good` sum may be inserted as a later `+` term of a sum when its first term is not a
minus term — the printer's omission of parentheses is value preserving there -/
theorem C06_sum_in_sum (cfg : Cfg) (t : E) (hg : Good cfg t = true) (ht : termOK t = true) :
    ∀ X acc, G 4 X acc → ∃ s, G 4 (X ++ [plus] ++ printF cfg t PREC_SUM) s ∧
      ∀ env, evalS env s = evalS env (.add acc (den t)) := by
  obtain ⟨_, _, hK, _⟩ := P_all cfg t hg
  intro X acc hX
  obtain ⟨s, hs, he⟩ := hK ht X acc hX
  exact ⟨s, hs, he⟩

/-- substitution closure, products -/
theorem C06_prod_in_prod (cfg : Cfg) (t : E) (hg : Good cfg t = true) (ht : factorOK t = true) :
    ∀ X acc, G 5 X acc → ∃ s, G 5 (X ++ [star] ++ printF cfg t PREC_PRODUCT) s ∧
      ∀ env, evalS env s = evalS env (.mul acc (den t)) := by
  obtain ⟨_, hK, _⟩ := P_all cfg t hg
  intro X acc hX
  obtain ⟨s, hs, he⟩ := hK ht X acc hX
  exact ⟨s, hs, he⟩

/-! ### the known-finding classes lie outside `Good` (so the theorem claims nothing there), with witnesses -/

/-- class `quot-denominator-unparenthesised`: a plain product or quotient as denominator is printed without
parentheses whenever `multiplicative_primitives` does not contain its class -/
theorem C06_known_quotDen_prod (cfg : Cfg) (h : cfg.mpProduct = false) (par : Bool) (a : E) (xs : List E) :
    Good cfg (.quot par a (.prod false xs)) = false := by
  match xs with
  | [] => simp [Good]
  | [c] => simp [Good, forceDen, h, outLv]
  | [c, x] => cases hm : isMinusOne c <;> simp [Good, forceDen, h, outLv, not_gt_prod, hm]
  | c :: x :: y :: r => simp [Good, forceDen, h, outLv]

theorem C06_known_quotDen_quot (cfg : Cfg) (h : cfg.mpQuotient = false) (par : Bool) (a b c : E) :
    Good cfg (.quot par a (.quot false b c)) = false := by
  simp [Good, forceDen, h, outLv]

/-- class `product-factor-quotient-unparenthesised` -/
theorem C06_known_prodQuot (cfg : Cfg) (par : Bool) (a b c : E) (hm : isMinusOne a = false) :
    Good cfg (.prod par [a, .quot false b c]) = false := by
  simp [Good, hm, factorOK, outLv]

/-! ### non-vacuity: non-trivial trees inside `Good` -/

/-- `a - b*c + d*(x/y) - (n + 1)**2 / (a*b)`, frontend shape -/
example : Good fcfg
    (.sum false [.sum false [.sum false [.var "a", .prod false [.pyint (-1), .prod false [.var "b", .var "c"]]],
                             .prod false [.var "d", .quot true (.var "x") (.var "y")]],
                 .prod false [.pyint (-1), .quot false (.pow false (.sum true [.var "n", .ilit 1]) (.ilit 2))
                                                       (.prod true [.var "a", .var "b"])]]) = true := by decide

/-- substitution shapes: a sum inside a sum, a product inside a product, a negated sum, a power of a negation -/
example : Good fcfg (.sum false [.var "a", .sum false [.var "b", .var "c"],
    .prod false [.var "a", .prod false [.var "b", .var "c"], .pow false (.prod false [.pyint (-1), .var "a"]) (.ilit 2)],
    .prod false [.pyint (-1), .sum false [.var "b", .var "c"]]]) = true := by decide

/-- logical layer -/
example : Good fcfg (.lor [.land [.cmp .lt (.var "a") (.sum false [.var "b", .ilit 1]), .lnot (.var "p")],
                           .lnot (.cmp .eq (.var "a") (.var "b"))]) = true := by decide

end LokiModel.C06
