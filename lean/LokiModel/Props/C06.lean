import LokiModel.C06.Proof4
import LokiModel.C06.ProofC4
/-!
# C06 — printed expressions denote the expression tree they were printed from (Fortran and C backends)

Model: `printF cfg t p` (`LokiModel/C06/Model.lean`) mirrors `FCodeMapper` / `LokiStringifyMapper` /
pymbolic's `StringifyMapper` token for token (checked against the real `fgen` on every run); `G ℓ ts s`
(`LokiModel/Expr/Grammar.lean`) is the Fortran expression grammar as a derivation relation; `evalS` is the
reference semantics (integer division truncates, mixed-mode promotion, exact rationals for reals).

The full statement — for **every** tree the printed text is a Fortran expression with the value of the tree — is
false of the code as it stands (see `LokiModel/Findings/C06.lean` and `known_findings.json`).  `C06_F_partial` is the statement
for every tree in the decidable class `Good`, which is closed under everything the frontend produces and under
substitution of sums into sums and products into products (re-association is proved value-preserving), and
excludes exactly the positions where Loki's precedence numbers disagree with the grammar.

C backend: `printC cfg t p` (`LokiModel/C06/ModelC.lean`) mirrors `CCodeMapper` over the same tree type and is checked against the
real `cgen` mapper token for token (C tokens, maximal munch: `--` is one token); `GC ℓ ts s` (`LokiModel/C06/GrammarC.lean`) is the C99
expression grammar (6.5) as a derivation relation over the same semantic trees and the same `evalS`.  `C06_C_partial` is the
statement for every tree of the decidable class `GoodC` — where Loki's precedence numbers agree with the **C** grammar: unlike for
Fortran, signs after operators (`a*-b`, `a - -b`) are inside, and a negated product `-a*b`, which C reads `(-a)*b`, is proved
value-equal to `-(a*b)` (`C06_C_neg_push`).  Convention: `pow(a, b)` means `S.pow a b` with the model's integer power; real C returns
`double` (documented limitation, see `notes/C06C.md`).
-/
namespace LokiModel.C06
open LokiModel.Expr Tables Tok

/-- the full statement of C06 for the Fortran backend (kept visible; false of the current code) -/
def C06_F_full : Prop :=
  ∀ (t : E) (p : Nat), ∃ s, G 0 (printF fcfg t p) s ∧ ∀ env, evalS env s = evalS env (den t)

/-- **C06, Fortran printer, partial**: for every printer configuration, every tree of the class `Good` and every
enclosing precedence, the printed token list is derivable in the Fortran expression grammar — at the level
`outLv t p` its position requires — with a semantic tree that has the value of the tree (or fails like it) under
every valuation.  Unbounded depth and width. -/
theorem C06_F_partial (cfg : Cfg) (t : E) (hg : Good cfg t = true) (p : Nat) :
    ∃ s, G (outLv t p) (printF cfg t p) s ∧ ∀ env, evalS env s = evalS env (den t) := by
  obtain ⟨hA, _⟩ := P_all cfg t hg
  obtain ⟨s, hs, he⟩ := hA p
  exact ⟨s, hs, he⟩

/-- the same at expression level, for the configuration read from the current `FCodeMapper` -/
theorem C06_F_partial_expr (t : E) (hg : Good fcfg t = true) (p : Nat) :
    ∃ s, G 0 (printF fcfg t p) s ∧ ∀ env, evalS env s = evalS env (den t) := by
  obtain ⟨s, hs, he⟩ := C06_F_partial fcfg t hg p
  exact ⟨s, hs.weaken (Nat.zero_le _) (outLv_le _ _), he⟩

/-- substitution closure, sums: a `Good` sum may be inserted as a later `+` term of a sum when its first term is not a
minus term — the printer's omission of parentheses is value preserving there -/
theorem C06_sum_in_sum (cfg : Cfg) (t : E) (hg : Good cfg t = true) (ht : termOK t = true) :
    ∀ X acc, G 4 X acc → ∃ s, G 4 (X ++ [plus] ++ printF cfg t PREC_SUM) s ∧
      ∀ env, evalS env s = evalS env (.add acc (den t)) := by
  obtain ⟨_, _, hK, _⟩ := P_all cfg t hg
  intro X acc hX
  obtain ⟨s, hs, he⟩ := hK ht X acc hX
  exact ⟨s, hs, he⟩

/-- substitution closure, products -/
theorem C06_prod_in_prod (cfg : Cfg) (t : E) (hg : Good cfg t = true) (ht : factorOK t = true) :
    ∀ X acc, G 5 X acc → ∃ s, G 5 (X ++ [star] ++ printF cfg t PREC_PRODUCT) s ∧
      ∀ env, evalS env s = evalS env (.mul acc (den t)) := by
  obtain ⟨_, hK, _⟩ := P_all cfg t hg
  intro X acc hX
  obtain ⟨s, hs, he⟩ := hK ht X acc hX
  exact ⟨s, hs, he⟩

/-! ### the known-finding classes lie outside `Good` (so the theorem claims nothing there), with witnesses -/

/-- class `quot-denominator-unparenthesised`: a plain product or quotient as denominator is printed without
parentheses whenever `multiplicative_primitives` does not contain its class -/
theorem C06_known_quotDen_prod (cfg : Cfg) (h : cfg.mpProduct = false) (par : Bool) (a : E) (xs : List E) :
    Good cfg (.quot par a (.prod false xs)) = false := by
  match xs with
  | [] => simp [Good]
  | [c] => simp [Good, forceDen, h, outLv]
  | [c, x] => cases hm : isMinusOne c <;> simp [Good, forceDen, h, outLv, not_gt_prod, hm]
  | c :: x :: y :: r => simp [Good, forceDen, h, outLv]

theorem C06_known_quotDen_quot (cfg : Cfg) (h : cfg.mpQuotient = false) (par : Bool) (a b c : E) :
    Good cfg (.quot par a (.quot false b c)) = false := by
  simp [Good, forceDen, h, outLv]

/-- class `product-factor-quotient-unparenthesised` -/
theorem C06_known_prodQuot (cfg : Cfg) (par : Bool) (a b c : E) (hm : isMinusOne a = false) :
    Good cfg (.prod par [a, .quot false b c]) = false := by
  simp [Good, hm, factorOK, outLv]

/-! ### non-vacuity: non-trivial trees inside `Good` -/

/-- `a - b*c + d*(x/y) - (n + 1)**2 / (a*b)`, frontend shape -/
example : Good fcfg
    (.sum false [.sum false [.sum false [.var "a", .prod false [.pyint (-1), .prod false [.var "b", .var "c"]]],
                             .prod false [.var "d", .quot true (.var "x") (.var "y")]],
                 .prod false [.pyint (-1), .quot false (.pow false (.sum true [.var "n", .ilit 1]) (.ilit 2))
                                                       (.prod true [.var "a", .var "b"])]]) = true := by decide

/-- substitution shapes: a sum inside a sum, a product inside a product, a negated sum, a power of a negation -/
example : Good fcfg (.sum false [.var "a", .sum false [.var "b", .var "c"],
    .prod false [.var "a", .prod false [.var "b", .var "c"], .pow false (.prod false [.pyint (-1), .var "a"]) (.ilit 2)],
    .prod false [.pyint (-1), .sum false [.var "b", .var "c"]]]) = true := by decide

/-- logical layer -/
example : Good fcfg (.lor [.land [.cmp .lt (.var "a") (.sum false [.var "b", .ilit 1]), .lnot (.var "p")],
                           .lnot (.cmp .eq (.var "a") (.var "b"))]) = true := by decide

/-! ## C backend -/

/-- the full statement of C06 for the C backend (kept visible; false of the current code) -/
def C06_C_full : Prop :=
  ∀ (t : E) (p : Nat), ∃ s, GC 0 (printC ccfg t p) s ∧ ∀ env, evalS env s = evalS env (den t)

/-- **C06, C printer, partial**: for every printer configuration, every tree of the class `GoodC` and every enclosing
precedence, the printed C token list is derivable in the C expression grammar — at the level `outLvC t p` its position
requires — with a semantic tree that has the value of the tree (or fails like it) under every valuation.  Unbounded depth
and width.  Not covered (outside `GoodC`): the known-finding classes below and an unproven region (n-ary minus terms
`Product((-1, a, b))` in sums, `&&`/`||` chains nested on the right, `a * -b*c`), where only the direct oracle speaks. -/
theorem C06_C_partial (cfg : Cfg) (t : E) (hg : GoodC cfg t = true) (p : Nat) :
    ∃ s, GC (outLvC t p) (printC cfg t p) s ∧ ∀ env, evalS env s = evalS env (den t) := by
  obtain ⟨hA, _⟩ := (PC_all cfg t).1 hg
  obtain ⟨s, hs, he⟩ := hA p
  exact ⟨s, hs, he⟩

/-- the same at expression level, for the configuration read from the current `CCodeMapper` -/
theorem C06_C_partial_expr (t : E) (hg : GoodC ccfg t = true) (p : Nat) :
    ∃ s, GC 0 (printC ccfg t p) s ∧ ∀ env, evalS env s = evalS env (den t) := by
  obtain ⟨s, hs, he⟩ := C06_C_partial ccfg t hg p
  exact ⟨s, hs.weaken (Nat.zero_le _) (outLvC_le _ _), he⟩

/-- C's unary minus binds tighter than `*` and `/`: a sign written in front of a multiplicative expression belongs to its
first factor, and the value is nevertheless the negation of the whole (`-a*b/c` = `-((a*b)/c)`, truncating division included) -/
theorem C06_C_neg_push {ℓ : Nat} {ts : List CTok} {s : S} (h : GC ℓ ts s) (h5 : 5 ≤ ℓ) :
    ∃ s', GC 5 ([CTok.minus] ++ ts) s' ∧ ∀ env, evalS env s' = evalS env (.neg s) := by
  obtain ⟨s', hs, he⟩ := neg_push h h5
  exact ⟨s', hs, he⟩

/-- substitution closure, sums (C) -/
theorem C06_C_sum_in_sum (cfg : Cfg) (t : E) (hg : GoodC cfg t = true) (ht : termOKC t = true) :
    ∀ X acc, GC 4 X acc → ∃ s, GC 4 (X ++ [CTok.plus] ++ printC cfg t PREC_SUM) s ∧
      ∀ env, evalS env s = evalS env (.add acc (den t)) := by
  obtain ⟨_, _, hK⟩ := (PC_all cfg t).1 hg
  intro X acc hX
  obtain ⟨s, hs, he⟩ := hK ht X acc hX
  exact ⟨s, hs, he⟩

/-- substitution closure, products (C) -/
theorem C06_C_prod_in_prod (cfg : Cfg) (t : E) (hg : GoodC cfg t = true) (ht : factorOKC t = true) :
    ∀ X acc, GC 5 X acc → ∃ s, GC 5 (X ++ [CTok.star] ++ printC cfg t PREC_PRODUCT) s ∧
      ∀ env, evalS env s = evalS env (.mul acc (den t)) := by
  obtain ⟨_, hK, _⟩ := (PC_all cfg t).1 hg
  intro X acc hX
  obtain ⟨s, hs, he⟩ := hK ht X acc hX
  exact ⟨s, hs, he⟩

/-- a minus term `Product((-1, x))` as a later term of a sum: printed `X - x` with separate sign tokens, so `x` may itself
start with a sign (`a - -b`); `GoodCm cfg true` is the class for that position -/
theorem C06_C_minus_term (cfg : Cfg) (t x : E) (hg : GoodCm cfg true t = true) (hx : sumNeg t = some x) :
    ∀ X acc, GC 4 X acc → ∃ s, GC 4 (X ++ [CTok.minus] ++ printC cfg x PREC_PRODUCT) s ∧
      ∀ env, evalS env s = evalS env (.add acc (den t)) := by
  intro X acc hX
  obtain ⟨s, hs, he⟩ := (PC_all cfg t).2 hg x hx X acc hX
  exact ⟨s, hs, he⟩

/-! ### the known-finding classes lie outside `GoodC` -/

/-- class `product-factor-quotient-unparenthesised` (C) -/
theorem C06_C_known_prodQuot (cfg : Cfg) (par : Bool) (a b c : E) (hm : isMinusOne a = false) :
    GoodC cfg (.prod par [a, .quot false b c]) = false := by
  simp [GoodC, GoodCm, hm, factorOKC, outLvC]

/-- class `c-double-minus-decrement`: a sign glued in front of a text that starts with a sign -/
theorem C06_C_known_doubleMinus (cfg : Cfg) (par : Bool) (c x : E) (hm : isMinusOne c = true)
    (hs : startsMinus (printC cfg x PREC_PRODUCT) = true) :
    GoodC cfg (.prod par [c, x]) = false := by
  simp [GoodC, GoodCm, hm, hs]

/-- … and no token list containing the decrement token is an expression of the modelled sub-language -/
theorem C06_C_decr_not_derivable {ℓ : Nat} {ts : List CTok} {s : S} (h : GC ℓ ts s) : CTok.decr ∉ ts :=
  GC.no_decr h

/-! ### non-vacuity (C): non-trivial trees inside `GoodC` -/

/-- `a - b*c + d*(x/y) - pow(n + 1, 2) / (a*b)`, frontend shape -/
example : GoodC ccfg
    (.sum false [.sum false [.sum false [.var "a", .prod false [.pyint (-1), .prod false [.var "b", .var "c"]]],
                             .prod false [.var "d", .quot true (.var "x") (.var "y")]],
                 .prod false [.pyint (-1), .quot false (.pow false (.sum true [.var "n", .ilit 1]) (.ilit 2))
                                                       (.prod true [.var "a", .var "b"])]]) = true := by decide

/-- shapes that are not Fortran but are C: `a*-b`, `a / -b`, `a + -3`, `a - -b`, `-a*b` as a first term, `pow` of anything -/
example : GoodC ccfg (.sum false [.prod false [.pyint (-1), .prod false [.var "a", .var "b"]],
    .prod false [.var "a", .prod false [.pyint (-1), .var "b"]],
    .quot false (.var "a") (.prod false [.ilit (-1), .var "b"]),
    .ilit (-3),
    .prod false [.pyint (-1), .prod false [.pyint (-1), .var "b"]],
    .pow false (.sum false [.var "a", .prod false [.pyint (-1), .var "b"]]) (.quot false (.var "n") (.ilit 2))]) = true := by decide

/-- logical layer (C) -/
example : GoodC ccfg (.lor [.land [.cmp .lt (.var "a") (.sum false [.var "b", .ilit 1]), .lnot (.var "p")],
                            .lnot (.cmp .eq (.var "a") (.var "b")),
                            .cmp .eq (.cmp .lt (.var "a") (.var "b")) (.blit true)]) = true := by decide

end LokiModel.C06
