import LokiModel.C35.Lemmas
import LokiModel.C35.Loop
import LokiModel.Props.C06
/-!
# C35 — Fortran-to-C transpilation preserves behaviour (property theorems: subscripts, operators, argument passing, expressions)

* `c_index_eq` — for every rank, every declared bounds list and every in-bounds subscript tuple, the single flat subscript the
  generated C code uses (normalise to lower bound 1, invert, shift to zero, flatten in order 'C') is the column-major offset of the
  Fortran element, i.e. it addresses the same memory cell of the array the ISO-C wrapper passes by reference.
* `c_div_eq`, `c_mod_eq` — C99's integer `/` and `%` are Fortran's `/` and `MOD` for all sign combinations; `c_mod_choice_int`:
  `%` is printed exactly when no non-integer variable and no real literal occurs in the arguments.
* `c_eval_eq_partial` — for every meaning tree and valuation outside the decidable class `KnownCPow` (a power with an integer base:
  C's `pow` returns `double`) the C value is the Fortran value; `c_print_eval_partial` composes it with C06's printer theorem: for
  every Loki tree in `GoodC` the printed C token list derives, in the C99 expression grammar, a tree whose **C** value is the Fortran
  value of the Loki tree.
* `c_loop_eq_doSeq`, `c_loop_eq_doSeq_nostep` — the header `for (i = s; i <= e; i += c)` (step absent or positive) resp.
  `for (i = s; i >= e; i += c)` (negative step) that `CCodegen.visit_Loop` prints runs its body for exactly the values of the Fortran
  DO sequence, in order, for every start, stop and non-zero step (given enough iterations: any fuel above the trip count).
* `c_pass_writable_by_pointer`, `c_pass_value_iff_iface_value` — statements about the table regenerated from the real
  transformations on every run: every argument the kernel may write is a pointer in C, and a C by-value parameter is exactly a
  `VALUE` dummy of the ISO-C interface (so caller and callee agree on the ABI).
Statements are `_partial` where a class hypothesis is needed; whole routines are covered by the direct oracle (thorough tier: gcc +
gfortran) only.
-/
namespace LokiModel.C35
open LokiModel.Expr LokiModel.C06 LokiModel.Fir

/-- **C35, subscripts (all ranks)** -/
theorem c_index_eq (bs : List (Int × Int)) (idx : List Int) (o : Nat) (hne : bs ≠ [])
    (h : offset bs idx = some o) : cIndex bs idx = some (o : Int) := by
  obtain ⟨e, hl⟩ := offset_horner bs idx o h
  -- the list the pipeline hands to `flatRev`
  have hz : List.zipWith (fun (b : Int × Int) i => normIdx b.1 i) bs idx = (List.zipWith (fun (b : Int × Int) i => i - b.1) bs idx).map (· + 1) := by
    clear e h hne
    induction bs generalizing idx with
    | nil => simp
    | cons b bs ih =>
      cases idx with
      | nil => simp
      | cons i is => simp [normIdx, ih is (by simpa using hl)]
  unfold cIndex cSubscripts
  simp only [hz]
  generalize hD : List.zipWith (fun (b : Int × Int) i => i - b.1) bs idx = D at *
  have hDl : D.length = (bs.map normExt).length := by rw [← hD]; simp [hl]
  generalize hS : bs.map normExt = Sx at *
  have hd3 : (List.map (fun x => x - 1) (List.map (fun x => x + 1) D).reverse) = D.reverse := by
    rw [← List.map_reverse, List.map_map]
    have : ((fun x : Int => x - 1) ∘ fun x => x + 1) = id := by funext x; simp
    rw [this]; simp
  rw [hd3]
  cases hDr : D.reverse with
  | nil =>
    have : D = [] := by simpa using hDr
    subst this
    have : bs = [] := by
      have := hDl; rw [← hS] at this; simpa using this.symm
    exact absurd this hne
  | cons a rd =>
    cases hSr : Sx.reverse with
    | nil =>
      have : Sx = [] := by simpa using hSr
      subst this; simp at hDl; subst hDl; simp at hDr
    | cons sa rs =>
      have hlen : rd.length = rs.length := by
        have h1 : D.reverse.length = Sx.reverse.length := by simp [hDl]
        rw [hDr, hSr] at h1; simpa using h1
      rw [flatRev_combine a sa rd rs hlen]
      simp only [List.reverse_cons, List.reverse_nil, List.nil_append]
      congr 1
      -- `combine a rd rs` is the Horner form of D with seed 0
      have hD' : D = rd.reverse ++ [a] := by rw [← List.reverse_reverse D, hDr]; simp
      have hS' : Sx = rs.reverse ++ [sa] := by rw [← List.reverse_reverse Sx, hSr]; simp
      rw [e, hD', hS']
      have key : ∀ (ds ss : List Int), ds.length = ss.length →
          horner 0 (ds ++ [a]) (ss ++ [sa]) = horner a ds ss := by
        intro ds
        induction ds with
        | nil => intro ss h; cases ss <;> simp [horner] at *
        | cons d ds ih =>
          intro ss h
          cases ss with
          | nil => simp at h
          | cons s ss => simp only [List.cons_append, horner]; rw [ih ss (by simpa using h)]
      rw [key _ _ (by simpa using hlen), ← combine_reverse a rd.reverse rs.reverse (by simpa using hlen)]
      simp

/-- non-vacuity: `a(0:2, -1:3)`, element `(1, 2)` is the cell at offset 10 -/
example : offset [(0, 2), (-1, 3)] [1, 2] = some 10 ∧ cIndex [(0, 2), (-1, 3)] [1, 2] = some 10 :=
  ⟨by decide, c_index_eq _ _ 10 (by simp) (by decide)⟩

/-- **C35, integer division**: C99 `/` is Fortran `/` for every sign combination -/
theorem c_div_eq (a b : Int) : cDiv a b = fDiv a b := cDiv_eq_tdiv a b

/-- **C35, integer remainder**: C99 `%` is Fortran `MOD` for every sign combination (and both are `Int.tmod`) -/
theorem c_mod_eq (a b : Int) : cMod a b = fMod a b ∧ fMod a b = a.tmod b := by
  refine ⟨by simp [cMod, fMod, cDiv_eq_tdiv], ?_⟩
  have := Int.tmod_add_mul_tdiv a b
  simp only [fMod]
  have h2 := Int.mul_comm b (a.tdiv b)
  omega

/-- `%` is chosen exactly for all-integer arguments without real literals -/
theorem c_mod_choice_int (v l : Bool) : modChoice v l = .pct ↔ (v = false ∧ l = false) := by
  cases v <;> cases l <;> simp [modChoice]

/-! ### expressions -/

theorem bin_some {f : Val → Val → Option Val} {x y : Option Val} {v : Val} (h : bin f x y = some v) :
    ∃ a b, x = some a ∧ y = some b ∧ f a b = some v := by
  cases x with
  | none => simp [bin] at h
  | some a =>
    cases y with
    | none => simp [bin] at h
    | some b => exact ⟨a, b, rfl, rfl, by simpa [bin] using h⟩

theorem bind_some {f : Val → Option Val} {x : Option Val} {v : Val} (h : x.bind f = some v) :
    ∃ a, x = some a ∧ f a = some v := by
  cases x with
  | none => simp at h
  | some a => exact ⟨a, rfl, by simpa using h⟩

theorem cPow_eq (a b v : Val) (h : Val.pow a b = some v) (hk : isIntVal (some a) = false) : cPow a b = some v := by
  cases a <;> cases b <;> simp [Val.pow, isIntVal] at h hk
  obtain ⟨w, hw, rfl⟩ := h
  simp [cPow, hw]

/-- **C35, expressions (partial: outside the class of integer-base powers)** -/
theorem c_eval_eq_partial (env : Env) (s : S) : ∀ v, evalS env s = some v → KnownCPow env s = false →
    evalC env s = some v := by
  induction s with
  | int n => intro v h _; simpa [evalS, evalC] using h
  | real t => intro v h _; simpa [evalS, evalC] using h
  | var x => intro v h _; simpa [evalS, evalC] using h
  | bool b => intro v h _; simpa [evalS, evalC] using h
  | neg a iha =>
    intro v h hk
    simp only [evalS] at h
    obtain ⟨x, hx, hv⟩ := bind_some h
    simp only [KnownCPow] at hk
    simp [evalC, iha x hx hk, hv]
  | not a iha =>
    intro v h hk
    simp only [evalS] at h
    obtain ⟨x, hx, hv⟩ := bind_some h
    simp only [KnownCPow] at hk
    simp [evalC, iha x hx hk, hv]
  | add a b iha ihb =>
    intro v h hk
    simp only [evalS] at h
    obtain ⟨x, y, hx, hy, hv⟩ := bin_some h
    simp only [KnownCPow, Bool.or_eq_false_iff] at hk
    simp [evalC, iha x hx hk.1, ihb y hy hk.2, bin, hv]
  | sub a b iha ihb =>
    intro v h hk
    simp only [evalS] at h
    obtain ⟨x, y, hx, hy, hv⟩ := bin_some h
    simp only [KnownCPow, Bool.or_eq_false_iff] at hk
    simp [evalC, iha x hx hk.1, ihb y hy hk.2, bin, hv]
  | mul a b iha ihb =>
    intro v h hk
    simp only [evalS] at h
    obtain ⟨x, y, hx, hy, hv⟩ := bin_some h
    simp only [KnownCPow, Bool.or_eq_false_iff] at hk
    simp [evalC, iha x hx hk.1, ihb y hy hk.2, bin, hv]
  | div a b iha ihb =>
    intro v h hk
    simp only [evalS] at h
    obtain ⟨x, y, hx, hy, hv⟩ := bin_some h
    simp only [KnownCPow, Bool.or_eq_false_iff] at hk
    simp [evalC, iha x hx hk.1, ihb y hy hk.2, bin, hv]
  | cmp o a b iha ihb =>
    intro v h hk
    simp only [evalS] at h
    obtain ⟨x, y, hx, hy, hv⟩ := bin_some h
    simp only [KnownCPow, Bool.or_eq_false_iff] at hk
    simp [evalC, iha x hx hk.1, ihb y hy hk.2, bin, hv]
  | pow a b iha ihb =>
    intro v h hk
    simp only [evalS] at h
    obtain ⟨x, y, hx, hy, hv⟩ := bin_some h
    simp only [KnownCPow, Bool.or_eq_false_iff] at hk
    obtain ⟨⟨ka, kb⟩, kc⟩ := hk
    rw [hx] at kc
    simp [evalC, iha x hx ka, ihb y hy kb, bin, cPow_eq x y v hv kc]
  | and a b iha ihb =>
    intro v h hk
    simp only [evalS] at h
    obtain ⟨x, y, hx, hy, hv⟩ := bin_some h
    simp only [KnownCPow, Bool.or_eq_false_iff] at hk
    cases x <;> cases y <;> simp [Val.land] at hv
    rename_i p q
    subst hv
    simp only [evalC, iha _ hx hk.1, ihb _ hy hk.2]
    cases p <;> simp
  | or a b iha ihb =>
    intro v h hk
    simp only [evalS] at h
    obtain ⟨x, y, hx, hy, hv⟩ := bin_some h
    simp only [KnownCPow, Bool.or_eq_false_iff] at hk
    cases x <;> cases y <;> simp [Val.lor] at hv
    rename_i p q
    subst hv
    simp only [evalC, iha _ hx hk.1, ihb _ hy hk.2]
    cases p <;> simp

/-- printer and C semantics together: for every Loki tree of C06's class `GoodC` the token list `cgen` prints derives (C99 grammar)
a tree whose C value — outside the power class — is the Fortran value of the Loki tree -/
theorem c_print_eval_partial (t : E) (hg : GoodC ccfg t = true) (p : Nat) :
    ∃ s, GC 0 (printC ccfg t p) s ∧
      ∀ env v, evalS env (den t) = some v → KnownCPow env s = false → evalC env s = some v := by
  obtain ⟨s, hs, he⟩ := C06_C_partial_expr t hg p
  exact ⟨s, hs, fun env v hv hk => c_eval_eq_partial env s v (by rw [he env]; exact hv) hk⟩

/-! ### loop headers -/

/-- **C35, loops**: for every start, stop and non-zero step the generated `for` header visits the Fortran DO sequence -/
theorem c_loop_eq_doSeq (s e c : Int) (hc : c ≠ 0) (fuel : Nat) (hf : LokiModel.C10.tripCount s e c < fuel) :
    cLoopSeq s e (some c) fuel = LokiModel.C10.doSeq s e c := by
  by_cases hp : 0 < c
  · simp only [cLoopSeq, critLe, hp, decide_true, Option.getD_some]
    exact cFor_le_eq e c hp _ s fuel rfl hf
  · have hn : c < 0 := by omega
    simp only [cLoopSeq, critLe, hp, decide_false, Option.getD_some]
    exact cFor_ge_eq e c hn _ s fuel rfl hf

theorem c_loop_eq_doSeq_nostep (s e : Int) (fuel : Nat) (hf : LokiModel.C10.tripCount s e 1 < fuel) :
    cLoopSeq s e none fuel = LokiModel.C10.doSeq s e 1 := by
  simp only [cLoopSeq, critLe, Option.getD_none]
  exact cFor_le_eq e 1 (by omega) _ s fuel rfl hf

/-- non-vacuity: a downward loop whose sequence reaches the stop value, and one whose sequence does not -/
example : cLoopSeq 5 1 (some (-1)) 9 = [5, 4, 3, 2, 1] ∧ cLoopSeq 6 1 (some (-2)) 9 = [6, 4, 2] ∧
    cLoopSeq 7 1 (some (-2)) 9 = [7, 5, 3, 1] := by decide

/-! ### argument passing (about the regenerated table) -/

/-- every dummy the kernel may write (arrays, and scalars that are not `intent(in)`) is a pointer in the C signature -/
theorem c_pass_writable_by_pointer :
    ∀ r ∈ Tables.passTable, (r.1 = true ∨ r.2.1 ≠ "in") → r.2.2.1 = "pointer" := by decide

/-- a C by-value parameter is exactly a `VALUE` dummy of the ISO-C interface: both sides of the call agree -/
theorem c_pass_value_iff_iface_value :
    ∀ r ∈ Tables.passTable, (r.2.2.1 = "value") = (r.2.2.2 = true) := by decide

/-- the table covers all six combinations -/
theorem c_pass_table_complete :
    ∀ a ∈ [true, false], ∀ i ∈ ["in", "inout", "out"], (passBy a i).isSome = true := by decide

end LokiModel.C35
