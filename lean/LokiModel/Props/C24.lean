import LokiModel.C24.Lemmas
import LokiModel.Props.C22
/-!
# C24 — Planning mode predicts exactly the files a conversion writes

`planRun` = `CMakePlanTransformation.plan_file` folded over the planner's traversal, `writes`/`written` = the
`sourcefile.write` calls of `FileWriteTransformation.transform_file` over the writer's traversal and the files that
exist afterwards.  First for arbitrary traversals (any node type), then for the traversals the C22 model of
`as_filegraph` + `SFilter` yields for the two transformations of `loki_transform`.
-/
namespace LokiModel.C24
open LokiModel.C22

/-! ## the three lists, per library, for any traversal -/

/-- **append, per library**: the new paths of the visited files the writer has planned, in traversal order -/
theorem C24_append_spec {α} (w : WCfg) (info : α → FInfo) (hasFW : α → Bool) (visitedC : List α)
    (k : Option String) :
    lookupLib k (planRun w info hasFW visitedC {}).append =
      (visitedC.filter (fun f => hasFW f && decide ((info f).lib = k))).map (fun f => getFilePath w (info f)) := by
  rw [planRun_append_lib]; simp [lookupLib]

/-- **transform = origins**: per library, the files the planned files are derived from (`originsOf`): the file
itself if it exists on disk, else — only for replicated files — the file it was cloned from -/
theorem C24_transform_eq_origins {α} (w : WCfg) (info : α → FInfo) (hasFW : α → Bool) (visitedC : List α)
    (k : Option String) :
    lookupLib k (planRun w info hasFW visitedC {}).transform =
      (visitedC.filter (fun f => hasFW f && decide ((info f).lib = k))).flatMap (fun f => originsOf (info f)) := by
  rw [planRun_transform_lib]; simp [lookupLib]

/-- **remove = replaced**: per library, the existing files of the planned file items that are not replicated -/
theorem C24_remove_eq_replaced {α} (w : WCfg) (info : α → FInfo) (hasFW : α → Bool) (visitedC : List α)
    (k : Option String) :
    lookupLib k (planRun w info hasFW visitedC {}).remove =
      (visitedC.filter (fun f => hasFW f && decide ((info f).lib = k))).flatMap (fun f => replacedOf (info f)) := by
  rw [planRun_remove_lib]; simp [lookupLib]

/-- every removed file is also listed as transformed, and has a replacement among the appended files of its library -/
theorem C24_remove_sub_transform {α} (w : WCfg) (info : α → FInfo) (hasFW : α → Bool) (visitedC : List α)
    (k : Option String) (p : String) (hp : p ∈ lookupLib k (planRun w info hasFW visitedC {}).remove) :
    p ∈ lookupLib k (planRun w info hasFW visitedC {}).transform ∧
    ∃ f ∈ visitedC, hasFW f = true ∧ (info f).lib = k ∧ (info f).shown = p ∧
      getFilePath w (info f) ∈ lookupLib k (planRun w info hasFW visitedC {}).append := by
  rw [C24_remove_eq_replaced] at hp
  rw [C24_transform_eq_origins, C24_append_spec]
  simp only [List.mem_flatMap, List.mem_filter, Bool.and_eq_true, decide_eq_true_eq] at hp ⊢
  obtain ⟨f, ⟨hf, hfw, hl⟩, hin⟩ := hp
  unfold replacedOf at hin
  split at hin
  · rename_i hc
    simp only [Bool.and_eq_true, Bool.not_eq_true'] at hc
    simp only [List.mem_singleton] at hin
    refine ⟨⟨f, ⟨hf, hfw, hl⟩, ?_⟩, f, hf, hfw, hl, hin.symm, ?_⟩
    · simp [originsOf, hc.2, hin]
    · exact List.mem_map.2 ⟨f, List.mem_filter.2 ⟨hf, by simp [hfw, hl]⟩, rfl⟩
  · simp at hin

/-! ## the per-library blocks of the plan file -/

theorem mem_allOf_of_lookupLib (k : Option String) (m : LibMap) (x : String) (h : x ∈ lookupLib k m) : x ∈ allOf m := by
  unfold lookupLib at h
  cases hf : m.find? (fun p => p.1 == k) with
  | none => rw [hf] at h; simp at h
  | some p =>
    rw [hf] at h
    simp only [Option.map_some, Option.getD_some] at h
    simp only [allOf, List.mem_flatMap]
    exact ⟨p, List.mem_of_find?_eq_some hf, h⟩

/-- **per-library blocks = restriction of the lists to the library**: the blocks `write_plan` writes for library `k`
are, in this order, the origins, the new paths and the replaced originals of the planned files of library `k` -/
theorem C24_planfile_lib_spec {α} (w : WCfg) (info : α → FInfo) (hasFW : α → Bool) (visitedC : List α) (k : String) :
    (planFileLib (planRun w info hasFW visitedC {}) k).map (·.2) =
      [(visitedC.filter (fun f => hasFW f && decide ((info f).lib = some k))).flatMap (fun f => originsOf (info f)),
       (visitedC.filter (fun f => hasFW f && decide ((info f).lib = some k))).map (fun f => getFilePath w (info f)),
       (visitedC.filter (fun f => hasFW f && decide ((info f).lib = some k))).flatMap (fun f => replacedOf (info f))] := by
  simp [planFileLib, C24_transform_eq_origins, C24_append_spec, C24_remove_eq_replaced]

/-- every entry of a per-library block occurs in the global block of the same kind; in particular a file that is
not in `LOKI_SOURCES_TO_REMOVE` (a replicated original) is in no `LOKI_SOURCES_TO_REMOVE_<lib>` -/
theorem C24_planfile_lib_sub_global (p : Plan) (k : String) (x : String) :
    (x ∈ lookupLib (some k) p.transform → x ∈ allOf p.transform) ∧
    (x ∈ lookupLib (some k) p.append → x ∈ allOf p.append) ∧
    (x ∈ lookupLib (some k) p.remove → x ∈ allOf p.remove) :=
  ⟨mem_allOf_of_lookupLib _ _ _, mem_allOf_of_lookupLib _ _ _, mem_allOf_of_lookupLib _ _ _⟩

/-! ## plan versus conversion, for any traversals -/

theorem dedup_of_nodup : ∀ (l : List String), l.Nodup → dedup l = l
  | [], _ => rfl
  | x :: xs, h => by
    have hx := List.nodup_cons.1 h
    simp only [dedup, dedup_of_nodup xs hx.2]
    congr 1
    rw [List.filter_eq_self]
    intro y hy
    simp only [Bool.not_eq_true', beq_eq_false_iff_ne]
    intro e; exact hx.1 (e ▸ hy)

theorem mem_dedup (l : List String) (y : String) : y ∈ dedup l ↔ y ∈ l := by
  induction l with
  | nil => simp [dedup]
  | cons x xs ih =>
    simp only [dedup, List.mem_cons, List.mem_filter, ih, Bool.not_eq_true', beq_eq_false_iff_ne]
    constructor
    · rintro (h | ⟨h, _⟩)
      · exact Or.inl h
      · exact Or.inr h
    · intro h
      by_cases e : y = x
      · exact Or.inl e
      · rcases h with h | h
        · exact Or.inl h
        · exact Or.inr ⟨h, e⟩

/-- **append = writes (as multisets)**.  The planner visits every file once (`visitedC` duplicate free) and all
files the writer planned; the conversion's writer visits every file once and the same files as the planning
writer.  Then the flattened `sources_to_append` is a permutation of the sequence of files written. -/
theorem C24_append_eq_writes {α} [DecidableEq α] (w : WCfg) (info : α → FInfo)
    (visitedWp visitedC visitedWv : List α)
    (hC : visitedC.Nodup) (hWv : visitedWv.Nodup)
    (hsub : ∀ f ∈ visitedWp, f ∈ visitedC) (hsame : ∀ f, f ∈ visitedWp ↔ f ∈ visitedWv) :
    (allOf (planRun w info (fun f => visitedWp.contains f) visitedC {}).append).Perm
      (writes w info visitedWv) := by
  refine (planRun_append_all w info _ visitedC {}).trans ?_
  simp only [allOf, List.flatMap_nil, List.nil_append, writes]
  apply List.Perm.map
  rw [List.perm_ext_iff_of_nodup (hC.sublist List.filter_sublist) hWv]
  intro f
  simp only [List.mem_filter, List.contains_iff_mem]
  constructor
  · rintro ⟨_, h⟩; exact (hsame f).1 h
  · intro h; exact ⟨hsub f ((hsame f).2 h), (hsame f).2 h⟩

/-- the injectivity side condition: the visited files get pairwise different output paths -/
def Injective {α} (w : WCfg) (info : α → FInfo) (visitedW : List α) : Prop := (writes w info visitedW).Nodup

/-- decidable form = the known-finding class: two visited files are written to the same path -/
def KnownCollision {α} (w : WCfg) (info : α → FInfo) (visitedW : List α) : Bool :=
  !decide (writes w info visitedW).Nodup

/-- **append = files written**, under the side condition: then the appended list has no duplicates and is, as a
multiset, exactly the set of files that exist after the conversion -/
theorem C24_append_eq_written {α} [DecidableEq α] (w : WCfg) (info : α → FInfo)
    (visitedWp visitedC visitedWv : List α)
    (hC : visitedC.Nodup) (hWv : visitedWv.Nodup)
    (hsub : ∀ f ∈ visitedWp, f ∈ visitedC) (hsame : ∀ f, f ∈ visitedWp ↔ f ∈ visitedWv)
    (hinj : KnownCollision w info visitedWv = false) :
    (allOf (planRun w info (fun f => visitedWp.contains f) visitedC {}).append).Perm (written w info visitedWv) ∧
    (allOf (planRun w info (fun f => visitedWp.contains f) visitedC {}).append).Nodup := by
  have hn : (writes w info visitedWv).Nodup := by simpa [KnownCollision] using hinj
  have hp := C24_append_eq_writes w info visitedWp visitedC visitedWv hC hWv hsub hsame
  refine ⟨?_, hp.symm.nodup hn⟩
  unfold written
  rw [dedup_of_nodup _ hn]
  exact hp

/-- without the side condition the appended files still *cover* the written files and nothing else -/
theorem C24_append_covers_written {α} [DecidableEq α] (w : WCfg) (info : α → FInfo)
    (visitedWp visitedC visitedWv : List α)
    (hC : visitedC.Nodup) (hWv : visitedWv.Nodup)
    (hsub : ∀ f ∈ visitedWp, f ∈ visitedC) (hsame : ∀ f, f ∈ visitedWp ↔ f ∈ visitedWv) (p : String) :
    p ∈ allOf (planRun w info (fun f => visitedWp.contains f) visitedC {}).append ↔ p ∈ written w info visitedWv := by
  rw [(C24_append_eq_writes w info visitedWp visitedC visitedWv hC hWv hsub hsame).mem_iff]
  exact (mem_dedup _ p).symm

/-! ## the traversals of `loki_transform` (C22 model) -/

/-- without a mode argument and in forward direction, a file-graph traversal is the topological order itself -/
theorem visited_eq (m : Manifest) (plan : Bool) (fo : List FileNode) (hr : m.reverse = false) :
    visited m plan fo = fo := by
  unfold visited
  rw [sfilter_files]
  simp [trav, hr, fileVisited, cfgOf]

/-- every file the writer visits is also visited by the planner (its item filter is wider, the ignore rule the same) -/
theorem C24_writer_sub_planner (g : Graph) (order : List Item) (modvars : Bool) (ht : IsTopo g order) :
    ∀ f ∈ (asFileGraph g order (mW modvars)).nodes, f ∈ (asFileGraph g order mC).nodes := by
  intro f hf
  obtain ⟨it, hi, hs, rfl⟩ := ((C22_filegraph_spec g order (mW modvars) ht).1 f).1 hf
  refine ((C22_filegraph_spec g order mC ht).1 _).2 ⟨it, hi, ?_, rfl⟩
  simp only [selectedFG, mW, mC, kindMatch, Bool.and_eq_true] at hs ⊢
  simp [hs.1.1, hs.2]

/-- the planning graph and the conversion graph select the same files for the writer -/
def SameSelection (gP : Graph) (orderP : List Item) (gV : Graph) (orderV : List Item) (modvars : Bool) : Prop :=
  ∀ f, f ∈ (asFileGraph gP orderP (mW modvars)).nodes ↔ f ∈ (asFileGraph gV orderV (mW modvars)).nodes

/-- **the property, end to end**: for all item graphs of the planning run and of the conversion run, all topological
orders networkx may return for them and for the file graphs of writer and planner, all writer configurations and
file attributes: if both runs select the same files, `LOKI_SOURCES_TO_APPEND` is a permutation of the files the
conversion writes; if moreover no two of them collide, it is duplicate free and equals the set of new files -/
theorem C24_plan_eq_conversion (w : WCfg) (info : FileNode → FInfo) (modvars : Bool)
    (gP : Graph) (orderP : List Item) (foW foC : List FileNode)
    (gV : Graph) (orderV : List Item) (foWv : List FileNode)
    (htP : IsTopo gP orderP)
    (hW : IsTopoF (asFileGraph gP orderP (mW modvars)) foW) (hC : IsTopoF (asFileGraph gP orderP mC) foC)
    (hWv : IsTopoF (asFileGraph gV orderV (mW modvars)) foWv)
    (hsame : SameSelection gP orderP gV orderV modvars) :
    (allOf (planOf w info modvars foW foC).append).Perm (convWrites w info modvars foWv) ∧
    (KnownCollision w info foWv = false →
      (allOf (planOf w info modvars foW foC).append).Perm (dedup (convWrites w info modvars foWv)) ∧
      (allOf (planOf w info modvars foW foC).append).Nodup) := by
  have r1 : (mW modvars).reverse = false := rfl
  have r2 : mC.reverse = false := rfl
  unfold planOf convWrites
  rw [visited_eq _ _ _ r1, visited_eq _ _ _ r2, visited_eq _ _ _ r1]
  have hsub : ∀ f ∈ foW, f ∈ foC := fun f hf =>
    (hC.2.2.1 f).2 (C24_writer_sub_planner gP orderP modvars htP f ((hW.2.2.1 f).1 hf))
  have hs : ∀ f, f ∈ foW ↔ f ∈ foWv := fun f =>
    ((hW.2.2.1 f).trans (hsame f)).trans (hWv.2.2.1 f).symm
  refine ⟨C24_append_eq_writes w info foW foC foWv hC.2.1 hWv.2.1 hsub hs, ?_⟩
  intro hk
  exact C24_append_eq_written w info foW foC foWv hC.2.1 hWv.2.1 hsub hs hk

/-- the transformed and removed lists of the end-to-end plan, all libraries together (as `_write_plan` prints them) -/
theorem C24_plan_transform_remove_all (w : WCfg) (info : FileNode → FInfo) (modvars : Bool)
    (foW foC : List FileNode) :
    (allOf (planOf w info modvars foW foC).transform).Perm
      ((foC.filter (fun f => foW.contains f)).flatMap (fun f => originsOf (info f))) ∧
    (allOf (planOf w info modvars foW foC).remove).Perm
      ((foC.filter (fun f => foW.contains f)).flatMap (fun f => replacedOf (info f))) := by
  have r1 : (mW modvars).reverse = false := rfl
  have r2 : mC.reverse = false := rfl
  unfold planOf
  rw [visited_eq _ _ _ r1, visited_eq _ _ _ r2]
  constructor
  · simpa [allOf] using planRun_transform_all w info (fun f => foW.contains f) foC {}
  · simpa [allOf] using planRun_remove_all w info (fun f => foW.contains f) foC {}

/-- what the property asks `sources_to_transform` to be: the file every planned file derives from — itself if it is
on disk, else the file it was cloned from -/
def derivedFrom (fi : FInfo) : List String :=
  if fi.pathExists then [fi.shown] else if fi.origExists then [fi.origShown] else []

/-- class: a planned file that was created by the pipeline (not on disk), is not replicated, and has an original -/
def KnownCreatedNotReplicated {α} (info : α → FInfo) (hasFW : α → Bool) (visitedC : List α) : Bool :=
  visitedC.any fun f => hasFW f && !(info f).pathExists && !(info f).replicate && (info f).origExists

/-- outside that class `sources_to_transform` lists exactly the files the planned files derive from -/
theorem C24_transform_derived_partial {α} (w : WCfg) (info : α → FInfo) (hasFW : α → Bool) (visitedC : List α)
    (k : Option String) (hk : KnownCreatedNotReplicated info hasFW visitedC = false) :
    lookupLib k (planRun w info hasFW visitedC {}).transform =
      (visitedC.filter (fun f => hasFW f && decide ((info f).lib = k))).flatMap (fun f => derivedFrom (info f)) := by
  rw [C24_transform_eq_origins]
  simp only [KnownCreatedNotReplicated, List.any_eq_false, Bool.and_eq_true, Bool.not_eq_true', not_and] at hk
  induction visitedC with
  | nil => rfl
  | cons f rest ih =>
    have hrest : ∀ x ∈ rest, _ := fun x hx => hk x (List.mem_cons_of_mem _ hx)
    simp only [List.filter_cons]
    split
    · rename_i hc
      simp only [Bool.and_eq_true, decide_eq_true_eq] at hc
      simp only [List.flatMap_cons, ih hrest]
      congr 1
      have := hk f List.mem_cons_self
      unfold originsOf derivedFrom
      cases h1 : (info f).pathExists <;> cases h2 : (info f).replicate <;> cases h3 : (info f).origExists <;>
        simp_all
    · exact ih hrest

/-! ## `_get_file_path` -/

/-- with an output directory the result depends on the file *name* only: two files with equal stem, mode and
(effective) suffix collide whatever their directories -/
theorem C24_outdir_name_only (w : WCfg) (o : String) (ho : w.outputDir = some o) (a b : FInfo)
    (hs : a.stem = b.stem) (hm : a.mode = b.mode) (hx : suffixOf w a = suffixOf w b) :
    getFilePath w a = getFilePath w b := by
  simp [getFilePath, ho, newName, modeOf, hs, hm, hx]

/-- without an output directory the new file stays in the directory of the original -/
theorem C24_nooutdir_same_dir (w : WCfg) (ho : w.outputDir = none) (a : FInfo) :
    getFilePath w a = a.dir ++ "/" ++ newName w a := by
  simp [getFilePath, ho]

/-! ## non-vacuity -/

private def fA : FileNode := ⟨"src/a/g.F90", some "idem", some "kernel"⟩
private def fB : FileNode := ⟨"src/b/h.F90", some "idem", some "kernel"⟩
private def inf (f : FileNode) : FInfo :=
  if f.name = "src/a/g.F90" then ⟨"src/a", "g", ".F90", "src/a/g.F90", true, "src/a/g.F90", true, false, none, some "scc-hoist"⟩
  else ⟨"src/b", "h", ".F90", "src/b/h.F90", true, "src/b/h.F90", true, true, some "lib", none⟩

example : (planRun ⟨none, some "build"⟩ inf (fun _ => true) [fA, fB] {}).append.map (·.1) = [none, some "lib"] := by decide
example : (planRun ⟨none, some "build"⟩ inf (fun _ => true) [fA, fB] {}).remove = [(none, ["src/a/g.F90"])] := by decide
example : KnownCollision ⟨none, some "build"⟩ inf [fA, fB] = false := by decide

end LokiModel.C24
