import LokiModel.C20.Model
import LokiModel.C19.Lemmas
/-! # C20 — property theorems -/
namespace LokiModel.C20
open LokiModel.C19

theorem countNl_append (a b : List Char) : countNl (a ++ b) = countNl a + countNl b := by
  simp [countNl, List.count_append]

theorem split3 (s : List Char) (a b : Nat) (hab : a ≤ b) :
    s = s.take a ++ slice s a b ++ s.drop b := by
  unfold slice
  have h1 : (s.take b).take a = s.take a := by rw [List.take_take]; simp [Nat.min_eq_left hab]
  rw [← h1, List.take_append_drop, List.take_append_drop]

/-- **clone_with_span_within**: for a consistent parent the clone lies inside the parent's lines, is itself consistent,
and its text occurs in the parent's text at exactly that offset -/
theorem C20_clone_with_span_within (s : Source) (a b : Nat) (hab : a ≤ b) (hc : Consistent s) :
    s.l1 ≤ (cloneWithSpan s a b).l1 ∧ (cloneWithSpan s a b).l2 ≤ s.l2 ∧ Consistent (cloneWithSpan s a b) ∧
    s.str = s.str.take a ++ (cloneWithSpan s a b).str ++ s.str.drop b := by
  have hs := split3 s.str a b hab
  have hcount : countNl s.str = countNl (s.str.take a) + countNl (slice s.str a b) + countNl (s.str.drop b) := by
    conv => lhs; rw [hs]
    rw [countNl_append, countNl_append]
  refine ⟨?_, ?_, ?_, ?_⟩
  · simp only [cloneWithSpan]; omega
  · simp only [cloneWithSpan]; unfold Consistent at hc; omega
  · simp only [cloneWithSpan, Consistent]
  · simpa only [cloneWithSpan] using hs

/-- **clone_with_string_within**: whenever `find` succeeds with `a ≤ b`, the result of `clone_with_string` lies within
the parent and its text occurs there; when it fails the parent's lines are kept -/
theorem C20_clone_with_string_within (s : Source) (str : List Char) (found : Option (Nat × Nat))
    (hf : ∀ a b, found = some (a, b) → a ≤ b) (hc : Consistent s) :
    s.l1 ≤ (cloneWithString s str found).l1 ∧ (cloneWithString s str found).l2 ≤ s.l2 ∧
    (∀ a b, found = some (a, b) →
      s.str = s.str.take a ++ (cloneWithString s str found).str ++ s.str.drop b) := by
  cases found with
  | none => exact ⟨Nat.le_refl _, by simp [cloneWithString], by intro a b h; cases h⟩
  | some p =>
    obtain ⟨a, b⟩ := p
    have h := C20_clone_with_span_within s a b (hf a b rfl) hc
    refine ⟨h.1, h.2.1, ?_⟩
    intro a' b' he; cases he
    exact h.2.2.2

/-- **join_source_list = hull**: the joined source starts at the first element's first line and ends at the last
element's last line -/
theorem C20_join_hull (s : Source) (rest : List Source) :
    ∃ r, joinSourceList (s :: rest) = some r ∧ r.l1 = s.l1 ∧ r.l2 = ((s :: rest).getLast (by simp)).l2 := by
  refine ⟨_, rfl, ?_, ?_⟩
  · induction rest generalizing s with
    | nil => rfl
    | cons x xs ih => simp only [List.foldl_cons]; exact ih _
  · induction rest generalizing s with
    | nil => rfl
    | cons x xs ih =>
      simp only [List.foldl_cons]
      rw [ih]
      cases xs with
      | nil => rfl
      | cons y ys => simp [List.getLast_cons]

/-- joining two consistent, non-overlapping sources gives a consistent source -/
theorem C20_join_two_consistent (s t : Source) (hs : Consistent s) (ht : Consistent t) (h : s.l2 ≤ t.l1) :
    ∃ r, joinSourceList [s, t] = some r ∧ Consistent r := by
  refine ⟨_, rfl, ?_⟩
  simp only [List.foldl_cons, List.foldl_nil, Consistent, countNl_append]
  unfold Consistent at hs ht
  have : countNl (List.replicate (t.l1 - s.l2) '\n') = t.l1 - s.l2 := by simp [countNl]
  omega

/-- **span_sound (spans)**: every statement line of the reader has a well-formed span (`Source.__init__` asserts it) -/
theorem C20_reader_span_ok (src : List Line) : ∀ s ∈ stmts src, s.l1 ≤ s.l2 := by
  intro s hs
  have hmem := sanitizeFrom_sub _ _ s hs
  have hasc := number_asc (prepare src) 1
  exact go_ok _ none ⟨hasc.1, by intro q hq; cases hq⟩ (by intro q hq; cases hq) s hmem

example : Consistent ⟨3, 4, "ab\ncd".toList⟩ := by unfold Consistent; decide

end LokiModel.C20
