import LokiModel.C14.Lemmas
import LokiModel.Generated.C14Tables
/-!
# C14 — the tree transformer applies exactly the requested node mapping (property theorems)

`visitList cfg m f o` / `visitNode cfg m f o` model `Transformer(mapper=m, inplace, rebuild_scopes).visit(o)` on a
tuple / a node with `f` levels of Python recursion available; `specL` / `specKeep` / `specRoot`
(`LokiModel/C14/Spec.lean`) is the reference rebuild written from the class docstring.

The full statement `C14_transformer_full` is **false** for the current code (`C14_transformer_full_false`); the
failing inputs fall in one decidable class, `KnownRevisit` (nodes spliced in by a one-to-many value are visited
again); outside it the statement holds with termination (`C14_transformer_eq_spec_partial`).  A second class
(a `MultiConditional` case body made empty was dropped from `bodies`) was repaired by the `fix:` commit recorded in
`known_findings.json`; the old behaviour is kept as a regression statement in `LokiModel/Findings/C14.lean`.  Likewise for the original tree
(`C14_noninplace_full_false`, class `KnownScopedUpdate`, `C14_noninplace_preserves_original_partial`).
-/
namespace LokiModel.C14

/-- the class table extracted from the current code agrees with the model's dispatch -/
theorem C14_tables_agree :
    Generated.classTable =
      [Kind.assign, .call, .comment, .sect, .loop, .cond, .assoc, .preg, .mcond].map
        (fun k => (k.className, k.nodeFields, k.isScoped))
    ∧ Generated.atomicIterable = ["Associate", "Section"] := by decide

/-- `_inject_tuple_mapping` (sequential, in dict order, re-scanning only the tail) is the parallel substitution
"every node that is a one-to-many key is replaced by its value", for every tuple, provided no spliced node other
than the key itself is a key. -/
theorem C14_inject_is_parallel_substitution (m : Mapper) (o : List Node)
    (hd : KeysDistinct m) (hk : KnownRevisit m = false) :
    injectAll m o = o.flatMap (fun x => match lookup m x with | some (.tuple hs) => hs | _ => [x]) := by
  have hf : fixedL m (tupleElems m) = true := by simpa [KnownRevisit] using hk
  exact injectAll_eq m hd (elemsNotKeys_of_fixed hf) o

/-- **C14, result tree (tuple root), outside the known class**: for every mapper (a dict: distinct keys),
every tuple of trees, every `inplace`/`rebuild_scopes` setting and every recursion budget that covers the depth of
the tree plus the depth of the deepest spliced node, the transformer terminates without raising and returns
exactly the reference rebuild.
`_partial`: the hypothesis `KnownRevisit m = false` excludes the class on which the code deviates
(see `C14_transformer_full_false`). -/
theorem C14_transformer_eq_spec_partial (cfg : Cfg) (m : Mapper) (o : List Node) (f D : Nat)
    (hd : KeysDistinct m) (hk : KnownRevisit m = false)
    (hD : ∀ h ∈ tupleElems m, h.depth ≤ D) (hf : depthL o + D ≤ f) :
    ∃ r, visitList cfg m f o = .ok r ∧ r.res = specL m o := by
  have hfix : fixedL m (tupleElems m) = true := by simpa [KnownRevisit] using hk
  exact list_step cfg m D hd hfix hD f (visit_spec cfg m D hd hfix hD f) o hf

/-- the same for a root node that is not the key of a one-to-many mapping (which needs a containing tuple) -/
theorem C14_transformer_node_eq_spec_partial (cfg : Cfg) (m : Mapper) (o : Node) (f D : Nat)
    (hd : KeysDistinct m) (hk : KnownRevisit m = false)
    (hD : ∀ h ∈ tupleElems m, h.depth ≤ D) (hf : o.depth + D ≤ f)
    (hroot : ∀ hs, lookup m o ≠ some (.tuple hs)) :
    ∃ r, visitNode cfg m f o = .ok r ∧ r.res = specRoot m o := by
  have hfix : fixedL m (tupleElems m) = true := by simpa [KnownRevisit] using hk
  cases hl : lookup m o with
  | none =>
    obtain ⟨r, hr, hres⟩ := visit_spec cfg m D hd hfix hD f o hf (Or.inl hl)
    exact ⟨r, hr, by simp [specRoot, hl, hres]⟩
  | some h =>
    obtain ⟨f', hf'⟩ : ∃ f', f = f' + 1 := ⟨f - 1, by have := depth_pos o; omega⟩
    cases h with
    | drop => subst hf'; simp only [visitNode, hl]; exact ⟨_, rfl, by simp [specRoot, hl]⟩
    | node n => subst hf'; simp only [visitNode, hl]; exact ⟨_, rfl, by simp [specRoot, hl]⟩
    | tuple hs => exact absurd hl (hroot hs)

/-- the full statement (partial-correctness form: *if* the transformer returns, it returns the reference rebuild) -/
def C14_transformer_full : Prop :=
  ∀ (cfg : Cfg) (m : Mapper) (o : List Node) (f : Nat) (r : LRes),
    KeysDistinct m → visitList cfg m f o = .ok r → r.res = specL m o

def resOf (x : Except Err LRes) : Option (List Node) :=
  match x with
  | .ok r => some r.res
  | .error _ => none

def errOf (x : Except Err LRes) : Option Err :=
  match x with
  | .ok _ => none
  | .error e => some e

private def a (n : Nat) : Node := .mk .assign n []

/-- witness (replayed on the real code, class `spliced-nodes-revisited`): `{a1: (Loop[a2], a1), a2: None}` — the
spliced loop is visited again and loses its body statement, although a replacement is not to be revisited -/
theorem C14_transformer_full_false : ¬ C14_transformer_full := by
  intro h
  let m : Mapper := [(a 1, .tuple [.mk .loop 0 [[a 2]], a 1]), (a 2, .drop)]
  let o : List Node := [a 1]
  have hv : resOf (visitList ⟨false, false⟩ m 4 o) = some [.mk .loop 0 [[]], a 1] := by decide
  cases hr : visitList ⟨false, false⟩ m 4 o with
  | error e => simp [hr, resOf] at hv
  | ok r =>
    have := h ⟨false, false⟩ m o 4 r ⟨rfl, rfl, trivial⟩ hr
    simp only [hr, resOf, Option.some.injEq] at hv
    rw [hv] at this
    revert this
    decide

/-- … a spliced key that precedes its splicer in the dict raises `AttributeError` … -/
example : errOf (visitList ⟨false, false⟩ [(a 2, .tuple [a 4]), (a 1, .tuple [a 2, a 3])] 4 [a 1]) = some .attr := by decide

/-- … and a spliced node that contains its key exhausts any recursion budget tried -/
example : errOf (visitList ⟨false, false⟩ [(a 1, .tuple [.mk .loop 0 [[a 1]], a 1])] 9 [a 1]) = some .fuel := by decide

/-- non-vacuity of `C14_transformer_eq_spec_partial`: duplicates of the key, a one-to-many value containing the key,
a removal and a replacement below, a `MultiConditional` whose first case body becomes empty and keeps its place -/
example :
    let m : Mapper := [(.mk .loop 1 [[a 1, a 2]], .tuple [.mk .comment 7 [], .mk .loop 1 [[a 1, a 2]]]),
                       (a 1, .drop), (a 2, .node (.mk .sect 5 [[a 1]]))]
    let o : List Node := [.mk .loop 1 [[a 1, a 2]], .mk .mcond 0 [[a 1], [a 2], [a 3]], .mk .loop 1 [[a 1, a 2]]]
    KeysDistinct m ∧ KnownRevisit m = false ∧ depthL o + 1 ≤ 4
      ∧ resOf (visitList ⟨false, true⟩ m 4 o) = some (specL m o)
      ∧ specL m o = [.mk .comment 7 [], .mk .loop 1 [[.mk .sect 5 [[a 1]]]], .mk .mcond 0 [[], [.mk .sect 5 [[a 1]]], [a 3]],
                     .mk .comment 7 [], .mk .loop 1 [[.mk .sect 5 [[a 1]]]]] := by
  refine ⟨⟨by decide, by decide, by decide, trivial⟩, by decide, by decide, by decide, by decide⟩

/-- every child tuple of an unmapped node keeps its position in the reference rebuild — in particular the case bodies
of a `MultiConditional` stay aligned with its `values` (with `C14_transformer_eq_spec_partial`: in the result) -/
theorem C14_spec_keeps_child_positions (m : Mapper) (o : Node) : (specKeep m o).kids.length = o.kids.length := by
  cases o with
  | mk k l ks => simp [specKeep, Node.kids, specLL_eq]

/-! ## the original tree -/

/-- full statement: a transformer without `inplace` leaves the objects of the original tree as they were -/
def C14_noninplace_full : Prop :=
  ∀ (cfg : Cfg) (m : Mapper) (o : List Node) (f : Nat) (r : LRes),
    cfg.inplace = false → visitList cfg m f o = .ok r → r.post = o

def postOf (x : Except Err LRes) : Option (List Node) :=
  match x with
  | .ok r => some r.post
  | .error _ => none

/-- witness (replayed on the real code, class `scoped-node-updated-in-place`): with the default
`rebuild_scopes=False`, `visit_ScopedNode` ends with `o._update(*rebuilt)` on the `Associate` of the input -/
theorem C14_noninplace_full_false : ¬ C14_noninplace_full := by
  intro h
  let m : Mapper := [(a 1, .drop)]
  let o : List Node := [.mk .assoc 1 [[a 1, a 2]]]
  have hv : postOf (visitList ⟨false, false⟩ m 3 o) = some [.mk .assoc 1 [[a 2]]] := by decide
  cases hr : visitList ⟨false, false⟩ m 3 o with
  | error e => simp [hr, postOf] at hv
  | ok r =>
    have := h ⟨false, false⟩ m o 3 r rfl hr
    simp only [hr, postOf, Option.some.injEq] at hv
    rw [hv] at this
    revert this
    decide

/-- **C14, original tree, outside the known class**: for every mapper (no hypothesis on it), tree, fuel: if the
transformer is not `inplace` and either rebuilds scopes or the tree has no scoped node, every object of the
original tree has the value it had before.  `_partial`: excludes `KnownScopedUpdate`. -/
theorem C14_noninplace_preserves_original_partial (cfg : Cfg) (m : Mapper) (o : List Node) (f : Nat) (r : LRes)
    (hi : cfg.inplace = false) (hk : KnownScopedUpdate cfg o = false)
    (hv : visitList cfg m f o = .ok r) : r.post = o := by
  have hno : ∀ y ∈ nodesL o, sameObject cfg y.kind = false := by
    intro y hy
    simp only [KnownScopedUpdate, hi, Bool.not_false, Bool.true_and, Bool.and_eq_false_iff, Bool.not_eq_false',
      hasScoped, List.any_eq_false] at hk
    simp only [sameObject, hi, Bool.false_or, Bool.and_eq_false_iff, Bool.not_eq_false']
    rcases hk with hk | hk
    · exact Or.inr hk
    · exact Or.inl (by simpa using hk y hy)
  apply visitList_post m (visitNode cfg m f) o _ r hv
  intro x hx r' hr'
  exact visit_post cfg m f x r' (fun y hy => hno y (nodesL_mem hx hy)) hr'

/-- non-vacuity: an `Associate` in the tree with `rebuild_scopes=True`, and a scope-free tree with the default -/
example : KnownScopedUpdate ⟨false, true⟩ [.mk .assoc 1 [[a 1, a 2]]] = false
    ∧ postOf (visitList ⟨false, true⟩ [(a 1, .drop)] 3 [.mk .assoc 1 [[a 1, a 2]]]) = some [.mk .assoc 1 [[a 1, a 2]]]
    ∧ KnownScopedUpdate ⟨false, false⟩ [.mk .loop 1 [[a 1, a 2]]] = false := by decide

/-! ## the `rebuilt` record -/

/-- full statement as in the docstring ("for every node of the original tree") -/
def C14_rebuilt_full : Prop :=
  ∀ (cfg : Cfg) (m : Mapper) (o : List Node) (f : Nat) (r : LRes),
    KeysDistinct m → cfg.inplace = false → visitList cfg m f o = .ok r → ∀ n ∈ nodesL o, n ∈ r.recd

def recdOf (x : Except Err LRes) : Option (List Node) :=
  match x with
  | .ok r => some r.recd
  | .error _ => none

/-- false as stated: a node below a replaced node is never visited and has no entry (here `a 1` inside the replaced
loop); this is read as intended behaviour (such nodes have no counterpart in the new tree), not as a finding -/
theorem C14_rebuilt_full_false : ¬ C14_rebuilt_full := by
  intro h
  let m : Mapper := [(.mk .loop 0 [[a 1]], .node (a 2))]
  let o : List Node := [.mk .loop 0 [[a 1]]]
  have hv : recdOf (visitList ⟨false, true⟩ m 3 o) = some [.mk .loop 0 [[a 1]]] := by decide
  cases hr : visitList ⟨false, true⟩ m 3 o with
  | error e => simp [hr, recdOf] at hv
  | ok r =>
    have := h ⟨false, true⟩ m o 3 r ⟨rfl, trivial⟩ rfl hr (a 1) (by decide)
    simp only [hr, recdOf, Option.some.injEq] at hv
    rw [hv] at this
    revert this
    decide

/-- **C14, `rebuilt`**: for every mapper with distinct keys, tree and fuel, a transformer that does not update objects
in place records an entry for every node of the original that has a counterpart in the new tree (`reachedL`: reached by
the pre-order descent — unmapped, removed, replaced, or kept by a one-to-many value that mentions it — i.e. not below a
replaced node and not spliced away).  `_partial`: restricted to those nodes (see `C14_rebuilt_full_false`) and to runs
outside `KnownScopedUpdate` (a retained scoped object is returned as is and gets no entry). -/
theorem C14_rebuilt_covers_partial (cfg : Cfg) (m : Mapper) (o : List Node) (f : Nat) (r : LRes)
    (hd : KeysDistinct m) (hi : cfg.inplace = false) (hk : KnownScopedUpdate cfg o = false)
    (hv : visitList cfg m f o = .ok r) : ∀ n ∈ reachedL m o, n ∈ r.recd := by
  have hno : ∀ y ∈ nodesL o, sameObject cfg y.kind = false := by
    intro y hy
    simp only [KnownScopedUpdate, hi, Bool.not_false, Bool.true_and, Bool.and_eq_false_iff, Bool.not_eq_false',
      hasScoped, List.any_eq_false] at hk
    simp only [sameObject, hi, Bool.false_or, Bool.and_eq_false_iff, Bool.not_eq_false']
    rcases hk with hk | hk
    · exact Or.inr hk
    · exact Or.inl (by simpa using hk y hy)
  exact visitList_cov cfg m hd f o hno r hv

/-- non-vacuity: `reachedL` of a tree with a removal, a replacement and a self-mentioning one-to-many key -/
example : reachedL [(a 1, .drop), (.mk .loop 0 [[a 3]], .node (a 2)), (a 4, .tuple [a 5, a 4])]
      [.mk .sect 0 [[a 1, .mk .loop 0 [[a 3]], a 4]]]
    = [.mk .sect 0 [[a 1, .mk .loop 0 [[a 3]], a 4]], a 1, .mk .loop 0 [[a 3]], a 4] := by decide

/-! ## NestedTransformer -/

/-- **C14, NestedTransformer, outside the known class**: for every mapper whose values are `None` or the key itself with
other non-traversable attributes (`KnownNested m = false`; the way Loki uses it), every tuple of trees, every setting
and every recursion budget covering the depth of the tree, `NestedTransformer.visit` terminates without raising and its
result is the depth-first reference rebuild `NSpecL`.  `_partial`: excludes the class `nested-replacement-built-from-key`
(see `C14_nested_full_false`). -/
theorem C14_nested_eq_spec_partial (cfg : Cfg) (m : Mapper) (o : List Node) (f : Nat)
    (hk : KnownNested m = false) (hf : depthL o ≤ f) :
    ∃ r, nestedList cfg m f o = .ok r ∧ NSpecL m o r.res :=
  nested_list_step m hk (nestedNode cfg m f) o
    (fun y hy => nested_spec cfg m hk f y (by have := depthL_mem hy; omega))

/-- the same for a root node -/
theorem C14_nested_node_eq_spec_partial (cfg : Cfg) (m : Mapper) (o : Node) (f : Nat)
    (hk : KnownNested m = false) (hf : o.depth ≤ f) :
    ∃ r, nestedNode cfg m f o = .ok r ∧ NSpecN m o r.res :=
  nested_spec cfg m hk f o hf

/-- full statement (partial-correctness form) -/
def C14_nested_full : Prop :=
  ∀ (cfg : Cfg) (m : Mapper) (o : List Node) (f : Nat) (r : LRes),
    nestedList cfg m f o = .ok r → NSpecL m o r.res

def nresOf (x : Except Err LRes) : Option (List Node) :=
  match x with
  | .ok r => some r.res
  | .error _ => none

/-- witness (replayed on the real code, class `nested-replacement-built-from-key`): `NestedTransformer({a1: a2})` on
`(a1,)` returns `(a1,)` — the replacement is rebuilt with the expression children of the key -/
theorem C14_nested_full_false : ¬ C14_nested_full := by
  intro h
  let m : Mapper := [(a 1, .node (a 2))]
  have hv : nresOf (nestedList ⟨false, false⟩ m 2 [a 1]) = some [a 1] := by decide
  cases hr : nestedList ⟨false, false⟩ m 2 [a 1] with
  | error e => simp [hr, nresOf] at hv
  | ok r =>
    have hs := h ⟨false, false⟩ m [a 1] 2 r hr
    simp only [hr, nresOf, Option.some.injEq] at hv
    rw [hv] at hs
    obtain ⟨r', rs, hn, hl, heq⟩ := NSpecL_cons_inv hs
    have hrs := NSpecL_nil_inv hl
    subst hrs
    have hlk : lookup m (a 1) = some (.node (a 2)) := by simp [m, lookup]
    rcases NSpecN_inv hn with ⟨hd, _⟩ | ⟨h', ks', hd, hr'⟩ | ⟨ks', hd, _⟩
    · rw [hlk] at hd; cases hd
    · rw [hlk] at hd
      cases hd
      subst hr'
      simp [a, Node.kind, Node.lbl] at heq
    · rw [hlk] at hd; cases hd

/-- non-vacuity: a section relabelled (non-traversable attribute), a statement removed below it -/
example : KnownNested [(.mk .sect 1 [[a 1, a 2]], .node (.mk .sect 9 [[a 1, a 2]])), (a 2, .drop)] = false
    ∧ nresOf (nestedList ⟨false, true⟩ [(.mk .sect 1 [[a 1, a 2]], .node (.mk .sect 9 [[a 1, a 2]])), (a 2, .drop)] 3
        [.mk .sect 1 [[a 1, a 2]], a 2]) = some [.mk .sect 9 [[a 1]]] := by decide

end LokiModel.C14
