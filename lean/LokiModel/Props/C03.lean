import LokiModel.C03.Untouched
/-!
# C03 — conservative output reproduces unmodified source verbatim: property theorems

Model: `LokiModel/C03/Model.lean` (`cgen` = `FortranCodegenConservative`, `visitL`/`visitElem` = `Transformer` with source
invalidation, `subst` = `SubstituteExpressions`); `tilesB`, `flagsOK`, `allValid`, `emit`: `LokiModel/C03/Tiles.lean`;
`cleanB`, `mapperValues`: `LokiModel/C03/Untouched.lean`.  All statements hold for every render table `R`
(the regular backend is abstract), every depth, every tree, every mapper.
-/
namespace LokiModel.C03

/-- the text a node with a source stands for in the output (`None` when it has no source) -/
def textOf (n : Node) : Res := match n.src with | some s => .some (out1 n.info.kind s) | none => .none

/-- **Tiles ⇒ verbatim under any invalidation pattern.**  If the spans tile (`tilesB`: a statement about texts only), then whatever
subset of the inner nodes is flagged `INVALID_CHILDREN` — leaves `VALID` — the conservative backend prints exactly the node's text,
at every depth and also below an `ELSE IF` branch (`ie`). -/
theorem C03_tiles_any_invalidation (R : Render) (n : Node) (d : Nat) (ie : Bool)
    (ht : tilesB R ie n = true) (hf : flagsOK n = true) : cgen R d ie n = textOf n :=
  cgen_of_tiles R n d ie ht hf

/-- `verbatim`: an unmodified tree (every source `VALID`) whose spans tile is printed as its source text -/
theorem C03_verbatim (R : Render) (n : Node) (d : Nat)
    (hv : allValid n = true) (ht : tilesB R false n = true) : cgen R d false n = textOf n :=
  cgen_of_tiles R n d false ht (allValid_flagsOK n hv)

/-- the list form (a routine body is a tuple): the items printed are the children's texts with their labels -/
theorem C03_verbatim_items (R : Render) (ns : List Node) (d : Nat) (ie : Bool)
    (ht : tilesLB R ie ns = true) (hf : flagsOKL ns = true) : cgenItems R d ie ns = emits ns :=
  cgenItems_of_tiles R ns d ie ht hf

/-- **An untouched region is printed verbatim after the edit.**  A subtree of an unmodified tiling tree that contains no mapper key
comes out of any `Transformer` run as exactly one node (re-flagged by `_rebuild`), and the conservative backend prints the original
text for it — whatever the mapper does elsewhere, with or without `rebuild_scopes`, for either value of the `_rebuild` child test. -/
theorem C03_untouched_region_verbatim (R : Render) (rs : Bool) (m : Mapper) (n : Node) (d : Nat) (ie : Bool)
    (hv : allValid n = true) (ht : tilesB R ie n = true) (hc : cleanB m n = true) :
    ∃ n', visitElem rs m n = [n'] ∧ cgen R d ie n' = textOf n := by
  refine ⟨refresh rs n, visitElem_clean rs m n hc, ?_⟩
  rw [cgen_of_tiles R (refresh rs n) d ie (by rw [tiles_refresh]; exact ht) (flagsOK_refresh R rs n ie hv ht)]
  cases n with
  | mk info src body els =>
    rw [refresh]
    cases src with
    | none => rw [rebuildWith_none]; rfl
    | some s =>
      obtain ⟨st, h, _⟩ := rebuildWith_shape rs info s body els (refreshL rs body) (refreshL rs els)
      rw [h]; rfl

/-- the identity transformer (`Transformer({}).visit`) on an unmodified tiling tree changes flags only and the output not at all -/
theorem C03_identity_transform_verbatim (R : Render) (rs : Bool) (n : Node) (d : Nat)
    (hv : allValid n = true) (ht : tilesB R false n = true) :
    cgen R d false (visitRoot rs [] n) = textOf n := by
  have hc : cleanB [] n = true := by
    have : ∀ n, cleanB [] n = true := by
      intro n
      induction n using Node.rec (motive_2 := fun ns => cleanLB [] ns = true) with
      | mk info src body els hb he => simp [cleanB, lookup, hb, he]
      | nil => rfl
      | cons n ns h1 h2 => simp [cleanLB, h1, h2]
    exact this n
  obtain ⟨n', h1, h2⟩ := C03_untouched_region_verbatim R rs [] n d false hv ht hc
  unfold visitRoot
  rw [h1]; exact h2

/-- **`edited_output`**: the items printed for an edited tuple are, element by element: nothing for a removed node, the
replacement's output for a replaced node, the outputs of the spliced nodes for a one-to-many value, and for a kept node the output of
its rebuild (header/footer from the source when it tiles, `C03_tiles_any_invalidation`; its whole original text when no key lies
below it, `C03_untouched_region_verbatim`). -/
theorem C03_edited_output (R : Render) (rs : Bool) (m : Mapper) (d : Nat) (ie : Bool) (ns : List Node) :
    cgenItems R d ie (visitL rs m ns) =
      ns.flatMap fun n => (visitElem rs m n).map fun x => applyLabelC x.info.label (cgen R d ie x) := by
  have happ : ∀ a b : List Node, cgenItems R d ie (a ++ b) = cgenItems R d ie a ++ cgenItems R d ie b := by
    intro a b
    induction a with
    | nil => simp [cgenItems]
    | cons x a ih => simp [cgenItems, ih]
  have hmap : ∀ a : List Node, cgenItems R d ie a = a.map fun x => applyLabelC x.info.label (cgen R d ie x) := by
    intro a
    induction a with
    | nil => simp [cgenItems]
    | cons x a ih => simp [cgenItems, ih]
  induction ns with
  | nil => simp [visitL, cgenItems]
  | cons n ns ih => rw [visitL, happ, ih, hmap]; simp

/-- what `visitElem` yields, case by case (the reading of `C03_edited_output`'s right-hand side) -/
theorem C03_visitElem_cases (rs : Bool) (m : Mapper) (info : Info) (src : Option Src) (body els : List Node) :
    visitElem rs m (.mk info src body els) =
      match lookup m (.mk info src body els) with
      | some .drop => []
      | some (.node h) => [h]
      | some (.tuple hs) => hs.map fun h =>
          if h = .mk info src body els then rebuildWith rs info src body els (visitL rs m body) (visitL rs m els) else refresh rs h
      | none => [rebuildWith rs info src body els (visitL rs m body) (visitL rs m els)] := by
  rw [visitElem]
  cases lookup m (.mk info src body els) with
  | none => rfl
  | some h => cases h <;> rfl

/-- **`valid_implies_untouched` (partial).**  While `Transformer._rebuild` lets every node child trigger the invalidation of its
parent (`rebuildTestsChildSource = false`, read off the code) — and, since the `fix:` commit recorded for
`emptied-node-stays-valid`, also a changed number of node children — after any mapper application to any tuple of trees every node of
the result that is still `VALID` occurs, as a complete subtree, in the input or in a mapper value: its text is therefore still the
text of its subtree.  Excluded: `ScopedNode`s without `rebuild_scopes` (their source is never looked at:
`scoped-node-source-stale`). -/
theorem C03_valid_implies_untouched_partial (hT : rebuildTestsChildSource = false) (rs : Bool) (m : Mapper)
    (ns : List Node) (n' : Node)
    (hm : n' ∈ preorderL (visitL rs m ns)) (hv : n'.status = some .valid)
    (hs : n'.info.kind = .scoped → rs = true) :
    n' ∈ preorderL ns ∨ n' ∈ preorderL (mapperValues m) :=
  visitL_valid_mem hT rs m ns n' hm hv hs

/-- the same for `SubstituteExpressions`: a node that is still `VALID` afterwards is an unchanged subtree of the input (no class
needed) -/
theorem C03_subst_valid_implies_untouched_partial (hT : rebuildTestsChildSource = false) (rs : Bool) (e : Nat → Option Nat)
    (n n' : Node) (hm : n' ∈ preorder (subst rs e n)) (hv : n'.status = some .valid)
    (hs : n'.info.kind = .scoped → rs = true) : n' ∈ preorder n :=
  subst_valid_mem hT rs e n n' hm hv hs

/-- re-flagging never touches the tiling (`tilesB` reads no flag) -/
theorem C03_tiles_invariant (R : Render) (rs : Bool) (n : Node) (ie : Bool) :
    tilesB R ie (refresh rs n) = tilesB R ie n := tiles_refresh R rs n ie

/-- the tables regenerated from the code: which handlers `FortranCodegenConservative` overrides (the model's dispatch by kind), the indentation steps of the default style -/
theorem C03_tables_agree :
    conservativeHandlers = ["visit_Assignment", "visit_CallStatement", "visit_Comment", "visit_Conditional", "visit_Import",
      "visit_Loop", "visit_Module", "visit_Node", "visit_Section", "visit_Subroutine", "visit_VariableDeclaration",
      "visit_tuple"] ∧
    loopIndent = 2 ∧ conditionalIndent = 2 := by decide

end LokiModel.C03
