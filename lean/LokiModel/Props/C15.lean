import LokiModel.C15.Finder
import LokiModel.C15.Unique
import LokiModel.C15.Scopes
import LokiModel.Generated.C15Tables
/-!
# C15 — node and expression finders return exactly the matching nodes (property theorems)

Model: `LokiModel/C15/Model.lean` (`findC` = `FindNodes(...).visit`, `walk` = `ExpressionRetriever.retrieve`,
`finderV cfg q` = `ExpressionFinder(unique, with_ir_node).visit` with retriever query `q`); reference results:
`preC` / `prunedC` (pre-order, a `TypeDef` is listed but not entered), `postorder` (all expression-valued fields of an
expression object, then the object), `exprsC` / `pairsN` / `allExprsC` (`LokiModel/C15/Spec.lean`).

The statement "every occurrence in every expression of the tree is returned" is **false** for the unchanged code
(`C15_finder_complete_full_false`): expression fields that are not in `_traversable` (`PrintStmt.values`, …) are not
searched; outside that class it holds (`C15_finder_complete_partial`).  The pairing mode is exactly the grouping by node
(`C15_pairing_eq_spec`, `C15_pairing_same_multiset`; the former deviation on declarations was repaired), `FindScopes`
returns exactly the ancestor chains of the matches (`C15_findScopes_eq_paths`).
-/
namespace LokiModel.C15

/-- mapper methods each constructor of `E` stands for -/
def walkerOf : String → List String
  | "sym" => ["LokiWalkMapper.map_variable_symbol"]
  | "msym" => ["LokiWalkMapper.map_meta_symbol"]
  | "sub" => ["LokiWalkMapper.map_array_subscript"]
  | "klit" => ["LokiWalkMapper.map_float_literal"]
  | "const" => ["WalkMapper.map_constant", "WalkMapper.map_variable"]
  | "call" => ["WalkMapper.map_call_with_kwargs"]
  | "cast" => ["LokiWalkMapper.map_cast"]
  | "slice" => ["WalkMapper.map_slice"]
  | "nary" => ["WalkMapper.map_sum"]
  | "bin" => ["WalkMapper.map_quotient", "WalkMapper.map_power", "WalkMapper.map_comparison"]
  | "un" => ["WalkMapper.map_bitwise_not", "LokiWalkMapper.map_c_reference", "LokiWalkMapper.map_c_dereference"]
  | "llist" => ["LokiWalkMapper.map_literal_list"]
  | "ido" => ["LokiWalkMapper.map_inline_do"]
  | _ => []

/-- the dispatch tables extracted from the current code agree with the model: every expression class is sent by
`LokiWalkMapper` to the mapper method its constructor models, and exactly `TypeDef` / `VariableDeclaration` have
handlers of their own in the finders -/
theorem C15_tables_agree :
    Generated.walkerTable.all (fun r => (walkerOf r.2.1).contains r.2.2) = true
    ∧ Generated.nodeHandlers = [("TypeDef", "visit_TypeDef", "visit_TypeDef"),
                                ("VariableDeclaration", "visit_Node", "visit_VariableDeclaration")] := by
  decide

/-! ## FindNodes -/

/-- **FindNodes, all modes, not greedy**: for every match rule (`isinstance` in mode `'type'`, `match in children` in
mode `'scope'`, identity …) and every tree or tuple of trees, the result is the pre-order list of the nodes
(`TypeDef` bodies excluded) filtered by the rule: every matching node, no other, in pre-order. -/
theorem C15_findNodes_eq_filter_preorder (rule : Node → Bool) (c : Child) :
    findC rule false c = (preC c).filter rule := by
  rw [findC_eq, ← prunedC_false]; simp

/-- **greedy**: the same over the pruned pre-order (nothing below a matching node) -/
theorem C15_findNodes_greedy_eq_pruned (rule : Node → Bool) (c : Child) :
    findC rule true c = (prunedC rule c).filter rule := by
  rw [findC_eq]; simp

theorem C15_findNodes_mem (rule : Node → Bool) (c : Child) (n : Node) :
    n ∈ findC rule false c ↔ n ∈ preC c ∧ rule n = true := by
  rw [C15_findNodes_eq_filter_preorder]; simp

example : (findC (ruleType ["Loop"]) false
    (.n (.mk "Loop" 0 0 [.grp [.n (.mk "TypeDef" 1 1 [.grp [.n (.mk "Loop" 2 2 [] [])]] []), .n (.mk "Loop" 3 3 [] [])]] []))).map Node.uid
    = [0, 3] := by decide

/-! ## the expression walk -/

/-- **walk_complete**: for every expression object and every query, `ExpressionRetriever(q).retrieve(e)` is the
post-order list of all sub-objects of `e` (every expression-valued field: parent, `_symbol`, aggregate and index tuple,
literal kind, call function/arguments/keyword values, cast kind, range bounds, operands, list elements that are not
strings, inline-do values/variable/bounds) filtered by the query — every matching sub-expression, nothing else. -/
theorem C15_walk_complete (q : E → Bool) (e : E) : walk q e = (postorder e).filter q := walk_eq q e

theorem C15_walk_mem (q : E → Bool) (e x : E) : x ∈ walk q e ↔ x ∈ postorder e ∧ q x = true := by
  rw [walk_eq]; simp

/-! ## ExpressionFinder, plain mode -/

/-- **plain mode** (`unique=False`): on every tree / tuple of trees the finder returns, without raising, the finds
of all expressions held by traversable fields, in traversal order (`exprsC`) -/
theorem C15_finder_plain_eq_spec (q : E → Bool) (c : Child) :
    finderV plainCfg q c = .ok (items (exprsC q c)) := plainV q c

/-- the full statement: the finds of **every** expression of the tree (`allExprsC` also looks at expression fields
that are not traversable) -/
def C15_finder_complete_full : Prop :=
  ∀ (q : E → Bool) (c : Child), finderV plainCfg q c = .ok (items (allExprsC q c))

def printWitness : Child :=
  .n (.mk "PrintStmt" 0 0 [] [.msym ⟨"Scalar", "summed", "summed"⟩ (.sym ⟨"VariableSymbol", "summed", "summed"⟩ none) none])

/-- the full statement fails on the unchanged code: `print *, summed` (the variable is not found) -/
theorem C15_finder_complete_full_false : ¬ C15_finder_complete_full := by
  intro h
  have h1 := h (fun e => e.tag.cls == "Scalar") printWitness
  rw [C15_finder_plain_eq_spec] at h1
  have : (items (exprsC (fun e => e.tag.cls == "Scalar") printWitness)).length
       = (items (allExprsC (fun e => e.tag.cls == "Scalar") printWitness)).length := by
    injection h1 with h1; rw [h1]
  revert this; decide

mutual
theorem allExprsN_eq (q : E → Bool) : ∀ n, hasHiddenN q n = false → allExprsN q n = exprsN q n
  | .mk k u l cs h => by
    intro hh
    have ih := allExprsCs_eq q cs
    simp only [hasHiddenN] at hh
    simp only [allExprsN, exprsN]
    by_cases ht : isTypeDef k = true
    · simp [ht]
    · simp only [ht, Bool.false_eq_true, if_false, Bool.or_eq_false_iff] at hh ⊢
      have hz : (h.flatMap fun x => (postorder x).filter q) = [] := by
        apply List.flatMap_eq_nil_iff.mpr
        intro x hx
        have := List.any_eq_false.mp hh.1 x hx
        simpa using this
      rw [hz, ih hh.2]; simp
theorem allExprsC_eq (q : E → Bool) : ∀ c, hasHiddenC q c = false → allExprsC q c = exprsC q c
  | .e _ => by intro _; simp [allExprsC, exprsC]
  | .junk _ => by intro _; simp [allExprsC, exprsC]
  | .n x => by intro hh; simp only [allExprsC, exprsC]; exact allExprsN_eq q x (by simpa [hasHiddenC] using hh)
  | .grp cs => by intro hh; simp only [allExprsC, exprsC]; exact allExprsCs_eq q cs (by simpa [hasHiddenC] using hh)
theorem allExprsCs_eq (q : E → Bool) : ∀ cs, hasHiddenCs q cs = false → allExprsCs q cs = exprsCs q cs
  | [] => by intro _; simp [allExprsCs, exprsCs]
  | c :: cs => by
    intro hh
    simp only [hasHiddenCs, Bool.or_eq_false_iff] at hh
    simp only [allExprsCs, exprsCs, allExprsC_eq q c hh.1, allExprsCs_eq q cs hh.2]
end

/-- class `expression-field-not-traversable`: some reached node holds a matching expression in a field that is not
in `_traversable` -/
def KnownHidden (q : E → Bool) (c : Child) : Bool := hasHiddenC q c

/-- **completeness outside the known class**: if no reached node hides a match in a non-traversable field, the finder
returns the finds of every expression of the tree.  `_partial`: the hypothesis excludes `KnownHidden`. -/
theorem C15_finder_complete_partial (q : E → Bool) (c : Child) (hk : KnownHidden q c = false) :
    finderV plainCfg q c = .ok (items (allExprsC q c)) := by
  rw [allExprsC_eq q c hk]; exact plainV q c

example : KnownHidden (fun e => e.tag.cls == "Scalar")
    (.n (.mk "Assignment" 0 0 [.e (.msym ⟨"Scalar", "a", "a"⟩ (.sym ⟨"VariableSymbol", "a", "a"⟩ none) none),
                                 .e (.klit ⟨"IntLiteral", "1", ""⟩ none)] [])) = false := by decide

/-! ## unique mode -/

/-- **unique mode, every tree**: the finder does not raise and returns only finds of the plain result (nothing is
invented by the nested `find_uniques`), and no two returned expressions are `==` (class and canonical string).
`_partial`: what is *not* proved for nested trees is the other direction in closed form — that the nested application
of `find_uniques` (once per node and tuple on the way up) equals one application to the plain result; that is checked
by correspondence and by the direct oracle only.  For a statement it is proved: `C15_unique_statement_eq_dedupe`. -/
theorem C15_unique_sound_partial (q : E → Bool) (c : Child) :
    ∃ ys, finderV uniqueCfg q c = .ok (items ys) ∧ ∀ y ∈ ys, y ∈ exprsC q c := uV q c

/-- **unique mode on a statement** (a node holding expressions only, e.g. `Assignment`, `CallStatement`): the result
is `find_uniques` of the plain result — deduplicated by the documented key (`Scalar`/`Array`: name, parent name,
dimensions; anything else: its string) with the first position and the last value, then by `==` keeping the first. -/
theorem C15_unique_statement_eq_dedupe (q : E → Bool) (k : String) (u l : Nat) (cs : List Child) (h : List E)
    (ht : isTypeDef k = false) (hd : isVarDecl k = false) (hn : noNodesCs cs = true) :
    finderV uniqueCfg q (.n (.mk k u l cs h)) = .ok (items (uniqE (exprsN q (.mk k u l cs h)))) := by
  simp only [finderV]; exact stmt_unique q k u l cs h ht hd hn

/-- `find_uniques` itself: a sub-list of its input whose elements are pairwise not `==` -/
theorem C15_uniqE_spec (xs : List E) :
    (∀ y ∈ uniqE xs, y ∈ xs) ∧ (uniqE xs).Pairwise (fun a b => eqKey a ≠ eqKey b) :=
  ⟨fun _ h => mem_uniqE h, uniqE_pairwise xs⟩

/-! ## pairing with IR nodes -/

/-- **with_ir_node**: on every tree the finder returns, without raising, exactly one pair `(node, finds)` for every
reached node whose own expressions (for a declaration also the initial values of its symbols) contain a match —
children before the node — with `finds` the node's own finds in order (`unique`: deduplicated per node). -/
theorem C15_pairing_eq_spec (cfg : Cfg) (hp : cfg.pairing = true) (q : E → Bool) (t : Node) :
    finderV cfg q (.n t) = .ok (pairsN cfg q t) := by
  simp only [finderV]; exact pairN cfg hp q t

/-- … and the pairs hold the same multiset as the plain result -/
theorem C15_pairing_same_multiset (q : E → Bool) (t : Node) :
    ∃ rs, finderV plainPair q (.n t) = .ok rs ∧ (itemsE (exprsN q t)).Perm (rs.flatMap R.found) :=
  ⟨_, C15_pairing_eq_spec plainPair rfl q t, permN q t⟩

def nE : E := .msym ⟨"Scalar", "n", "n"⟩ (.sym ⟨"VariableSymbol", "n", "n"⟩ none) none
def declWitness : Node := .mk "VariableDeclaration" 0 0 [.grp [.e nE], .junk "None"] []
def isScalar : E → Bool := fun e => e.tag.cls == "Scalar"

/-- regression (formerly `[n, None, n, n]`): `integer :: n` gives the one pair `(declaration, [n])` -/
theorem C15_pairing_declaration_regression :
    finderV plainPair isScalar (.n declWitness) = .ok [R.pair 0 [.e nE]] := by
  rw [C15_pairing_eq_spec plainPair rfl]
  simp [declWitness, pairsN, pairsCs, pairsC, isTypeDef, isVarDecl, ownFinds, dfinds, directCs, directC, postorder,
    postorderO, isScalar, E.tag, uq, plainPair, itemsE, nE, initials, symbolsOf]

/-! ## FindScopes -/

/-- **FindScopes**: for every tree / tuple of trees, every match object `m` and both settings of `greedy`, the result
is the list of ancestor chains `anc ++ … ++ [node]` (`pathsC`: pruned pre-order, a `TypeDef` listed but not entered)
of exactly the nodes that are the object `m`, in pre-order. -/
theorem C15_findScopes_eq_paths (m : Nat) (g : Bool) (anc : List Node) (c : Child) :
    scopesC m g anc c = (pathsC (fun x => ruleIs m x && g) anc c).filter (endsIn m) := scopesC_eq m g c anc

/-- the chains of the reference really are ancestor chains: each starts with the ancestors passed in, and their last
elements are the (pruned) pre-order of the tree -/
theorem C15_paths_spec (p : Node → Bool) (anc : List Node) (c : Child) :
    (∀ ch ∈ pathsC p anc c, anc <+: ch) ∧ (pathsC p anc c).map List.getLast? = (prunedC p c).map some :=
  ⟨pathsC_prefix p c anc, pathsC_last p c anc⟩

/-- the nodes `FindScopes` ends its chains with are those `FindNodes` finds by identity -/
theorem C15_findScopes_last (m : Nat) (g : Bool) (anc : List Node) (c : Child) :
    (scopesC m g anc c).filterMap List.getLast? = findC (ruleIs m) g c := scopesC_last m g c anc

example : (scopesC 1 true [] (.n (.mk "Section" 0 0 [.grp [.n (.mk "TypeDef" 1 1 [.grp []] [])]] []))).map (·.map Node.uid)
    = [[0, 1]] := by
  simp [scopesC, scopesN, scopesCs, isTypeDef, Node.uid]

end LokiModel.C15
