import LokiModel.C25.Lemmas
/-!
# C25 — renaming, duplicating and removing items keeps the scheduler graph consistent

`Consistent st` is the invariant of properties.jsonl C25 on the model state:

* `present`  — every item of the graph is a program unit that exists (so every call / import of a processed unit, which
               the graph closure turns into a graph item, names a unit present in the output: `C25_refs_present`);
* `keys`     — every item-cache key is the current name of its item;
* `closure`  — the graph nodes are exactly the items reachable from the seeds through the current sources
               ("exactly the surviving items", and what later processing visits: C22 `C22_once`);
* `cached`   — every graph item is in the cache;
* `noerr`    — building the dependencies of a graph item does not raise (the graph was built successfully).

Also proved: no deleted item survives `rekey_item_cache` (`C25_rekey_no_deleted`, `C25_depCache_no_deleted`), and the import of
a kernel is renamed with its call for every name (`C25_replaceLast_append`, `C25_depRef_import_renamed`).
Proved for **all** operations and operation sequences: `keys` and `closure` (`C25_op_preserves_keys`,
`C25_op_closure`, `C25_ops_keys_closure`); `present` reduces to a local condition on the rewritten program units
(`C25_present_of_localClosed`).  Proved in full for `RemoveKernel` and sequences of removals
(`C25_rem_preserves_consistent`, `C25_rems_preserve_consistent`).  `_partial`: for `DuplicateKernel`,
`ModuleWrapTransformation` and `DependencyTransformation` the local condition (`LocalClosed` of the rewritten units) is a
hypothesis (`C25_op_preserves_consistent_partial`); that the real rewriting establishes it on the covered class is
checked by the correspondence and the oracle only.
-/
namespace LokiModel.C25
open LokiModel.C21 (Graph Err ReachG)

structure Consistent (st : St) : Prop where
  present : ∀ n ∈ st.graph.nodes, hasDef st.defs n = true
  keys : ∀ e ∈ st.cache, e.1 = e.2
  closure : ∀ n, n ∈ st.graph.nodes ↔ ReachG (childrenOf st.defs st.strict) (startOf st.defs st.seeds) n
  cached : ∀ n ∈ st.graph.nodes, ∃ e ∈ st.cache, e.1 = n
  noerr : ∀ n ∈ st.graph.nodes, ∃ cs, childrenOf st.defs st.strict n = .ok cs

/-- every reference of every program unit held in memory resolves to a program unit (or, for a procedure of a module
that does not exist, the module itself would have to exist: it does not, so such a reference violates the condition) -/
def LocalClosed (ds : List Def) : Prop := ∀ d ∈ ds, ∀ r ∈ d.refs, hasDef ds (resolveRef ds r) = true

/-- non-vacuity of the local condition: driver `r0` calling the module kernel `m#r1` -/
example : LocalClosed [⟨.proc "" "r0", [.proc "m" "r1"], "f0", true⟩, ⟨.mod "m", [], "f1", false⟩,
    ⟨.proc "m" "r1", [], "f1", false⟩] := by
  unfold LocalClosed
  decide

/-- every call and import of a processed unit names a graph item that is present -/
theorem C25_refs_present {st : St} (h : Consistent st) {n : Nm} (hn : n ∈ st.graph.nodes) {cs : List Nm}
    (hc : childrenOf st.defs st.strict n = .ok cs) {c : Nm} (hcc : c ∈ cs) :
    c ∈ st.graph.nodes ∧ hasDef st.defs c = true := by
  have : c ∈ st.graph.nodes := (h.closure c).2 (ReachG.step ((h.closure n).1 hn) hc hcc)
  exact ⟨this, h.present c this⟩

/-! ## `keys`: all operations -/

theorem rediscover_fields {st st' : St} (h : rediscover st = .ok st') :
    st'.defs = st.defs ∧ st'.cache = st.cache ∧ st'.seeds = st.seeds ∧ st'.strict = st.strict ∧
    discover st.defs st.strict st.seeds = .ok st'.graph := by
  unfold rediscover at h
  cases hd : discover st.defs st.strict st.seeds with
  | error e => simp [hd] at h
  | ok g =>
    simp only [hd] at h
    injection h with h
    subst h
    exact ⟨rfl, rfl, rfl, rfl, rfl⟩

theorem rekey_keys (cache : List (Nm × Nm)) (deleted : List Nm) : ∀ e ∈ rekey cache deleted, e.1 = e.2 := by
  intro e he
  unfold rekey at he
  simp only [List.mem_map] at he
  obtain ⟨n, _, rfl⟩ := he
  rfl

/-- `rekey_item_cache`: afterwards no two entries share a key -/
theorem C25_rekey_nodup (cache : List (Nm × Nm)) (deleted : List Nm) : ((rekey cache deleted).map (·.1)).Nodup := by
  unfold rekey
  simp only [List.map_map]
  have : ((fun x : Nm × Nm => x.1) ∘ fun n : Nm => (n, n)) = id := rfl
  rw [this, List.map_id]
  exact nodup_dedupNm _

/-- `rekey_item_cache`: an item that is not deleted is found under its current name -/
theorem C25_rekey_complete (cache : List (Nm × Nm)) (deleted : List Nm) (e : Nm × Nm) (he : e ∈ cache)
    (hd : e.2 ∉ deleted) : (e.2, e.2) ∈ rekey cache deleted := by
  unfold rekey
  simp only [List.mem_map]
  refine ⟨e.2, ?_, rfl⟩
  rw [mem_dedupNm]
  simp only [List.mem_map, List.mem_filter, decide_eq_true_eq]
  exact ⟨(e.2, e.2), ⟨e, ⟨he, hd⟩, rfl⟩, rfl⟩

/-- `rekey_item_cache`: **no deleted item survives** the rebuild -/
theorem C25_rekey_no_deleted (cache : List (Nm × Nm)) (deleted : List Nm) :
    ∀ e ∈ rekey cache deleted, e.2 ∉ deleted := by
  intro e he
  unfold rekey at he
  simp only [List.mem_map] at he
  obtain ⟨n, hn, rfl⟩ := he
  rw [mem_dedupNm] at hn
  simp only [List.mem_map, List.mem_filter, decide_eq_true_eq] at hn
  obtain ⟨x, ⟨y, ⟨_, hy⟩, rfl⟩, rfl⟩ := hn
  exact hy

/-- … in particular after `DependencyTransformation`: an item whose unit was removed from a renamed module (inactive
routine) is in no entry of the rebuilt cache, whatever the renaming of the surviving items is -/
theorem C25_depCache_no_deleted (dead : Nm → Bool) (renD : Nm → Nm) (cache : List (Nm × Nm)) :
    ∀ e ∈ depCache dead renD cache, e.2 ∉ (cache.filter (fun x => dead x.2)).map (·.2) := by
  unfold depCache
  exact C25_rekey_no_deleted _ _

/-- … while every surviving item is found under its new name -/
theorem C25_depCache_complete (dead : Nm → Bool) (renD : Nm → Nm) (cache : List (Nm × Nm)) (e : Nm × Nm)
    (he : e ∈ cache) (hd : dead e.2 = false)
    (hfresh : renD e.2 ∉ (cache.filter (fun x => dead x.2)).map (·.2)) :
    (renD e.2, renD e.2) ∈ depCache dead renD cache := by
  unfold depCache
  have := C25_rekey_complete (cache.map (fun x => (x.1, if dead x.2 then x.2 else renD x.2)))
    ((cache.filter (fun x => dead x.2)).map (·.2)) (e.1, renD e.2)
    (List.mem_map.2 ⟨e, he, by simp [hd]⟩) hfresh
  exact this

/-! ## `replace_last` in `rename_imports` -/

theorem stripPrefix_append : ∀ (p r : List Char), stripPrefix? p (p ++ r) = some r
  | [], r => by cases r <;> rfl
  | c :: p, r => by
    simp only [List.cons_append, stripPrefix?, if_true]
    exact stripPrefix_append p r

theorem dropFirstOcc_prefix (p r : List Char) (hp : p ≠ []) : dropFirstOcc p (p ++ r) = r := by
  cases p with
  | nil => exact absurd rfl hp
  | cons c p =>
    have := stripPrefix_append (c :: p) r
    simp only [List.cons_append] at this ⊢
    simp only [dropFirstOcc, this]

theorem replaceLastL_append (l suf : List Char) (hs : suf ≠ []) : replaceLastL (l ++ suf) suf = l := by
  unfold replaceLastL
  rw [if_neg hs, List.reverse_append, dropFirstOcc_prefix _ _ (by simpa using hs), List.reverse_reverse]

/-- cutting the last occurrence of the suffix out of `name ++ suffix` gives `name` back — for every name, also one that
contains the suffix elsewhere (`update_gpu_state` with `_gpu`) -/
theorem C25_replaceLast_append (l suf : String) (hs : suf ≠ "") : replaceLast (l ++ suf) suf = l := by
  unfold replaceLast
  have h1 : suf.toList ≠ [] := by
    intro h
    apply hs
    have := congrArg String.ofList h
    simpa using this
  rw [String.toList_append, replaceLastL_append _ _ h1]
  simp

/-- hence the import of a kernel of another module is always renamed together with the call (unless the name already
ends with the suffix: see `C25_depRef_idempotent`) -/
theorem C25_depRef_import_renamed (suf : String) (dm newScope : String → String) (u : Nm) (s l : String)
    (hs : suf ≠ "") (h1 : s ≠ "") (h2 : s ≠ u.scope) (hl : l.endsWith suf = false) :
    depRef suf dm newScope u (.proc s l) = .proc (dm s) (l ++ suf) := by
  unfold depRef
  simp [h1, h2, hl, C25_replaceLast_append l suf hs]

/-- `rename_calls` / `rename_imports` leave a reference alone whose name already ends with the suffix (the repaired
idempotence: applying the suffix renaming again, or to a driver again, does not produce `r1_x_x`) -/
theorem C25_depRef_idempotent (suf : String) (dm newScope : String → String) (u r : Nm)
    (hl : r.loc.endsWith suf = true) : depRef suf dm newScope u r = r := by
  unfold depRef
  cases r with
  | proc s l => simp only [Nm.loc] at hl; simp [hl]
  | mod m => rfl

theorem reread_keys {st : St} (files : List String) (h : ∀ e ∈ st.cache, e.1 = e.2) :
    ∀ e ∈ (reread st files).cache, e.1 = e.2 := by
  intro e he
  unfold reread at he
  simp only [List.mem_append, List.mem_map] at he
  rcases he with he | ⟨d, _, rfl⟩
  · exact h e he
  · rfl

theorem dupOne_keys (suf msuf : String) (P : List Nm) (st : St) (t : Nm) (h : ∀ e ∈ st.cache, e.1 = e.2) :
    ∀ e ∈ (dupOne suf msuf P st t).cache, e.1 = e.2 := by
  intro e he
  unfold dupOne at he
  simp only [List.mem_append, List.mem_map] at he
  rcases he with he | ⟨d, _, rfl⟩
  · exact h e he
  · rfl

theorem dupFold_keys (suf msuf : String) (P : List Nm) : ∀ (ts : List Nm) (st : St),
    (∀ e ∈ st.cache, e.1 = e.2) → ∀ e ∈ (ts.foldl (dupOne suf msuf P) st).cache, e.1 = e.2
  | [], _, h => h
  | t :: ts, st, h => by
    simp only [List.foldl_cons]
    exact dupFold_keys suf msuf P ts _ (dupOne_keys suf msuf P st t h)

/-- **cache keys = current names** is preserved by every operation, in planning and in conversion mode -/
theorem C25_op_preserves_keys (plan : Bool) (st st' : St) (op : Op) (h : ∀ e ∈ st.cache, e.1 = e.2)
    (ha : applyOp plan st op = .ok st') : ∀ e ∈ st'.cache, e.1 = e.2 := by
  cases op with
  | rem k =>
    simp only [applyOp, opRem] at ha
    rw [(rediscover_fields ha).2.1]
    exact h
  | dup k sub suf msuf =>
    simp only [applyOp, opDup] at ha
    rw [(rediscover_fields ha).2.1]
    exact dupFold_keys suf msuf _ _ st h
  | wrap msuf =>
    simp only [applyOp, opWrap] at ha
    split at ha
    · rw [(rediscover_fields ha).2.1]; exact h
    · rw [(rediscover_fields ha).2.1]
      apply reread_keys
      intro e he
      simp only [List.mem_append, List.mem_map] at he
      rcases he with he | ⟨d, _, rfl⟩
      · exact rekey_keys _ _ e he
      · rfl
  | dep suf msuf =>
    simp only [applyOp, opDep] at ha
    split at ha
    · rw [(rediscover_fields ha).2.1]; exact h
    · rw [(rediscover_fields ha).2.1]
      apply reread_keys
      intro e he
      unfold depCache at he
      exact rekey_keys _ _ e he

/-! ## `closure`: all operations -/

theorem rediscover_closure {st st' : St} (h : rediscover st = .ok st') :
    ∀ n, n ∈ st'.graph.nodes ↔ ReachG (childrenOf st'.defs st'.strict) (startOf st'.defs st'.seeds) n := by
  obtain ⟨h1, _, h3, h4, h5⟩ := rediscover_fields h
  intro n
  rw [h1, h3, h4]
  exact discover_nodes h5 n

/-- **graph nodes = the items reachable from the seeds in the current sources**, after every operation -/
theorem C25_op_closure (plan : Bool) (st st' : St) (op : Op) (ha : applyOp plan st op = .ok st') :
    ∀ n, n ∈ st'.graph.nodes ↔ ReachG (childrenOf st'.defs st'.strict) (startOf st'.defs st'.seeds) n := by
  cases op with
  | rem k => simp only [applyOp, opRem] at ha; exact rediscover_closure ha
  | dup k sub suf msuf => simp only [applyOp, opDup] at ha; exact rediscover_closure ha
  | wrap msuf =>
    simp only [applyOp, opWrap] at ha
    split at ha <;> exact rediscover_closure ha
  | dep suf msuf =>
    simp only [applyOp, opDep] at ha
    split at ha <;> exact rediscover_closure ha

/-- lifted to operation sequences by list induction -/
theorem C25_ops_keys_closure (plan : Bool) : ∀ (ops : List Op) (st st' : St), ops ≠ [] →
    (∀ e ∈ st.cache, e.1 = e.2) → applyOps plan st ops = .ok st' →
    (∀ e ∈ st'.cache, e.1 = e.2) ∧
    (∀ n, n ∈ st'.graph.nodes ↔ ReachG (childrenOf st'.defs st'.strict) (startOf st'.defs st'.seeds) n)
  | [], _, _, hne, _, _ => absurd rfl hne
  | op :: ops, st, st', _, hk, ha => by
    simp only [applyOps] at ha
    cases h1 : applyOp plan st op with
    | error e => simp [h1] at ha
    | ok st1 =>
      simp only [h1] at ha
      have hk1 := C25_op_preserves_keys plan st st1 op hk h1
      cases ops with
      | nil =>
        simp only [applyOps] at ha
        injection ha with ha
        subst ha
        exact ⟨hk1, C25_op_closure plan st st1 op h1⟩
      | cons op2 ops2 => exact C25_ops_keys_closure plan (op2 :: ops2) st1 st' (by simp) hk1 ha

/-! ## `present` -/

/-- the start nodes have program units by construction (`SGraph._create_item` finds them in the cache) -/
theorem startOf_present (ds : List Def) (seeds : List Nm) : ∀ s ∈ startOf ds seeds, hasDef ds s = true := by
  intro s hs
  unfold startOf at hs
  rw [mem_dedupNm, List.mem_filter] at hs
  exact hs.2

/-- reduction of the global statement to a local one: if the graph is the closure and every reference of every unit
in memory resolves, every graph item is present -/
theorem C25_present_of_localClosed (st : St)
    (hcl : ∀ n, n ∈ st.graph.nodes ↔ ReachG (childrenOf st.defs st.strict) (startOf st.defs st.seeds) n)
    (hl : LocalClosed st.defs) : ∀ n ∈ st.graph.nodes, hasDef st.defs n = true := by
  intro n hn
  refine closed_reach (fun x => hasDef st.defs x = true) (startOf_present _ _) ?_ n ((hcl n).1 hn)
  intro a d _ hd r hr
  exact hl d (findDef_some hd).1 r hr

/-! ## RemoveKernel: the full invariant -/

def remDefs (P : List Nm) (k : String) (ds : List Def) : List Def :=
  ds.map (fun d => if d.name ∈ P then { d with refs := d.refs.filter (fun r => !(r.isProc && r.loc == k)) } else d)

theorem findDef_map (f : Def → Def) (hf : ∀ d, (f d).name = d.name) : ∀ (ds : List Def) (n : Nm),
    findDef (ds.map f) n = (findDef ds n).map f
  | [], _ => rfl
  | d :: ds, n => by
    have ih := findDef_map f hf ds n
    unfold findDef at ih ⊢
    rw [List.map_cons, List.find?_cons, List.find?_cons, hf d]
    by_cases hn : d.name = n
    · rw [decide_eq_true hn]; rfl
    · rw [decide_eq_false hn]; exact ih

theorem remDefs_find (P : List Nm) (k : String) (ds : List Def) (n : Nm) :
    findDef (remDefs P k ds) n = (findDef ds n).map
      (fun d => if d.name ∈ P then { d with refs := d.refs.filter (fun r => !(r.isProc && r.loc == k)) } else d) := by
  unfold remDefs
  apply findDef_map
  intro d
  by_cases hp : d.name ∈ P
  · rw [if_pos hp]
  · rw [if_neg hp]

theorem remDefs_hasDef (P : List Nm) (k : String) (ds : List Def) (n : Nm) :
    hasDef (remDefs P k ds) n = hasDef ds n := by
  unfold hasDef
  rw [remDefs_find]
  cases findDef ds n <;> rfl

theorem remDefs_resolve (P : List Nm) (k : String) (ds : List Def) (r : Nm) :
    resolveRef (remDefs P k ds) r = resolveRef ds r := by
  unfold resolveRef
  cases r with
  | proc s l => simp only [remDefs_hasDef]
  | mod m => rfl

/-- **RemoveKernel preserves the invariant** (all states, all kernel names, planning and conversion) -/
theorem C25_rem_preserves_consistent (st st' : St) (k : String) (h : Consistent st) (ha : opRem k st = .ok st') :
    Consistent st' := by
  unfold opRem at ha
  obtain ⟨h1, h2, h3, h4, h5⟩ := rediscover_fields ha
  have hcl := rediscover_closure ha
  simp only at h1 h2 h3 h4 h5
  -- every reachable node of the new graph is a node of the old graph
  have hsub : ∀ n, n ∈ st'.graph.nodes → n ∈ st.graph.nodes := by
    intro n hn
    have hr := (hcl n).1 hn
    rw [h1, h3, h4] at hr
    refine closed_reach (ds := remDefs (processed st) k st.defs) (fun x => x ∈ st.graph.nodes) ?_ ?_ n hr
    · intro s hs
      refine (h.closure s).2 (ReachG.seed ?_)
      unfold startOf at hs ⊢
      rw [mem_dedupNm, List.mem_filter] at hs ⊢
      exact ⟨hs.1, by rw [← remDefs_hasDef (processed st) k]; exact hs.2⟩
    · intro a d ha' hd r hr'
      rw [remDefs_find] at hd
      cases hd0 : findDef st.defs a with
      | none => simp [hd0] at hd
      | some d0 =>
        simp only [hd0, Option.map_some, Option.some.injEq] at hd
        have hr0 : r ∈ d0.refs := by
          subst hd
          by_cases hp : d0.name ∈ processed st
          · simp only [hp, if_true, List.mem_filter] at hr'; exact hr'.1
          · simp only [hp, if_false] at hr'; exact hr'
        rw [remDefs_resolve]
        obtain ⟨cs, hco⟩ := h.noerr a ha'
        refine (h.closure _).2 (ReachG.step ((h.closure a).1 ha') hco ?_)
        unfold childrenOf at hco
        simp only [hd0] at hco
        split at hco
        · cases hco
        · injection hco with hco
          subst hco
          rw [mem_dedupNm]
          exact List.mem_map.2 ⟨r, hr0, rfl⟩
  refine ⟨?_, ?_, hcl, ?_, ?_⟩
  · intro n hn
    rw [h1]
    have := remDefs_hasDef (processed st) k st.defs n
    unfold remDefs at this
    rw [this]
    exact h.present n (hsub n hn)
  · rw [h2]; exact h.keys
  · intro n hn
    rw [h2]
    exact h.cached n (hsub n hn)
  · intro n hn
    rw [h1, h4]
    exact discover_noerr h5 n hn

/-- sequences of removals (list induction) -/
theorem C25_rems_preserve_consistent : ∀ (ks : List String) (st st' : St), Consistent st →
    applyOps false st (ks.map Op.rem) = .ok st' → Consistent st'
  | [], st, st', h, ha => by
    simp only [List.map_nil, applyOps] at ha
    injection ha with ha
    subst ha
    exact h
  | k :: ks, st, st', h, ha => by
    simp only [List.map_cons, applyOps, applyOp] at ha
    cases h1 : opRem k st with
    | error e => simp [h1] at ha
    | ok st1 =>
      simp only [h1] at ha
      exact C25_rems_preserve_consistent ks st1 st' (C25_rem_preserves_consistent st st1 k h h1) ha

/-! ## the other operations: `_partial` -/

theorem rediscover_noerr {st st' : St} (h : rediscover st = .ok st') :
    ∀ n ∈ st'.graph.nodes, ∃ cs, childrenOf st'.defs st'.strict n = .ok cs := by
  obtain ⟨h1, _, _, h4, h5⟩ := rediscover_fields h
  intro n hn
  rw [h1, h4]
  exact discover_noerr h5 n hn

theorem C25_op_noerr (plan : Bool) (st st' : St) (op : Op) (ha : applyOp plan st op = .ok st') :
    ∀ n ∈ st'.graph.nodes, ∃ cs, childrenOf st'.defs st'.strict n = .ok cs := by
  cases op with
  | rem k => simp only [applyOp, opRem] at ha; exact rediscover_noerr ha
  | dup k sub suf msuf => simp only [applyOp, opDup] at ha; exact rediscover_noerr ha
  | wrap msuf =>
    simp only [applyOp, opWrap] at ha
    split at ha <;> exact rediscover_noerr ha
  | dep suf msuf =>
    simp only [applyOp, opDep] at ha
    split at ha <;> exact rediscover_noerr ha

/-- every program unit in memory has a cache entry under its name -/
def DefsCached (st : St) : Prop := ∀ d ∈ st.defs, ∃ e ∈ st.cache, e.1 = d.name

/-- **any operation** (duplicate, remove, wrap, suffix; planning or conversion): the invariant holds afterwards provided the
rewritten program units are locally closed and cached.  `_partial`: `LocalClosed` / `DefsCached` of the *result* are
hypotheses here; what is missing is their derivation from `Consistent st` and the operation's definition under the
side conditions that exclude the known-finding classes (no driver among the callees, fresh names, one program unit per
file, interface includes present).  On the real code they are checked per run (correspondence + oracle). -/
theorem C25_op_preserves_consistent_partial (plan : Bool) (st st' : St) (op : Op) (h : Consistent st)
    (ha : applyOp plan st op = .ok st') (hl : LocalClosed st'.defs) (hc : DefsCached st') : Consistent st' := by
  have hcl := C25_op_closure plan st st' op ha
  have hp := C25_present_of_localClosed st' hcl hl
  refine ⟨hp, C25_op_preserves_keys plan st st' op h.keys ha, hcl, ?_, C25_op_noerr plan st st' op ha⟩
  intro n hn
  have := hp n hn
  unfold hasDef at this
  cases hd : findDef st'.defs n with
  | none => simp [hd] at this
  | some d =>
    obtain ⟨e, he, hen⟩ := hc d (findDef_some hd).1
    exact ⟨e, he, hen.trans (findDef_some hd).2⟩

end LokiModel.C25
