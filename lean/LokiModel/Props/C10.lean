import LokiModel.C10.Lemmas
/-!
# C10 — loop-range helpers match Fortran DO-loop iteration semantics (property theorems)

Full statement for `get_pyrange`: for every integer `s e` and every non-zero `st`,
`getPyrange s e (some st) = some (doSeq s e st)` (`C10_getPyrange_full`).  Before the `fix:` commit
recorded in `known_findings.json` the code used `stop + 1` as the exclusive Python bound for negative
steps too and the statement was false (`C10_old_bound_wrong` keeps the witness `(5, 1, -1)`).
-/
namespace LokiModel.C10

theorem C10_getPyrange_pos (s e st : Int) (h : 0 < st) :
    getPyrange s e (some st) = some (doSeq s e st) := by
  have hne : st ≠ 0 := by omega
  have hn : ¬ st < 0 := by omega
  simp only [getPyrange, hn, if_false, pyRange, hne, doSeq, tripCount, pyRangeLen, h, if_true]
  rw [toNat_tdiv_pos _ _ h]
  have : e + 1 - s + st - 1 = e - s + st := by omega
  rw [this]

theorem C10_getPyrange_nostep (s e : Int) : getPyrange s e none = some (doSeq s e 1) := by
  have := C10_getPyrange_pos s e 1 (by omega)
  simpa [getPyrange] using this

theorem C10_getPyrange_neg (s e st : Int) (h : st < 0) :
    getPyrange s e (some st) = some (doSeq s e st) := by
  have hne : st ≠ 0 := by omega
  have hn : ¬ (0 < st) := by omega
  simp only [getPyrange, h, if_true, pyRange, hne, if_false, doSeq, pyRangeLen, hn]
  rw [tripCount_neg]
  unfold tripCount
  rw [toNat_tdiv_pos _ _ (by omega)]
  have : s - (e - 1) + -st - 1 = s - e + -st := by omega
  rw [this]

/-- **C10, enumeration (full strength)**: for every integer start and stop and every non-zero step,
`get_pyrange` yields exactly the values a Fortran DO loop visits, in order. -/
theorem C10_getPyrange_full (s e st : Int) (hst : st ≠ 0) :
    getPyrange s e (some st) = some (doSeq s e st) := by
  by_cases h : 0 < st
  · exact C10_getPyrange_pos s e st h
  · exact C10_getPyrange_neg s e st (by omega)

/-- the defect repaired by the `fix:` commit, kept as a regression statement: the former bound
`stop + 1` is wrong for the witness `(5, 1, -1)` -/
theorem C10_old_bound_wrong : pyRange 5 (1 + 1) (-1) ≠ some (doSeq 5 1 (-1)) := by decide

/-- non-vacuity -/
example : getPyrange 5 1 (some (-1)) = some [5, 4, 3, 2, 1] := by decide
example : getPyrange 1 10 (some 3) = some [1, 4, 7, 10] := by decide
example : getPyrange 5 8 (some (-1)) = some [] := by decide

/-- iteration count: for every non-empty loop the `num_iterations` expression has the value of the trip count -/
theorem C10_numIter (s e st : Int) (hst : st ≠ 0) (hne : tripCount s e st ≠ 0) :
    numIter s e (some st) = (tripCount s e st : Int) := by
  simp only [numIter]
  have key : (e - s + st).tdiv st = (e - s).tdiv st + 1 := by
    by_cases h : 0 < st
    · exact tdiv_add_self_pos _ _ (nonempty_pos s e st h hne) h
    · exact tdiv_add_self_neg _ _ (nonempty_neg s e st (by omega) hne) (by omega)
  unfold tripCount at *
  rw [key] at hne ⊢
  omega

theorem C10_numIter_nostep (s e : Int) (hne : tripCount s e 1 ≠ 0) :
    numIter s e none = (tripCount s e 1 : Int) := by
  have := C10_numIter s e 1 (by omega) hne
  simpa [numIter] using this

/-- the normalised range `(1, num_iterations)` has as many iterations as the original (non-empty) loop -/
theorem C10_normalized_len (s e st : Int) (hst : st ≠ 0) (hne : tripCount s e st ≠ 0) :
    (doSeq 1 (numIter s e (some st)) 1).length = (doSeq s e st).length := by
  rw [C10_numIter s e st hst hne]
  simp only [doSeq, List.length_map, List.length_range]
  show ((↑(tripCount s e st) - 1 + 1 : Int).tdiv 1).toNat = tripCount s e st
  simp

/-- the `k`-th value (0-based) of the DO sequence -/
theorem doSeq_get (s e st : Int) (k : Nat) (hk : k < tripCount s e st) :
    (doSeq s e st)[k]? = some (s + (k : Int) * st) := by
  simp [doSeq, hk]

/-- `iteration_number` of the `k`-th visited value is `k + 1` -/
theorem C10_iterNumber (s st : Int) (k : Nat) (hst : st ≠ 0) :
    iterNumber (s + (k : Int) * st) s (some st) = (k : Int) + 1 := by
  simp only [iterNumber]
  have : s + (k : Int) * st - s = (k : Int) * st := by omega
  rw [this, Int.mul_tdiv_cancel _ hst]

/-- `iteration_index` of iteration number `k + 1` is the `k`-th visited value -/
theorem C10_iterIndex (s st : Int) (k : Nat) :
    iterIndex ((k : Int) + 1) s (some st) = s + (k : Int) * st := by
  simp only [iterIndex]
  have : (k : Int) + 1 - 1 = k := by omega
  rw [this]; omega

theorem C10_iter_roundtrip (s st : Int) (k : Nat) (hst : st ≠ 0) :
    iterIndex (iterNumber (s + (k : Int) * st) s (some st)) s (some st) = s + (k : Int) * st := by
  rw [C10_iterNumber s st k hst, C10_iterIndex]

theorem C10_iter_nostep (s : Int) (k : Nat) :
    iterNumber (s + (k : Int)) s none = (k : Int) + 1 ∧ iterIndex ((k : Int) + 1) s none = s + (k : Int) := by
  simp only [iterNumber, iterIndex]; omega

/-- non-vacuity: a non-empty negative-step loop satisfies the hypotheses of `C10_numIter` -/
example : tripCount 10 1 (-3) ≠ 0 ∧ numIter 10 1 (some (-3)) = 4 ∧ doSeq 10 1 (-3) = [10, 7, 4, 1] := by decide

end LokiModel.C10
