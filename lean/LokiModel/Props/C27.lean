import LokiModel.C27.Raw
/-!
# C27 — dependency queries report every actual dependency (property theorems)

`lcd c loop` = model of `loop_carried_dependencies(loop)`; `readAfterWrite c ir k` = model of
`read_after_write_vars(ir, node)` (`LokiModel/C27/Model.lean`, tied to the real functions at every loop and every
inspection point of generated routines on each check run).  Iterations are those of the instrumented semantics
(`trIter` / `trWhile` of `LokiModel/C26/Trace.lean`: one trace per iteration of the run the reference interpreter
performs).  "A value written in iteration i is read in iteration j > i" = `x` is written in the trace of iteration i
and read in the trace of iteration j before any complete definition of `x` in iteration j.
-/
namespace LokiModel.C27
open LokiModel.Fir LokiModel.C26

/-- **lcd_complete (partial)**, DO loops: if `x` is written in iteration `i` and read before written in a later
iteration `j` of any run of the loop, `loop_carried_dependencies` reports `x` — outside the C26 class `knownUL` of the
loop body (may-kill, PRINT, DO variable in its own bounds) and unless `x` is the DO variable of an inner loop
(C26 class `loop-variable-not-defined`).  Without these hypotheses the statement is false (`Findings.C27`).
Missing for the full property: the two classes; ASSOCIATE and CALL inside the loop (`coveredL`). -/
theorem lcd_complete_partial (p : Program) (c : Ctx) (f : Nat) (v : String) (lo hi : Ex) (step : Option Ex)
    (body : List Stmt) (sv : Int) (n : Nat) (cur : Int) (st : St) (i j : Nat) (_hij : i < j) (ti tj : Tr)
    (hi' : (trIter p f v body sv n cur st)[i]? = some ti) (hj' : (trIter p f v body sv n cur st)[j]? = some tj)
    (x : String) (hw : wroteB x ti = true) (hr : rbwB x tj = true)
    (hcov : coveredL body = true) (hk : knownUL c x body = false) (hl : x ∉ loopVarsL body) :
    x ∈ names (lcd c (.doLoop v lo hi step body)) := by
  have hmi := List.mem_of_getElem? hi'
  have hmj := List.mem_of_getElem? hj'
  obtain ⟨hne, hb⟩ := (invB p c f).iter _ _ _ _ _ _ tj x hmj hr
  have hd : x ∈ names (bodyDU c body).1 := by
    rcases (invA p c f).iter _ _ _ _ _ _ ti x hmi hw with h | h | h
    · exact absurd h hne
    · exact h
    · exact absurd h hl
  have hek := EK_du c (.doLoop v lo hi step body) (by simpa [coveredS] using hcov)
  refine names_sinter hek.2 hek.1 ?_ ?_
  · simp only [du]
    exact names_filter_ne (names_fold_of_fresh (hb hk)) hne
  · simp only [du]
    apply names_filter_ne _ hne
    rw [foldBody_nil_fst]
    rw [bodyDU_fst] at hd
    exact hd

/-- the same for DO WHILE loops (an iteration = condition test and body) -/
theorem lcd_complete_while_partial (p : Program) (c : Ctx) (f : Nat) (cnd : Ex) (body : List Stmt) (st : St)
    (i j : Nat) (_hij : i < j) (ti tj : Tr)
    (hi' : (trWhile p f cnd body st)[i]? = some ti) (hj' : (trWhile p f cnd body st)[j]? = some tj)
    (x : String) (hw : wroteB x ti = true) (hr : rbwB x tj = true)
    (hcov : coveredL body = true) (hk : knownUL c x body = false) (hl : x ∉ loopVarsL body) :
    x ∈ names (lcd c (.while cnd body)) := by
  have hmi := List.mem_of_getElem? hi'
  have hmj := List.mem_of_getElem? hj'
  have hd : x ∈ names (bodyDU c body).1 := by
    rcases (invA p c f).whl _ _ _ ti x hmi hw with h | h
    · exact h
    · exact absurd h hl
  have hek := EK_du c (.while cnd body) (by simpa [coveredS] using hcov)
  refine names_sinter hek.2 hek.1 ?_ ?_
  · simp only [du]
    rcases (invB p c f).whl _ _ _ tj x hmj hr with h | h
    · exact names_fold_of_init (mem_names_syms.mpr h)
    · exact names_fold_of_fresh (h hk)
  · simp only [du]
    rw [foldBody_nil_fst]
    rw [bodyDU_fst] at hd
    exact hd

/-- the iterations the theorems speak about are those of the loop statement's run: its trace is the reads of the bounds
followed by the iteration traces -/
theorem trS_doLoop_iterations (p : Program) (f : Nat) (v : String) (lo hi : Ex) (body : List Stmt) (st : St)
    (l h : Int) (hl : (evalE st [] lo).bind asInt = some l) (hh : (evalE st [] hi).bind asInt = some h) :
    trS p (f + 1) (.doLoop v lo hi none body) st =
      rds (boundVars lo hi none) ++ (trIter p f v body 1 (tripCount l h 1) l st).flatten := by
  simp [trS, hl, hh]

theorem mem_duL_of_mem (c : Ctx) {s : Stmt} {ss : List Stmt} (h : s ∈ ss) : du c s ∈ duL c ss := by
  induction ss with
  | nil => cases h
  | cons a r ih =>
    simp only [duL, List.mem_cons]
    rcases List.mem_cons.mp h with rfl | h'
    · exact Or.inl rfl
    · exact Or.inr (ih h')

theorem duL_flatMap (c : Ctx) (ss : List Stmt) :
    (duL c ss).flatMap (·.1) = ss.flatMap (fun s => (du c s).1) := by
  induction ss with
  | nil => simp [duL]
  | cons s r ih => simp [duL, ih]

/-- **raw_complete (partial), straight-line code**: let the ir be a list of leaf statements (assignments, PRINT, EXIT,
CYCLE, comments/pragmas) `pre ++ node :: post`.  If a run of `pre` writes `x` and a run of `node :: post` (from any
state) reads `x` before completely rewriting it, then `read_after_write_vars(ir, node)` reports `x` — provided that
from the node on no PRINT reads `x` (C26 class) and every leaf that has `x` in its defines is an assignment to the plain
name `x` (otherwise class `raw-partial-clears`).  Missing for the full property: compound statements in the ir (IF is
believed to be handled correctly by the branch-wise union; loops and SELECT CASE are the classes `raw-loop-clears`,
`raw-select-clears`, `raw-inside-select`, `raw-node-inside-loop`), ASSOCIATE and CALL. -/
theorem raw_complete_flat_partial (p : Program) (c : Ctx) (f f' : Nat) (pre : List Stmt) (node : Stmt)
    (post : List Stmt) (st st1 : St) (x : String)
    (hflat : flat (pre ++ node :: post) = true)
    (hw : wroteB x (trSs p f pre st) = true)
    (hr : rbwB x (trSs p f' (node :: post) st1) = true)
    (hok : rawOK c x (node :: post)) :
    x ∈ names (readAfterWrite c (pre ++ node :: post) (sizeL pre)) := by
  have hf' : flat pre = true ∧ flat (node :: post) = true := by
    simp [flat] at hflat ⊢
    exact ⟨hflat.1, hflat.2.1, hflat.2.2⟩
  rw [sizeL_flat hf'.1]
  unfold readAfterWrite
  rw [frL_append, frL_pre c _ pre _ hf'.1 rfl (by simp)]
  apply frL_post p c pre.length x (node :: post) f' st1 _ hf'.2 (Or.inr (by simp)) _ hok hr
  -- the candidate set contains x
  show (x, "") ∈ findWrites c (pre ++ node :: post) pre.length
  rw [findWrites_flat c pre node post hflat]
  have hd : x ∈ names (bodyDU c pre).1 := by
    rcases (invA p c f).stmts pre st x hw with h | h
    · exact h
    · rw [loopVarsL_flat hf'.1] at h; cases h
  rw [bodyDU_fst, duL_flatMap] at hd
  have hek : EK (pre.flatMap (fun s => (du c s).1)) := by
    intro v hv
    obtain ⟨s, hs, hvs⟩ := List.mem_flatMap.mp hv
    have := EK_duL c pre (coveredL_flat hf'.1) (du c s) (mem_duL_of_mem c hs)
    exact this.1 v hvs
  exact mem_of_names_EK hek hd

/-- non-vacuity: `x = 1 ; <pragma> ; y = x` — hypotheses hold and `x` is reported -/
example : names (readAfterWrite ⟨⟨[], "k"⟩, false⟩
    [.assign (.var "x") (.lit (.int 1)), .nop "pragma" "loki mark", .assign (.var "y") (.var "x")] 1) = ["x"] := by
  decide

/-! ### non-vacuity: `do i = …; s = s + y(i); end do` is outside every class and the accumulator is reported -/

example : knownUL ⟨⟨[], "k"⟩, false⟩ "s"
    [.assign (.var "s") (.bin .add (.var "s") (.idx "y" [.var "i"]))] = false := by decide

example : names (lcd ⟨⟨[], "k"⟩, false⟩ (.doLoop "i" (.lit (.int 1)) (.var "n") none
    [.assign (.var "s") (.bin .add (.var "s") (.idx "y" [.var "i"]))])) = ["s"] := by decide

end LokiModel.C27
