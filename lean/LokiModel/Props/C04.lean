import LokiModel.C04.Lines
import LokiModel.C04.Quotes
import LokiModel.C04.Unwrap
import LokiModel.Generated.C04Tables
/-!
# C04 — generated Fortran respects free-form line limits without altering tokens (property theorems)

Model: `LokiModel/C04/Model.lean` (`JoinableStringList` and `Stringifier.format_line` as coded).

* `C04_patterns_pinned` — the two regular expressions the scanners were written against are those of the code.
* `C04_chunks_lossless` — the chunker loses no character (all strings).
* `C04_width` — **all** item trees (any nesting), separators, widths, continuation strings, fuel: every physical
  line of `str(list)` is shorter than the width, or it is `cont[1] + one single chunk (+ head of cont[0])`.
* `C04_width_ok` — the positive form: if no line consisting of `cont[1]` and one chunk is too long, every line fits.
* `C04_str_item` — what `_add_item_to_line` does with a string item (the three cases), for every fuel.
* `C04_chunk_bounds_outside_literals`, `C04_tokens` — chunk boundaries and character literals (full since the fix).
* `C04_unwrap_id_partial` — removing the continuation markers, lists of strings.
-/
namespace LokiModel.C04

/-- the regular expressions the scanners `chunks` / `splitSep` were written against are the ones in the code -/
theorem C04_patterns_pinned :
    Generated.quotedPattern = "(?:'(?:[^'\\n]|'')*')|(?:\"(?:[^\"\\n]|\"\")*\")" ∧ Generated.chunkSepPattern = "(\\s|\\)(?!%)|\\n)" := by
  decide

/-- the free-form Fortran line width is what the Fortran styles use -/
theorem C04_style_widths :
    Generated.styles = [("DefaultStyle", 90, " "), ("FortranStyle", 132, " "), ("IFSFortranStyle", 132, " ")] := by
  decide

/-- **the chunker loses no character**: concatenating `chunk_list` gives back `item_str`, for every string -/
theorem C04_chunks_lossless (s : Str) : (chunks s).flatten = s := chunks_flatten s

/-- a physical line is acceptable: shorter than the width, or `cont[1]` + one single chunk (+ the head of `cont[0]`) -/
def LineOk (cfg : Cfg) (hd : Str) (l : Str) : Prop :=
  l.length < cfg.W ∨ ∃ c, IsChunk c ∧ (l ∈ physLines (cfg.c1 ++ c ++ hd) ∨ l ∈ physLines (cfg.c1 ++ c))

theorem linesOk_of_good (cfg : Cfg) (hd : Str) (hc0 : cfg.c0 = hd ++ ['\n']) (lines : List Str) (line : Str)
    (hs : ∀ l ∈ lines, GoodSeg cfg l) (hl : GoodCur cfg line) :
    ∀ l ∈ physLines (lines.flatten ++ line), LineOk cfg hd l := by
  have hlen : cfg.c0.length = hd.length + 1 := by rw [hc0]; simp
  induction lines with
  | nil =>
    intro l hl'
    simp only [List.flatten_nil, List.nil_append] at hl'
    rcases hl with hf | ⟨c, hc, rfl⟩
    · left
      have := physLines_len line l hl'
      unfold Fits at hf; omega
    · exact Or.inr ⟨c, hc, Or.inr hl'⟩
  | cons a rest ih =>
    obtain ⟨b, rfl, hb⟩ := hs a (List.mem_cons_self ..)
    have ih' := ih (fun l h => hs l (List.mem_cons_of_mem _ h))
    intro l hl'
    have e : ((b ++ cfg.c0) :: rest).flatten ++ line = (b ++ hd) ++ '\n' :: (rest.flatten ++ line) := by
      rw [hc0]; simp
    rw [e, physLines_append_nl] at hl'
    rcases List.mem_append.1 hl' with h | h
    · rcases hb with hf | ⟨c, hc, rfl⟩
      · left
        have := physLines_len _ l h
        unfold Fits at hf; simp at this; omega
      · exact Or.inr ⟨c, hc, Or.inl h⟩
    · exact ih' l h

/-- **C04, line width (full strength, all nesting depths)**: for every list (items, separators, `separable` flags at
any depth), every width and continuation string whose first part ends with the newline, and every fuel with which
the model terminates: every physical line of `str(list)` is shorter than the width, or it consists of `cont[1]`, one
single chunk of the chunker and possibly the head of `cont[0]` (an unbreakable over-long chunk). -/
theorem C04_width (n : Nat) (cfg : Cfg) (hd : Str) (items : List Item) (sep : Str) (b : Bool) (s : Str)
    (hc0 : cfg.c0 = hd ++ ['\n']) (hW : cfg.c0.length ≤ cfg.W)
    (h : render n cfg (.jsl items sep b) = .ok s) :
    ∀ l ∈ physLines s, LineOk cfg hd l := by
  cases n with
  | zero => simp [render, strItem] at h
  | succ n =>
    simp only [render, strItem] at h
    split at h
    · simp at h; subst h
      intro l hl; simp [physLines] at hl; subst hl
      left; simp; rw [hc0] at hW; simp at hW; omega
    · cases hr : toStrLoop n cfg sep b items [] [] false with
      | error e => rw [hr] at h; simp [Except.map] at h
      | ok r =>
        rw [hr] at h; simp [Except.map] at h; subst h
        have hg := (width_inv cfg n).2.2 _ _ _ _ _ _ _ hr (Or.inl (by unfold Fits; simpa using hW)) (by simp)
        cases r with
        | done ls l =>
          exact linesOk_of_good cfg hd hc0 ls l hg.2 hg.1
        | stopped l it =>
          have := linesOk_of_good cfg hd hc0 [] l (by simp) hg
          simpa [LoopRes.text] using this

/-- **C04, line width, positive form**: if in addition no line made of `cont[1]`, one chunk and the head of `cont[0]`
reaches the width, every physical line of `str(list)` is shorter than the width. -/
theorem C04_width_ok (n : Nat) (cfg : Cfg) (hd : Str) (items : List Item) (sep : Str) (b : Bool) (s : Str)
    (hc0 : cfg.c0 = hd ++ ['\n']) (hW : cfg.c0.length ≤ cfg.W)
    (hchunks : ∀ c, IsChunk c → (∃ l ∈ physLines s, l ∈ physLines (cfg.c1 ++ c ++ hd) ∨ l ∈ physLines (cfg.c1 ++ c)) →
        (cfg.c1 ++ c ++ hd).length < cfg.W)
    (h : render n cfg (.jsl items sep b) = .ok s) :
    ∀ l ∈ physLines s, l.length < cfg.W := by
  intro l hl
  rcases C04_width n cfg hd items sep b s hc0 hW h l hl with h1 | ⟨c, hc, h2⟩
  · exact h1
  · have hb := hchunks c hc ⟨l, hl, h2⟩
    rcases h2 with h2 | h2
    · exact Nat.lt_of_le_of_lt (physLines_len _ l h2) hb
    · have := physLines_len _ l h2
      simp at this hb; omega

/-- non-vacuity: the Fortran continuation at indentation 2 and width 132 satisfies the hypotheses -/
example : ∃ cfg, mkCfg 132 " &\n  & ".toList = .ok cfg ∧ cfg.c0 = " &".toList ++ ['\n'] ∧ cfg.c0.length ≤ cfg.W := by
  refine ⟨⟨132, " &\n".toList, "  & ".toList⟩, by rfl, by decide, by decide⟩

/-! ## chunk boundaries and character literals (the token part) -/

/-- a string whose character literals are all closed, on one line -/
def WellQuoted (s : Str) : Prop := litState none s = none ∧ '\n' ∉ s

/-- two consecutive chunks of `s` meet between two equal quote characters (the former known class
`doubled-quote-split`: before the `fix:` commit the pattern `'.*?'` ended a match at the first quote of a doubled quote
and started the next match at the second) -/
def dqChunks (s : Str) : Bool := anyAdj dqPair (chunks s)

/-- **every chunk boundary lies outside the character literals** (Fortran reading of the quotes: `litState`), for
every well-quoted string: the wrapper never breaks at a blank or `)` that is inside a literal, nor inside a literal. -/
theorem C04_chunk_bounds_outside_literals (s : Str) (h : WellQuoted s) : boundsOut none (chunks s) :=
  (chunksAux_ok s [] none h.2 (by simp) h.1 (by simp)).bounds

/-- **token statement at chunk level (full strength since the `fix:` commit)**: for every well-quoted string every
chunk boundary is outside the character literals *and* no boundary separates the two quotes of a doubled quote — a
character literal, doubled quotes included, is one chunk; so a free-form continuation inserted at a chunk boundary never
falls inside a literal.  Still missing for the token statement of C04 as a whole (checked by the correspondence and
the tokenizer oracle only): that a blank, a `)` or a quote next to such a boundary is a Fortran token boundary (no Lean
lexer), and that line breaks of nested lists fall on item or chunk boundaries (for lists of strings see
`C04_unwrap_id_partial` / `C04_str_item`). -/
theorem C04_tokens (s : Str) (h : WellQuoted s) : boundsOut none (chunks s) ∧ dqChunks s = false :=
  have := chunksAux_ok s [] none h.2 (by simp) h.1 (by simp)
  ⟨this.bounds, this.nodq⟩

/-- the former witness is now one chunk -/
example : chunks "'it''s'".toList = ["'it''s'".toList] := by decide

/-- non-vacuity: a literal with blanks, a `)`, a doubled quote and the other quote kind inside is well quoted -/
example : WellQuoted "x = 'a b) ''\"c'".toList := ⟨by decide, by decide⟩
example : chunks "x = 'a b) ''\"c'".toList = ["x".toList, " ".toList, "=".toList, " ".toList, [], "'a b) ''\"c'".toList] := by
  decide

/-! ## string items -/

/-- **string items**: whenever the model of `_add_item_to_line` terminates on a string item, the result is: the item
appended if that leaves room for `cont[0]`; else the item on a new line if it fits there; else the chunks of the item
placed greedily (`chunkPath`).  (All lines, strings, widths, fuels.) -/
theorem C04_str_item (n : Nat) (cfg : Cfg) (line t : Str) (r : Str × List Str)
    (h : addItem n cfg line (.str t) = .ok r) : r = addStrItem cfg line t := addItem_str n cfg line t r h

/-- and it does terminate with two units of fuel -/
theorem C04_str_item_terminates (n : Nat) (cfg : Cfg) (line t : Str) :
    addItem (n + 2) cfg line (.str t) = .ok (addStrItem cfg line t) := by
  simp only [addItem, strItem, trySplit, flatItem, bind, Except.bind, pure, Except.pure]
  unfold addStrItem
  split
  · rfl
  · split <;> rfl

/-! ## removing the continuation markers -/

/-- **unwrap identity, lists of strings (partial: no nested lists)**: for every list of strings, separator, width,
continuation and fuel with which the model terminates, `str(list)` is the text `flatContent sep items` (the non-empty
items, each followed by `sep` unless it is the last entry) cut into pieces `ps` that are joined by `cont[0] ++ cont[1]`
(`joinR`, pieces listed last first): `ps.flatten` is exactly the text — no character, not even a blank, is added or
dropped at a break.  Missing: nested lists (not proved; since the `_flat` fix no counterexample is known, the oracle checks the
identity on every generated tree), and that the cuts are chunk/item boundaries. -/
theorem C04_unwrap_id_partial (n : Nat) (cfg : Cfg) (ts : List Str) (sep : Str) (b : Bool) (s : Str)
    (h : render n cfg (.jsl (ts.map Item.str) sep b) = .ok s) :
    ∃ rps : List Str, rps ≠ [] ∧ joinR cfg rps = s ∧ rps.reverse.flatten = flatContent sep ts := by
  cases n with
  | zero => simp [render, strItem] at h
  | succ n =>
    simp only [render, strItem] at h
    split at h
    · next he =>
      simp at h; subst h
      have : ts = [] := by cases ts <;> simp_all
      subst this
      exact ⟨[[]], by simp, by simp [joinR], by simp [flatContent]⟩
    · cases hr : toStrLoop n cfg sep b (ts.map Item.str) [] [] false with
      | error e => rw [hr] at h; simp [Except.map] at h
      | ok r =>
        rw [hr] at h; simp [Except.map] at h; subst h
        obtain ⟨ls, l, rfl, hw⟩ := flat_loop cfg sep b n ts [] [] [] r hr (Wr.start [])
        obtain ⟨rps, hne, h1, h2⟩ := hw.text
        exact ⟨rps, hne, by simpa [LoopRes.text] using h1, by simpa using h2⟩

/-- non-vacuity: a list of strings that wraps -/
example : render 100 ⟨14, " &\n".toList, " & ".toList⟩
    (Item.jsl (["aaaa".toList, "bbbb".toList, "cccc".toList].map Item.str) ", ".toList true)
    = .ok "aaaa,  &\n & bbbb,  &\n & cccc".toList := by rfl

/-! ## `str()` no longer raises on the former crash witness -/

/-- the witness of the former class `split-none-crash` (a nested list `['a', 'x'*40, '']` with separator `','` at
width 20) now prints: the over-long chunk stays alone on its continuation line -/
theorem C04_former_crash_witness :
    render 100 ⟨20, " &\n".toList, " & ".toList⟩
      (Item.jsl [Item.jsl [.str "a".toList, .str (List.replicate 40 'x'), .str []] ",".toList true] [] true)
      = .ok ("a, &\n & ".toList ++ List.replicate 40 'x' ++ [',']) := by rfl

end LokiModel.C04
