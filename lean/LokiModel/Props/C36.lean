import LokiModel.C36.Lemmas
/-!
# C36 — Fortran-to-Python transpilation preserves behaviour (property theorems, expression level and loop headers)

`py_eval_eq_partial`: for every meaning tree and every valuation under which the Fortran value exists and which is in neither
expression class (`KnownPyExpr`: an integer/integer quotient, an integer raised to a negative integer), CPython's value of the
tree is the Fortran value.  The tree is the meaning `den t` of the Loki tree `t`; that the *text* `pygen` prints for `t`
(`printPy`, checked token for token against the real `PyCodeMapper` on every run) is read back by Python as that tree is checked
per generated tree with CPython's own parser (`ast`), it is **not** proved here (for the Fortran and C printers it is: C06) —
hence `_partial`.  `LokiModel/Findings/C36.lean` has the witnesses that the statement fails inside the classes.

Loop headers: `pyrange_eq_doSeq_nostep`, `pyrange_eq_doSeq_unit`, `pyrange_eq_doSeq_divisible` — the `range(s, e + st, st)` printed
by `PyCodegen.visit_Loop` visits the Fortran DO sequence when the step is absent, `±1`, or divides `e - s`; for other steps it may
not (class `py-loop-step`, witness in Findings).  Subscripts: `py_index_shift`.
-/
namespace LokiModel.C36
open LokiModel.Expr LokiModel.C06 LokiModel.C10

/-- **C36, expressions (partial: the printer ⇄ Python grammar step is checked per case, not proved)** -/
theorem py_eval_eq_S (env : Env) (s : S) : ∀ v, evalS env s = some v → KnownPyExpr env s = false →
    evalPy env s = some v := by
  induction s with
  | int n => intro v h _; simpa [evalS, evalPy] using h
  | real t => intro v h _; simpa [evalS, evalPy] using h
  | var x => intro v h _; simpa [evalS, evalPy] using h
  | bool b => intro v h _; simpa [evalS, evalPy] using h
  | neg a iha =>
    intro v h hk
    simp only [evalS] at h
    obtain ⟨x, hx, hv⟩ := bind_some h
    simp only [KnownPyExpr] at hk
    simp [evalPy, iha x hx hk, hv]
  | not a iha =>
    intro v h hk
    simp only [evalS] at h
    obtain ⟨x, hx, hv⟩ := bind_some h
    simp only [KnownPyExpr] at hk
    simp [evalPy, iha x hx hk, hv]
  | add a b iha ihb =>
    intro v h hk
    simp only [evalS] at h
    obtain ⟨x, y, hx, hy, hv⟩ := bin_some h
    simp only [KnownPyExpr, Bool.or_eq_false_iff] at hk
    simp [evalPy, iha x hx hk.1, ihb y hy hk.2, bin, hv]
  | sub a b iha ihb =>
    intro v h hk
    simp only [evalS] at h
    obtain ⟨x, y, hx, hy, hv⟩ := bin_some h
    simp only [KnownPyExpr, Bool.or_eq_false_iff] at hk
    simp [evalPy, iha x hx hk.1, ihb y hy hk.2, bin, hv]
  | mul a b iha ihb =>
    intro v h hk
    simp only [evalS] at h
    obtain ⟨x, y, hx, hy, hv⟩ := bin_some h
    simp only [KnownPyExpr, Bool.or_eq_false_iff] at hk
    simp [evalPy, iha x hx hk.1, ihb y hy hk.2, bin, hv]
  | cmp o a b iha ihb =>
    intro v h hk
    simp only [evalS] at h
    obtain ⟨x, y, hx, hy, hv⟩ := bin_some h
    simp only [KnownPyExpr, Bool.or_eq_false_iff] at hk
    simp [evalPy, iha x hx hk.1, ihb y hy hk.2, bin, hv]
  | div a b iha ihb =>
    intro v h hk
    simp only [evalS] at h
    obtain ⟨x, y, hx, hy, hv⟩ := bin_some h
    simp only [KnownPyExpr, Bool.or_eq_false_iff] at hk
    obtain ⟨⟨ka, kb⟩, kc⟩ := hk
    rw [hx, hy] at kc
    simp [evalPy, iha x hx ka, ihb y hy kb, bin, pyDiv_eq x y v hv kc]
  | pow a b iha ihb =>
    intro v h hk
    simp only [evalS] at h
    obtain ⟨x, y, hx, hy, hv⟩ := bin_some h
    simp only [KnownPyExpr, Bool.or_eq_false_iff] at hk
    obtain ⟨⟨ka, kb⟩, kc⟩ := hk
    rw [hx, hy] at kc
    simp [evalPy, iha x hx ka, ihb y hy kb, bin, pyPow_eq x y v hv kc]
  | and a b iha ihb =>
    intro v h hk
    simp only [evalS] at h
    obtain ⟨x, y, hx, hy, hv⟩ := bin_some h
    simp only [KnownPyExpr, Bool.or_eq_false_iff] at hk
    cases x <;> cases y <;> simp [Val.land] at hv
    rename_i p q
    subst hv
    simp only [evalPy, iha _ hx hk.1, ihb _ hy hk.2]
    cases p <;> simp
  | or a b iha ihb =>
    intro v h hk
    simp only [evalS] at h
    obtain ⟨x, y, hx, hy, hv⟩ := bin_some h
    simp only [KnownPyExpr, Bool.or_eq_false_iff] at hk
    cases x <;> cases y <;> simp [Val.lor] at hv
    rename_i p q
    subst hv
    simp only [evalPy, iha _ hx hk.1, ihb _ hy hk.2]
    cases p <;> simp

/-- the same for the meaning of a Loki tree -/
theorem py_eval_eq_partial (env : Env) (t : E) (v : Val) (h : evalS env (den t) = some v)
    (hk : KnownPyExpr env (den t) = false) : evalPy env (den t) = some v :=
  py_eval_eq_S env (den t) v h hk

/-- the class is exact at the root: an integer/integer quotient that Fortran can evaluate *never* has the Fortran value in
Python (it is a `float`, and a different number unless the division is exact) -/
theorem py_int_quotient_differs (env : Env) (a b : S) (i j : Int) (ha : evalPy env a = some (.int i))
    (hb : evalPy env b = some (.int j)) (fa : evalS env a = some (.int i)) (fb : evalS env b = some (.int j)) (hj : j ≠ 0) :
    evalPy env (.div a b) ≠ evalS env (.div a b) := by
  simp [evalPy, evalS, ha, hb, fa, fb, bin, pyDiv, Val.div, Val.arith, Val.toRat?, hj]

/-- non-vacuity: a tree with a product, an integer power and a comparison is outside the classes and has a value
(no rational arithmetic in the example: `Rat` operations do not reduce under `decide`) -/
example : let env : Env := ⟨fun x => if x = "i" then some (.int 7) else none, fun _ => 2⟩
    let s : S := .cmp .lt (.add (.mul (.var "i") (.int 2)) (.pow (.var "i") (.int 2))) (.int 64)
    KnownPyExpr env s = false ∧ evalS env s = some (.bool true) ∧ evalPy env s = some (.bool true) := by decide

/-! ### loop headers -/

/-- `DO v = s, e` → `range(s, e + 1)` -/
theorem pyrange_eq_doSeq_nostep (s e : Int) : loopRange s e none = some (doSeq s e 1) := by
  have := C10_getPyrange_nostep_aux s e
  simpa [loopRange] using this
where
  C10_getPyrange_nostep_aux (s e : Int) : pyRange s (e + 1) 1 = some (doSeq s e 1) := by
    simp only [pyRange, doSeq, tripCount, pyRangeLen]
    simp
    congr 2
    omega

/-- `DO v = s, e, c` → `range(s, e + c, c)` is the DO sequence whenever `c` divides `e - s` -/
theorem pyrange_eq_doSeq_divisible (s e c k : Int) (hc : c ≠ 0) (hk : e - s = k * c) :
    loopRange s e (some c) = some (doSeq s e c) := by
  have e1 : e - s + c = (k + 1) * c := by rw [Int.add_mul, hk]; omega
  have ht : (e - s + c).tdiv c = k + 1 := by rw [e1, Int.mul_tdiv_cancel _ hc]
  simp only [loopRange, pyRange, hc, if_false, doSeq, tripCount, ht, pyRangeLen]
  by_cases hp : 0 < c
  · simp only [hp, if_true]
    have : e + c - s + c - 1 = (k + 1) * c + (c - 1) := by omega
    rw [this, Int.add_comm, Int.add_mul_ediv_right _ _ hc, Int.ediv_eq_zero_of_lt (by omega) (by omega)]
    simp
  · have hn : c < 0 := by omega
    simp only [hp, if_false, hn, if_true]
    have : s - (e + c) + -c - 1 = (-(k + 1)) * c + (-c - 1) := by
      have : -(k + 1) * c = -((k + 1) * c) := Int.neg_mul _ _
      omega
    rw [this]
    have h2 : (-(k + 1) * c + (-c - 1)) / -c = (k + 1) := by
      have e3 : -(k + 1) * c = (k + 1) * (-c) := by rw [Int.neg_mul, Int.mul_neg]
      rw [e3, Int.add_comm, Int.add_mul_ediv_right _ _ (by omega), Int.ediv_eq_zero_of_lt (by omega) (by omega)]
      simp
    rw [h2]

/-- steps `1` and `-1` -/
theorem pyrange_eq_doSeq_unit (s e c : Int) (hc : c = 1 ∨ c = -1) :
    loopRange s e (some c) = some (doSeq s e c) := by
  rcases hc with rfl | rfl
  · exact pyrange_eq_doSeq_divisible s e 1 (e - s) (by omega) (by omega)
  · exact pyrange_eq_doSeq_divisible s e (-1) (-(e - s)) (by omega) (by omega)

/-- outside the class `py-loop-step` (decidable) the header is right — by definition of the class; the three theorems above say
which steps are never in it -/
theorem pyrange_eq_doSeq_partial (s e c : Int) (h : KnownPyRangeStep s e c = false) :
    loopRange s e (some c) = some (doSeq s e c) := by
  simpa [KnownPyRangeStep] using h

example : KnownPyRangeStep 1 7 2 = false ∧ KnownPyRangeStep 5 1 (-1) = false ∧ KnownPyRangeStep 9 1 (-4) = false := by decide

/-! ### subscripts -/

/-- `shift_to_zero_indexing`: the subscript `i - 1` written for `a(i)` is the 0-based position of `i` exactly when the declared
lower bound is 1 (a numpy array argument carries no lower bound) -/
theorem py_index_shift (lo i : Int) : shiftIdx i = zeroPos lo i ↔ lo = 1 := by
  simp only [shiftIdx, zeroPos]; omega

end LokiModel.C36
