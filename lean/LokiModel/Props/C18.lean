import LokiModel.Props.C17
import LokiModel.C18.Att
import LokiModel.C17.Attrs
/-!
# C18 — pickling round trip (property theorems on the C17 heap model in pickle mode)
-/
namespace LokiModel.C18
open LokiModel.C17

/-- **the round trip establishes ownership** — for ALL heaps with the invariant, all units and fuel values: every existing cell keeps
its owner, the unpickled root is owned by the copy (tag 2), every cell the round trip allocates keeps its strong references in the
copy and its parent / table-parent references in the copy or the environment -/
theorem unpickle_inv (f : Nat) (h : Heap) (u : Addr) (hi : Inv h) :
    Le h (unpickle f h u).1 ∧ Inv (unpickle f h u).1 ∧ (unpickle f h u).1.tagOf (unpickle f h u).2 = some 2 :=
  copyUnit_ok pickleMode (by decide) f h none u hi (fun _ e => by cases e)

/-- **symbols are attached inside the unpickled unit**: after the round trip EVERY symbol occurrence of EVERY node cell of the copy
is attached to a scope object owned by the copy (or the environment — unreachable, the unpickled root has no parent), for all heaps
with the ownership invariant in which the copy's owner tag is fresh (`AttInv`, e.g. no cell tagged 2), all units, all fuel — provided
every symbol name is declared in the new scope chain (ghost flag clear; compared by the correspondence on every case).  Since the
repairs of `Subroutine.__setstate__` (members re-attached) and `AttachScopesMapper` (derived-type symbols) no symbol may stay unattached. -/
theorem unpickle_attached (f : Nat) (h : Heap) (u : Addr) (hi : Inv h) (ha : AttInv h) (hres : (unpickle f h u).1.unres = false)
    (a : Addr) (lbl : String) (sc : Option (Addr × Option Addr)) (syms : List Sym) (kids : List Addr)
    (hc : (unpickle f h u).1.cells[a]? = some (2, .node lbl sc syms kids)) (s : Sym) (hs : s ∈ syms) :
    ∃ r, s.scope = some r ∧ ((unpickle f h u).1.tagOf r = some 2 ∨ (unpickle f h u).1.tagOf r = some 0) := by
  have hatt : s.scope.isSome = true := by
    rcases copyUnit_att pickleMode rfl f h none u ha with e | e
    · have e' : (unpickle f h u).1.unres = true := e
      rw [hres] at e'; cases e'
    · exact e a lbl sc syms kids hc s hs
  cases hsc : s.scope with
  | none => rw [hsc] at hatt; cases hatt
  | some r =>
    refine ⟨r, rfl, ?_⟩
    have g := ((unpickle_inv f h u hi).2.1 a 2 _ hc).1 (by decide)
    have hm : r ∈ symRefs (.node lbl sc syms kids) := by
      simp only [symRefs, List.mem_filterMap]; exact ⟨s, hs, hsc⟩
    rcases g.2.2 r hm with e | e | e
    · exact Or.inl e
    · exact Or.inr e
    · rw [hres] at e; cases e

/-- a heap without cells owned by the copy satisfies `AttInv` (what the exporter produces) -/
theorem attInv_of_fresh (h : Heap) (hf : ∀ (a : Nat) (c : Cell), h.cells[a]? ≠ some (2, c)) : AttInv h :=
  Or.inr fun a _ _ _ _ hc => absurd hc (hf a _)

/-- the round trip keeps kind, name and the attribute record of the unit (its parent is dropped) -/
theorem unpickle_attrs (f : Nat) (h : Heap) (u : Addr) {isMod : Bool} {name : String} {attrs : List String} {p : Option Addr} {t : Addr}
    {secs mems : List Addr} (e : h.get u = some (.unit isMod name attrs p t secs mems)) :
    ∃ t' secs' mems', (unpickle (f + 1) h u).1.get (unpickle (f + 1) h u).2 = some (.unit isMod name attrs none t' secs' mems') :=
  copyUnit_attrs pickleMode f h none u e

/-- **nothing mutable is shared with the original** (partial): what is reachable from the original (owner 1) and from the unpickled
copy (owner 2) through strong references and typedef links is environment only — given the typedef links respect ownership
(`TdefClosed`; the model's pickle mode drops them, real pickle copies the `TypeDef`; the heap walker checks the real objects). -/
theorem unpickle_fresh_partial (f : Nat) (h : Heap) (u : Addr) (hi : Inv h) (hu : h.tagOf u = some 1)
    (ht : TdefClosed (unpickle f h u).1) {a : Addr}
    (ro : Reach (unpickle f h u).1 u a) (rc : Reach (unpickle f h u).1 (unpickle f h u).2 a) :
    (unpickle f h u).1.tagOf a = some 0 := by
  obtain ⟨l, i, t⟩ := unpickle_inv f h u hi
  exact clone_footprint_disjoint_partial i ht (l.1 _ _ hu) t (by decide) ro rc

end LokiModel.C18
