import LokiModel.C41.Lemmas
import LokiModel.C40.AbstractLemmas
/-!
# C41 — the modelled normalisers leave a well-formed program (property theorems)

`wf` is `LokiModel.C41.wf` (declared-or-associated variables, call signatures, subscript counts, integer DO variables;
case-insensitive look-ups).  The real-side oracle checks every registered built-in transformation (scope chains, declared or
imported, frontend re-parse, `gfortran -fsyntax-only`).
-/
namespace LokiModel.C41
open LokiModel.Fir LokiModel.C40

/-- lower-casing does not change well-formedness at all -/
theorem lower_wf_eq (p : Program) : wf (lowerProgram p) = wf p := by
  simp [wf, lowerProgram, sigsOf_lower, wfUnits_lower]

theorem lower_wf (p : Program) (h : wf p = true) : wf (lowerProgram p) = true := by
  rw [lower_wf_eq]; exact h

/-- dead-code removal (`use_simplify=False`), whenever it returns -/
theorem deadcode_wf (p q : Program) (h : wf p = true) (hq : deadProgram p = some q) : wf q = true := by
  unfold deadProgram at hq
  split at hq
  · cases hq
  · cases hq
    simp only [wf, sigsOf_dead]
    exact wfUnits_dead _ _ h

theorem elimOne_keeps (used : List String) (i : Imp) (s : String) (h : s ∈ i.syms.getD []) (hu : isUsed used s = true) :
    ∃ i', elimOne used i = some i' ∧ s ∈ i'.syms.getD [] := by
  unfold elimOne
  cases hs : i.syms with
  | none => simp [hs] at h
  | some ss =>
      simp only [hs, Option.getD_some] at h
      have hmem : s ∈ ss.filter (isUsed used) := List.mem_filter.mpr ⟨h, hu⟩
      simp only
      by_cases he : (ss.filter (isUsed used)).isEmpty = true
      · simp [List.isEmpty_iff.mp he] at hmem
      · simp only [he, if_false]
        by_cases hl : (ss.filter (isUsed used)).length < ss.length
        · exact ⟨{ i with syms := some (ss.filter (isUsed used)) }, by simp [hl], by simp only [Option.getD_some]; exact hmem⟩
        · exact ⟨i, by simp [hl], by simpa [hs] using h⟩

theorem elimAll_keeps (used : List String) : ∀ imps s, s ∈ importedSyms imps → isUsed used s = true →
    s ∈ importedSyms (elimAll used imps)
  | [], s, h, _ => by simp [importedSyms] at h
  | i :: is, s, h, hu => by
      simp only [importedSyms, List.mem_append] at h
      have ih := elimAll_keeps used is s
      cases h with
      | inl h1 =>
          obtain ⟨i', he, hm⟩ := elimOne_keeps used i s h1 hu
          simp only [elimAll, he, importedSyms, List.mem_append]
          left; exact hm
      | inr h1 =>
          cases he : elimOne used i with
          | none => simp only [elimAll, he]; exact ih h1 hu
          | some i' => simp only [elimAll, he, importedSyms, List.mem_append]; right; exact ih h1 hu

/-- import sanitising keeps every imported name the scope uses (`_partial`: says nothing about names that come in through a
USE statement without ONLY list — the real code drops such statements, see `Findings/C41.lean`; what is missing for the full
statement "every used name stays imported" is exactly the class `KnownBareUse`) -/
theorem sanitise_imports_keeps_partial (used : List String) (imps : List Imp) (s : String)
    (h : s ∈ importedSyms imps) (hu : isUsed used s = true) : s ∈ importedSyms (elimImports used imps) := by
  unfold elimImports
  split
  · exact h
  · exact elimAll_keeps used imps s h hu

/-- outside the known class the USE statements without ONLY list are all kept -/
theorem sanitise_imports_bare_partial (used : List String) (imps : List Imp) (h : KnownBareUse used imps = false) :
    bareModules (elimImports used imps) = bareModules imps ∨ bareModules imps = [] := by
  unfold KnownBareUse at h
  unfold elimImports
  cases hall : (importedSyms imps).all (isUsed used) with
  | true => left; simp
  | false =>
      right
      simp only [hall, Bool.not_false, Bool.and_true, Bool.not_eq_false'] at h
      exact List.isEmpty_iff.mp h

end LokiModel.C41
