import LokiModel.C41.Lemmas
import LokiModel.C40.AbstractLemmas
/-!
# C41 — the modelled normalisers leave a well-formed program (property theorems)

`wf` is `LokiModel.C41.wf` (declared-or-associated variables, call signatures, subscript counts, integer DO variables;
case-insensitive look-ups).  The real-side oracle checks every registered built-in transformation (scope chains, declared or
imported, frontend re-parse, `gfortran -fsyntax-only`).
-/
namespace LokiModel.C41
open LokiModel.Fir LokiModel.C40

/-- lower-casing does not change well-formedness at all -/
theorem lower_wf_eq (p : Program) : wf (lowerProgram p) = wf p := by
  simp [wf, lowerProgram, sigsOf_lower, wfUnits_lower]

theorem lower_wf (p : Program) (h : wf p = true) : wf (lowerProgram p) = true := by
  rw [lower_wf_eq]; exact h

/-- dead-code removal (`use_simplify=False`), whenever it returns -/
theorem deadcode_wf (p q : Program) (h : wf p = true) (hq : deadProgram p = some q) : wf q = true := by
  unfold deadProgram at hq
  split at hq
  · cases hq
  · cases hq
    simp only [wf, sigsOf_dead]
    exact wfUnits_dead _ _ h

theorem elimOne_keeps (used : List String) (i : Imp) (s : String) (h : s ∈ i.syms.getD []) (hu : isUsed used s = true) :
    ∃ i', elimOne used i = some i' ∧ s ∈ i'.syms.getD [] := by
  unfold elimOne
  split
  · rename_i hs; simp [hs] at h
  · rename_i hs; simp [hs] at h
  · rename_i s0 ss0 hs
    simp only [hs, Option.getD_some] at h
    generalize s0 :: ss0 = ss at h hs
    have hmem : s ∈ ss.filter (isUsed used) := List.mem_filter.mpr ⟨h, hu⟩
    simp only
    by_cases he : (ss.filter (isUsed used)).isEmpty = true
    · simp [List.isEmpty_iff.mp he] at hmem
    · simp only [he, if_false]
      by_cases hl : (ss.filter (isUsed used)).length < ss.length
      · exact ⟨{ i with syms := some (ss.filter (isUsed used)) }, by simp [hl], by simp only [Option.getD_some]; exact hmem⟩
      · exact ⟨i, by simp [hl], by simpa [hs] using h⟩

theorem elimAll_keeps (used : List String) : ∀ imps s, s ∈ importedSyms imps → isUsed used s = true →
    s ∈ importedSyms (elimAll used imps)
  | [], s, h, _ => by simp [importedSyms] at h
  | i :: is, s, h, hu => by
      simp only [importedSyms, List.mem_append] at h
      have ih := elimAll_keeps used is s
      cases h with
      | inl h1 =>
          obtain ⟨i', he, hm⟩ := elimOne_keeps used i s h1 hu
          simp only [elimAll, he, importedSyms, List.mem_append]
          left; exact hm
      | inr h1 =>
          cases he : elimOne used i with
          | none => simp only [elimAll, he]; exact ih h1 hu
          | some i' => simp only [elimAll, he, importedSyms, List.mem_append]; right; exact ih h1 hu

/-- import sanitising keeps every explicitly imported name the scope uses -/
theorem sanitise_imports_keeps (used : List String) (imps : List Imp) (s : String)
    (h : s ∈ importedSyms imps) (hu : isUsed used s = true) : s ∈ importedSyms (elimImports used imps) := by
  unfold elimImports
  split
  · exact h
  · exact elimAll_keeps used imps s h hu

def bareOf (i : Imp) : List String := if i.syms == some [] then [i.modname] else []

theorem elimOne_bare (used : List String) (i : Imp) (r : Option Imp) (h : elimOne used i = r) :
    (match r with | some i' => bareOf i' | none => []) = bareOf i := by
  unfold elimOne at h
  split at h
  · subst h; rfl
  · subst h; rfl
  · rename_i s0 ss0 hs
    simp only at h
    have hb : bareOf i = [] := by simp [bareOf, hs]
    generalize s0 :: ss0 = ss at h
    by_cases he : (ss.filter (isUsed used)).isEmpty = true
    · simp only [he, if_true] at h
      subst h; simp [hb]
    · simp only [he, if_false] at h
      by_cases hl : (ss.filter (isUsed used)).length < ss.length
      · have hne : (ss.filter (isUsed used)) ≠ [] := fun h0 => he (by simp [h0])
        simp only [hl, if_true] at h
        subst h
        simp [hb, bareOf, hne, hs]
      · simp only [hl, if_false] at h
        subst h; rfl

theorem elimAll_bare (used : List String) : ∀ imps, bareModules (elimAll used imps) = bareModules imps
  | [] => by simp [elimAll]
  | i :: is => by
      have ih := elimAll_bare used is
      simp only [elimAll]
      cases he : elimOne used i with
      | none =>
          have h1 := elimOne_bare used i _ he
          simp only at h1
          simp only [bareModules]
          rw [ih]
          simp only [bareOf] at h1
          rw [← h1]; rfl
      | some i' =>
          have h1 := elimOne_bare used i _ he
          simp only at h1
          simp only [bareModules, ih]
          simp only [bareOf] at h1
          rw [h1]

/-- every USE statement without ONLY list survives import sanitising (full since the repair of `eliminate_unused_imports`;
together with `sanitise_imports_keeps`: every name the scope uses that was available through its USE statements still is) -/
theorem sanitise_imports_bare (used : List String) (imps : List Imp) :
    bareModules (elimImports used imps) = bareModules imps := by
  unfold elimImports
  split
  · rfl
  · exact elimAll_bare used imps

theorem isUsed_append_right (a b : List String) (s : String) (h : isUsed b s = true) : isUsed (a ++ b) s = true := by
  simp only [isUsed, List.contains_eq_mem, List.mem_append, decide_eq_true_eq] at *
  exact Or.inr h

theorem isUsed_append_left (a b : List String) (s : String) (h : isUsed a s = true) : isUsed (a ++ b) s = true := by
  simp only [isUsed, List.contains_eq_mem, List.mem_append, decide_eq_true_eq] at *
  exact Or.inl h

/-- a routine with member procedures: a name the host imports explicitly stays imported by the host when the host itself OR ANY
MEMBER uses it (host association) — the members' names are collected before the host's imports are pruned -/
theorem sanitise_routine_keeps (sc : Scope1) (s : String) (h : s ∈ importedSyms sc.imps)
    (hu : isUsed sc.used s = true ∨ isUsed (membersUsed sc.members) s = true) :
    s ∈ importedSyms (sanitiseRoutine sc).imps := by
  simp only [sanitiseRoutine]
  apply sanitise_imports_keeps _ _ _ h
  cases hu with
  | inl h1 => exact isUsed_append_left _ _ _ h1
  | inr h1 => exact isUsed_append_right _ _ _ h1

/-- … and the host keeps its USE statements without ONLY list -/
theorem sanitise_routine_bare (sc : Scope1) : bareModules (sanitiseRoutine sc).imps = bareModules sc.imps := by
  simp only [sanitiseRoutine]
  exact sanitise_imports_bare _ _

end LokiModel.C41
