import LokiModel.C09.Bridge
import LokiModel.C09.Quot
/-!
# C09 — symbolic comparisons only answer what holds for all values (property theorems)

Model: `LokiModel/C09/Model.lean` (`symbolicOp` = `symbolic_op` with the part of `simplify` it calls).
Fragment `Frag`: unkinded integer literals, lower-case scalar variables, non-empty `Sum`s and `Product`s of them
(bare Python ints as operands inside).  Valuations: every variable an integer, names case-insensitive.

The full statement (`C09_full`: every definite answer holds under every valuation) is **false** of the code:
`symbolic_op(n, ==, 0)` is `False` (`C09_full_false` and more witnesses in `LokiModel/Findings/C09.lean`, not gating).
`C09_partial` / `C09_partial_no` prove it outside the decidable class `Known09` (`==` / `!=` asked about operands whose
simplified difference is not a literal), under the run-time side condition `SignZero a b = false` (no odd number of
minus signs was stripped from a literal zero — never observed; not proved unreachable).  A `raise` answer is
unconstrained.  `C09_simp_preserves` is the value preservation of the modelled `simplify` these rest on.
-/
namespace LokiModel.C09
open LokiModel.Expr LokiModel.C06

/-- the modelled `simplify` (all fuel values, fresh pymbolic node or not) preserves the integer value of every tree
under every valuation that does not distinguish the case of names — whenever it returns at all -/
theorem C09_simp_preserves (ρ : String → Int) (hρ : CaseInsens ρ) (f : Nat) (pm : Bool) (e r : E)
    (h : simp f pm e = some r) : ev ρ r = ev ρ e :=
  simp_ev ρ hρ f pm e r h

/-- the modelled `distribute_quotient` (the step of `simplify` that rewrites chained divisions, `(x/y)/d ↦ x/(y*d)`,
`(s + t)/d ↦ s/d + t/d`, `(-x)/d ↦ -(x/d)`) preserves the value of every tree under exact (rational) division, for every
rational valuation — whenever it returns.  `symbolic_op` on operands with quotients is otherwise outside the theorems
(`Frag` has no quotients): there the direct oracle speaks. -/
theorem C09_distq_preserves (ρ : String → Rat) (f : Nat) (pm : Bool) (e r : E)
    (h : distributeQuotient f pm e = some r) : evQ ρ r = evQ ρ e :=
  distq_ev ρ f pm e r h

/-- non-vacuity: `n/2/2 ↦ n/(2*2)`, `(a/b + c)/d ↦ a/(b*d) + c/d` -/
example : distributeQuotient DQFUEL false (.quot false (.quot false (.var "n") (.ilit 2)) (.ilit 2))
    = some (.quot false (.var "n") (.prod false [.ilit 2, .ilit 2])) := by rfl
example : distributeQuotient DQFUEL false (.quot false (.sum false [.quot false (.var "a") (.var "b"), .var "c"]) (.var "d"))
    = some (.sum false [.quot false (.var "a") (.prod false [.var "b", .var "d"]), .quot false (.var "c") (.var "d")]) := by
  rfl

/-- **C09 (partial), answer `True`**: for all fragment operands and all six operators, outside the known class, if the
modelled `symbolic_op` answers `True` then the comparison holds under every integer valuation. -/
theorem C09_partial (a b : E) (o : CmpOp) (ha : Frag a = true) (hb : Frag b = true)
    (hyes : symbolicOp a o b = .yes) (hk : Known09 a o b = false) (hz : SignZero a b = false) :
    ∀ env, IntEnv env → EnvCaseInsens env → evalS env (.cmp o (den a) (den b)) = some (.bool true) := by
  intro env hi hc
  rw [evalS_cmp env hi o a b ha hb, (answer_sound a b o _ (envInt_caseInsens hc) hk hz).1 hyes]

/-- **C09 (partial), answer `False`**: … if it answers `False` the comparison fails under every integer valuation.
What is missing for the full statement: the class `Known09` (the code guesses instead of raising), and a proof that
`SignZero` never holds. -/
theorem C09_partial_no (a b : E) (o : CmpOp) (ha : Frag a = true) (hb : Frag b = true)
    (hno : symbolicOp a o b = .no) (hk : Known09 a o b = false) (hz : SignZero a b = false) :
    ∀ env, IntEnv env → EnvCaseInsens env → evalS env (.cmp o (den a) (den b)) = some (.bool false) := by
  intro env hi hc
  rw [evalS_cmp env hi o a b ha hb, (answer_sound a b o _ (envInt_caseInsens hc) hk hz).2 hno]

/-- the full statement: every definite answer is right under every valuation -/
def C09_full : Prop :=
  ∀ (a b : E) (o : CmpOp), Frag a = true → Frag b = true →
    (symbolicOp a o b = .yes → ∀ env, IntEnv env → EnvCaseInsens env →
      evalS env (.cmp o (den a) (den b)) = some (.bool true)) ∧
    (symbolicOp a o b = .no → ∀ env, IntEnv env → EnvCaseInsens env →
      evalS env (.cmp o (den a) (den b)) = some (.bool false))

/-- every `==`/`!=` answer on operands with a literal difference, and every `< <= > >=` answer, is outside the class -/
theorem Known09_order (a b : E) (o : CmpOp) (ho : isOrder o = true) : Known09 a o b = false := by
  simp [Known09, ho]

/-- non-vacuity: definite answers outside the known class -/
example : symbolicOp (.ilit 3) .lt (.ilit 0) = .no ∧ Known09 (.ilit 3) .lt (.ilit 0) = false
    ∧ SignZero (.ilit 3) (.ilit 0) = false ∧ Frag (.ilit 3) = true := by decide
example : symbolicOp (.ilit 3) .lt (.ilit 5) = .yes := by decide
/-- `n < n + 1` is answered `True`, `n + 1 <= n` `False`, `2*(n+1) == n + n + 2` `True`; all outside the known class -/
example : symbolicOp (.var "n") .lt (.sum false [.var "n", .ilit 1]) = .yes
    ∧ Known09 (.var "n") .lt (.sum false [.var "n", .ilit 1]) = false
    ∧ SignZero (.var "n") (.sum false [.var "n", .ilit 1]) = false
    ∧ Frag (.sum false [.var "n", .ilit 1]) = true := by decide
example : symbolicOp (.sum false [.var "n", .ilit 1]) .le (.var "n") = .no := by decide
example : symbolicOp (.prod false [.ilit 2, .sum false [.var "n", .ilit 1]]) .eq (.sum false [.var "n", .var "n", .ilit 2]) = .yes
    ∧ Known09 (.prod false [.ilit 2, .sum false [.var "n", .ilit 1]]) .eq (.sum false [.var "n", .var "n", .ilit 2]) = false := by
  decide

end LokiModel.C09
