import LokiModel.C31.Unroll
import LokiModel.C31.Perm
/-!
# C31 — loop transformations preserve behaviour where they apply (property theorems)

**Unrolling.**  `unrollCopies v body ks` is what `LoopUnrollTransformer.visit_Loop` puts in place of `do v = lo, hi[, step]`
when `unrollRange lo hi step = some ks` (literal bounds and step; `ks` = `get_pyrange`, the C10 model, which by the C10
theorems is the Fortran DO sequence): one copy of the body per value, with `SubstituteExpressions({v: IntLiteral(k)})` applied
(`substStmts`; PRINT statements are *not* substituted, as in the real code where they are text).

`unroll_sound` (full strength for the covered class, all programs / states / fuel): for a body in the class `okSs v body`
— `v` is not assigned, not an inner DO variable, not used as an array name, not mentioned in a PRINT statement; no ASSOCIATE
and no CALL in the body — that has no EXIT / CYCLE of its own (`escapes body = false`), from every state without ASSOCIATE
names in which `v` is an integer scalar: if the loop finishes (with a state or with an error), the unrolled statement list
finishes too, with the same error, or with a state that has the same printed output and the same value in **every variable
other than `v`** (the loop leaves `lo + trips*step` in `v`, the unrolled code leaves `v` as it was).

The excluded inputs are exactly the places where the real transformation changes behaviour (classes `unroll-exit-cycle`,
`unroll-print-text`, `unroll-associate-body`, `unroll-loopvar-live`, witnesses in `Findings/C31.lean`) or where the proof was
not carried out (CALL in the body, loops inside ASSOCIATE: covered by the oracle only).
-/
namespace LokiModel.C31
open LokiModel.Fir
open LokiModel.Expr (Val)

/-- **C31, unrolling one loop (relational form)**: the loop run from `σ` and the unrolled list run from any `σ'` that agrees
with `σ` off the loop variable give results that agree off the loop variable (`ROff`: same error, or states related by `Off`,
both with signal `normal`). -/
theorem unroll_sound_rel (P : Program) (v : String) (lo hi : Ex) (step : Option Ex) (body : List Stmt) (ks : List Int)
    (hr : unrollRange lo hi step = some ks) (hok : okSs v body = true) (hesc : escapes body = false)
    (f : Nat) (σ σ' : St) (hoff : Off v σ σ') (hv : IntScalar σ v)
    (r : Res) (hrun : execStmt P f (.doLoop v lo hi step body) σ = r) (hfin : r.isFuel = false) :
    ∃ F r', execStmts P F (unrollCopies v body ks) σ' = r' ∧ ROff v r r' :=
  unroll_loop P v lo hi step body ks hr hok hesc f σ σ' hoff hv r hrun hfin

/-- **C31, unrolling one loop**: same start state; a finished loop is matched by the unrolled code on all variables other
than the loop variable and on the printed output. -/
theorem unroll_sound (P : Program) (v : String) (lo hi : Ex) (step : Option Ex) (body : List Stmt) (ks : List Int)
    (hr : unrollRange lo hi step = some ks) (hok : okSs v body = true) (hesc : escapes body = false)
    (f : Nat) (σ : St) (hal : σ.alias = []) (hv : IntScalar σ v) :
    (∀ σ1 sg, execStmt P f (.doLoop v lo hi step body) σ = .ok σ1 sg →
        sg = .normal ∧ ∃ F σ1', execStmts P F (unrollCopies v body ks) σ = .ok σ1' .normal ∧
          (∀ x, x ≠ v → lookupCell σ1 x = lookupCell σ1' x) ∧ σ1.out = σ1'.out) ∧
    (∀ m, execStmt P f (.doLoop v lo hi step body) σ = .err m →
        ∃ F, execStmts P F (unrollCopies v body ks) σ = .err m) := by
  have hoff : Off v σ σ := ⟨fun _ _ => rfl, hal, hal, rfl⟩
  constructor
  · intro σ1 sg hrun
    obtain ⟨F, r', hF, hro⟩ := unroll_loop P v lo hi step body ks hr hok hesc f σ σ hoff hv _ hrun rfl
    cases r' with
    | ok b s' =>
      obtain ⟨ho, h1, h2, _⟩ := hro
      subst h1; subst h2
      exact ⟨rfl, F, b, hF, ho.look, ho.out⟩
    | err m => exact hro.elim
    | fuel => exact hro.elim
  · intro m hrun
    obtain ⟨F, r', hF, hro⟩ := unroll_loop P v lo hi step body ks hr hok hesc f σ σ hoff hv _ hrun rfl
    cases r' with
    | ok b s' => exact hro.elim
    | err m' => simp only [ROff] at hro; subst hro; exact ⟨F, hF⟩
    | fuel => exact hro.elim

/-- the value list used by the transformation is the Fortran DO sequence of the literal bounds (C10), for every non-zero step -/
theorem unroll_range_is_do_sequence {lo hi : Ex} {step : Option Ex} {ks : List Int} (h : unrollRange lo hi step = some ks) :
    ∃ l hh s, constInt lo = some l ∧ constInt hi = some hh ∧ stepConst step = some s ∧ s ≠ 0 ∧
      ks = LokiModel.C10.doSeq l hh s := by
  obtain ⟨l, hh, s, h1, h2, h3, h4, h5⟩ := unrollRange_some h
  exact ⟨l, hh, s, h1, h2, h3, h4, by rw [h5, iterVals_doSeq]⟩

/-- statement-level substitution lemma (the lifting of `evalE_subst`): a covered statement run where `v = k` and its substituted
copy run in a state that agrees off `v` give related results with the same fuel -/
theorem subst_stmts_sim (P : Program) (v : String) (k : Int) (f : Nat) (ss : List Stmt) (σ σ' : St)
    (hok : okSs v ss = true) (h : Sim v k σ σ') :
    RSim v k (execStmts P f ss σ) (execStmts P f (substStmts v (litInt k) ss) σ') :=
  (sim P v k f).stmts ss σ σ' hok h

/-! non-vacuity: a loop with a negative step over an array, body in the covered class -/

def exBody : List Stmt :=
  [.assign (.idx "a" [.var "i"]) (.bin .add (.idx "a" [.bin .sub (.var "i") (.lit (.int 1))]) (.var "i")),
   .ifte (.bin (.cmp .gt) (.var "i") (.lit (.int 2))) [.assign (.var "s") (.bin .add (.var "s") (.var "i"))] []]

example : okSs "i" exBody = true := by decide
example : escapes exBody = false := by decide
example : unrollRange (.lit (.int 5)) (.lit (.int 2)) (some (.neg (.lit (.int 2)))) = some [5, 3] := by decide
example : unrollRange (.lit (.int 1)) (.lit (.int 3)) none = some [1, 2, 3] := by decide


/-! ### interchange (model `interchangeBody`: position p of the new nest gets the (variable, range) pair of the loop named `order[p]`) -/

/-- **interchange keeps every (variable, range) pair intact**: for every requested order that is a permutation of the (distinct)
loop variables — involution or not, any depth — the pairs given to the new nest are a permutation of the pairs of the old nest.
Hence every loop variable still runs over its own range, and the set (multiset) of iteration tuples, read as assignments
variable ↦ value, is the one of the original nest.  (A pairing of the variable of one loop with the range of another — what an
inverse-instead-of-forward permutation lookup produces on a 3-cycle — is excluded; the correspondence ties `permuteSpecs` to the
real `do_loop_interchange`.) -/
theorem interchange_specs_perm (order : List String) (specs : List Spec) (hnd : (specs.map (·.v)).Nodup)
    (hperm : order.Perm (specs.map (·.v))) : (permuteSpecs order specs).Perm specs := by
  have := List.Perm.filterMap (fun nm => specs.find? fun sp => sp.v == nm) hperm
  rw [show (specs.map (·.v)).filterMap (fun nm => specs.find? fun sp => sp.v == nm) = specs from permuteSpecs_self specs hnd] at this
  exact this

/-- same depth, and a pair occurs in the new nest iff it occurs in the old one -/
theorem interchange_pairs_intact (order : List String) (specs : List Spec) (hnd : (specs.map (·.v)).Nodup)
    (hperm : order.Perm (specs.map (·.v))) :
    (permuteSpecs order specs).length = specs.length ∧ ∀ sp, sp ∈ permuteSpecs order specs ↔ sp ∈ specs :=
  ⟨(interchange_specs_perm order specs hnd hperm).length_eq, fun _ => (interchange_specs_perm order specs hnd hperm).mem_iff⟩

/-- non-vacuity: a 3-cycle on a 3-deep nest with three different ranges -/
example :
    (permuteSpecs ["i", "j", "k"]
      [⟨"k", .lit (.int 1), .var "nclv", none⟩, ⟨"i", .lit (.int 1), .var "n", none⟩, ⟨"j", .lit (.int 1), .var "m", none⟩]).map
        (fun sp => (sp.v, match sp.hi with | .var x => x | _ => "")) = [("i", "n"), ("j", "m"), ("k", "nclv")] := by decide

end LokiModel.C31
