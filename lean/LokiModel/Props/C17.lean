import LokiModel.C17.Frame
import LokiModel.C17.Attrs
/-!
# C17 — cloning a program unit yields an independent, correctly scoped copy (property theorems)

Setting (see `C17/Model.lean`): a heap of mutable cells with ghost owner tags — 0 environment (enclosing scopes, definitions),
1 the original, 2 whatever `clone` allocates.  `Inv` (C17/Inv.lean) says that every owned cell keeps its strong references
(children, symbol table, contained units) with its owner and its weak references (parent scopes, scopes of symbols) with its owner
or the environment, and that environment look-up cells stay in the environment.  The exporter of the harness produces heaps with
`Inv` (checked on every request by the model-side evaluation of the correspondence: the renders agree).
-/
namespace LokiModel.C17

/-- **clone establishes ownership** — for ALL heaps, units, parents in the environment and ALL fuel values: cloning keeps every
existing tag, gives the result tag 2 and keeps the ownership invariant (everything allocated by the clone points into the clone or
the environment, unless the ghost flag reports a symbol no scope of the new chain declares) -/
theorem clone_inv (f : Nat) (h : Heap) (u : Addr) (hi : Inv h)
    (hp : ∀ p, parOf h u = some p → h.tagOf p = some 0) :
    Le h (clone f h u).1 ∧ Inv (clone f h u).1 ∧ (clone f h u).1.tagOf (clone f h u).2 = some 2 :=
  copyUnit_ok cloneMode (by decide) f h (parOf h u) u hi (fun p e => Or.inr (hp p e))

/-- **clone_scoped**: every symbol occurrence in a cell allocated by the clone is attached to a scope object allocated by the
clone or to the environment (the parents the clone kept) — never to a scope of the original — provided every symbol name is
declared somewhere in the new chain (`unres = false`; the real code keeps the old scope otherwise). -/
theorem clone_scoped (f : Nat) (h : Heap) (u : Addr) (hi : Inv h)
    (hp : ∀ p, parOf h u = some p → h.tagOf p = some 0)
    (hres : (clone f h u).1.unres = false)
    (a : Addr) (lbl : String) (sc : Option (Addr × Option Addr)) (syms : List Sym) (kids : List Addr)
    (hc : (clone f h u).1.cells[a]? = some (2, .node lbl sc syms kids))
    (s : Sym) (hs : s ∈ syms) (r : Addr) (hr : s.scope = some r) :
    (clone f h u).1.tagOf r = some 2 ∨ (clone f h u).1.tagOf r = some 0 := by
  have g := ((clone_inv f h u hi hp).2.1 a 2 _ hc).1 (by decide)
  have hm : r ∈ symRefs (.node lbl sc syms kids) := by
    simp only [symRefs, List.mem_filterMap]; exact ⟨s, hs, hr⟩
  rcases g.2.2 r hm with e | e | e
  · exact Or.inl e
  · exact Or.inr e
  · rw [hres] at e; cases e

/-- **clone without overrides is attribute-wise the identity**: the clone of a unit is a unit of the same kind with the same name and
the same attribute record (prefix, bind, dummy arguments, result name, access specs, docstring-free constructor attributes …) and the
same parent, for all heaps and every fuel ≥ 1 -/
theorem clone_attrs (f : Nat) (h : Heap) (u : Addr) {isMod : Bool} {name : String} {attrs : List String} {p : Option Addr} {t : Addr}
    {secs mems : List Addr} (e : h.get u = some (.unit isMod name attrs p t secs mems)) :
    ∃ t' secs' mems', (clone (f + 1) h u).1.get (clone (f + 1) h u).2 = some (.unit isMod name attrs p t' secs' mems') := by
  have hp : parOf h u = p := by simp [parOf, e]
  simpa [clone, hp] using copyUnit_attrs cloneMode f h (parOf h u) u e

/-- the parent scope and the table parent of everything the clone allocates are the clone's or the environment's -/
theorem clone_parents (f : Nat) (h : Heap) (u : Addr) (hi : Inv h)
    (hp : ∀ p, parOf h u = some p → h.tagOf p = some 0) (a : Addr) (c : Cell)
    (hc : (clone f h u).1.cells[a]? = some (2, c)) (r : Addr) (hr : r ∈ parRefs c) :
    (clone f h u).1.tagOf r = some 2 ∨ (clone f h u).1.tagOf r = some 0 :=
  (((clone_inv f h u hi hp).2.1 a 2 c hc).1 (by decide)).2.1 r hr

/-- what the heap walker follows: strong references (children, tables, contained units) and `DerivedType.typedef` links,
not expanding environment cells -/
inductive Reach (h : Heap) : Addr → Addr → Prop where
  | base (r : Addr) : Reach h r r
  | step {r a b : Addr} {t : Nat} {c : Cell} : Reach h r a → h.cells[a]? = some (t, c) → t ≠ 0 →
      b ∈ structRefs c ++ tdefRefs c → Reach h r b

/-- `DerivedType.typedef` links of owned tables stay with the owner or the environment -/
def TdefClosed (h : Heap) : Prop :=
  ∀ (a t : Nat) (c : Cell), h.cells[a]? = some (t, c) → t ≠ 0 → ∀ r ∈ tdefRefs c, h.tagOf r = some t ∨ h.tagOf r = some 0

theorem reach_tag {h : Heap} (hi : Inv h) (ht : TdefClosed h) {r a : Addr} {t : Nat} (hr : h.tagOf r = some t)
    (p : Reach h r a) : h.tagOf a = some t ∨ h.tagOf a = some 0 := by
  induction p with
  | base => exact Or.inl hr
  | @step a' b t' c _ hc hne hb ih =>
    have hta : h.tagOf a' = some t' := by simp [Heap.tagOf, hc]
    rcases ih with e | e
    · have e3 : t' = t := by rw [hta] at e; exact Option.some.inj e
      subst e3
      rcases List.mem_append.mp hb with hb | hb
      · exact Or.inl (((hi a' t' c hc).1 hne).1 b hb)
      · exact ht a' t' c hc hne b hb
    · have e3 : t' = 0 := by rw [hta] at e; exact Option.some.inj e
      exact absurd e3 hne

/-- **clone_footprint_disjoint** (partial): in ANY heap with the ownership invariant whose typedef links respect ownership, a cell
reachable (strong references and typedef links, environment not expanded) from two roots with different owners is an environment
cell.  With `clone_inv`: original (tag 1) and clone (tag 2) share environment cells only.
What is missing for the full statement: `TdefClosed` does NOT hold after `clone` when the original defines a derived type —
the copied table entries keep the `typedef` link of the original (`copyEnts_tdef`; witness in `Findings/C17.lean`); that is the
known class `clone-shares-typedef`. -/
theorem clone_footprint_disjoint_partial {h : Heap} (hi : Inv h) (ht : TdefClosed h) {o c a : Addr} {to tc : Nat}
    (ho : h.tagOf o = some to) (hc : h.tagOf c = some tc) (hne : to ≠ tc)
    (ro : Reach h o a) (rc : Reach h c a) : h.tagOf a = some 0 := by
  rcases reach_tag hi ht ho ro with e1 | e1
  · rcases reach_tag hi ht hc rc with e2 | e2
    · rw [e1] at e2; cases e2; exact absurd rfl hne
    · exact e2
  · exact e1

/-- the structural footprints (children, tables, contained units; no typedef links) of differently owned roots are disjoint outside
the environment — unconditionally after `clone` -/
theorem clone_struct_disjoint (f : Nat) (h : Heap) (u : Addr) (hi : Inv h)
    (hp : ∀ p, parOf h u = some p → h.tagOf p = some 0) (hu : h.tagOf u = some 1)
    (hn : ∀ (a t : Nat) (c : Cell), (clone f h u).1.cells[a]? = some (t, c) → tdefRefs c = [])
    {a : Addr} (ro : Reach (clone f h u).1 u a) (rc : Reach (clone f h u).1 (clone f h u).2 a) :
    (clone f h u).1.tagOf a = some 0 := by
  obtain ⟨l, i, t⟩ := clone_inv f h u hi hp
  exact clone_footprint_disjoint_partial i (fun a t c hc _ r hr => by rw [hn a t c hc] at hr; cases hr)
    (l.1 _ _ hu) t (by decide) ro rc

/-- the known class `clone-shares-typedef` as a decidable predicate on the input heap: a table of the original holds a
`DerivedType.typedef` link to a cell of the original (the unit defines a derived type); python: `has_typedef` in harness/props/c17.py -/
def KnownTypedef (h : Heap) : Bool :=
  h.cells.any fun tc => tc.1 == 1 && match tc.2 with
    | .tab _ ents => ents.any fun e => match e.2.tdef with
      | some d => h.tagOf d == some 1
      | none => false
    | _ => false

/-- table copies keep `typedef` links verbatim (`SymbolAttributes.clone` is shallow) -/
theorem copyEnts_tdef (ents : List (String × Ty)) :
    (copyEnts cloneMode ents).filterMap (·.2.tdef) = ents.filterMap (·.2.tdef) := by
  induction ents with
  | nil => rfl
  | cons e r ih =>
    simp only [copyEnts, List.map_cons, List.filterMap_cons] at ih ⊢
    have : (copyTy cloneMode e.2).tdef = e.2.tdef := by simp [copyTy, cloneMode]
    rw [this]
    cases e.2.tdef <;> simp [ih]

/-- an edit history applied to the root `r` of one side (owner `s`) -/
def runOps (f s : Nat) (r : Addr) : Heap → List Op → Heap
  | h, [] => h
  | h, op :: ops => runOps f s r (applyOp f s h r op) ops

theorem runOps_step {s : Nat} (hs : s ≠ 0) (f : Nat) (r : Addr) : ∀ (ops : List Op) (h : Heap), Inv h → h.tagOf r = some s →
    Step s h (runOps f s r h ops) := by
  intro ops
  induction ops with
  | nil => intro h hi _; exact Step.refl hi
  | cons op ops ih =>
    intro h hi hr
    have s1 := applyOp_step hs f h r hi hr op
    exact s1.trans (ih _ s1.inv (s1.le.1 _ _ hr))

theorem runOps_unres (f s : Nat) (r : Addr) : ∀ (ops : List Op) (h : Heap), h.unres = false → (runOps f s r h ops).unres = false
  | [], _, e => e
  | op :: ops, h, e => runOps_unres f s r ops _ (by rw [applyOp_unres]; exact e)

/-- **noninterference**: in ANY heap with the ownership invariant and no unresolved symbol (what `clone` produces, `clone_inv`),
ANY history of edit operations (rename, re-type, body replacement, `variables +=`, table updates of scoped nodes, on the unit or
any contained unit) applied to a root owned by `s` leaves `render` of every root with another owner `s'` unchanged — in particular
edits of the clone (s = 2) do not change the original (s' = 1) and vice versa — and keeps the invariant, so the statement applies
again to whatever history follows on either side. -/
theorem noninterference (f g : Nat) (h : Heap) (hi : Inv h) (hu : h.unres = false) (s s' : Nat) (hs : s ≠ 0) (hs' : s' ≠ 0)
    (hss : s' ≠ s) (r r' : Addr) (hr : h.tagOf r = some s) (hr' : h.tagOf r' = some s') (ops : List Op) :
    render g (runOps f s r h ops) r' = render g h r' ∧ Inv (runOps f s r h ops) ∧ (runOps f s r h ops).unres = false ∧
      (runOps f s r h ops).tagOf r' = some s' ∧ (runOps f s r h ops).tagOf r = some s := by
  have st := runOps_step hs f r ops h hi hr
  refine ⟨render_frame hi hu st.frame hs hs' hss g r' hr', st.inv, ?_, st.le.1 _ _ hr', st.le.1 _ _ hr⟩
  exact runOps_unres f s r ops h hu

/-- cells of other owners (the other copy, the environment) are not even touched -/
theorem noninterference_cells (f : Nat) (h : Heap) (hi : Inv h) (s : Nat) (hs : s ≠ 0) (r : Addr) (hr : h.tagOf r = some s)
    (ops : List Op) (a t : Nat) (c : Cell) (hc : h.cells[a]? = some (t, c)) (ht : t ≠ s) :
    (runOps f s r h ops).cells[a]? = some (t, c) :=
  (runOps_step hs f r ops h hi hr).frame a t c hc ht

/-- non-vacuity: a subroutine with one statement and an environment parent satisfies the hypotheses, the clone is fully resolved -/
def exHeap : Heap := { cells := [
  (0, .unit true "m" [] none 1 [] []), (0, .tab none [("g", { code := 7 })]),
  (1, .unit false "s" [] (some 0) 3 [4] []), (1, .tab (some 1) [("x", { code := 5 })]),
  (1, .node "Section" none [] [5]), (1, .node "Assignment" none [⟨"x", some 2⟩, ⟨"g", some 0⟩] [])] }

example : (clone 10 exHeap 2).1.unres = false := by decide +kernel
example : render 10 (clone 10 exHeap 2).1 (clone 10 exHeap 2).2 = render 10 exHeap 2 := by decide +kernel

end LokiModel.C17
