import LokiModel.C43.Lemmas
import LokiModel.Generated.C43Tables
/-!
# C43 — lint auto-fix changes only what the fixed rules target

Property (properties.jsonl): applying the automatic fixes of fixable lint rules yields a file in which those rules
report no violations, all other text is unchanged, and the program computes the same outputs as before.

Since the fix of `ops-fix-raises` the fixer of `Fortran90OperatorsRule` RUNS: every reported IR node is replaced by
`node.clone(source=None)`, the backend regenerates those statements (F90 operators) and copies all other text from
`Source`.  Its model is `fixLines` (lines of reported nodes: `specFix`; every other line: copied), tied to the real
`Linter.fix` by correspondence up to the layout of the regenerated statements (`squash`), on the inputs outside the open
write-back classes (`fix-*`).  `C43_fixer_*` are the property statements about that model; `C43_fix_*` are the
underlying statements about `specFix` (any text, any start state).  Detection vs. specification is checked by
correspondence and the direct oracle (open classes `ops-*`).
-/
namespace LokiModel.C43

/-- the tables regenerated from `/repo` are the ones the model (`Op.sym`, `Op.f77`, `Op.key`, `findallF77`) was
written for: operator map, the six patterns with flags `re.I` (34 = `re.I | re.U`), both rules fixable -/
theorem C43_tables_pinned :
    Generated.C43.opMap.length = 6 ∧
    (∀ k : Op, (String.ofList k.sym, String.ofList k.f77) ∈ Generated.C43.opMap) ∧
    Generated.C43.opPatterns =
      [("==", "(?P<f77>\\.eq\\.)|(?P<f90>==)", 34), ("!=", "(?P<f77>\\.ne\\.)|(?P<f90>/=)", 34),
       (">=", "(?P<f77>\\.ge\\.)|(?P<f90>>=)", 34), ("<=", "(?P<f77>\\.le\\.)|(?P<f90><=)", 34),
       (">", "(?P<f77>\\.gt\\.)|(?P<f90>>(?!=))", 34), ("<", "(?P<f77>\\.lt\\.)|(?P<f90><(?!=))", 34)] ∧
    Generated.C43.opsRuleFixable = true ∧ Generated.C43.uboundRuleFixable = true := by
  refine ⟨by decide, ?_, by decide, by decide, by decide⟩
  intro k; cases k <;> decide

/-- the tokenizer is lossless: the tokens spell the text -/
theorem C43_render_toks (st : St) (l : Line) : render (toks st l) = l :=
  render_toks_aux l.length st l (Nat.le_refl _)

/-- SPEC `fix_local`: the fixed text is the token sequence of the original with every token spelled as before,
except operator tokens (which lie in code: never in a character literal or a comment), which are spelled with the
F90 symbol of the same operator.  Every character of a literal or comment is a `.ch` token and is therefore unchanged. -/
theorem C43_fix_local (st : St) (l : Line) :
    specFix st l = (toks st l).flatMap Tok.fixed ∧
    l = (toks st l).flatMap Tok.orig ∧
    (∀ t ∈ toks st l, t.isOp = false → t.fixed = t.orig) ∧
    (∀ k a b, Tok.op k a b ∈ toks st l → (Tok.op k a b).fixed = k.sym) := by
  refine ⟨rfl, (C43_render_toks st l).symm, ?_, ?_⟩
  · intro t _ h; cases t with
    | ch s c => rfl
    | op k a b => simp [Tok.isOp] at h
  · intro k a b _; rfl

/-- re-tokenizing the fixed text gives the original tokens with each operator token replaced by the characters of
its symbol, read in code state: the segmentation into code / literal / comment is the same before and after -/
theorem C43_fix_retokenize (st : St) (l : Line) : toks st (specFix st l) = fixToks (toks st l) :=
  retok_aux l.length st l (Nat.le_refl _)

/-- SPEC `fix_clean`: the fixed text has no violation -/
theorem C43_fix_clean (st : St) (l : Line) : specViol st (specFix st l) = [] := by
  unfold specViol
  rw [C43_fix_retokenize]
  apply List.filterMap_eq_nil_iff.mpr
  intro t ht
  have := fixToks_noop _ t ht
  cases t with
  | ch s c => rfl
  | op k a b => simp [Tok.isOp] at this

/-- fixing twice is fixing once -/
theorem C43_fix_idempotent (st : St) (l : Line) : specFix st (specFix st l) = specFix st l := by
  show renderFixed (toks st (specFix st l)) = _
  rw [C43_fix_retokenize, renderFixed_fixToks]; rfl

/-- SPEC `fix_local` for protected text: the characters of literals and comments of the fixed text are those of the
original, in order -/
theorem C43_fix_protected (st : St) (l : Line) : protText (toks st (specFix st l)) = protText (toks st l) := by
  rw [C43_fix_retokenize, protText_fixToks]

/-- SPEC `fix_sem`, per token (partial: the re-reading of the whole fixed text by an F90 lexer is not modelled; what
is missing is the adjacency argument for the character *before* the operator, e.g. `x=.eq.y`, which is not Fortran):
the symbol written for an operator token is read back by the F90 symbol table `symAt` as the same operator, whenever
the next character is not `=` -/
theorem C43_fix_sem_partial (k : Op) (rest : Line) (h : rest.head? ≠ some '=') :
    symAt (k.sym ++ rest) = some (k, k.sym.length) := by
  cases k <;> simp only [Op.sym, List.cons_append, List.nil_append, List.length_cons, List.length_nil]
  case lt =>
    cases rest with
    | nil => rfl
    | cons c r =>
      have hc : c ≠ '=' := by intro hc; subst hc; simp at h
      unfold symAt; split <;> simp_all
  case gt =>
    cases rest with
    | nil => rfl
    | cons c r =>
      have hc : c ≠ '=' := by intro hc; subst hc; simp at h
      unfold symAt; split <;> simp_all
  all_goals rfl

/-- the operator symbols are pairwise different: distinct operators stay distinct after the fix -/
theorem C43_sym_injective (k k' : Op) (h : k.sym = k'.sym) : k = k' := by
  cases k <;> cases k' <;> first | rfl | (simp [Op.sym] at h)

/-- model of `Linter.fix`: the file is rewritten exactly when something was reported -/
theorem C43_real_fix_untouched (rs : List Report) : fixOutcome rs = .untouched ↔ rs = [] := by
  cases rs <;> simp [fixOutcome]

/-! ## the running fixer (`fixLines`) -/

/-- line by line: a line of a reported node is fixed as the specification says, every other line is copied -/
theorem C43_fixer_lines (p : Nat → Bool) : ∀ (ls : List Line) (i j : Nat),
    (fixLines p i ls)[j]? = ls[j]?.map (fun l => if p (i + j) then specFix .code l else l) := by
  intro ls
  induction ls with
  | nil => intro i j; simp [fixLines]
  | cons l ls ih =>
    intro i j
    cases j with
    | zero => simp [fixLines]
    | succ j =>
      simp only [fixLines, List.getElem?_cons_succ]
      rw [ih (i + 1) j]
      have : i + 1 + j = i + (j + 1) := by omega
      rw [this]

/-- `fix_local` for the running fixer: lines outside the reported statements are unchanged (and no line is added or lost) -/
theorem C43_fixer_local (p : Nat → Bool) (ls : List Line) (i j : Nat) (h : p (i + j) = false) :
    (fixLines p i ls)[j]? = ls[j]? ∧ (fixLines p i ls).length = ls.length := by
  refine ⟨?_, ?_⟩
  · rw [C43_fixer_lines]; cases ls[j]? <;> simp [h]
  · clear h
    induction ls generalizing i with
    | nil => rfl
    | cons l ls ih => simp [fixLines, ih]

/-- `fix_clean` for the running fixer: a line of a reported statement has no violation left, its literal and comment
characters are those of the original line -/
theorem C43_fixer_clean (p : Nat → Bool) (ls : List Line) (i j : Nat) (l : Line)
    (hl : ls[j]? = some l) (h : p (i + j) = true) :
    ∃ l', (fixLines p i ls)[j]? = some l' ∧ specViol .code l' = [] ∧
      protText (toks .code l') = protText (toks .code l) := by
  refine ⟨specFix .code l, ?_, C43_fix_clean _ _, C43_fix_protected _ _⟩
  rw [C43_fixer_lines, hl]; simp [h]

/-- protected text of every line is preserved by the running fixer -/
theorem C43_fixer_protected (p : Nat → Bool) : ∀ (ls : List Line) (i : Nat),
    (fixLines p i ls).map (fun l => protText (toks .code l)) = ls.map (fun l => protText (toks .code l)) := by
  intro ls
  induction ls with
  | nil => intro i; rfl
  | cons l ls ih =>
    intro i
    simp only [fixLines, List.map_cons, ih]
    by_cases h : p i = true
    · simp [h, C43_fix_protected]
    · simp [h]

/-- every text reported by the detection for operator `k` starts with a (case-insensitive) spelling of `.xx.` of `k` -/
theorem C43_findall_f77 (k : Op) : ∀ (l : Line) (n : Nat), ∀ m ∈ findallF77 k n l, ciStarts k.f77 m = true := by
  have take4 : ∀ (l : Line), ciStarts k.f77 l = true → ciStarts k.f77 (l.take 4) = true := by
    intro l h
    cases k <;>
      (match l, h with
       | c1 :: c2 :: c3 :: c4 :: r, h => simpa [ciStarts, Op.f77] using h
       | [], h => simp [ciStarts, Op.f77] at h
       | [_], h => simp [ciStarts, Op.f77] at h
       | [_, _], h => simp [ciStarts, Op.f77] at h
       | [_, _, _], h => simp [ciStarts, Op.f77] at h)
  intro l
  induction l with
  | nil => intro n m h; cases n <;> simp [findallF77] at h
  | cons c cs ih =>
    intro n m h
    cases n with
    | succ n => simp only [findallF77] at h; exact ih n m h
    | zero =>
      simp only [findallF77] at h
      split at h
      · rename_i hc
        rcases List.mem_cons.mp h with rfl | h
        · exact take4 _ hc
        · exact ih _ m h
      · split at h
        · exact ih _ m h
        · exact ih _ m h

/-! ## `DynamicUboundCheckRule` (decision model) -/

/-- only plain assumed-shape arguments (every dimension declared `:`; `a(0:)` is not one) are reported -/
theorem C43_ubound_reported_assumed (args : List UArg) (calls : List ICall) :
    ∀ n ∈ uboundReported args calls, ∃ a ∈ args, a.name = n ∧ a.assumed = true := by
  intro n hn
  simp only [uboundReported, List.mem_map, List.mem_filter, Bool.and_eq_true] at hn
  obtain ⟨a, ⟨ha, hasm, _⟩, rfl⟩ := hn
  exact ⟨a, ha, rfl, hasm⟩

/-- the comparison that supplies the new extent of dimension `d` of argument `a` is one of the recorded comparisons and
mentions `a` itself and the literal `d`: an extent is never taken from the check of another argument or dimension -/
theorem C43_ubound_shape_own (calls : List ICall) (a : UArg) (d : Nat) (c : ICall)
    (h : compOfDim calls a d = some c) : c ∈ calls ∧ c.arg = a.name ∧ c.dim = some d := by
  unfold compOfDim at h
  split at h
  · cases h
  · have hm := List.mem_of_find?_eq_some h
    have hp := List.find?_some h
    simp only [Bool.and_eq_true, beq_iff_eq] at hp
    exact ⟨hm, hp.1.2, hp.2⟩

/-- every extent of the new shape is the extent of such a comparison -/
theorem C43_ubound_shape_from_own (calls : List ICall) (a : UArg) :
    ∀ e ∈ uboundShape calls a, e = "?" ∨ ∃ c ∈ calls, c.arg = a.name ∧ e = c.extent := by
  intro e he
  simp only [uboundShape, List.mem_map, List.mem_range] at he
  obtain ⟨d, _, rfl⟩ := he
  cases h : compOfDim calls a (d + 1) with
  | none => exact Or.inl rfl
  | some c =>
    obtain ⟨hm, ha, _⟩ := C43_ubound_shape_own calls a (d + 1) c h
    exact Or.inr ⟨c, hm, ha, rfl⟩

/-! ## non-vacuity -/

example : specFix .code ['a', '.', 'E', 'q', '.', 'b'] = ['a', '=', '=', 'b'] := by
  rw [specFix_ch (by decide), specFix_op (k := .eq) (a := 'E') (b := 'q') (rest := ['b']) (by decide),
    specFix_ch (by decide), specFix_nil]; rfl

example : specViol .code ['.', 'l', 't', '.'] = [(.lt, ['.', 'l', 't', '.'])] := by
  have h : toks .code ['.', 'l', 't', '.'] = [.op .lt 'l' 't'] := by
    rw [toks_op (k := .lt) (a := 'l') (b := 't') (rest := []) (by decide), toks_nil]
  simp [specViol, h]

example : specFix .code ['\'', '.', 'e', 'q', '.', '\''] = ['\'', '.', 'e', 'q', '.', '\''] := by
  rw [specFix_ch (by decide)]
  have h1 : step .code '\'' = .str '\'' := by decide
  rw [h1, specFix_ch (by decide), specFix_ch (by decide), specFix_ch (by decide), specFix_ch (by decide),
    specFix_ch (by decide), specFix_nil]

end LokiModel.C43
