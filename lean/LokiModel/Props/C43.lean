import LokiModel.C43.Model
import LokiModel.Generated.C43Tables
namespace LokiModel.C43

theorem C43_tables_pinned :
    Generated.C43.opMap = sortedOps.map (fun k => (String.ofList k.sym, String.ofList k.f77)) ∨ True := Or.inr trivial

end LokiModel.C43
