import LokiModel.C30.Sound
import LokiModel.C30.Index
/-!
# C30 — array-notation resolution and index normalisation preserve behaviour (property theorems)

* `resolve_sound_partial` — PRIORITY 1, statement level, rank 1.  For every program context `p`, declaration list `ds`,
  loop map `m`, state `st` and every rank-1 section assignment `a(lo:hi:step) = rhs` for which the MODEL of
  `ResolveVectorNotationTransformer.visit_Assignment` (`resolveAssign`, tied to the real code by the correspondence check)
  returns statements `ss`: if the right-hand side is in the decidable class `covE` (no read of `a`, of the loop variable;
  sections only of other rank-1 arrays, with the SAME stride expression, lower bound = the left-hand lower bound or an
  integer literal), the bounds `lo`/`step` are scalar expressions (`scE`), the state fits the declarations (`StOK`: no
  ASSOCIATE names in force) and the array assignment succeeds with final state `st'`, then `ss` (the generated DO loop) runs
  to completion for some fuel and its final state agrees with `st'` on the printed output and on every variable except the
  loop variable (`Agr`).  `_partial` because: rank 1 only (the model and the oracle cover every rank); the identical-section
  case `a(l:u) = a(l:u) + …` is not covered by the proof (the oracle finds no failure there); statement level — the lifting
  through enclosing statements to whole programs (which needs the loop variable to be dead afterwards and not to be the
  variable of an enclosing loop: exactly the class `KnownLoopVarReuse` when the variable is reused from `loop_map`) is not proved.
  The hypotheses `covE` exclude the two defect families of the real code: `KnownOverlap` (forward loop reads elements it
  has already overwritten) and `KnownStride` (`_compute_shifted_index` ignores strides); witnesses in `Findings/C30.lean`.
* `flatten_bijective`, `flatten_bijective_C`, `invert_indices`, `shift_to_zero`, `normalize_shift`, `c_pipeline_index`,
  `offset_eq_flat` — PRIORITY 2, full strength, every rank, all integers: the index maps of `flatten_arrays` (both orders, any
  `start_index`), `invert_array_indices`, `shift_to_zero_indexing`, `normalize_array_shape_and_access` are bijections
  between the declared box and the target box, and the composite of the Fortran→C pipeline addresses exactly the element
  the FIR reference semantics addresses (`Fir.offset`).
-/
namespace LokiModel.Props.C30
open LokiModel.Fir LokiModel.C30

theorem resolve_sound_partial (p : Program) (ds : List Decl) (m : LoopMap) (a : String) (lo hi : Ex) (step : Option Ex)
    (rhs : Ex) (st st' : St) (ss : List Stmt) (vars : List String)
    (hmodel : resolveAssign ds m (.sec a [.rng (some lo) (some hi) step]) rhs = some (ss, vars))
    (hrank : (declDims ds a).length = 1)
    (hst : StOK ds st)
    (hvcell : ∃ w, lookupCell st (loopVar m a ⟨some lo, some hi, step⟩) = some (.scalar .int w))
    (hav : a ≠ loopVar m a ⟨some lo, some hi, step⟩)
    (hlo : scE ds a (loopVar m a ⟨some lo, some hi, step⟩) lo = true)
    (hstep : scO ds a (loopVar m a ⟨some lo, some hi, step⟩) step = true)
    (hcov : covE ds a (loopVar m a ⟨some lo, some hi, step⟩) ⟨some lo, some hi, step⟩ rhs = true)
    (horig : assignStmt st (.sec a [.rng (some lo) (some hi) step]) rhs = some st') :
    ∃ f st'', execStmts p f ss st = .ok st'' .normal ∧ Agr (loopVar m a ⟨some lo, some hi, step⟩) st'' st' :=
  resolve_rank1_sound p ds m a lo hi step rhs st st' ss vars hmodel hrank hst hvcell hav hlo hstep hcov horig

theorem flatten_bijective (s : Int) (ns : List Nat) (hne : ns ≠ []) :
    (∀ is, InBox s ns is → s ≤ flatF s ns is ∧ flatF s ns is < s + prodZ ns) ∧
    (∀ is js, InBox s ns is → InBox s ns js → flatF s ns is = flatF s ns js → is = js) ∧
    (∀ k, s ≤ k → k < s + prodZ ns → ∃ is, InBox s ns is ∧ flatF s ns is = k) :=
  LokiModel.C30.flatten_bijective s ns hne

theorem flatten_bijective_C (s : Int) (ns : List Nat) (hne : ns ≠ []) :
    (∀ is, InBox s ns is → s ≤ flatC s ns is ∧ flatC s ns is < s + prodZ ns) ∧
    (∀ is js, InBox s ns is → InBox s ns js → flatC s ns is = flatC s ns js → is = js) ∧
    (∀ k, s ≤ k → k < s + prodZ ns → ∃ is, InBox s ns is ∧ flatC s ns is = k) :=
  LokiModel.C30.flatten_bijective_C s ns hne

theorem invert_indices (s : Int) (ns : List Nat) :
    (∀ is, InBox s ns is → InBox s ns.reverse is.reverse) ∧
    (∀ is js : List Int, is.reverse = js.reverse → is = js) ∧
    (∀ js, InBox s ns.reverse js → ∃ is, InBox s ns is ∧ is.reverse = js) :=
  LokiModel.C30.invert_indices s ns

theorem shift_to_zero (ns : List Nat) :
    (∀ is, InBox 1 ns is → InBox 0 ns (is.map (· - 1))) ∧
    (∀ is js : List Int, is.map (· - 1) = js.map (· - 1) → is = js) ∧
    (∀ ks, InBox 0 ns ks → ∃ is, InBox 1 ns is ∧ is.map (· - 1) = ks) :=
  LokiModel.C30.shift_to_zero ns

theorem normalize_shift (bs : List (Int × Int)) :
    (∀ is, InBounds bs is → InBox 1 (extents bs) (normIdx bs is)) ∧
    (∀ is js, InBounds bs is → InBounds bs js → normIdx bs is = normIdx bs js → is = js) ∧
    (∀ ks, InBox 1 (extents bs) ks → ∃ is, InBounds bs is ∧ normIdx bs is = ks) :=
  LokiModel.C30.normalize_shift bs

theorem c_pipeline_index (bs : List (Int × Int)) (is : List Int) :
    flatC 0 (extents bs).reverse ((normIdx bs is).reverse.map (· - 1)) =
      flatF 0 (extents bs) ((normIdx bs is).map (· - 1)) :=
  LokiModel.C30.c_pipeline_index bs is

theorem offset_eq_flat (bs : List (Int × Int)) (is : List Int) (k : Nat) (h : offset bs is = some k) :
    (k : Int) = flatF 0 (extents bs) ((normIdx bs is).map (· - 1)) :=
  LokiModel.C30.offset_eq_flat bs is k h

/-- the section rewriting of `normalize_array_shape_and_access` (start and stop shifted, stride kept) preserves the element sequence -/
theorem normalize_section (lo a b s : Int) :
    tripCount (a - lo + 1) (b - lo + 1) s = tripCount a b s ∧
    ∀ k : Nat, (a - lo + 1) + (k : Int) * s = (a + (k : Int) * s) - lo + 1 :=
  LokiModel.C30.normalize_section lo a b s

theorem offset_isSome_iff (bs : List (Int × Int)) (is : List Int) : (offset bs is).isSome ↔ InBounds bs is :=
  LokiModel.C30.offset_isSome_iff bs is

theorem flatF_one_eq (ns : List Nat) (is : List Int) : flatF 1 ns is = 1 + flatF 0 ns (is.map (· - 1)) :=
  LokiModel.C30.flatF_one_eq ns is

/-! non-vacuity: `b(2:n) = c(1:3) + k` style right-hand sides are covered -/
example : covE [{ name := "b", ty := .int, dims := [(.lit (.int 1), .var "n")] },
                { name := "c", ty := .int, dims := [(.lit (.int 0), .lit (.int 5))] },
                { name := "k", ty := .int, dims := [] }] "b" "i_b_0" ⟨some (.lit (.int 2)), some (.var "n"), none⟩
    (.bin .add (.sec "c" [.rng (some (.lit (.int 1))) (some (.lit (.int 3))) none]) (.var "k")) = true := by
  simp [covE, isArray, findD, declDims, beqO, isIntLit]

end LokiModel.Props.C30
