import LokiModel.C11.Lemmas
import LokiModel.C11.Recase
import LokiModel.C11.EqInt
/-!
# C11 — expression equality is symmetric, case-insensitive and hash-consistent (property theorems)

`pyEq a b` is Python's `a == b` on the model nodes (class `__eq__` methods chosen through the generated
class tables, subclass-first reflected dispatch, `NotImplemented` fall-through), `hashEq a b` is
`hash(a) == hash(b)`.  `docExc` is the documented `1:n == n` shortcut (also between the kinds of two literals);
`hashExc` adds the one remaining open known-finding class `KnownBareVsLit`.

Since the `fix:` commits recorded in `known_findings.json` (`InlineCall.__hash__` hashes the canonical string,
`FloatLiteral.__eq__` no longer calls `float()` on expression nodes) symmetry holds at full strength and the
hash law needs only `KnownBareVsLit`.
-/
namespace LokiModel.C11
open Node

/-- **symmetry, full statement**: outside the documented `1:n == n` shortcut `==` is symmetric -/
def C11_sym_full : Prop := ∀ a b : Node, docExc a b = false → pyEq a b = pyEq b a

/-- **symmetry (full strength)** for all pairs of nodes outside the documented shortcut -/
theorem C11_sym (a b : Node) (h : docExc a b = false) : pyEq a b = pyEq b a := by
  unfold pyEq
  unfold docExc at h
  rw [Nat.add_comm (size b) (size a)]
  exact sym_fuel noKnown _ a b h

theorem C11_sym_full_holds : C11_sym_full := C11_sym

/-- non-vacuity: Range vs RangeIndex with the same bounds — both orders say False thanks to the
subclass-first dispatch, and the pair is outside the exception; a FloatLiteral against a sum of bare ints
(asymmetric before the fix) is now False in both orders -/
example : docExc (range .range (intLit 1 pyNone) (sym .scalar "n".toList pyNone) pyNone)
                 (range .rindex (intLit 1 pyNone) (sym .scalar "n".toList pyNone) pyNone) = false := by decide
example : pyEq (range .range (intLit 1 pyNone) (sym .scalar "n".toList pyNone) pyNone)
               (range .rindex (intLit 1 pyNone) (sym .scalar "n".toList pyNone) pyNone) = false := by decide
example : docExc (floatLit "1.0".toList pyNone) (nary .sum [pyInt 1, pyInt 0]) = false
    ∧ pyEq (floatLit "1.0".toList pyNone) (nary .sum [pyInt 1, pyInt 0]) = false := by decide

/-- **hash consistency, full statement**: outside the documented shortcut, equal nodes have equal hashes -/
def C11_hash_full : Prop := ∀ a b : Node, docExc a b = false → pyEq a b = true → hashEq a b = true

/-- the code still violates it (open class `bare-number-vs-literal-hash`): `IntLiteral(1) == 1` but
`hash((1, None)) != hash(1)` -/
theorem C11_hash_full_false : ¬ C11_hash_full := by
  intro h
  have := h (intLit 1 pyNone) (pyInt 1) (by decide) (by decide)
  revert this
  decide

/-- **hash consistency** for all pairs of nodes outside the documented shortcut and the known class
`bare-number-vs-literal-hash` (a bare Python number against an IntLiteral/FloatLiteral) -/
theorem C11_hash_partial (a b : Node) (h : hashExc a b = false) (he : pyEq a b = true) : hashEq a b = true := by
  unfold hashEq
  simp only [beq_iff_eq]
  exact hash_fuel _ a b he h

/-- non-vacuity: same text from different classes, equal kinds in different case, nested vs flat sums, and the
InlineCall pairs that hashed differently before the fix -/
example : hashExc (sym .scalar "n".toList pyNone) (sym .dts "N".toList pyNone) = false
    ∧ pyEq (sym .scalar "n".toList pyNone) (sym .dts "N".toList pyNone) = false := by decide
example : hashExc (intLit 1 (sym .scalar "jprb".toList pyNone)) (intLit 1 (sym .scalar "JPRB".toList pyNone)) = false
    ∧ pyEq (intLit 1 (sym .scalar "jprb".toList pyNone)) (intLit 1 (sym .scalar "JPRB".toList pyNone)) = true := by decide
example : hashExc (nary .sum [sym .scalar "a".toList pyNone, nary .sum [sym .scalar "b".toList pyNone, sym .scalar "c".toList pyNone]])
                  (nary .sum [sym .scalar "A".toList pyNone, sym .scalar "b".toList pyNone, sym .scalar "c".toList pyNone]) = false
    ∧ pyEq (nary .sum [sym .scalar "a".toList pyNone, nary .sum [sym .scalar "b".toList pyNone, sym .scalar "c".toList pyNone]])
           (nary .sum [sym .scalar "A".toList pyNone, sym .scalar "b".toList pyNone, sym .scalar "c".toList pyNone]) = true := by decide
example : hashExc (call (sym .proc "f".toList pyNone) [intLit 1 pyNone] ["x".toList] [pyInt 2])
                  (call (sym .proc "F".toList pyNone) [pyInt 1] ["X".toList] [intLit 2 (intLit 8 pyNone)]) = false
    ∧ pyEq (call (sym .proc "f".toList pyNone) [intLit 1 pyNone] ["x".toList] [pyInt 2])
           (call (sym .proc "F".toList pyNone) [pyInt 1] ["X".toList] [intLit 2 (intLit 8 pyNone)]) = true
    ∧ hashEq (call (sym .proc "f".toList pyNone) [intLit 1 pyNone] ["x".toList] [pyInt 2])
             (call (sym .proc "F".toList pyNone) [pyInt 1] ["X".toList] [intLit 2 (intLit 8 pyNone)]) = true := by decide

/-- **case-insensitivity (full strength)**: for every node and every re-casing `f` of names (any function on
names that does not change their lower-cased, blank-free form — applied to every symbol name, derived-type
parent, array name, call/cast name and keyword name in the tree), the node and its re-cased copy compare equal
in both operand orders -/
theorem C11_case_insensitive (f : Str → Str) (hf : ∀ s, lowerNS (f s) = lowerNS s) (a : Node) :
    pyEq a (recase f a) = true ∧ pyEq (recase f a) a = true := by
  unfold pyEq
  exact ⟨(recase_fuel f hf _ a (by omega)).1, (recase_fuel f hf _ a (by omega)).2⟩

/-- the canonical string (`StrCompareMixin._canonical`) itself ignores the case of names -/
theorem C11_canon_case_insensitive (f : Str → Str) (hf : ∀ s, lowerNS (f s) = lowerNS s) (a : Node) :
    canon (recase f a) = canon a := canon_recase f hf a

/-- re-cased copies also hash alike (outside `hashExc`; for a node and its re-cased copy that can only be the
documented shortcut between the kinds of a literal) -/
theorem C11_case_hash_partial (f : Str → Str) (hf : ∀ s, lowerNS (f s) = lowerNS s) (a : Node)
    (h : hashExc a (recase f a) = false) : hashEq a (recase f a) = true :=
  C11_hash_partial a (recase f a) h (C11_case_insensitive f hf a).1

/-- non-vacuity: a re-casing that satisfies the hypothesis and changes names -/
def upcaseN (s : Str) : Str := if s = "n".toList then "N".toList else if s = "klon".toList then "KLON".toList else s
theorem upcaseN_ok : ∀ s, lowerNS (upcaseN s) = lowerNS s := by
  intro s; unfold upcaseN
  split
  · rename_i h; subst h; decide
  · split
    · rename_i h; subst h; decide
    · rfl
example : txt 0 (recase upcaseN (arr "a".toList pyNone [range .rindex (intLit 1 pyNone) (sym .scalar "klon".toList pyNone) pyNone]))
    = "a(1:KLON)".toList := by decide
example : pyEq (arr "a".toList pyNone [range .rindex (intLit 1 pyNone) (sym .scalar "klon".toList pyNone) pyNone])
    (arr "a".toList pyNone [range .rindex (intLit 1 pyNone) (sym .scalar "KLON".toList pyNone) pyNone]) = true := by decide

/-- internal consistency of the model: the structural test `eqIntS x k` that the stringifier uses for
`children[0] == -1` (and the Range shortcut for `children[0] == 1`) is exactly Python's `x == k` for a bare int `k` -/
theorem C11_eqInt_agrees (a : Node) (k : Int) : pyEq a (pyInt k) = eqIntS a k := by
  unfold pyEq
  exact eqIntS_fuel _ a k (by simp [size]; omega)

end LokiModel.C11
