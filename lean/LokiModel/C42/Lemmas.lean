import LokiModel.C42.Model
/-!
# C42 lemmas: the inductive invariant of the worker-pool lint run
-/
namespace LokiModel.C42

variable {ρ β : Type}

structure Inv (c : Cfg ρ β) (s : State β) : Prop where
  /-- no file is lost or duplicated -/
  perm : (s.pending ++ s.running ++ s.done).Perm c.files
  /-- every handler list is the image of the completion order -/
  outs : s.outs = c.handlers.map (fun h => s.done.map (fun f => h (c.lint f)))
  count : s.count = s.done.countP (fun f => c.ok (c.lint f))

theorem inv_init (c : Cfg ρ β) : Inv c (init c) := by
  refine ⟨by simp [init], by simp [init], by simp [init]⟩

theorem addReport_map (hs : List (ρ → β)) (g : (ρ → β) → List β) (r : ρ) :
    addReport hs (hs.map g) r = hs.map (fun h => g h ++ [h r]) := by
  induction hs with
  | nil => rfl
  | cons h t ih =>
    simp only [addReport, List.map_cons, List.zipWith_cons_cons] at ih ⊢
    rw [ih]

theorem inv_step (c : Cfg ρ β) {s s' : State β} {e : Ev} (hi : Inv c s)
    (h : step c s e = some s') : Inv c s' := by
  cases e with
  | start i =>
    simp only [step] at h
    split at h
    · rename_i hc
      simp only [Bool.and_eq_true] at hc
      have hp : i ∈ s.pending := List.contains_iff_mem.mp hc.1
      simp only [Option.some.injEq] at h
      subst h
      refine ⟨?_, hi.outs, hi.count⟩
      have h1 : (i :: s.pending.erase i).Perm s.pending := (List.perm_cons_erase hp).symm
      have h2 : (s.pending.erase i ++ (s.running ++ [i])).Perm (i :: s.pending.erase i ++ s.running) := by
        have : (s.running ++ [i]).Perm (i :: s.running) := List.perm_append_singleton i s.running
        exact (this.append_left _).trans (by simpa using (List.perm_middle (l₁ := s.pending.erase i) (a := i) (l₂ := s.running)))
      exact ((h2.trans (h1.append_right _)).append_right _).trans hi.perm
    · cases h
  | finish i =>
    simp only [step] at h
    split at h
    · rename_i hc
      have hr : i ∈ s.running := List.contains_iff_mem.mp hc
      simp only [Option.some.injEq] at h
      subst h
      refine ⟨?_, ?_, ?_⟩
      · have h1 : (i :: s.running.erase i).Perm s.running := (List.perm_cons_erase hr).symm
        have h2 : (s.running.erase i ++ (s.done ++ [i])).Perm (s.running ++ s.done) := by
          have : (s.done ++ [i]).Perm (i :: s.done) := List.perm_append_singleton i s.done
          have h3 : (s.running.erase i ++ i :: s.done).Perm (i :: s.running.erase i ++ s.done) := by
            simpa using (List.perm_middle (l₁ := s.running.erase i) (a := i) (l₂ := s.done))
          exact (this.append_left _).trans (h3.trans (h1.append_right _))
        have h4 : (s.pending ++ s.running.erase i ++ (s.done ++ [i])).Perm (s.pending ++ s.running ++ s.done) := by
          simp only [List.append_assoc]
          exact h2.append_left _
        exact h4.trans hi.perm
      · show addReport c.handlers s.outs (c.lint i) = _
        rw [hi.outs, addReport_map]
        simp
      · show s.count + _ = _
        rw [hi.count, List.countP_append]
        simp [List.countP_cons]
    · cases h

theorem inv_reach (c : Cfg ρ β) {s : State β} (hr : Reach c s) : Inv c s := by
  induction hr with
  | init => exact inv_init c
  | step _ hs ih => exact inv_step c ih hs

theorem replay_reach (c : Cfg ρ β) : ∀ (es : List Ev) (s s' : State β), Reach c s → replay c s es = some s' → Reach c s' := by
  intro es
  induction es with
  | nil => intro s s' hr h; simp only [replay, Option.some.injEq] at h; subst h; exact hr
  | cons e es ih =>
    intro s s' hr h
    simp only [replay] at h
    split at h
    · rename_i s1 hs1
      exact ih s1 s' (Reach.step hr hs1) h
    · cases h

end LokiModel.C42
