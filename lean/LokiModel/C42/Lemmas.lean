import LokiModel.C42.Model
/-!
# C42 lemmas: the inductive invariant of the worker-pool lint run
-/
namespace LokiModel.C42

variable {ρ β : Type}

/-- files that have already appended to handler `k` among the running ones -/
def served (running : List (Nat × Nat)) (k : Nat) : List Nat :=
  (running.filter (fun p => decide (k < p.2))).map Prod.fst

structure Inv (c : Cfg ρ β) (s : State β) : Prop where
  /-- no file is lost or duplicated -/
  perm : (s.pending ++ s.running.map Prod.fst ++ s.done).Perm s.all
  /-- handler `k` has been served by the completed files and by the running files whose counter passed `k` -/
  apps : ∀ k, k < c.nh → (s.apps k).Perm (s.done ++ served s.running k)
  /-- every handler list is the image of the files appended to it -/
  outs : ∀ k, s.outs k = (s.apps k).map (fun f => c.handle k (c.lint f))
  count : s.count = s.done.countP (fun f => c.ok (c.lint f))

theorem inv_init (c : Cfg ρ β) : Inv c (init : State β) := by
  refine ⟨by simp [init], ?_, by simp [init], by simp [init]⟩
  intro k _; simp [init, served]

theorem final_lists {s : State β} (hf : isFinal s = true) : s.pending = [] ∧ s.running = [] := by
  simpa [isFinal] using hf

theorem served_erase (R : List (Nat × Nat)) (a : Nat × Nat) (ha : a ∈ R) (k : Nat) :
    (served R k).Perm ((if k < a.2 then [a.1] else []) ++ served (R.erase a) k) := by
  have h := ((List.perm_cons_erase ha).filter (fun p => decide (k < p.2))).map Prod.fst
  unfold served
  refine h.trans ?_
  by_cases hk : k < a.2 <;> simp [hk]

theorem served_append (R : List (Nat × Nat)) (b : Nat × Nat) (k : Nat) :
    served (R ++ [b]) k = served R k ++ (if k < b.2 then [b.1] else []) := by
  unfold served
  by_cases hk : k < b.2 <;> simp [List.filter_append, hk]

theorem fst_erase_perm (R : List (Nat × Nat)) (a : Nat × Nat) (ha : a ∈ R) :
    (R.map Prod.fst).Perm (a.1 :: (R.erase a).map Prod.fst) := by
  simpa using (List.perm_cons_erase ha).map Prod.fst

theorem inv_step (c : Cfg ρ β) {s s' : State β} {e : Ev} (hi : Inv c s)
    (h : step c s e = some s') : Inv c s' := by
  cases e with
  | call files w =>
    simp only [step] at h
    split at h
    · rename_i hf
      obtain ⟨h1, h2⟩ := final_lists hf
      simp only [Option.some.injEq] at h
      subst h
      refine ⟨?_, hi.apps, hi.outs, hi.count⟩
      have hd : s.done.Perm s.all := by simpa [h1, h2] using hi.perm
      show (files ++ s.running.map Prod.fst ++ s.done).Perm (s.all ++ files)
      rw [h2]
      simp only [List.map_nil, List.append_nil]
      exact List.perm_append_comm.trans (hd.append_right _)
    · cases h
  | start i =>
    simp only [step] at h
    split at h
    · rename_i hc
      simp only [Bool.and_eq_true] at hc
      have hp : i ∈ s.pending := List.contains_iff_mem.mp hc.1
      simp only [Option.some.injEq] at h
      subst h
      refine ⟨?_, ?_, hi.outs, hi.count⟩
      · have h1 : (i :: s.pending.erase i).Perm s.pending := (List.perm_cons_erase hp).symm
        have h2 : (s.pending.erase i ++ (s.running ++ [(i, 0)]).map Prod.fst).Perm
            (i :: s.pending.erase i ++ s.running.map Prod.fst) := by
          simp only [List.map_append, List.map_cons, List.map_nil]
          have : (s.running.map Prod.fst ++ [i]).Perm (i :: s.running.map Prod.fst) := List.perm_append_singleton i _
          exact (this.append_left _).trans (by simp)
        exact ((h2.trans (h1.append_right _)).append_right _).trans hi.perm
      · intro k hk
        show (s.apps k).Perm (s.done ++ served (s.running ++ [(i, 0)]) k)
        rw [served_append]
        simpa using hi.apps k hk
    · cases h
  | append i pc =>
    simp only [step] at h
    split at h
    · rename_i hc
      simp only [Bool.and_eq_true, decide_eq_true_eq] at hc
      have hr : (i, pc) ∈ s.running := List.contains_iff_mem.mp hc.1
      simp only [Option.some.injEq] at h
      subst h
      refine ⟨?_, ?_, ?_, hi.count⟩
      · have h1 := fst_erase_perm s.running (i, pc) hr
        have h2 : ((s.running.erase (i, pc) ++ [(i, pc + 1)]).map Prod.fst).Perm (s.running.map Prod.fst) := by
          simp only [List.map_append, List.map_cons, List.map_nil]
          exact (List.perm_append_singleton i _).trans h1.symm
        exact ((h2.append_left _).append_right _).trans hi.perm
      · intro k hk
        show (upd s.apps pc (s.apps pc ++ [i]) k).Perm (s.done ++ served (s.running.erase (i, pc) ++ [(i, pc + 1)]) k)
        have hold := (hi.apps k hk).trans ((served_erase s.running (i, pc) hr k).append_left _)
        rw [served_append]
        simp only at hold ⊢
        by_cases hkp : k = pc
        · subst hkp
          simp only [upd, if_true, Nat.lt_irrefl, if_false, List.nil_append, Nat.lt_succ_self] at hold ⊢
          rw [← List.append_assoc]
          exact hold.append_right _
        · simp only [upd, hkp, if_false]
          by_cases hlt : k < pc
          · have hlt' : k < pc + 1 := Nat.lt_succ_of_lt hlt
            simp only [hlt, hlt', if_true] at hold ⊢
            refine hold.trans (List.Perm.append_left _ ?_)
            exact (List.perm_append_singleton i _).symm
          · have hlt' : ¬ k < pc + 1 := by omega
            simp only [hlt, hlt', if_false, List.nil_append, List.append_nil] at hold ⊢
            exact hold
      · intro k
        show upd s.outs pc (s.outs pc ++ [c.handle pc (c.lint i)]) k = (upd s.apps pc (s.apps pc ++ [i]) k).map _
        by_cases hkp : k = pc
        · subst hkp; simp [upd, hi.outs k]
        · simp [upd, hkp, hi.outs k]
    · cases h
  | finish i =>
    simp only [step] at h
    split at h
    · rename_i hc
      have hr : (i, c.nh) ∈ s.running := List.contains_iff_mem.mp hc
      simp only [Option.some.injEq] at h
      subst h
      refine ⟨?_, ?_, hi.outs, ?_⟩
      · have h1 := fst_erase_perm s.running (i, c.nh) hr
        have h2 : ((s.running.erase (i, c.nh)).map Prod.fst ++ (s.done ++ [i])).Perm (s.running.map Prod.fst ++ s.done) := by
          have h3 : ((s.running.erase (i, c.nh)).map Prod.fst ++ (s.done ++ [i])).Perm
              (i :: (s.running.erase (i, c.nh)).map Prod.fst ++ s.done) := by
            rw [← List.append_assoc]
            exact (List.perm_append_singleton i _).trans (by simp)
          exact h3.trans (h1.symm.append_right _)
        have h4 : (s.pending ++ (s.running.erase (i, c.nh)).map Prod.fst ++ (s.done ++ [i])).Perm
            (s.pending ++ s.running.map Prod.fst ++ s.done) := by
          simp only [List.append_assoc]
          exact h2.append_left _
        exact h4.trans hi.perm
      · intro k hk
        show (s.apps k).Perm (s.done ++ [i] ++ served (s.running.erase (i, c.nh)) k)
        have hold := (hi.apps k hk).trans ((served_erase s.running (i, c.nh) hr k).append_left _)
        simp only [hk, if_true] at hold
        simpa using hold
      · show s.count + _ = _
        rw [hi.count, List.countP_append]
        simp [List.countP_cons]
    · cases h

theorem inv_reach (c : Cfg ρ β) {s : State β} (hr : Reach c s) : Inv c s := by
  induction hr with
  | init => exact inv_init c
  | step _ hs ih => exact inv_step c ih hs

theorem replay_reach (c : Cfg ρ β) : ∀ (es : List Ev) (s s' : State β), Reach c s → replay c s es = some s' → Reach c s' := by
  intro es
  induction es with
  | nil => intro s s' hr h; simp only [replay, Option.some.injEq] at h; subst h; exact hr
  | cons e es ih =>
    intro s s' hr h
    simp only [replay] at h
    split at h
    · rename_i s1 hs1
      exact ih s1 s' (Reach.step hr hs1) h
    · cases h

end LokiModel.C42
