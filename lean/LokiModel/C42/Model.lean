/-!
# C42 model: linting a file set with a pool of workers
(`loki/lint/linter.py: lint_files_glob / check_and_fix_file / Linter.check`,
`loki/lint/reporter.py: Reporter.init_parallel / add_file_report / add_file_error`,
`loki/jit_build/workqueue.py: ParallelQueue.call`)

* `files` — the paths `find_paths` returns (sorted), as numbers.
* `lint f : ρ` — what `check_and_fix_file` computes for file `f`, a *deterministic function of the file*:
  either the `FileReport` produced by `Linter.check` or, when `Sourcefile.from_file`/a rule raises, the
  error report built by `Reporter.add_file_error` (`ρ` is abstract: "report ⊕ error").
  `ok r` is the Boolean `check_and_fix_file` returns (summed into `checked_count`).
* `nh` handlers; `handle k : ρ → β` is `handler_k.handle` (`DefaultHandler.handle`,
  `ViolationFileHandler.handle`, `JunitXmlHandler.handle` …).
* `Reporter.add_file_report` runs `for handler, reports in self.handlers_reports.items():
  reports.append(handler.handle(file_report))`: **one append per handler, one after the other**.  In the
  parallel path the lists are `manager.list()` proxies shared by the workers, so the appends of different
  files interleave and two handler lists may end up in different orders.  The model therefore gives every
  running file a counter `pc` (handlers already served): `append i pc` appends to the list of handler
  `pc` only.

**Sessions.**  One `Linter`/`Reporter` can be used for several `lint_files_glob` calls with different
worker counts before `Reporter.output()` (and `Linter.check` can be called directly in between): the
handler lists live in the reporter and accumulate.  `Reporter.init_parallel` moves them into the new
manager with `manager.list(reports)`, i.e. it **keeps** what was collected so far.  The event
`call files w` (enabled when nothing is pending or running) starts the next call: it sets the pending
files and the worker count and leaves the handler lists untouched; `all` is the (ghost) list of all files
submitted so far.

Transition system: `start i` takes any pending file while fewer than `w` jobs run; `append i pc`;
`finish i` when all `nh` handlers are served (the future completes, `checked_count += result`).  Any
interleaving is a run.  The serial path (`max_workers == 1`: `for path in files: check_and_fix_file(…)`)
is the run `start f, append f 0 … append f (nh-1), finish f` for each file in turn.

`acceptEvents` is the trace validator the driver applies to the observed per-handler orders: jobs are
*started* in submission order (the executor's call queue is FIFO), at most `w` at a time.
Core Lean only.
-/
namespace LokiModel.C42

structure Cfg (ρ β : Type) where
  lint : Nat → ρ
  ok : ρ → Bool
  nh : Nat
  handle : Nat → ρ → β

inductive Ev where
  /-- `lint_files_glob(linter, …, max_workers = w)` on the files `files` -/
  | call (files : List Nat) (w : Nat)
  | start (i : Nat)
  | append (i pc : Nat)
  | finish (i : Nat)
deriving Repr, DecidableEq

structure State (β : Type) where
  /-- ghost: every file submitted so far, over all calls -/
  all : List Nat
  /-- worker count of the current call -/
  w : Nat
  pending : List Nat
  /-- (file, number of handlers already served) -/
  running : List (Nat × Nat)
  /-- order in which the jobs completed -/
  done : List Nat
  /-- per handler: the files appended so far, in list order -/
  apps : Nat → List Nat
  /-- `handlers_reports`: per handler the list of `handle` results -/
  outs : Nat → List β
  /-- sum of the `checked_count`s -/
  count : Nat

variable {ρ β : Type}

/-- a fresh `Reporter`: empty handler lists -/
def init : State β :=
  { all := [], w := 0, pending := [], running := [], done := [], apps := fun _ => [], outs := fun _ => [], count := 0 }

def upd {α : Type} (f : Nat → α) (k : Nat) (v : α) : Nat → α := fun j => if j = k then v else f j

def isFinal (s : State β) : Bool := s.pending.isEmpty && s.running.isEmpty

def step (c : Cfg ρ β) (s : State β) : Ev → Option (State β)
  | .call files w =>
    -- `init_parallel`: `parallel_reports[handler] = manager.list(reports)` keeps the lists
    if isFinal s then some { s with all := s.all ++ files, w := w, pending := files } else none
  | .start i =>
    if s.pending.contains i && decide (s.running.length < s.w) then
      some { s with pending := s.pending.erase i, running := s.running ++ [(i, 0)] }
    else none
  | .append i pc =>
    if s.running.contains (i, pc) && decide (pc < c.nh) then
      some { s with running := s.running.erase (i, pc) ++ [(i, pc + 1)],
                    apps := upd s.apps pc (s.apps pc ++ [i]),
                    outs := upd s.outs pc (s.outs pc ++ [c.handle pc (c.lint i)]) }
    else none
  | .finish i =>
    if s.running.contains (i, c.nh) then
      some { s with running := s.running.erase (i, c.nh), done := s.done ++ [i],
                    count := s.count + (if c.ok (c.lint i) then 1 else 0) }
    else none

/-- what is on disk for handler `k` once `Reporter.output` has run: the handler list.  `LazyTextfile.write`
flushes after every write (since the `fix:` commit recorded in `known_findings.json`, class
`parallel-output-lost`), so this no longer depends on when the handler object — in the parallel path a
copy unpickled from the manager dict — is garbage collected.  The former behaviour is kept in
`LokiModel/Findings/C42.lean`. -/
def onDisk (_c : Cfg ρ β) (s : State β) (k : Nat) : Option (List β) := some (s.outs k)

inductive Reach (c : Cfg ρ β) : State β → Prop
  | init : Reach c init
  | step {s s' : State β} {e : Ev} : Reach c s → step c s e = some s' → Reach c s'

def replay (c : Cfg ρ β) (s : State β) : List Ev → Option (State β)
  | [] => some s
  | e :: es =>
    match step c s e with
    | some s' => replay c s' es
    | none => none

/-- `add_file_report` for one file: one append per handler, in handler order -/
def appendsFrom (f : Nat) : Nat → Nat → List Ev
  | _, 0 => []
  | pc, n + 1 => .append f pc :: appendsFrom f (pc + 1) n

/-- the serial loop `for path in files: check_and_fix_file(path, linter)` as an event list -/
def serialEvents (nh : Nat) : List Nat → List Ev
  | [] => []
  | f :: fs => .start f :: (appendsFrom f 0 nh ++ .finish f :: serialEvents nh fs)

/-- a whole session run with one worker: every call is the serial loop -/
def sessionSerial (nh : Nat) : List (List Nat) → List Ev
  | [] => []
  | fs :: rest => .call fs 1 :: (serialEvents nh fs ++ sessionSerial nh rest)

/-- the files submitted by the calls of an event list -/
def filesOf : List Ev → List Nat
  | [] => []
  | .call fs _ :: es => fs ++ filesOf es
  | .start _ :: es => filesOf es
  | .append _ _ :: es => filesOf es
  | .finish _ :: es => filesOf es

/-- what the serial loop over `files` leaves in the list of handler `k` -/
def serialOut (c : Cfg ρ β) (files : List Nat) (k : Nat) : List β := files.map (fun f => c.handle k (c.lint f))

/-! ### trace validator (driver side; its answer is re-checked by `replay`) -/

def pcOf (running : List (Nat × Nat)) (i : Nat) : Option Nat :=
  (running.find? (fun p => p.1 == i)).map (·.2)

/-- first handler whose next expected file can be served now: returns `(k, i)` -/
def nextAppend (running : List (Nat × Nat)) : Nat → List (List Nat) → Option (Nat × Nat)
  | _, [] => none
  | k, [] :: rest => nextAppend running (k + 1) rest
  | k, (i :: _) :: rest => if pcOf running i == some k then some (k, i) else nextAppend running (k + 1) rest

def dropHead (k : Nat) : List (List Nat) → List (List Nat)
  | [] => []
  | l :: rest => if k = 0 then l.tail :: rest else l :: dropHead (k - 1) rest

/-- greedy schedule for the observed per-handler orders `rem` (FIFO starts, finish as soon as all
handlers are served) -/
def acceptGo (nh w : Nat) : Nat → List Nat → List (Nat × Nat) → List (List Nat) → Option (List Ev)
  | 0, _, _, _ => none
  | fuel + 1, pending, running, rem =>
    match running.find? (fun p => p.2 == nh) with
    | some (i, _) => (acceptGo nh w fuel pending (running.erase (i, nh)) rem).map (fun es => Ev.finish i :: es)
    | none =>
      match nextAppend running 0 rem with
      | some (k, i) =>
        (acceptGo nh w fuel pending (running.erase (i, k) ++ [(i, k + 1)]) (dropHead k rem)).map
          (fun es => Ev.append i k :: es)
      | none =>
        match pending with
        | p :: ps =>
          if running.length < w then
            (acceptGo nh w fuel ps (running ++ [(p, 0)]) rem).map (fun es => Ev.start p :: es)
          else none
        | [] => if running.isEmpty && rem.all List.isEmpty then some [] else none

def acceptEvents (files : List Nat) (nh w : Nat) (orders : List (List Nat)) : Option (List Ev) :=
  acceptGo nh w ((nh + 2) * files.length + 2) files [] orders

end LokiModel.C42
