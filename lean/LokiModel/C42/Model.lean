/-!
# C42 model: linting a file set with a pool of workers
(`loki/lint/linter.py: lint_files_glob / check_and_fix_file / Linter.check`,
`loki/lint/reporter.py: Reporter.init_parallel / add_file_report / add_file_error`,
`loki/jit_build/workqueue.py: ParallelQueue.call`)

* `files` — the paths `find_paths` returns (sorted), as numbers.
* `lint f : ρ` — what `check_and_fix_file` computes for file `f`, a *deterministic function of the file*:
  either the `FileReport` produced by `Linter.check` or, when `Sourcefile.from_file`/a rule raises, the
  error report built by `Reporter.add_file_error` (`ρ` is abstract: "report ⊕ error").
  `ok r` is the Boolean `check_and_fix_file` returns (summed into `checked_count`).
* `handlers` — for every handler `h` of the `Reporter`, the function `handle : ρ → β`
  (`DefaultHandler.handle`, `ViolationFileHandler.handle`, `JunitXmlHandler.handle` …).
* `Reporter.add_file_report` appends `handler.handle(file_report)` to the list of **every** handler
  (`for handler, reports in self.handlers_reports.items(): reports.append(…)`); in the parallel path the
  lists are `manager.list()` proxies shared by the workers, so the order of the entries is the order in
  which workers get there.

Transition system: `start i` takes any pending file while fewer than `w` jobs run, `finish i` appends
`h (lint i)` to the list of every handler.  Any interleaving is a run.  The serial path
(`max_workers == 1`: `for path in files: check_and_fix_file(path, …)`) is the run
`start f₁, finish f₁, start f₂, …`.

`acceptFifo` is the trace validator the driver applies to an observed completion order: jobs are
*started* in submission order (the executor's call queue is FIFO), at most `w` at a time.
Core Lean only.
-/
namespace LokiModel.C42

structure Cfg (ρ β : Type) where
  files : List Nat
  lint : Nat → ρ
  ok : ρ → Bool
  handlers : List (ρ → β)
  w : Nat

inductive Ev where
  | start (i : Nat)
  | finish (i : Nat)
deriving Repr, DecidableEq

structure State (β : Type) where
  pending : List Nat
  running : List Nat
  /-- completion order -/
  done : List Nat
  /-- `handlers_reports`: one list per handler -/
  outs : List (List β)
  /-- `checked_count` -/
  count : Nat

variable {ρ β : Type}

def init (c : Cfg ρ β) : State β :=
  { pending := c.files, running := [], done := [], outs := c.handlers.map (fun _ => []), count := 0 }

/-- `Reporter.add_file_report` -/
def addReport (hs : List (ρ → β)) (outs : List (List β)) (r : ρ) : List (List β) :=
  List.zipWith (fun h l => l ++ [h r]) hs outs

def step (c : Cfg ρ β) (s : State β) : Ev → Option (State β)
  | .start i =>
    if s.pending.contains i && decide (s.running.length < c.w) then
      some { s with pending := s.pending.erase i, running := s.running ++ [i] }
    else none
  | .finish i =>
    if s.running.contains i then
      some { s with running := s.running.erase i, done := s.done ++ [i],
                    outs := addReport c.handlers s.outs (c.lint i),
                    count := s.count + (if c.ok (c.lint i) then 1 else 0) }
    else none

def isFinal (s : State β) : Bool := s.pending.isEmpty && s.running.isEmpty

inductive Reach (c : Cfg ρ β) : State β → Prop
  | init : Reach c (init c)
  | step {s s' : State β} {e : Ev} : Reach c s → step c s e = some s' → Reach c s'

def replay (c : Cfg ρ β) (s : State β) : List Ev → Option (State β)
  | [] => some s
  | e :: es =>
    match step c s e with
    | some s' => replay c s' es
    | none => none

/-- the serial loop `for path in files: check_and_fix_file(path, linter)` as an event list -/
def serialEvents : List Nat → List Ev
  | [] => []
  | f :: fs => .start f :: .finish f :: serialEvents fs

/-- what the serial loop leaves in the list of handler `h` -/
def serialOut (c : Cfg ρ β) (h : ρ → β) : List β := c.files.map (fun f => h (c.lint f))

/-- FIFO-start trace validator: given the observed completion order, start pending jobs in submission
order only when needed (and allowed by `w`); returns the event list of the run it found -/
def fifoGo (w : Nat) : Nat → List Nat → List Nat → List Nat → Option (List Ev)
  | _, [], [], [] => some []
  | _, _, _, [] => none
  | 0, _, _, _ => none
  | fuel + 1, pending, running, f :: order =>
    if running.contains f then
      (fifoGo w fuel pending (running.erase f) order).map (fun es => Ev.finish f :: es)
    else
      match pending with
      | [] => none
      | p :: ps =>
        if running.length < w then
          (fifoGo w fuel ps (running ++ [p]) (f :: order)).map (fun es => Ev.start p :: es)
        else none

def fifoEvents (files : List Nat) (w : Nat) (order : List Nat) : Option (List Ev) :=
  fifoGo w (2 * files.length + 2 * order.length + 1) files [] order

end LokiModel.C42
