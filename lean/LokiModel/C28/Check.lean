import LokiModel.C28.CallThm
/-!
# C28 — Boolean checkers for the hypotheses of the call-level theorem

`callOKb u args W` decides the static conditions `CallOK`, `callStb u args W st` the conditions `CallSt` on a given caller state.
-/
namespace LokiModel.C28
open LokiModel.Fir
open LokiModel.Expr (Val)

def isIdx : Ex → Bool
  | .idx _ _ => true
  | _ => false

def scalarUnitB (u : Fir.Unit) : Bool :=
  u.decls.all (fun d => d.dims.isEmpty && d.param.isNone) &&
  decide ((u.decls.map (·.name)).Nodup) &&
  u.args.all (fun x => (u.decls.map (·.name)).contains x) &&
  decide u.args.Nodup

/-- the static conditions of `inline_sound_partial`, computed:
scalar-only callee without PARAMETERs, distinct names; as many actuals as dummies, no element actual; body in the covered class
(`okSs`); every written variable mapped to a variable that no other image mentions (`sideOK`: written dummies bound to distinct
variables that occur in no other actual, local names not used by the actuals); a written dummy is not INTENT(IN); a dummy that
is not written is INTENT(IN) or bound to an expression -/
def callOKb (u : Fir.Unit) (args : List Ex) (W : List String) : Bool :=
  scalarUnitB u && (u.args.length == args.length) && args.all (fun a => !isIdx a) &&
  okSs (u.decls.map (·.name)) W u.body && sideOK (u.args.zip args) (u.decls.map (·.name)) W &&
  (u.args.zip args).all fun p =>
    match findDecl u p.1 with
    | some d => if W.contains p.1 then d.intent != .in_ else (d.intent == .in_ || !isVar p.2)
    | none => false

theorem scalarUnitB_sound {u : Fir.Unit} (h : scalarUnitB u = true) : ScalarUnit u := by
  simp only [scalarUnitB, Bool.and_eq_true, List.all_eq_true, decide_eq_true_eq] at h
  obtain ⟨⟨⟨h1, h2⟩, h3⟩, h4⟩ := h
  refine ⟨fun d hd => ?_, h2, fun x hx => by simpa using h3 x hx, h4⟩
  have := h1 d hd
  simp only [List.isEmpty_iff, Option.isNone_iff_eq_none] at this
  exact this

theorem callOKb_sound {u : Fir.Unit} {args : List Ex} {W : List String} (h : callOKb u args W = true) :
    CallOK u args W := by
  simp only [callOKb, Bool.and_eq_true] at h
  obtain ⟨⟨⟨⟨⟨h1, h2⟩, h3⟩, h4⟩, h5⟩, h6⟩ := h
  have hsu := scalarUnitB_sound h1
  have hlen : u.args.length = args.length := by simpa using h2
  simp only [List.all_eq_true] at h3 h6
  refine ⟨hsu, hlen, ?_, h4, h5, ?_, ?_⟩
  · intro a ha y subs he
    have := h3 a ha
    rw [he] at this
    simp [isIdx] at this
  · intro x d hxW hxa hfd
    obtain ⟨a, hp⟩ := zip_mem_left _ _ hlen _ hxa
    have := h6 (x, a) hp
    simp only [hfd] at this
    have hc : W.contains x = true := by simpa using hxW
    rw [hc] at this
    simpa using this
  · intro p d hp hxW hfd
    have := h6 p hp
    simp only [hfd] at this
    have hc : W.contains p.1 = false := by simpa using hxW
    rw [hc] at this
    simp only [Bool.false_eq_true, if_false, Bool.or_eq_true, beq_iff_eq, Bool.not_eq_true'] at this
    rcases this with h | h
    · exact Or.inl h
    · refine Or.inr (fun y he => ?_)
      rw [he] at h
      simp [isVar] at h

def scalarCellTy (st : St) (x : String) : Option (Ty × Option Val) :=
  match lookupCell st x with
  | some (.scalar ty ov) => some (ty, ov)
  | _ => none

/-- the conditions on the caller state, computed -/
def callStb (u : Fir.Unit) (args : List Ex) (W : List String) (st : St) : Bool :=
  st.alias.isEmpty &&
  ((u.args.zip args).all fun p =>
    match findDecl u p.1 with
    | none => true
    | some d =>
      if W.contains p.1 then
        match p.2 with
        | .var a => match scalarCellTy st a with
            | some (ty, ov) => ty == d.ty && (match ov with | some v => coerce d.ty v == some v | none => true)
            | none => false
        | _ => false
      else
        (match p.2 with
         | .var y => (scalarCellTy st y).isSome
         | _ => true) &&
        (match evalE st [] p.2 with
         | some v => coerce d.ty v == some v
         | none => true)) &&
  (u.decls.all fun d => u.args.contains d.name ||
    match scalarCellTy st d.name with
    | some (ty, _) => ty == d.ty
    | none => false)

theorem scalarCellTy_some {st : St} {x : String} {ty : Ty} {ov : Option Val} (h : scalarCellTy st x = some (ty, ov)) :
    lookupCell st x = some (.scalar ty ov) := by
  unfold scalarCellTy at h
  cases hl : lookupCell st x with
  | none => rw [hl] at h; simp at h
  | some c =>
    rw [hl] at h
    cases c with
    | scalar t o => simp only [Option.some.injEq, Prod.mk.injEq] at h; rw [h.1, h.2]
    | array _ _ _ => simp at h

theorem callStb_sound {u : Fir.Unit} {args : List Ex} {W : List String} {st : St} (h : callStb u args W st = true) :
    CallSt u args W st := by
  simp only [callStb, Bool.and_eq_true, List.all_eq_true] at h
  obtain ⟨⟨h1, h2⟩, h3⟩ := h
  refine ⟨by simpa using h1, ?_, ?_, ?_⟩
  · intro p d hp hxW hfd
    have := h2 p hp
    simp only [hfd] at this
    have hc : W.contains p.1 = true := by simpa using hxW
    rw [hc] at this
    simp only [if_true] at this
    cases hp2 : p.2 with
    | var a =>
      rw [hp2] at this
      simp only at this
      cases hs : scalarCellTy st a with
      | none => rw [hs] at this; simp at this
      | some q =>
        obtain ⟨ty, ov⟩ := q
        rw [hs] at this
        simp only [Bool.and_eq_true, beq_iff_eq] at this
        obtain ⟨ht, hv⟩ := this
        subst ht
        refine ⟨a, ov, rfl, scalarCellTy_some hs, fun v hov => ?_⟩
        subst hov
        simpa using hv
    | lit _ => rw [hp2] at this; simp at this
    | idx _ _ => rw [hp2] at this; simp at this
    | sec _ _ => rw [hp2] at this; simp at this
    | neg _ => rw [hp2] at this; simp at this
    | not _ => rw [hp2] at this; simp at this
    | bin _ _ _ => rw [hp2] at this; simp at this
    | call _ _ => rw [hp2] at this; simp at this
  · intro p d hp hxW hfd
    have := h2 p hp
    simp only [hfd] at this
    have hc : W.contains p.1 = false := by simpa using hxW
    rw [hc] at this
    simp only [Bool.false_eq_true, if_false, Bool.and_eq_true] at this
    obtain ⟨ha, hb⟩ := this
    constructor
    · intro y hy
      rw [hy] at ha
      simp only [Option.isSome_iff_exists] at ha
      obtain ⟨q, hq⟩ := ha
      obtain ⟨ty, ov⟩ := q
      exact ⟨ty, ov, scalarCellTy_some hq⟩
    · intro v hv
      rw [hv] at hb
      simpa using hb
  · intro d hd hna
    have := h3 d hd
    have hc : u.args.contains d.name = false := by simpa using hna
    rw [hc] at this
    simp only [Bool.false_or] at this
    cases hs : scalarCellTy st d.name with
    | none => rw [hs] at this; simp at this
    | some q =>
      obtain ⟨ty, ov⟩ := q
      rw [hs] at this
      simp only [beq_iff_eq] at this
      subst this
      exact ⟨ov, scalarCellTy_some hs⟩

end LokiModel.C28
