import LokiModel.Fir.Syntax
/-!
# C28 — model of subroutine-call inlining (`loki/transformations/inline/procedures.py`)

`inlineProgram mode p` follows `inline_marked_subroutines` (`mode = marked`: calls carrying a `!$loki inline` pragma, grouped by
callee in order of first occurrence) and `inline_internal_procedures` (`mode = internal`: every unit other than the main unit is
an internal procedure, all calls to them are inlined and the procedures removed) through `inline_subroutine_calls` and
`map_call_to_procedure_body`:

* callee locals whose name is also a name of the caller are renamed `<callee>_<name>` in the callee's declarations and body
  (the callee unit itself is changed, as in the real code);
* the callee's local declarations that the caller does not have yet are appended to the caller's declarations;
* every inlined call is replaced by the callee body with each dummy replaced by its actual (one simultaneous substitution);
* PRINT statements are NOT substituted (the real `SubstituteExpressions` does not reach them) — modelled as it is.

Covered part of the input language (`Covered`): callees whose declarations are all scalars, without CALL / ASSOCIATE statements,
whose written dummies are bound to variables or elements.  Array dummies (`_map_unbound_dims`) are not modelled.
Core Lean only.
-/
namespace LokiModel.C28
open LokiModel.Fir

def lookupM (m : List (String × Ex)) (x : String) : Option Ex := (m.find? (·.1 == x)).map (·.2)

mutual
/-- simultaneous substitution of variables by expressions -/
def substM (m : List (String × Ex)) : Ex → Ex
  | .lit v => .lit v
  | .var y => match lookupM m y with
      | some r => r
      | none => .var y
  | .idx y subs => .idx y (substMs m subs)
  | .sec y dims => .sec y (substMDims m dims)
  | .neg a => .neg (substM m a)
  | .not a => .not (substM m a)
  | .bin o a b => .bin o (substM m a) (substM m b)
  | .call f args => .call f (substMs m args)
def substMs (m : List (String × Ex)) : List Ex → List Ex
  | [] => []
  | e :: es => substM m e :: substMs m es
def substMDims (m : List (String × Ex)) : List Dim → List Dim
  | [] => []
  | .at e :: ds => .at (substM m e) :: substMDims m ds
  | .rng lo hi st :: ds => .rng (substMO m lo) (substMO m hi) (substMO m st) :: substMDims m ds
def substMO (m : List (String × Ex)) : Option Ex → Option Ex
  | none => none
  | some e => some (substM m e)
end

/-- a DO variable follows the map when it is mapped to a variable -/
def renVar (m : List (String × Ex)) (v : String) : String :=
  match lookupM m v with
  | some (.var z) => z
  | _ => v

mutual
def substS (m : List (String × Ex)) : Stmt → Stmt
  | .assign l r => .assign (substM m l) (substM m r)
  | .doLoop v lo hi st body => .doLoop (renVar m v) (substM m lo) (substM m hi) (substMO m st) (substSs m body)
  | .while c b => .while (substM m c) (substSs m b)
  | .ifte c t e => .ifte (substM m c) (substSs m t) (substSs m e)
  | .select e cs d => .select (substM m e) (substCs m cs) (substSs m d)
  | .assoc bs body => .assoc bs body
  | .callSub f args => .callSub f (substMs m args)
  | .print args => .print args
  | .exit => .exit
  | .cycle => .cycle
  | .nop k t => .nop k t
def substSs (m : List (String × Ex)) : List Stmt → List Stmt
  | [] => []
  | s :: ss => substS m s :: substSs m ss
def substCs (m : List (String × Ex)) : List (List Int × List Stmt) → List (List Int × List Stmt)
  | [] => []
  | (vs, b) :: cs => (vs, substSs m b) :: substCs m cs
end

/-! ### names -/

mutual
def exNames : Ex → List String
  | .lit _ => []
  | .var x => [x]
  | .idx x subs => x :: exsNames subs
  | .sec x dims => x :: dimsNames dims
  | .neg a => exNames a
  | .not a => exNames a
  | .bin _ a b => exNames a ++ exNames b
  | .call _ args => exsNames args
def exsNames : List Ex → List String
  | [] => []
  | e :: es => exNames e ++ exsNames es
def dimsNames : List Dim → List String
  | [] => []
  | .at e :: ds => exNames e ++ dimsNames ds
  | .rng lo hi st :: ds => oNames lo ++ oNames hi ++ oNames st ++ dimsNames ds
def oNames : Option Ex → List String
  | none => []
  | some e => exNames e
end

/-- names an actual mentions below its top node (what `recursive_expression_map_update` rewrites) -/
def belowTop : Ex → List String
  | .var _ => []
  | .idx _ subs => exsNames subs
  | .sec _ dims => dimsNames dims
  | e => exNames e

mutual
/-- all statements of a list, nested ones included (pre-order) -/
def flat : List Stmt → List Stmt
  | [] => []
  | s :: ss => s :: (flatS s ++ flat ss)
def flatS : Stmt → List Stmt
  | .doLoop _ _ _ _ b => flat b
  | .while _ b => flat b
  | .ifte _ t e => flat t ++ flat e
  | .select _ cs d => flatC cs ++ flat d
  | .assoc _ b => flat b
  | _ => []
def flatC : List (List Int × List Stmt) → List Stmt
  | [] => []
  | (_, b) :: cs => flat b ++ flatC cs
end

def baseName : Ex → Option String
  | .var x => some x
  | .idx x _ => some x
  | .sec x _ => some x
  | _ => none

/-- names a statement list may write: assignment targets, DO variables, variable/element/section actuals of calls -/
def writtenNames (ss : List Stmt) : List String :=
  (flat ss).flatMap fun s => match s with
    | .assign l _ => (baseName l).toList
    | .doLoop v _ _ _ _ => [v]
    | .callSub _ args => args.filterMap baseName
    | _ => []

def isInlinePragma (k t : String) : Bool := k == "pragma" && t.startsWith "loki inline"

mutual
/-- calls carrying a `loki inline` pragma (a run of pragma statements directly in front contains one), pre-order -/
def markedCalls (hot : Bool) : List Stmt → List (String × List Ex)
  | [] => []
  | s :: ss =>
      match s with
      | .nop k t => if k == "pragma" then markedCalls (hot || isInlinePragma k t) ss else markedCalls false ss
      | .callSub f args => (if hot then [(f, args)] else []) ++ markedCalls false ss
      | .doLoop _ _ _ _ b => markedCalls false b ++ markedCalls false ss
      | .while _ b => markedCalls false b ++ markedCalls false ss
      | .ifte _ t e => markedCalls false t ++ markedCalls false e ++ markedCalls false ss
      | .select _ cs d => markedCallsC cs ++ markedCalls false d ++ markedCalls false ss
      | .assoc _ b => markedCalls false b ++ markedCalls false ss
      | _ => markedCalls false ss
def markedCallsC : List (List Int × List Stmt) → List (String × List Ex)
  | [] => []
  | (_, b) :: cs => markedCalls false b ++ markedCallsC cs
end

inductive Mode where
  | marked | internal
deriving DecidableEq, Repr

def findU (p : Program) (f : String) : Option Fir.Unit := p.units.find? (·.name == f)

def mainBody (p : Program) : List Stmt := match findU p p.main with
  | some u => u.body
  | none => []

def mainDecls (p : Program) : List Decl := match findU p p.main with
  | some u => u.decls
  | none => []

/-- the calls that get inlined -/
def inlinedCalls (mode : Mode) (p : Program) : List (String × List Ex) :=
  match mode with
  | .marked => markedCalls false (mainBody p)
  | .internal =>
      let names := (p.units.map (·.name)).filter (· != p.main)
      (flat (mainBody p)).filterMap fun s => match s with
        | .callSub f args => if names.contains f then some (f, args) else none
        | _ => none

/-- (call, callee) for the inlined calls whose callee is known, is not the main unit and has the right number of dummies -/
def callSites (mode : Mode) (p : Program) : List ((String × List Ex) × Fir.Unit) :=
  (inlinedCalls mode p).filterMap fun c => match findU p c.1 with
    | some u => if u.name != p.main && u.args.length == c.2.length then some (c, u) else none
    | none => none

def calleeLocals (u : Fir.Unit) : List String := (u.decls.map (·.name)).filter fun x => !u.args.contains x

def callerNames (p : Program) : List String := (mainDecls p).map (·.name)

def duplicates (p : Program) (u : Fir.Unit) : List String := (calleeLocals u).filter (callerNames p).contains

def writtenDummies (u : Fir.Unit) : List String := (writtenNames u.body).filter u.args.contains

def inter (a b : List String) : Bool := a.any b.contains

/-! ### decidable classes of known defects (mirrored in `harness/props/c28.py`) -/

/-- an inlined callee has a PRINT statement mentioning a dummy or a local that gets renamed: the text is not substituted -/
def KnownPrint (mode : Mode) (p : Program) : Bool :=
  (callSites mode p).any fun (_, u) =>
    let hotNames := u.args ++ duplicates p u
    (flat u.body).any fun s => match s with
      | .print args => inter (exsNames args) hotNames
      | _ => false

/-- an actual that is not a plain variable mentions (below its top node) a variable the callee writes through a dummy -/
def KnownReeval (mode : Mode) (p : Program) : Bool :=
  (callSites mode p).any fun (c, u) =>
    let wd := writtenDummies u
    let wr := (u.args.zip c.2).filterMap fun (d, a) => if wd.contains d then baseName a else none
    c.2.any fun a => inter (belowTop a) wr

/-- an actual mentions below its top node a name that is also the name of a dummy of the callee -/
def KnownCapture (mode : Mode) (p : Program) : Bool :=
  (callSites mode p).any fun (c, u) => c.2.any fun a => inter (belowTop a) u.args

/-- the generated name `<callee>_<local>` is already a name of the caller or of the callee -/
def KnownFreshClash (mode : Mode) (p : Program) : Bool :=
  (callSites mode p).any fun (_, u) =>
    (duplicates p u).any fun x => (callerNames p ++ u.decls.map (·.name)).contains (u.name ++ "_" ++ x)

def isVarOrIdx : Ex → Bool
  | .var _ => true
  | .idx _ _ => true
  | _ => false

def isVar : Ex → Bool
  | .var _ => true
  | _ => false

def isSec : Ex → Bool
  | .sec _ _ => true
  | _ => false

def isCallOrAssoc : Stmt → Bool
  | .callSub _ _ => true
  | .assoc _ _ => true
  | _ => false

def isCall : Stmt → Bool
  | .callSub _ _ => true
  | _ => false

/-- the part of the input language the model follows -/
def Covered (mode : Mode) (p : Program) : Bool :=
  let sites := callSites mode p
  sites.length == (inlinedCalls mode p).length &&
  (mode != .internal || p.units.all fun u => u.name == p.main || !(flat u.body).any isCall) &&
  sites.all fun (c, u) =>
    u.decls.all (·.dims.isEmpty) &&
    u.args.all (u.decls.map (·.name)).contains &&
    !(flat u.body).any isCallOrAssoc &&
    (let wd := writtenDummies u
     let dov := (flat u.body).filterMap fun s => match s with
       | .doLoop v _ _ _ _ => some v
       | _ => none
     (u.args.zip c.2).all fun (d, a) =>
       (!wd.contains d || isVarOrIdx a) && (!dov.contains d || isVar a) && !isSec a)

/-! ### the transformation -/

/-- `inline_subroutine_calls`, first half: rename clashing locals of the callee, hoist its local declarations -/
def prepCallee (caller u : Fir.Unit) : Fir.Unit × Fir.Unit :=
  let pv := caller.decls.map (·.name)
  let dups := (u.decls.filter fun d => pv.contains d.name && !u.args.contains d.name).map (·.name)
  let rm : List (String × Ex) := dups.map fun x => (x, .var (u.name ++ "_" ++ x))
  let rn := fun (x : String) => if dups.contains x then u.name ++ "_" ++ x else x
  let decls' := u.decls.map fun d =>
    { d with name := rn d.name, dims := d.dims.map (fun b => (substM rm b.1, substM rm b.2)), param := d.param.map (substM rm) }
  let u' : Fir.Unit := { u with decls := decls', body := substSs rm u.body }
  let hoist := decls'.filter fun d => !u.args.contains d.name && !pv.contains d.name
  ({ caller with decls := caller.decls ++ hoist.map fun d => { d with intent := .none } }, u')

/-- `map_call_to_procedure_body`: the callee body with every dummy replaced by its actual -/
def inlineBody (u : Fir.Unit) (args : List Ex) : List Stmt := substSs (u.args.zip args) u.body

mutual
/-- replace the selected calls (all calls to a prepared callee in internal mode, the marked ones otherwise); `pend` is the run
of pragma statements in front of the current statement, dropped together with an inlined marked call -/
def inlList (cs : List Fir.Unit) (all : Bool) (pend : List Stmt) (hot : Bool) : List Stmt → List Stmt
  | [] => pend
  | s :: ss =>
      match s with
      | .nop k t =>
          if k == "pragma" then inlList cs all (pend ++ [.nop k t]) (hot || isInlinePragma k t) ss
          else pend ++ .nop k t :: inlList cs all [] false ss
      | .callSub f args =>
          match (if all || hot then cs.find? (·.name == f) else none) with
          | some u => (if hot && !all then [] else pend) ++ inlineBody u args ++ inlList cs all [] false ss
          | none => pend ++ .callSub f args :: inlList cs all [] false ss
      | .doLoop v lo hi st b => pend ++ .doLoop v lo hi st (inlList cs all [] false b) :: inlList cs all [] false ss
      | .while c b => pend ++ .while c (inlList cs all [] false b) :: inlList cs all [] false ss
      | .ifte c t e => pend ++ .ifte c (inlList cs all [] false t) (inlList cs all [] false e) :: inlList cs all [] false ss
      | .select e cases d => pend ++ .select e (inlCases cs all cases) (inlList cs all [] false d) :: inlList cs all [] false ss
      | .assoc bs b => pend ++ .assoc bs (inlList cs all [] false b) :: inlList cs all [] false ss
      | s => pend ++ s :: inlList cs all [] false ss
def inlCases (cs : List Fir.Unit) (all : Bool) : List (List Int × List Stmt) → List (List Int × List Stmt)
  | [] => []
  | (vs, b) :: rest => (vs, inlList cs all [] false b) :: inlCases cs all rest
end

def dedup : List String → List String
  | [] => []
  | x :: xs => x :: (dedup xs).filter (· != x)

/-- the callees processed, in the order the real code processes them -/
def calleeOrder (mode : Mode) (p : Program) : List String :=
  match mode with
  | .marked => dedup ((callSites mode p).map (·.1.1))
  | .internal => (p.units.map (·.name)).filter (· != p.main)

def inlineProgram (mode : Mode) (p : Program) : Program :=
  match findU p p.main with
  | none => p
  | some mu =>
      let (mu1, prepared) := (calleeOrder mode p).foldl (fun (acc : Fir.Unit × List Fir.Unit) f =>
        match findU p f with
        | some u => if u.name == p.main then acc else
            let (c', u') := prepCallee acc.1 u
            (c', acc.2 ++ [u'])
        | none => acc) (mu, [])
      let mu2 : Fir.Unit := { mu1 with body := inlList prepared (mode == .internal) [] false mu1.body }
      match mode with
      | .internal => { p with units := [mu2] }
      | .marked =>
          { p with units := p.units.map fun u =>
              if u.name == p.main then mu2 else
              match prepared.find? (·.name == u.name) with
              | some u' => u'
              | none => u }

end LokiModel.C28
