import LokiModel.C28.Model
import LokiModel.Fir.Sem
import LokiModel.Fir.Subst
/-!
# C28 — lemmas: substitution under a variable-to-expression map

`substM_evalE_aux`: an expression built from literals, scalar variables, unary/binary operators and intrinsic calls evaluates in a
callee frame `cs` to what its substituted form evaluates to in the caller state `st`, provided every scalar variable `x` of the
frame reads like `substM m (.var x)` does in `st` (the simulation relation of inlining).
-/
namespace LokiModel.C28
open LokiModel.Fir
open LokiModel.Expr (Val)

mutual
/-- no array element / section inside -/
def scalarEx : Ex → Bool
  | .lit _ => true
  | .var _ => true
  | .idx _ _ => false
  | .sec _ _ => false
  | .neg a => scalarEx a
  | .not a => scalarEx a
  | .bin _ a b => scalarEx a && scalarEx b
  | .call _ args => scalarExs args
def scalarExs : List Ex → Bool
  | [] => true
  | e :: es => scalarEx e && scalarExs es
end

/-- the simulation relation on reads: every scalar of the frame `cs` reads like its image under `m` evaluates in `st` -/
def ReadsLike (m : List (String × Ex)) (cs st : St) : Prop :=
  ∀ x, boundsOf cs x = none → readAt cs x [] = evalE st [] (substM m (.var x))

mutual
theorem substM_evalE_aux {m : List (String × Ex)} {cs st : St} (h : ReadsLike m cs st) :
    ∀ (e : Ex), scalarEx e = true → (∀ x, x ∈ exNames e → boundsOf cs x = none) →
      evalE cs [] e = evalE st [] (substM m e)
  | .lit v, _, _ => by simp [substM, evalE]
  | .var x, _, hb => by
      have hx : boundsOf cs x = none := hb x (by simp [exNames])
      have := h x hx
      rw [← this]
      simp [evalE, hx]
  | .idx y subs, hs, _ => by simp [scalarEx] at hs
  | .sec y dims, hs, _ => by simp [scalarEx] at hs
  | .neg a, hs, hb => by
      simp only [scalarEx] at hs
      simp only [substM, evalE]
      rw [substM_evalE_aux h a hs (fun x hx => hb x (by simpa [exNames] using hx))]
  | .not a, hs, hb => by
      simp only [scalarEx] at hs
      simp only [substM, evalE]
      rw [substM_evalE_aux h a hs (fun x hx => hb x (by simpa [exNames] using hx))]
  | .bin o a b, hs, hb => by
      simp only [scalarEx, Bool.and_eq_true] at hs
      simp only [substM, evalE]
      rw [substM_evalE_aux h a hs.1 (fun x hx => hb x (by simp [exNames, hx])),
          substM_evalE_aux h b hs.2 (fun x hx => hb x (by simp [exNames, hx]))]
  | .call f args, hs, hb => by
      simp only [scalarEx] at hs
      simp only [substM, evalE]
      rw [substM_evalArgs_aux h args hs (fun x hx => hb x (by simpa [exNames] using hx))]
theorem substM_evalArgs_aux {m : List (String × Ex)} {cs st : St} (h : ReadsLike m cs st) :
    ∀ (es : List Ex), scalarExs es = true → (∀ x, x ∈ exsNames es → boundsOf cs x = none) →
      evalArgs cs [] es = evalArgs st [] (substMs m es)
  | [], _, _ => by simp [substMs, evalArgs]
  | e :: es, hs, hb => by
      simp only [scalarExs, Bool.and_eq_true] at hs
      simp only [substMs, evalArgs]
      rw [substM_evalE_aux h e hs.1 (fun x hx => hb x (by simp [exsNames, hx])),
          substM_evalArgs_aux h es hs.2 (fun x hx => hb x (by simp [exsNames, hx]))]
end

mutual
/-- the map-based substitution of the model with a one-entry map is the shared single-variable substitution -/
theorem substM_single (x : String) (r : Ex) : ∀ e : Ex, substM [(x, r)] e = substE x r e
  | .lit v => by simp [substM, substE]
  | .var y => by
      by_cases hxy : x = y
      · subst hxy; simp [substM, substE, lookupM, List.find?]
      · have h1 : (x == y) = false := by simpa using hxy
        have h2 : (y == x) = false := by simpa using (fun h : y = x => hxy h.symm)
        simp [substM, substE, lookupM, List.find?, h1, h2]
  | .idx y subs => by simp only [substM, substE]; rw [substMs_single x r subs]
  | .sec y dims => by simp only [substM, substE]; rw [substMDims_single x r dims]
  | .neg a => by simp only [substM, substE]; rw [substM_single x r a]
  | .not a => by simp only [substM, substE]; rw [substM_single x r a]
  | .bin o a b => by simp only [substM, substE]; rw [substM_single x r a, substM_single x r b]
  | .call f args => by simp only [substM, substE]; rw [substMs_single x r args]
theorem substMs_single (x : String) (r : Ex) : ∀ es : List Ex, substMs [(x, r)] es = substEs x r es
  | [] => by simp [substMs, substEs]
  | e :: es => by simp only [substMs, substEs]; rw [substM_single x r e, substMs_single x r es]
theorem substMDims_single (x : String) (r : Ex) : ∀ ds : List Dim, substMDims [(x, r)] ds = substDims x r ds
  | [] => by simp [substMDims, substDims]
  | .at e :: ds => by simp only [substMDims, substDims]; rw [substM_single x r e, substMDims_single x r ds]
  | .rng lo hi st :: ds => by
      simp only [substMDims, substDims]
      rw [substMO_single x r lo, substMO_single x r hi, substMO_single x r st, substMDims_single x r ds]
theorem substMO_single (x : String) (r : Ex) : ∀ o : Option Ex, substMO [(x, r)] o = substO x r o
  | none => by simp [substMO, substO]
  | some e => by simp only [substMO, substO]; rw [substM_single x r e]
end

end LokiModel.C28
