import LokiModel.C28.Model
/-!
# C28 — model of `inline_constant_parameters` (`loki/transformations/inline/constants.py`)

`paramUnit u`: every PARAMETER name of the unit is replaced by its initial value in the body (`substParamSs`, one simultaneous
substitution; PRINT statements are NOT substituted — the real `SubstituteExpressions` does not reach them) and in the declared
bounds of the other declarations; the PARAMETER declarations whose value is a literal are dropped.  Core Lean only.
-/
namespace LokiModel.C28
open LokiModel.Fir

mutual
def substParamS (m : List (String × Ex)) : Stmt → Stmt
  | .assign l r => .assign (substM m l) (substM m r)
  | .doLoop v lo hi st body => .doLoop v (substM m lo) (substM m hi) (substMO m st) (substParamSs m body)
  | .while c b => .while (substM m c) (substParamSs m b)
  | .ifte c t e => .ifte (substM m c) (substParamSs m t) (substParamSs m e)
  | .select e cs d => .select (substM m e) (substParamCs m cs) (substParamSs m d)
  | .assoc bs body => .assoc (bs.map fun b => (b.1, substM m b.2)) (substParamSs m body)
  | .callSub f args => .callSub f (substMs m args)
  | s => s
def substParamSs (m : List (String × Ex)) : List Stmt → List Stmt
  | [] => []
  | s :: ss => substParamS m s :: substParamSs m ss
def substParamCs (m : List (String × Ex)) : List (List Int × List Stmt) → List (List Int × List Stmt)
  | [] => []
  | (vs, b) :: cs => (vs, substParamSs m b) :: substParamCs m cs
end

/-- `inline_constant_parameters(external_only=False)` on one unit: every PARAMETER name replaced by its initial value in the
body and in the other declarations, the PARAMETER declarations with a literal value dropped (PRINT is not substituted) -/
def paramUnit (u : Fir.Unit) : Fir.Unit :=
  let m : List (String × Ex) := u.decls.filterMap fun d => d.param.map fun e => (d.name, e)
  let isLit : Ex → Bool := fun e => match e with | .lit _ => true | _ => false
  let keep := u.decls.filter fun d => match d.param with | some e => !isLit e | none => true
  { u with decls := keep.map (fun d => { d with dims := d.dims.map fun b => (substM m b.1, substM m b.2) }),
           body := substParamSs m u.body }

end LokiModel.C28
