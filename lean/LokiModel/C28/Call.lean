import LokiModel.C28.Sim
/-!
# C28 — lifting the body simulation to the FIR call statement (copy-in / copy-out)
-/
namespace LokiModel.C28
open LokiModel.Fir
open LokiModel.Expr (Val)
open LokiModel.C31 (lookupAlias_nil resolve_nil lookup_setCell writeAt_eq cellUpdate)

def isScalarD (u : Fir.Unit) (x : String) : Bool :=
  match findDecl u x with
  | some d => d.dims.isEmpty
  | none => true

def bindStep (u : Fir.Unit) (st : St) (sel : String → Bool) : Option St → String × Ex → Option St :=
  fun acc (x, a) => do
    let s ← acc
    if sel x then do
      let d ← findDecl u x
      let c ← declCell s d
      let data ← actualData st a
      let c' ← fillCell c data
      pure { s with store := s.store ++ [(x, c')] }
    else pure s

def localStep (u : Fir.Unit) : Option St → Decl → Option St :=
  fun acc d => do
    let s ← acc
    if u.args.contains d.name then pure s else do
      let c ← declCell s d
      match d.param with
      | some e => do
          let v ← evalE s [] e
          let c' ← fillCell c [some v]
          pure { s with store := s.store ++ [(d.name, c')] }
      | none => pure { s with store := s.store ++ [(d.name, c)] }

def backStep (u : Fir.Unit) (cs' : St) : Option St → String × Ex → Option St :=
  fun acc (x, a) => do
    let s ← acc
    let d ← findDecl u x
    if d.intent == .in_ then pure s else do
      let c ← (cs'.store.find? (·.1 == x)).map (·.2)
      writeBack s a (cellData c)

/-- the frame of a call: copy-in of the actuals, then the locals -/
def callFrame (u : Fir.Unit) (st : St) (fargs : List Ex) : Option St :=
  let pairs := u.args.zip fargs
  let s1 := pairs.foldl (bindStep u st (isScalarD u)) (some { store := [], alias := [], out := st.out })
  let s2 := pairs.foldl (bindStep u st (fun x => !isScalarD u x)) s1
  u.decls.foldl (localStep u) s2

theorem callSub_unfold (P : Program) (f : Nat) (g : String) (args : List Ex) (st : St) (u : Fir.Unit)
    (hu : findUnit P g = some u) (hlen : u.args.length = args.length) (fargs : List Ex)
    (hfa : args.mapM (freezeActual st) = some fargs) :
    execStmt P (f + 1) (.callSub g args) st =
      match callFrame u st fargs with
      | none => .err "call binding"
      | some cs =>
          match execStmts P f u.body cs with
          | .ok cs' .normal =>
              match (u.args.zip fargs).foldl (backStep u cs') (some { st with out := cs'.out }) with
              | some st' => .ok st' .normal
              | none => .err "copy out"
          | .ok _ _ => .err "exit/cycle outside loop"
          | r => r := by
  simp only [execStmt, hu, hlen, hfa, ne_eq, not_true_eq_false, if_false]
  rfl

/-! ### the frame of a call to a unit with scalar declarations only -/

/-- static well-formedness of a scalar-only callee -/
structure ScalarUnit (u : Fir.Unit) : Prop where
  dims : ∀ d, d ∈ u.decls → d.dims = [] ∧ d.param = none
  nodupD : (u.decls.map (·.name)).Nodup
  argsD : ∀ x, x ∈ u.args → x ∈ u.decls.map (·.name)
  nodupA : u.args.Nodup

theorem find_mem {α : Type} {p : α → Bool} : ∀ {l : List α} {a : α}, l.find? p = some a → a ∈ l ∧ p a = true
  | [], _, h => by simp at h
  | b :: l, a, h => by
      simp only [List.find?] at h
      cases hb : p b with
      | true => rw [hb] at h; injection h with h; subst h; exact ⟨List.mem_cons_self, hb⟩
      | false => rw [hb] at h; exact ⟨List.mem_cons_of_mem _ (find_mem h).1, (find_mem h).2⟩

theorem findDecl_mem {u : Fir.Unit} {x : String} {d : Decl} (h : findDecl u x = some d) : d ∈ u.decls ∧ d.name = x := by
  obtain ⟨h1, h2⟩ := find_mem h
  exact ⟨h1, by simpa using h2⟩

theorem find_nodup {ds : List Decl} (hn : (ds.map (·.name)).Nodup) {d : Decl} (hd : d ∈ ds) :
    ds.find? (·.name == d.name) = some d := by
  induction ds with
  | nil => cases hd
  | cons e rest ih =>
    simp only [List.map, List.nodup_cons] at hn
    simp only [List.find?]
    rcases List.mem_cons.mp hd with he | he
    · subst he; simp
    · have hne : (e.name == d.name) = false := by
        cases hc : (e.name == d.name) with
        | false => rfl
        | true =>
          have : e.name = d.name := by simpa using hc
          exact absurd (this ▸ List.mem_map_of_mem (f := (·.name)) he) hn.1
      rw [hne]
      exact ih hn.2 he

theorem findDecl_of_mem {u : Fir.Unit} (hu : ScalarUnit u) {d : Decl} (hd : d ∈ u.decls) : findDecl u d.name = some d :=
  find_nodup hu.nodupD hd

theorem isScalarD_true {u : Fir.Unit} (hu : ScalarUnit u) (x : String) : isScalarD u x = true := by
  unfold isScalarD
  cases h : findDecl u x with
  | none => rfl
  | some d => simp [(hu.dims d (findDecl_mem h).1).1]

/-- the cell a dummy gets at copy-in -/
def cellOf (u : Fir.Unit) (st : St) (p : String × Ex) : Option (String × Cell) := do
  let d ← findDecl u p.1
  let data ← actualData st p.2
  let c' ← fillCell (.scalar d.ty none) data
  pure (p.1, c')

theorem foldl_none {α β : Type} (g : Option β → α → Option β) (hg : ∀ a, g none a = none) :
    ∀ l : List α, l.foldl g none = none
  | [] => rfl
  | a :: l => by simp only [List.foldl, hg]; exact foldl_none g hg l

theorem bindStep_none (u st sel) (p : String × Ex) : bindStep u st sel none p = none := by
  obtain ⟨x, a⟩ := p; rfl

theorem declCell_scalar (s : St) {d : Decl} (hd : d.dims = []) : declCell s d = some (.scalar d.ty none) := by
  simp [declCell, hd]

theorem bind_pass1 {u : Fir.Unit} (hu : ScalarUnit u) (st : St) :
    ∀ (ps : List (String × Ex)) (s0 : St),
      ps.foldl (bindStep u st (isScalarD u)) (some s0) =
        (ps.mapM (cellOf u st)).map fun cells => { s0 with store := s0.store ++ cells }
  | [], s0 => by simp
  | (x, a) :: ps, s0 => by
      simp only [List.foldl, List.mapM_cons]
      cases hd : findDecl u x with
      | none =>
        have : bindStep u st (isScalarD u) (some s0) (x, a) = none := by
          simp [bindStep, isScalarD_true hu, hd]
        rw [this, foldl_none _ (bindStep_none u st _)]
        simp [cellOf, hd]
      | some d =>
        have hdd := (hu.dims d (findDecl_mem hd).1).1
        cases hda : actualData st a with
        | none =>
          have : bindStep u st (isScalarD u) (some s0) (x, a) = none := by
            simp [bindStep, isScalarD_true hu, hd, declCell_scalar s0 hdd, hda]
          rw [this, foldl_none _ (bindStep_none u st _)]
          simp [cellOf, hd, hda]
        | some data =>
          cases hf : fillCell (.scalar d.ty none) data with
          | none =>
            have : bindStep u st (isScalarD u) (some s0) (x, a) = none := by
              simp [bindStep, isScalarD_true hu, hd, declCell_scalar s0 hdd, hda, hf]
            rw [this, foldl_none _ (bindStep_none u st _)]
            simp [cellOf, hd, hda, hf]
          | some c' =>
            have : bindStep u st (isScalarD u) (some s0) (x, a) = some { s0 with store := s0.store ++ [(x, c')] } := by
              simp [bindStep, isScalarD_true hu, hd, declCell_scalar s0 hdd, hda, hf]
            rw [this, bind_pass1 hu st ps]
            simp only [cellOf, hd, hda, hf, Option.bind_eq_bind, Option.bind_some, Option.pure_def]
            cases ps.mapM (cellOf u st) with
            | none => simp
            | some cells => simp [List.append_assoc]

theorem bind_pass2 {u : Fir.Unit} (hu : ScalarUnit u) (st : St) :
    ∀ (ps : List (String × Ex)) (acc : Option St),
      ps.foldl (bindStep u st (fun x => !isScalarD u x)) acc = acc
  | [], acc => rfl
  | (x, a) :: ps, acc => by
      simp only [List.foldl]
      have : bindStep u st (fun x => !isScalarD u x) acc (x, a) = acc := by
        cases acc <;> simp [bindStep, isScalarD_true hu]
      rw [this]
      exact bind_pass2 hu st ps acc

def locCells (u : Fir.Unit) (ds : List Decl) : List (String × Cell) :=
  (ds.filter fun d => !u.args.contains d.name).map fun d => (d.name, .scalar d.ty none)

theorem local_pass {u : Fir.Unit} :
    ∀ (ds : List Decl) (s0 : St), (∀ d, d ∈ ds → d.dims = [] ∧ d.param = none) →
      ds.foldl (localStep u) (some s0) = some { s0 with store := s0.store ++ locCells u ds }
  | [], s0, _ => by simp [locCells]
  | d :: ds, s0, h => by
      have hd := h d List.mem_cons_self
      simp only [List.foldl]
      by_cases hc : d.name ∈ u.args
      · have : localStep u (some s0) d = some s0 := by simp [localStep, hc]
        rw [this, local_pass ds s0 (fun e he => h e (List.mem_cons_of_mem _ he))]
        simp [locCells, List.filter_cons, hc]
      · have : localStep u (some s0) d = some { s0 with store := s0.store ++ [(d.name, .scalar d.ty none)] } := by
          simp [localStep, hc, declCell_scalar s0 hd.1, hd.2]
        rw [this, local_pass ds _ (fun e he => h e (List.mem_cons_of_mem _ he))]
        simp [locCells, List.filter_cons, hc, List.append_assoc]

theorem callFrame_eq {u : Fir.Unit} (hu : ScalarUnit u) (st : St) (fargs : List Ex) :
    callFrame u st fargs =
      ((u.args.zip fargs).mapM (cellOf u st)).map fun cells =>
        { store := cells ++ locCells u u.decls, alias := [], out := st.out } := by
  unfold callFrame
  simp only [bind_pass1 hu, bind_pass2 hu]
  cases (u.args.zip fargs).mapM (cellOf u st) with
  | none => simp only [Option.map_none]; exact foldl_none _ (fun d => rfl) _
  | some cells =>
    simp only [Option.map_some]
    rw [local_pass u.decls _ hu.dims]
    simp

/-! ### looking things up in the frame -/

theorem find_pair_mem {β : Type} : ∀ {l : List (String × β)} {x : String} {c : β} (rest : List (String × β)),
    (l.map (·.1)).Nodup → (x, c) ∈ l → (l ++ rest).find? (·.1 == x) = some (x, c)
  | [], _, _, _, _, h => by cases h
  | (y, d) :: l, x, c, rest, hn, h => by
      simp only [List.map, List.nodup_cons] at hn
      simp only [List.cons_append, List.find?]
      rcases List.mem_cons.mp h with he | he
      · injection he with h1 h2; subst h1; subst h2; simp
      · have hne : (y == x) = false := by
          cases hc : (y == x) with
          | false => rfl
          | true =>
            have : y = x := by simpa using hc
            exact absurd (this ▸ List.mem_map_of_mem (f := (·.1)) he) hn.1
        simp only [hne]
        exact find_pair_mem rest hn.2 he

theorem find_pair_not_mem {β : Type} : ∀ {l : List (String × β)} {x : String} (rest : List (String × β)),
    x ∉ l.map (·.1) → (l ++ rest).find? (·.1 == x) = rest.find? (·.1 == x)
  | [], _, _, _ => rfl
  | (y, d) :: l, x, rest, h => by
      simp only [List.map, List.mem_cons, not_or] at h
      have hne : (y == x) = false := by
        cases hc : (y == x) with
        | false => rfl
        | true => exact absurd (by simpa using hc : y = x).symm h.1
      simp only [List.cons_append, List.find?, hne]
      exact find_pair_not_mem rest h.2

theorem cellOf_some {u : Fir.Unit} {st : St} {p : String × Ex} {q : String × Cell} (hc : cellOf u st p = some q) :
    ∃ d data c', findDecl u p.1 = some d ∧ actualData st p.2 = some data ∧
      fillCell (.scalar d.ty none) data = some c' ∧ q = (p.1, c') := by
  unfold cellOf at hc
  simp only [Option.bind_eq_bind, Option.pure_def] at hc
  cases h1 : findDecl u p.1 with
  | none => rw [h1] at hc; simp at hc
  | some d =>
    rw [h1] at hc
    simp only [Option.bind_some] at hc
    cases h2 : actualData st p.2 with
    | none => rw [h2] at hc; simp at hc
    | some data =>
      rw [h2] at hc
      simp only [Option.bind_some] at hc
      cases h3 : fillCell (.scalar d.ty none) data with
      | none => rw [h3] at hc; simp at hc
      | some c' =>
        rw [h3] at hc
        simp only [Option.bind_some, Option.some.injEq] at hc
        exact ⟨d, data, c', rfl, rfl, h3, hc.symm⟩

theorem mapM_cells {u : Fir.Unit} {st : St} :
    ∀ {ps : List (String × Ex)} {cells : List (String × Cell)}, ps.mapM (cellOf u st) = some cells →
      cells.map (·.1) = ps.map (·.1) ∧ ∀ p, p ∈ ps → ∃ c, cellOf u st p = some (p.1, c) ∧ (p.1, c) ∈ cells
  | [], cells, h => by
      simp only [List.mapM_nil, Option.pure_def, Option.some.injEq] at h
      subst h; exact ⟨rfl, fun p hp => by cases hp⟩
  | p :: ps, cells, h => by
      simp only [List.mapM_cons, Option.bind_eq_bind, Option.pure_def] at h
      cases hc : cellOf u st p with
      | none => rw [hc] at h; simp at h
      | some q =>
        cases hr : ps.mapM (cellOf u st) with
        | none => rw [hc, hr] at h; simp at h
        | some rest =>
          rw [hc, hr] at h
          simp only [Option.bind_some, Option.some.injEq] at h
          subst h
          obtain ⟨ih1, ih2⟩ := mapM_cells hr
          have hq : q.1 = p.1 := by
            obtain ⟨d, data, c', _, _, _, hq⟩ := cellOf_some hc
            rw [hq]
          refine ⟨by simp [ih1, hq], fun p' hp' => ?_⟩
          rcases List.mem_cons.mp hp' with he | he
          · subst he
            refine ⟨q.2, ?_, ?_⟩
            · rw [hc, ← hq]
            · rw [← hq]; exact List.mem_cons_self
          · obtain ⟨c, h1, h2⟩ := ih2 p' he
            exact ⟨c, h1, List.mem_cons_of_mem _ h2⟩

theorem fillCell_scalar {ty : Ty} {data : List (Option Val)} {c : Cell} (h : fillCell (.scalar ty none) data = some c) :
    ∃ ov, c = .scalar ty ov ∧ (∀ v, ov = some v → ∃ w rest, data = some w :: rest ∧ coerce ty w = some v) ∧
      (ov = none → ∀ w rest, data ≠ some w :: rest) := by
  cases data with
  | nil =>
    simp only [fillCell, Option.some.injEq] at h
    exact ⟨none, h.symm, fun v hv => (by cases hv), fun _ w rest hc => (by cases hc)⟩
  | cons o rest =>
    cases o with
    | none =>
      simp only [fillCell, Option.some.injEq] at h
      exact ⟨none, h.symm, fun v hv => (by cases hv), fun _ w rest hc => (by cases hc)⟩
    | some w =>
      simp only [fillCell] at h
      cases hco : coerce ty w with
      | none => rw [hco] at h; simp at h
      | some v' =>
        rw [hco] at h
        simp only [Option.map_some, Option.some.injEq] at h
        refine ⟨some v', h.symm, fun v hv => ?_, fun hn => (by cases hn)⟩
        injection hv with hv
        subst hv
        exact ⟨w, rest, rfl, hco⟩

theorem zip_fst {α β : Type} : ∀ (l : List α) (r : List β), l.length = r.length → (l.zip r).map (·.1) = l
  | [], [], _ => rfl
  | [], _ :: _, h => by cases h
  | _ :: _, [], h => by cases h
  | a :: l, b :: r, h => by
      simp only [List.zip_cons_cons, List.map, zip_fst l r (by simpa using h)]

theorem zip_mem_left {α β : Type} : ∀ (l : List α) (r : List β), l.length = r.length → ∀ x, x ∈ l → ∃ y, (x, y) ∈ l.zip r
  | [], _, _, x, hx => by cases hx
  | _ :: _, [], h, _, _ => by cases h
  | a :: l, b :: r, h, x, hx => by
      rcases List.mem_cons.mp hx with he | he
      · subst he; exact ⟨b, by simp⟩
      · obtain ⟨y, hy⟩ := zip_mem_left l r (by simpa using h) x he
        exact ⟨y, by simp [hy]⟩

theorem zip_mem_fst {α β : Type} : ∀ {l : List α} {r : List β} {p : α × β}, p ∈ l.zip r → p.1 ∈ l ∧ p.2 ∈ r
  | [], _, _, h => by simp at h
  | _ :: _, [], _, h => by simp at h
  | a :: l, b :: r, p, h => by
      simp only [List.zip_cons_cons, List.mem_cons] at h
      rcases h with he | he
      · subst he; simp
      · have := zip_mem_fst he; simp [this.1, this.2]

end LokiModel.C28
