import LokiModel.C28.ParamModel
import LokiModel.C28.Lemmas
import LokiModel.C31.Sim
/-!
# C28 — constant-parameter inlining at statement level, by reuse of the C31 substitution simulation

`substParamSs [(x, r)]` (the model of `inline_constant_parameters` for one parameter) is literally C31's
`substStmts x r` (`SubstituteExpressions({x: r})`), so `LokiModel.C31.sim` applies.
-/
namespace LokiModel.C28
open LokiModel.Fir
open LokiModel.Expr (Val)

theorem substBinds_single (x : String) (r : Ex) :
    ∀ bs : List (String × Ex), bs.map (fun b => (b.1, substM [(x, r)] b.2)) = C31.substBinds x r bs
  | [] => rfl
  | (n, e) :: bs => by
      have ih := substBinds_single x r bs
      simp only [List.map, C31.substBinds, substM_single] at ih ⊢
      rw [ih]

mutual
theorem substParamS_single (x : String) (r : Ex) : ∀ s : Stmt, substParamS [(x, r)] s = C31.substStmt x r s
  | .assign l rhs => by simp only [substParamS, C31.substStmt, substM_single]
  | .doLoop v lo hi st body => by
      simp only [substParamS, C31.substStmt, substM_single, substMO_single, substParamSs_single x r body]
  | .while c body => by simp only [substParamS, C31.substStmt, substM_single, substParamSs_single x r body]
  | .ifte c t e => by
      simp only [substParamS, C31.substStmt, substM_single, substParamSs_single x r t, substParamSs_single x r e]
  | .select e cs d => by
      simp only [substParamS, C31.substStmt, substM_single, substParamCs_single x r cs, substParamSs_single x r d]
  | .assoc bs body => by
      simp only [substParamS, C31.substStmt, substBinds_single, substParamSs_single x r body]
  | .callSub f args => by simp only [substParamS, C31.substStmt, substMs_single]
  | .print args => by simp only [substParamS, C31.substStmt]
  | .exit => by simp only [substParamS, C31.substStmt]
  | .cycle => by simp only [substParamS, C31.substStmt]
  | .nop k t => by simp only [substParamS, C31.substStmt]
theorem substParamSs_single (x : String) (r : Ex) : ∀ ss : List Stmt, substParamSs [(x, r)] ss = C31.substStmts x r ss
  | [] => by simp only [substParamSs, C31.substStmts]
  | s :: ss => by simp only [substParamSs, C31.substStmts, substParamS_single x r s, substParamSs_single x r ss]
theorem substParamCs_single (x : String) (r : Ex) :
    ∀ cs : List (List Int × List Stmt), substParamCs [(x, r)] cs = C31.substCases x r cs
  | [] => by simp only [substParamCs, C31.substCases]
  | (vs, b) :: cs => by
      simp only [substParamCs, C31.substCases, substParamSs_single x r b, substParamCs_single x r cs]
end

end LokiModel.C28
