import LokiModel.C28.Frame
import LokiModel.Fir.Fuel
/-!
# C28 — the simulation behind subroutine inlining

`Rel m V W D cs st` relates the callee frame `cs` of a FIR call (copy-in/copy-out semantics) with the caller state `st` in
which the inlined body `substSs m body` runs.  `m` is the substitution map (dummy ↦ actual, renamed local ↦ new name; names not
in `m` keep their name), `V` the callee's variables, `W ⊆ V` the ones the body may write, `D ⊆ W` the written *dummies*:

* every `x ∈ V` is a scalar of the frame;
* a written `x` is mapped to a variable `a` (`img m x = .var a`) that is a scalar of the same type in `st`; its value in `st` is
  the frame's value whenever the frame's value is defined (a hoisted local may hold a stale value from an earlier inlined call
  where the fresh frame has none), and exactly the frame's value for `x ∈ D`;
* a read-only `x` reads in the frame like `img m x` evaluates in `st` (whenever defined).

`sideOK m V W` is the decidable no-aliasing / no-re-evaluation condition: the target of a written variable is mentioned by the
image of no other variable.  `sim`: every statement of the class `okS V W` (scalar assignments, DO, DO WHILE, IF, SELECT CASE,
EXIT, CYCLE, comments; no PRINT, CALL, ASSOCIATE) that finishes in the frame finishes with the same signal in the caller state
with the same fuel, and `Rel` holds again; the caller's other variables are untouched (`Frame`).
-/
namespace LokiModel.C28
open LokiModel.Fir
open LokiModel.Expr (Val)
open LokiModel.C31 (lookupAlias_nil resolve_nil lookup_setCell writeAt_eq cellUpdate)

/-- image of a callee variable under the map -/
def img (m : List (String × Ex)) (x : String) : Ex := substM m (.var x)

def tgt (m : List (String × Ex)) (x : String) : Option String :=
  match img m x with
  | .var a => some a
  | _ => none

/-- every written variable is mapped to a variable that the image of no other callee variable mentions -/
def sideOK (m : List (String × Ex)) (V W : List String) : Bool :=
  W.all fun x => V.contains x && match tgt m x with
    | some a => V.all fun y => y == x || !(exNames (img m y)).contains a
    | none => false

theorem sideOK_mem {m V W} (h : sideOK m V W = true) {x : String} (hx : x ∈ W) :
    x ∈ V ∧ ∃ a, img m x = .var a ∧ ∀ y, y ∈ V → y ≠ x → a ∉ exNames (img m y) := by
  simp only [sideOK, List.all_eq_true] at h
  have := h x hx
  simp only [Bool.and_eq_true] at this
  obtain ⟨hv, hm⟩ := this
  refine ⟨by simpa using hv, ?_⟩
  unfold tgt at hm
  cases hi : img m x with
  | var a =>
    rw [hi] at hm
    simp only [List.all_eq_true] at hm
    refine ⟨a, rfl, fun y hy hne => ?_⟩
    have := hm y hy
    simp only [Bool.or_eq_true, beq_iff_eq, Bool.not_eq_true', hne, false_or] at this
    intro hc
    have : (exNames (img m y)).contains a = true := by simpa using hc
    simp_all
  | _ => rw [hi] at hm; simp at hm

theorem renVar_eq {m : List (String × Ex)} {v a : String} (h : img m v = .var a) : renVar m v = a := by
  unfold img at h
  simp only [substM] at h
  unfold renVar
  cases hl : lookupM m v with
  | none => rw [hl] at h; simp only at h; injection h
  | some r => rw [hl] at h; simp only at h; subst h; rfl

/-! ### cells -/

theorem readAt_scalar {σ : St} (h : σ.alias = []) {x : String} {ty : Ty} {ov : Option Val}
    (hc : lookupCell σ x = some (.scalar ty ov)) : readAt σ x [] = ov := by
  simp [readAt, resolve_nil h, hc, Option.bind]

theorem boundsOf_scalar {σ : St} (h : σ.alias = []) {x : String} {ty : Ty} {ov : Option Val}
    (hc : lookupCell σ x = some (.scalar ty ov)) : boundsOf σ x = none := by
  simp [boundsOf, lookupAlias_nil h, hc]

theorem evalE_var_scalar {σ : St} (h : σ.alias = []) {x : String} {ty : Ty} {ov : Option Val}
    (hc : lookupCell σ x = some (.scalar ty ov)) : evalE σ [] (.var x) = ov := by
  simp [evalE, boundsOf_scalar h hc, readAt_scalar h hc]

/-- the caller's variables other than the targets of written variables are untouched -/
def Frame (m : List (String × Ex)) (W : List String) (st st' : St) : Prop :=
  ∀ n, (∀ x, x ∈ W → tgt m x ≠ some n) → lookupCell st' n = lookupCell st n

/-- a defined scalar of the frame stays a defined scalar of the same type -/
def Mono (cs cs' : St) : Prop :=
  ∀ y ty v, lookupCell cs y = some (.scalar ty (some v)) → ∃ v', lookupCell cs' y = some (.scalar ty (some v'))

theorem Frame.refl (m W st) : Frame m W st st := fun _ _ => rfl
theorem Frame.trans {m W} {a b c : St} (h1 : Frame m W a b) (h2 : Frame m W b c) : Frame m W a c :=
  fun n hn => (h2 n hn).trans (h1 n hn)
theorem Mono.refl (cs) : Mono cs cs := fun _ _ v h => ⟨v, h⟩
theorem Mono.trans {a b c : St} (h1 : Mono a b) (h2 : Mono b c) : Mono a c :=
  fun y ty v h => by obtain ⟨v', h'⟩ := h1 y ty v h; exact h2 y ty v' h'

structure Rel (m : List (String × Ex)) (V W D : List String) (cs st : St) : Prop where
  alc : cs.alias = []
  als : st.alias = []
  out : cs.out = st.out
  sc : ∀ x, x ∈ V → ∃ ty ov, lookupCell cs x = some (.scalar ty ov)
  ro : ∀ x, x ∈ V → x ∉ W → ∀ v, readAt cs x [] = some v → evalE st [] (img m x) = some v
  wr : ∀ x, x ∈ W → ∃ a ty ov ov', img m x = .var a ∧ lookupCell cs x = some (.scalar ty ov) ∧
        lookupCell st a = some (.scalar ty ov') ∧ (ov = none ∨ ov = ov') ∧ (x ∈ D → ov = ov')
  wt : ∀ x ty v, lookupCell cs x = some (.scalar ty (some v)) → coerce ty v = some v

theorem coerce_idem {ty : Ty} {v v' : Val} (h : coerce ty v = some v') : coerce ty v' = some v' := by
  cases ty <;> cases v <;> simp only [coerce] at h <;> first | (injection h with h; subst h; rfl) | (cases h)

theorem Rel.reads {m V W D cs st} (h : Rel m V W D cs st) {x : String} (hx : x ∈ V) {v : Val}
    (hv : readAt cs x [] = some v) : evalE st [] (img m x) = some v := by
  by_cases hw : x ∈ W
  · obtain ⟨a, ty, ov, ov', hi, hc, hs, hle, _⟩ := h.wr x hw
    rw [readAt_scalar h.alc hc] at hv
    rw [hi, evalE_var_scalar h.als hs]
    rcases hle with h0 | h0
    · rw [h0] at hv; cases hv
    · rw [← h0, hv]
  · exact h.ro x hx hw v hv

theorem Rel.bounds {m V W D cs st} (h : Rel m V W D cs st) {x : String} (hx : x ∈ V) : boundsOf cs x = none := by
  obtain ⟨ty, ov, hc⟩ := h.sc x hx
  exact boundsOf_scalar h.alc hc

/-! ### expressions -/

def exOK (V : List String) (e : Ex) : Bool := scalarEx e && (exNames e).all V.contains

mutual
theorem evalE_le {m V W D cs st} (h : Rel m V W D cs st) :
    ∀ (e : Ex), scalarEx e = true → (∀ x, x ∈ exNames e → x ∈ V) → ∀ v, evalE cs [] e = some v →
      evalE st [] (substM m e) = some v
  | .lit _, _, _, v, hv => by simpa [substM, evalE] using hv
  | .var x, _, hb, v, hv => by
      have hx : x ∈ V := hb x (by simp [exNames])
      simp only [evalE, h.bounds hx] at hv
      exact h.reads hx hv
  | .idx _ _, hs, _, _, _ => by simp [scalarEx] at hs
  | .sec _ _, hs, _, _, _ => by simp [scalarEx] at hs
  | .neg a, hs, hb, v, hv => by
      simp only [scalarEx] at hs
      simp only [evalE] at hv
      cases hva : evalE cs [] a with
      | none => rw [hva] at hv; simp at hv
      | some va =>
        rw [hva] at hv
        simp only [substM, evalE, evalE_le h a hs (fun x hx => hb x (by simpa [exNames] using hx)) va hva]
        exact hv
  | .not a, hs, hb, v, hv => by
      simp only [scalarEx] at hs
      simp only [evalE] at hv
      cases hva : evalE cs [] a with
      | none => rw [hva] at hv; simp at hv
      | some va =>
        rw [hva] at hv
        simp only [substM, evalE, evalE_le h a hs (fun x hx => hb x (by simpa [exNames] using hx)) va hva]
        exact hv
  | .bin o a b, hs, hb, v, hv => by
      simp only [scalarEx, Bool.and_eq_true] at hs
      simp only [evalE] at hv
      cases hva : evalE cs [] a with
      | none => rw [hva] at hv; simp at hv
      | some va =>
        cases hvb : evalE cs [] b with
        | none => rw [hva, hvb] at hv; simp at hv
        | some vb =>
          rw [hva, hvb] at hv
          simp only [substM, evalE, evalE_le h a hs.1 (fun x hx => hb x (by simp [exNames, hx])) va hva,
            evalE_le h b hs.2 (fun x hx => hb x (by simp [exNames, hx])) vb hvb]
          exact hv
  | .call f args, hs, hb, v, hv => by
      simp only [scalarEx] at hs
      simp only [evalE] at hv
      cases hvs : evalArgs cs [] args with
      | none => rw [hvs] at hv; simp at hv
      | some vs =>
        rw [hvs] at hv
        simp only [substM, evalE, evalArgs_le h args hs (fun x hx => hb x (by simpa [exNames] using hx)) vs hvs]
        exact hv
theorem evalArgs_le {m V W D cs st} (h : Rel m V W D cs st) :
    ∀ (es : List Ex), scalarExs es = true → (∀ x, x ∈ exsNames es → x ∈ V) → ∀ vs, evalArgs cs [] es = some vs →
      evalArgs st [] (substMs m es) = some vs
  | [], _, _, vs, hv => by simpa [substMs, evalArgs] using hv
  | e :: es, hs, hb, vs, hv => by
      simp only [scalarExs, Bool.and_eq_true] at hs
      simp only [evalArgs] at hv
      cases hve : evalE cs [] e with
      | none => rw [hve] at hv; simp at hv
      | some ve =>
        cases hvr : evalArgs cs [] es with
        | none => rw [hve, hvr] at hv; simp at hv
        | some vr =>
          rw [hve, hvr] at hv
          simp only [substMs, evalArgs, evalE_le h e hs.1 (fun x hx => hb x (by simp [exsNames, hx])) ve hve,
            evalArgs_le h es hs.2 (fun x hx => hb x (by simp [exsNames, hx])) vr hvr]
          exact hv
end

theorem exOK_le {m V W D cs st} (h : Rel m V W D cs st) {e : Ex} (hok : exOK V e = true) {v : Val}
    (hv : evalE cs [] e = some v) : evalE st [] (substM m e) = some v := by
  simp only [exOK, Bool.and_eq_true, List.all_eq_true] at hok
  exact evalE_le h e hok.1 (fun x hx => by simpa using hok.2 x hx) v hv

theorem evalInt_le {m V W D cs st} (h : Rel m V W D cs st) {e : Ex} (hok : exOK V e = true) {i : Int}
    (hv : (evalE cs [] e).bind asInt = some i) : (evalE st [] (substM m e)).bind asInt = some i := by
  cases hve : evalE cs [] e with
  | none => rw [hve] at hv; simp at hv
  | some v => rw [hve] at hv; rw [exOK_le h hok hve]; exact hv

/-! ### writing a scalar -/

theorem lookup_set_same (σ : St) (x : String) (c : Cell) :
    lookupCell { σ with store := setCell σ.store x c } x = some c := by
  rw [lookup_setCell]; simp

theorem lookup_set_other (σ : St) {x y : String} (h : x ≠ y) (c : Cell) :
    lookupCell { σ with store := setCell σ.store x c } y = lookupCell σ y := by
  rw [lookup_setCell]
  have : (x == y) = false := by simpa using h
  simp [this]

/-- what one step of the simulation re-establishes -/
structure Step (m : List (String × Ex)) (V W D : List String) (cs st cs' st' : St) : Prop where
  rel : Rel m V W D cs' st'
  frame : Frame m W st st'
  mono : Mono cs cs'
  keep : ∀ y, y ∉ W → lookupCell cs' y = lookupCell cs y
  tys : ∀ n ty ov, lookupCell st n = some (.scalar ty ov) → ∃ ov', lookupCell st' n = some (.scalar ty ov')

theorem Step.refl {m V W D cs st} (h : Rel m V W D cs st) : Step m V W D cs st cs st :=
  ⟨h, Frame.refl _ _ _, Mono.refl _, fun _ _ => rfl, fun _ _ ov h => ⟨ov, h⟩⟩

theorem Step.trans {m V W D} {cs st cs1 st1 cs2 st2 : St} (h1 : Step m V W D cs st cs1 st1)
    (h2 : Step m V W D cs1 st1 cs2 st2) : Step m V W D cs st cs2 st2 :=
  ⟨h2.rel, h1.frame.trans h2.frame, h1.mono.trans h2.mono, fun y hy => (h2.keep y hy).trans (h1.keep y hy),
    fun n ty ov h => by obtain ⟨ov1, h'⟩ := h1.tys n ty ov h; exact h2.tys n ty ov1 h'⟩

theorem scalar_write {σ : St} (hal : σ.alias = []) {x : String} {ty : Ty} {ov : Option Val}
    (hc : lookupCell σ x = some (.scalar ty ov)) (val : Val) :
    writeAt σ x [] val =
      (coerce ty val).map fun v' => { σ with store := setCell σ.store x (.scalar ty (some v')) } := by
  rw [writeAt_eq hal, hc]
  cases hco : coerce ty val <;> simp [cellUpdate, hco]

theorem write_le {m V W D cs st} (hside : sideOK m V W = true) (h : Rel m V W D cs st) {x : String} (hx : x ∈ W)
    {val : Val} {cs' : St} (hw : writeAt cs x [] val = some cs') :
    ∃ a st', img m x = .var a ∧ boundsOf st a = none ∧ writeAt st a [] val = some st' ∧
      Step m V W D cs st cs' st' := by
  obtain ⟨hxV, a0, hi0, hfresh⟩ := sideOK_mem hside hx
  obtain ⟨a, ty, ov, ov', hi, hc, hs, _, _⟩ := h.wr x hx
  have haa : a0 = a := by rw [hi0] at hi; injection hi
  subst haa
  rw [scalar_write h.alc hc] at hw
  cases hco : coerce ty val with
  | none => rw [hco] at hw; simp at hw
  | some v' =>
    rw [hco] at hw
    simp only [Option.map_some, Option.some.injEq] at hw
    subst hw
    refine ⟨a0, { st with store := setCell st.store a0 (.scalar ty (some v')) }, hi0, boundsOf_scalar h.als hs, ?_, ?_⟩
    · rw [scalar_write h.als hs, hco]; rfl
    · have htgt : tgt m x = some a0 := by unfold tgt; rw [hi0]
      refine ⟨⟨h.alc, h.als, h.out, ?_, ?_, ?_, ?_⟩, ?_, ?_, ?_, ?_⟩
      · intro y hy
        by_cases hxy : x = y
        · subst hxy; exact ⟨ty, some v', lookup_set_same _ _ _⟩
        · rw [lookup_set_other _ hxy]; exact h.sc y hy
      · intro y hy hnw v hv
        have hxy : x ≠ y := fun e => hnw (e ▸ hx)
        have hr : readAt cs y [] = some v := by
          rw [← hv]
          exact (readAt_agree (σ := cs) (σ' := { cs with store := setCell cs.store x (.scalar ty (some v')) })
            h.alc h.alc (lookup_set_other _ hxy _) []).symm
        have hold := h.ro y hy hnw v hr
        rw [← hold]
        refine evalE_agree (σ := st) (σ' := { st with store := setCell st.store a0 (.scalar ty (some v')) })
          h.als h.als (img m y) [] (fun n hn => ?_)
        have hna : a0 ≠ n := fun e => hfresh y hy (Ne.symm hxy) (e ▸ hn)
        exact lookup_set_other _ hna _
      · intro y hy
        by_cases hxy : x = y
        · subst hxy
          exact ⟨a0, ty, some v', some v', hi0, lookup_set_same _ _ _, lookup_set_same _ _ _, Or.inr rfl, fun _ => rfl⟩
        · obtain ⟨b, ty2, o, o', hib, hcb, hsb, hle, hd⟩ := h.wr y hy
          obtain ⟨hyV, _, _, _⟩ := sideOK_mem hside hy
          have hab : a0 ≠ b := by
            intro e
            have := hfresh y hyV (Ne.symm hxy)
            rw [hib] at this
            exact this (by simp [exNames, e])
          exact ⟨b, ty2, o, o', hib, by rw [lookup_set_other _ hxy]; exact hcb,
            by rw [lookup_set_other _ hab]; exact hsb, hle, hd⟩
      · intro y ty2 v hy
        by_cases hxy : x = y
        · subst hxy
          rw [lookup_set_same] at hy
          injection hy with hy
          injection hy with ht hv
          subst ht
          injection hv with hv
          subst hv
          exact coerce_idem hco
        · rw [lookup_set_other _ hxy] at hy; exact h.wt y ty2 v hy
      · intro n hn
        have hna : a0 ≠ n := fun e => hn x hx (e ▸ htgt)
        exact lookup_set_other _ hna _
      · intro y ty2 v hy
        by_cases hxy : x = y
        · subst hxy
          rw [hc] at hy
          injection hy with hy
          injection hy with ht _
          subst ht
          exact ⟨v', lookup_set_same _ _ _⟩
        · exact ⟨v, by rw [lookup_set_other _ hxy]; exact hy⟩
      · intro y hy
        have hxy : x ≠ y := fun e => hy (e ▸ hx)
        exact lookup_set_other _ hxy _
      · intro n ty2 ov2 hn
        by_cases hna : a0 = n
        · subst hna
          rw [hs] at hn
          injection hn with hn
          injection hn with ht _
          subst ht
          exact ⟨some v', lookup_set_same _ _ _⟩
        · exact ⟨ov2, by rw [lookup_set_other _ hna]; exact hn⟩

/-! ### statements -/

def lhsVar : Ex → Option String
  | .var x => some x
  | _ => none

def oOK (V : List String) : Option Ex → Bool
  | none => true
  | some e => exOK V e

mutual
/-- the callee statements covered by the simulation: scalar assignments to written variables, DO loops over a written
variable, DO WHILE, IF, SELECT CASE, EXIT, CYCLE, comments/pragmas; all expressions over scalars of `V`;
no PRINT (not substituted by the real code), no CALL, no ASSOCIATE -/
def okS (V W : List String) : Stmt → Bool
  | .assign l r => (match lhsVar l with | some x => W.contains x | none => false) && exOK V r
  | .doLoop v lo hi st body => W.contains v && exOK V lo && exOK V hi && oOK V st && okSs V W body
  | .while c body => exOK V c && okSs V W body
  | .ifte c t e => exOK V c && okSs V W t && okSs V W e
  | .select e cs d => exOK V e && okCs V W cs && okSs V W d
  | .assoc _ _ => false
  | .callSub _ _ => false
  | .print _ => false
  | .exit => true
  | .cycle => true
  | .nop _ _ => true
def okSs (V W : List String) : List Stmt → Bool
  | [] => true
  | s :: ss => okS V W s && okSs V W ss
def okCs (V W : List String) : List (List Int × List Stmt) → Bool
  | [] => true
  | (_, b) :: cs => okSs V W b && okCs V W cs
end

/-- a run that finishes in the frame finishes alike in the caller state -/
def Good (m : List (String × Ex)) (V W D : List String) (cs st : St) (r r' : Res) : Prop :=
  ∀ cs' sg, r = .ok cs' sg → ∃ st', r' = .ok st' sg ∧ Step m V W D cs st cs' st'

theorem find_substCs (m : List (String × Ex)) (i : Int) :
    ∀ cs : List (List Int × List Stmt),
      (substCs m cs).find? (fun c => c.1.contains i) =
        (cs.find? (fun c => c.1.contains i)).map fun c => (c.1, substSs m c.2)
  | [] => by simp [substCs]
  | (vs, b) :: cs => by
      simp only [substCs, List.find?]
      cases hc : vs.contains i with
      | true => rfl
      | false => exact find_substCs m i cs

theorem okCs_find {V W : List String} {i : Int} :
    ∀ {cs : List (List Int × List Stmt)} {c}, okCs V W cs = true → cs.find? (fun c => c.1.contains i) = some c →
      okSs V W c.2 = true
  | [], _, _, hf => by simp at hf
  | (vs, b) :: cs, c, hok, hf => by
      simp only [okCs, Bool.and_eq_true] at hok
      simp only [List.find?] at hf
      cases hc : vs.contains i with
      | true => rw [hc] at hf; cases hf; exact hok.1
      | false => rw [hc] at hf; exact okCs_find hok.2 hf

structure SimF (P : Program) (m : List (String × Ex)) (V W D : List String) (f : Nat) : Prop where
  stmts : ∀ ss cs st, okSs V W ss = true → Rel m V W D cs st →
      Good m V W D cs st (execStmts P f ss cs) (execStmts P f (substSs m ss) st)
  stmt : ∀ s cs st, okS V W s = true → Rel m V W D cs st →
      Good m V W D cs st (execStmt P f s cs) (execStmt P f (substS m s) st)
  doI : ∀ v body step n cur cs st, v ∈ W → okSs V W body = true → Rel m V W D cs st →
      Good m V W D cs st (doIter P f v body step n cur cs) (doIter P f (renVar m v) (substSs m body) step n cur st)
  whileI : ∀ c body cs st, exOK V c = true → okSs V W body = true → Rel m V W D cs st →
      Good m V W D cs st (whileIter P f c body cs) (whileIter P f (substM m c) (substSs m body) st)

theorem sim_zero (P : Program) (m V W D) : SimF P m V W D 0 := by
  constructor
  · intro ss cs st _ _ cs' sg hr; simp [execStmts] at hr
  · intro s cs st _ _ cs' sg hr; simp [execStmt] at hr
  · intro v body step n cur cs st _ _ _ cs' sg hr; simp [doIter] at hr
  · intro c body cs st _ _ _ cs' sg hr; simp [whileIter] at hr

theorem sim_succ (P : Program) (m V W D) (hside : sideOK m V W = true) (f : Nat) (ih : SimF P m V W D f) :
    SimF P m V W D (f + 1) := by
  constructor
  · -- execStmts
    intro ss cs st hok h cs' sg hr
    cases ss with
    | nil =>
      simp only [execStmts] at hr
      injection hr with h1 h2
      subst h1; subst h2
      exact ⟨st, by simp only [substSs, execStmts], Step.refl h⟩
    | cons s rest =>
      simp only [okSs, Bool.and_eq_true] at hok
      simp only [execStmts] at hr
      cases h1 : execStmt P f s cs with
      | ok cs1 sg1 =>
        obtain ⟨st1, e1, step1⟩ := ih.stmt s cs st hok.1 h cs1 sg1 h1
        cases sg1 with
        | normal =>
          rw [h1] at hr
          simp only at hr
          obtain ⟨st2, e2, step2⟩ := ih.stmts rest cs1 st1 hok.2 step1.rel cs' sg hr
          refine ⟨st2, ?_, step1.trans step2⟩
          simp only [substSs, execStmts, e1]
          exact e2
        | exit =>
          rw [h1] at hr
          simp only at hr
          injection hr with h2 h3
          subst h2; subst h3
          exact ⟨st1, by simp only [substSs, execStmts, e1], step1⟩
        | cycle =>
          rw [h1] at hr
          simp only at hr
          injection hr with h2 h3
          subst h2; subst h3
          exact ⟨st1, by simp only [substSs, execStmts, e1], step1⟩
      | err msg => rw [h1] at hr; simp at hr
      | fuel => rw [h1] at hr; simp at hr
  · -- execStmt
    intro s cs st hok h cs' sg hr
    cases s with
    | assign l r =>
      simp only [okS, Bool.and_eq_true] at hok
      cases l with
      | var x =>
        simp only [lhsVar] at hok
        have hx : x ∈ W := by simpa using hok.1
        obtain ⟨hxV, _, _, _⟩ := sideOK_mem hside hx
        simp only [execStmt] at hr
        cases ha : assignStmt cs (.var x) r with
        | none => rw [ha] at hr; simp at hr
        | some cs1 =>
          rw [ha] at hr
          simp only at hr
          injection hr with h2 h3
          subst h2; subst h3
          simp only [assignStmt, h.bounds hxV] at ha
          cases hv : evalE cs [] r with
          | none => rw [hv] at ha; simp at ha
          | some val =>
            rw [hv] at ha
            simp only [Option.bind_eq_bind, Option.bind_some] at ha
            obtain ⟨a, st1, hi, hb, hw, step⟩ := write_le hside h hx ha
            refine ⟨st1, ?_, step⟩
            have hi' : substM m (.var x) = .var a := hi
            simp only [substS, execStmt, hi', assignStmt, hb, exOK_le h hok.2 hv, Option.bind_eq_bind,
              Option.bind_some, hw]
      | lit _ => simp [lhsVar] at hok
      | idx _ _ => simp [lhsVar] at hok
      | sec _ _ => simp [lhsVar] at hok
      | neg _ => simp [lhsVar] at hok
      | not _ => simp [lhsVar] at hok
      | bin _ _ _ => simp [lhsVar] at hok
      | call _ _ => simp [lhsVar] at hok
    | doLoop v lo hi stp body =>
      simp only [okS, Bool.and_eq_true] at hok
      obtain ⟨⟨⟨⟨hv, hlo⟩, hhi⟩, hst⟩, hbody⟩ := hok
      have hvW : v ∈ W := by simpa using hv
      simp only [execStmt] at hr
      cases hA : (evalE cs [] lo).bind asInt with
      | none => rw [hA] at hr; cases stp <;> simp at hr
      | some l =>
        cases hB : (evalE cs [] hi).bind asInt with
        | none => rw [hA, hB] at hr; cases stp <;> simp at hr
        | some hh =>
          have hA' := evalInt_le h hlo hA
          have hB' := evalInt_le h hhi hB
          rw [hA, hB] at hr
          cases stp with
          | none =>
            simp only at hr
            have hr' : doIter P f v body 1 (tripCount l hh 1) l cs = .ok cs' sg := by simpa using hr
            obtain ⟨st', e', step⟩ := ih.doI v body 1 _ l cs st hvW hbody h cs' sg hr'
            refine ⟨st', ?_, step⟩
            simp only [substS, substMO, execStmt, hA', hB']
            simpa using e'
          | some e =>
            have he : exOK V e = true := by simpa [oOK] using hst
            simp only at hr
            cases hC : (evalE cs [] e).bind asInt with
            | none => rw [hC] at hr; simp at hr
            | some s =>
              have hC' := evalInt_le h he hC
              rw [hC] at hr
              simp only at hr
              by_cases hs0 : s = 0
              · simp [hs0] at hr
              · simp only [hs0, if_false] at hr
                obtain ⟨st', e', step⟩ := ih.doI v body s _ l cs st hvW hbody h cs' sg hr
                refine ⟨st', ?_, step⟩
                simp only [substS, substMO, execStmt, hA', hB', hC', hs0, if_false]
                exact e'
    | «while» c body =>
      simp only [okS, Bool.and_eq_true] at hok
      simp only [execStmt] at hr
      obtain ⟨st', e', step⟩ := ih.whileI c body cs st hok.1 hok.2 h cs' sg hr
      exact ⟨st', by simp only [substS, execStmt]; exact e', step⟩
    | ifte c t e =>
      simp only [okS, Bool.and_eq_true] at hok
      simp only [execStmt] at hr
      cases hc : evalE cs [] c with
      | none => rw [hc] at hr; simp at hr
      | some val =>
        have hc' := exOK_le h hok.1.1 hc
        rw [hc] at hr
        cases val with
        | bool bv =>
          cases bv with
          | true =>
            simp only at hr
            obtain ⟨st', e', step⟩ := ih.stmts t cs st hok.1.2 h cs' sg hr
            exact ⟨st', by simp only [substS, execStmt, hc']; exact e', step⟩
          | false =>
            simp only at hr
            obtain ⟨st', e', step⟩ := ih.stmts e cs st hok.2 h cs' sg hr
            exact ⟨st', by simp only [substS, execStmt, hc']; exact e', step⟩
        | int _ => simp at hr
        | real _ => simp at hr
    | select e cases d =>
      simp only [okS, Bool.and_eq_true] at hok
      simp only [execStmt] at hr
      cases hA : (evalE cs [] e).bind asInt with
      | none => rw [hA] at hr; simp at hr
      | some i =>
        have hA' := evalInt_le h hok.1.1 hA
        rw [hA] at hr
        simp only at hr
        cases hf : cases.find? (fun c => c.1.contains i) with
        | none =>
          rw [hf] at hr
          simp only at hr
          obtain ⟨st', e', step⟩ := ih.stmts d cs st hok.2 h cs' sg hr
          refine ⟨st', ?_, step⟩
          simp only [substS, execStmt, hA', find_substCs, hf, Option.map]
          exact e'
        | some c0 =>
          rw [hf] at hr
          simp only at hr
          obtain ⟨st', e', step⟩ := ih.stmts c0.2 cs st (okCs_find hok.1.2 hf) h cs' sg hr
          refine ⟨st', ?_, step⟩
          simp only [substS, execStmt, hA', find_substCs, hf, Option.map]
          exact e'
    | assoc _ _ => simp [okS] at hok
    | callSub _ _ => simp [okS] at hok
    | print _ => simp [okS] at hok
    | exit =>
      simp only [execStmt] at hr
      injection hr with h2 h3
      subst h2; subst h3
      exact ⟨st, by simp only [substS, execStmt], Step.refl h⟩
    | cycle =>
      simp only [execStmt] at hr
      injection hr with h2 h3
      subst h2; subst h3
      exact ⟨st, by simp only [substS, execStmt], Step.refl h⟩
    | nop k t =>
      simp only [execStmt] at hr
      injection hr with h2 h3
      subst h2; subst h3
      exact ⟨st, by simp only [substS, execStmt], Step.refl h⟩
  · -- doIter
    intro v body step n cur cs st hvW hbody h cs' sg hr
    simp only [doIter] at hr
    cases hw : writeAt cs v [] (.int cur) with
    | none => rw [hw] at hr; simp at hr
    | some cs1 =>
      obtain ⟨a, st1, hi, _, hw', step1⟩ := write_le hside h hvW hw
      have hren := renVar_eq hi
      rw [hw] at hr
      simp only at hr
      cases n with
      | zero =>
        simp only at hr
        injection hr with h2 h3
        subst h2; subst h3
        exact ⟨st1, by simp only [doIter, hren, hw'], step1⟩
      | succ n' =>
        simp only at hr
        cases hb : execStmts P f body cs1 with
        | ok cs2 sg2 =>
          obtain ⟨st2, e2, step2⟩ := ih.stmts body cs1 st1 hbody step1.rel cs2 sg2 hb
          rw [hb] at hr
          cases sg2 with
          | exit =>
            simp only at hr
            injection hr with h2 h3
            subst h2; subst h3
            exact ⟨st2, by simp only [doIter, hren, hw', e2], step1.trans step2⟩
          | normal =>
            simp only at hr
            obtain ⟨st3, e3, step3⟩ := ih.doI v body step n' (cur + step) cs2 st2 hvW hbody step2.rel cs' sg hr
            refine ⟨st3, ?_, (step1.trans step2).trans step3⟩
            simp only [doIter, hren, hw', e2]
            rw [← hren]; exact e3
          | cycle =>
            simp only at hr
            obtain ⟨st3, e3, step3⟩ := ih.doI v body step n' (cur + step) cs2 st2 hvW hbody step2.rel cs' sg hr
            refine ⟨st3, ?_, (step1.trans step2).trans step3⟩
            simp only [doIter, hren, hw', e2]
            rw [← hren]; exact e3
        | err msg => rw [hb] at hr; simp at hr
        | fuel => rw [hb] at hr; simp at hr
  · -- whileIter
    intro c body cs st hc hbody h cs' sg hr
    simp only [whileIter] at hr
    cases hv : evalE cs [] c with
    | none => rw [hv] at hr; simp at hr
    | some val =>
      have hv' := exOK_le h hc hv
      rw [hv] at hr
      cases val with
      | bool bv =>
        cases bv with
        | true =>
          simp only at hr
          cases hb : execStmts P f body cs with
          | ok cs2 sg2 =>
            obtain ⟨st2, e2, step2⟩ := ih.stmts body cs st hbody h cs2 sg2 hb
            rw [hb] at hr
            cases sg2 with
            | exit =>
              simp only at hr
              injection hr with h2 h3
              subst h2; subst h3
              exact ⟨st2, by simp only [whileIter, hv', e2], step2⟩
            | normal =>
              simp only at hr
              obtain ⟨st3, e3, step3⟩ := ih.whileI c body cs2 st2 hc hbody step2.rel cs' sg hr
              exact ⟨st3, by simp only [whileIter, hv', e2]; exact e3, step2.trans step3⟩
            | cycle =>
              simp only at hr
              obtain ⟨st3, e3, step3⟩ := ih.whileI c body cs2 st2 hc hbody step2.rel cs' sg hr
              exact ⟨st3, by simp only [whileIter, hv', e2]; exact e3, step2.trans step3⟩
          | err msg => rw [hb] at hr; simp at hr
          | fuel => rw [hb] at hr; simp at hr
        | false =>
          simp only at hr
          injection hr with h2 h3
          subst h2; subst h3
          exact ⟨st, by simp only [whileIter, hv'], Step.refl h⟩
      | int _ => simp at hr
      | real _ => simp at hr

theorem sim (P : Program) (m V W D) (hside : sideOK m V W = true) : ∀ f, SimF P m V W D f
  | 0 => sim_zero P m V W D
  | f + 1 => sim_succ P m V W D hside f (sim P m V W D hside f)

end LokiModel.C28
