import LokiModel.C28.Lemmas
import LokiModel.C31.Sim
/-!
# C28 — frame lemma: an expression only looks at the cells of the names it mentions

`evalE_agree`: two states without ASSOCIATE names that agree on the cell of every name in `exNames e` give `e` the same value
(at every position).  Store lemmas (`lookup_setCell`, `writeAt_eq`, …) are reused from `LokiModel.C31.Sim`.
-/
namespace LokiModel.C28
open LokiModel.Fir
open LokiModel.Expr (Val)
open LokiModel.C31 (lookupAlias_nil resolve_nil lookup_setCell writeAt_eq cellUpdate)

theorem boundsOf_agree {σ σ' : St} (h1 : σ.alias = []) (h2 : σ'.alias = []) {x : String}
    (h : lookupCell σ' x = lookupCell σ x) : boundsOf σ' x = boundsOf σ x := by
  unfold Fir.boundsOf
  rw [lookupAlias_nil h1, lookupAlias_nil h2, h]

theorem readAt_agree {σ σ' : St} (h1 : σ.alias = []) (h2 : σ'.alias = []) {x : String}
    (h : lookupCell σ' x = lookupCell σ x) (is : List Int) : readAt σ' x is = readAt σ x is := by
  unfold Fir.readAt
  rw [resolve_nil h1, resolve_nil h2]
  simp only [Option.bind_eq_bind, Option.bind, h]

mutual
theorem evalE_agree {σ σ' : St} (h1 : σ.alias = []) (h2 : σ'.alias = []) :
    ∀ (e : Ex) (pos : List Nat), (∀ n, n ∈ exNames e → lookupCell σ' n = lookupCell σ n) →
      evalE σ' pos e = evalE σ pos e
  | .lit _, pos, _ => by simp [evalE]
  | .var y, pos, h => by
      have hy := h y (by simp [exNames])
      simp only [evalE, boundsOf_agree h1 h2 hy, readAt_agree h1 h2 hy]
  | .idx y subs, pos, h => by
      have hy := h y (by simp [exNames])
      simp only [evalE, evalIdx_agree h1 h2 subs pos (fun n hn => h n (by simp [exNames, hn])), readAt_agree h1 h2 hy]
  | .sec y dims, pos, h => by
      have hy := h y (by simp [exNames])
      simp only [evalE, boundsOf_agree h1 h2 hy]
      cases boundsOf σ y with
      | none => rfl
      | some bs =>
        simp only [Option.bind_eq_bind, Option.bind,
          evalSec_agree h1 h2 dims bs pos pos (fun n hn => h n (by simp [exNames, hn])), readAt_agree h1 h2 hy]
  | .neg a, pos, h => by
      simp only [evalE, evalE_agree h1 h2 a pos (fun n hn => h n (by simpa [exNames] using hn))]
  | .not a, pos, h => by
      simp only [evalE, evalE_agree h1 h2 a pos (fun n hn => h n (by simpa [exNames] using hn))]
  | .bin o a b, pos, h => by
      simp only [evalE, evalE_agree h1 h2 a pos (fun n hn => h n (by simp [exNames, hn])),
        evalE_agree h1 h2 b pos (fun n hn => h n (by simp [exNames, hn]))]
  | .call f args, pos, h => by
      simp only [evalE, evalArgs_agree h1 h2 args pos (fun n hn => h n (by simpa [exNames] using hn))]
theorem evalIdx_agree {σ σ' : St} (h1 : σ.alias = []) (h2 : σ'.alias = []) :
    ∀ (es : List Ex) (pos : List Nat), (∀ n, n ∈ exsNames es → lookupCell σ' n = lookupCell σ n) →
      evalIdx σ' pos es = evalIdx σ pos es
  | [], pos, _ => by simp [evalIdx]
  | e :: es, pos, h => by
      simp only [evalIdx, evalE_agree h1 h2 e pos (fun n hn => h n (by simp [exsNames, hn])),
        evalIdx_agree h1 h2 es pos (fun n hn => h n (by simp [exsNames, hn]))]
theorem evalArgs_agree {σ σ' : St} (h1 : σ.alias = []) (h2 : σ'.alias = []) :
    ∀ (es : List Ex) (pos : List Nat), (∀ n, n ∈ exsNames es → lookupCell σ' n = lookupCell σ n) →
      evalArgs σ' pos es = evalArgs σ pos es
  | [], pos, _ => by simp [evalArgs]
  | e :: es, pos, h => by
      simp only [evalArgs, evalE_agree h1 h2 e pos (fun n hn => h n (by simp [exsNames, hn])),
        evalArgs_agree h1 h2 es pos (fun n hn => h n (by simp [exsNames, hn]))]
theorem evalSec_agree {σ σ' : St} (h1 : σ.alias = []) (h2 : σ'.alias = []) :
    ∀ (ds : List Dim) (bs : List (Int × Int)) (pos ks : List Nat),
      (∀ n, n ∈ dimsNames ds → lookupCell σ' n = lookupCell σ n) →
      evalSec σ' pos bs ds ks = evalSec σ pos bs ds ks
  | [], bs, pos, ks, _ => by cases bs <;> simp [evalSec]
  | .at e :: ds, bs, pos, ks, h => by
      cases bs with
      | nil => simp [evalSec]
      | cons b bs' =>
        simp only [evalSec, evalE_agree h1 h2 e pos (fun n hn => h n (by simp [dimsNames, hn])),
          evalSec_agree h1 h2 ds bs' pos ks (fun n hn => h n (by simp [dimsNames, hn]))]
  | .rng lo hi stp :: ds, bs, pos, ks, h => by
      cases bs with
      | nil => simp [evalSec]
      | cons b bs' =>
        cases ks with
        | nil => simp [evalSec]
        | cons k0 ks' =>
          have ihd := evalSec_agree h1 h2 ds bs' pos ks' (fun n hn => h n (by simp [dimsNames, hn]))
          cases lo with
          | none =>
            cases stp with
            | none => simp only [evalSec, ihd]
            | some s =>
              simp only [evalSec, ihd, evalE_agree h1 h2 s pos (fun n hn => h n (by simp [dimsNames, oNames, hn]))]
          | some l =>
            have hl := evalE_agree h1 h2 l pos (fun n hn => h n (by simp [dimsNames, oNames, hn]))
            cases stp with
            | none => simp only [evalSec, ihd, hl]
            | some s =>
              simp only [evalSec, ihd, hl, evalE_agree h1 h2 s pos (fun n hn => h n (by simp [dimsNames, oNames, hn]))]
end

end LokiModel.C28
