import LokiModel.C28.CallOut
/-!
# C28 — a FIR call and its inlined body
-/
namespace LokiModel.C28
open LokiModel.Fir
open LokiModel.Expr (Val)

theorem tgt_of_img {m : List (String × Ex)} {x : String} {e : Ex} (h : img m x = e) {n : String}
    (ht : tgt m x = some n) : e = .var n := by
  unfold tgt at ht
  rw [h] at ht
  cases e with
  | var a => simp only [Option.some.injEq] at ht; rw [ht]
  | _ => simp at ht

theorem inline_call (P : Program) (g : String) (u : Fir.Unit) (args : List Ex) (W : List String) (f : Nat)
    (st st1 : St) (sg : Sig) (hu : findUnit P g = some u) (hok : CallOK u args W) (hst : CallSt u args W st)
    (hrun : execStmt P (f + 1) (.callSub g args) st = .ok st1 sg) :
    sg = .normal ∧ ∃ st1', execStmts P f (inlineBody u args) st = .ok st1' .normal ∧
      (∀ n, n ∉ calleeLocals u → lookupCell st1 n = lookupCell st1' n) ∧ st1.out = st1'.out ∧
      st1.alias = [] ∧ st1'.alias = [] := by
  rw [callSub_unfold P f g args st u hu hok.len args (freeze_noIdx st args hok.noIdx)] at hrun
  cases hcf : callFrame u st args with
  | none => rw [hcf] at hrun; simp at hrun
  | some cs0 =>
    have h0 := frame_rel hok hst hcf
    rw [hcf] at hrun
    simp only at hrun
    cases hb : execStmts P f u.body cs0 with
    | err msg => rw [hb] at hrun; simp at hrun
    | fuel => rw [hb] at hrun; simp at hrun
    | ok cs1 sg1 =>
      rw [hb] at hrun
      cases sg1 with
      | exit => simp at hrun
      | cycle => simp at hrun
      | normal =>
        simp only at hrun
        obtain ⟨st1', e', step⟩ := (sim P _ _ W u.args hok.side f).stmts u.body cs0 st hok.body h0 cs1 .normal hb
        cases hfold : (u.args.zip args).foldl (backStep u cs1) (some { st with out := cs1.out }) with
        | none => rw [hfold] at hrun; simp at hrun
        | some s' =>
          rw [hfold] at hrun
          injection hrun with h1 h2
          subst h1; subst h2
          have hnd : ((u.args.zip args).map (·.1)).Nodup := by rw [zip_fst _ _ hok.len]; exact hok.su.nodupA
          have hB : ∀ n, ¬ IsTgt W (u.args.zip args) n → n ∉ calleeLocals u →
              lookupCell { st with out := cs1.out } n = lookupCell st1' n := by
            intro n hn hloc
            show lookupCell st n = lookupCell st1' n
            refine (step.frame n (fun x hx ht => ?_)).symm
            obtain ⟨hxV, _, _, _⟩ := sideOK_mem hok.side hx
            by_cases hxa : x ∈ u.args
            · obtain ⟨a, hp⟩ := zip_mem_left _ _ hok.len _ hxa
              have := tgt_of_img (img_dummy hok.su.nodupA hok.len hp) ht
              subst this
              exact hn ⟨x, hp, hx⟩
            · have := tgt_of_img (img_local hok.len hxa) ht
              injection this with this
              subst this
              apply hloc
              unfold calleeLocals
              exact List.mem_filter.mpr ⟨hxV, by simpa using hxa⟩
          obtain ⟨ha, ho, hagree⟩ := back_fold hok h0 step (u.args.zip args) { st with out := cs1.out }
            (fun p hp => hp) hnd hst.als rfl (fun n _ => rfl) hB s' hfold
          exact ⟨rfl, st1', e', hagree, ho.trans step.rel.out, ha, step.rel.als⟩

end LokiModel.C28
