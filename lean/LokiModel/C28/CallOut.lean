import LokiModel.C28.CallRel
/-!
# C28 — copy-out, and the call-level theorem
-/
namespace LokiModel.C28
open LokiModel.Fir
open LokiModel.Expr (Val)
open LokiModel.C31 (lookupAlias_nil resolve_nil lookup_setCell writeAt_eq cellUpdate)

theorem freeze_noIdx (st : St) : ∀ (args : List Ex), (∀ a, a ∈ args → ∀ y subs, a ≠ .idx y subs) →
    args.mapM (freezeActual st) = some args
  | [], _ => rfl
  | a :: rest, h => by
      have ha : freezeActual st a = some a := by
        cases a with
        | idx y s => exact absurd rfl (h _ List.mem_cons_self y s)
        | _ => rfl
      simp only [List.mapM_cons, ha, freeze_noIdx st rest (fun b hb => h b (List.mem_cons_of_mem _ hb)),
        Option.bind_eq_bind, Option.bind_some, Option.pure_def]

theorem backStep_eq (u : Fir.Unit) (cs1 s : St) (x : String) (a : Ex) :
    backStep u cs1 (some s) (x, a) =
      match findDecl u x with
      | none => none
      | some d => if d.intent == .in_ then some s else
          match lookupCell cs1 x with
          | none => none
          | some c => writeBack s a (cellData c) := by
  unfold lookupCell
  cases h : findDecl u x with
  | none => simp [backStep, h]
  | some d =>
    by_cases hi : d.intent = Intent.in_
    · simp [backStep, h, hi]
    · cases hc : (cs1.store.find? (·.1 == x)).map (·.2) <;> simp [backStep, h, hi, hc]

theorem backStep_none (u : Fir.Unit) (cs1 : St) (p : String × Ex) : backStep u cs1 none p = none := by
  obtain ⟨x, a⟩ := p; rfl

theorem writeBack_expr (s : St) {e : Ex} (hv : ∀ y, e ≠ .var y) (hi : ∀ y sb, e ≠ .idx y sb) (vals : List (Option Val)) :
    writeBack s e vals = some s := by
  cases e with
  | var y => exact absurd rfl (hv y)
  | idx y sb => exact absurd rfl (hi y sb)
  | lit _ => rfl
  | sec _ _ => rfl
  | neg _ => rfl
  | not _ => rfl
  | bin _ _ _ => rfl
  | call _ _ => rfl

theorem writeBack_scalar {s : St} (hal : s.alias = []) {a : String} {ty : Ty} {ov0 : Option Val}
    (hc : lookupCell s a = some (.scalar ty ov0)) (ov : Option Val) :
    writeBack s (.var a) [ov] =
      match ov with
      | some v => (coerce ty v).map fun v' => { s with store := setCell s.store a (.scalar ty (some v')) }
      | none => some s := by
  cases ov <;> simp [writeBack, lookupAlias_nil hal, hc]

/-- `n` is the actual of a written dummy among `ps` -/
def IsTgt (W : List String) (ps : List (String × Ex)) (n : String) : Prop := ∃ x, (x, Ex.var n) ∈ ps ∧ x ∈ W

theorem back_fold {u : Fir.Unit} {args : List Ex} {W : List String} {st cs0 cs1 st1' : St}
    (hok : CallOK u args W) (h0 : Rel (u.args.zip args) (u.decls.map (·.name)) W u.args cs0 st)
    (step : Step (u.args.zip args) (u.decls.map (·.name)) W u.args cs0 st cs1 st1') :
    ∀ (ps : List (String × Ex)) (s : St), (∀ p, p ∈ ps → p ∈ u.args.zip args) → (ps.map (·.1)).Nodup →
      s.alias = [] → s.out = cs1.out →
      (∀ n, IsTgt W ps n → lookupCell s n = lookupCell st n) →
      (∀ n, ¬ IsTgt W ps n → n ∉ calleeLocals u → lookupCell s n = lookupCell st1' n) →
      ∀ s', ps.foldl (backStep u cs1) (some s) = some s' →
        s'.alias = [] ∧ s'.out = cs1.out ∧ ∀ n, n ∉ calleeLocals u → lookupCell s' n = lookupCell st1' n
  | [], s, _, _, hal, hout, _, hB, s', hf => by
      simp only [List.foldl, Option.some.injEq] at hf
      subst hf
      exact ⟨hal, hout, fun n hn => hB n (fun ⟨x, hx, _⟩ => by cases hx) hn⟩
  | (x, a) :: ps, s, hsub, hnd, hal, hout, hA, hB, s', hf => by
      have hlen := hok.len
      have hp : (x, a) ∈ u.args.zip args := hsub _ List.mem_cons_self
      have hxa : x ∈ u.args := (zip_mem_fst hp).1
      obtain ⟨d, hd, hdn⟩ := List.mem_map.mp (hok.su.argsD x hxa)
      have hfd : findDecl u x = some d := hdn ▸ findDecl_of_mem hok.su hd
      have himg := img_dummy hok.su.nodupA hlen hp
      simp only [List.map, List.nodup_cons] at hnd
      simp only [List.foldl] at hf
      rw [backStep_eq, hfd] at hf
      simp only at hf
      have hsub' : ∀ p, p ∈ ps → p ∈ u.args.zip args := fun p hp' => hsub p (List.mem_cons_of_mem _ hp')
      by_cases hxW : x ∈ W
      · -- written dummy: bound to a variable, copied back
        have hint : (d.intent == Intent.in_) = false := by
          have := hok.intentW x d hxW hxa hfd
          cases hi : d.intent <;> simp_all
        rw [hint] at hf
        simp only [Bool.false_eq_true, if_false] at hf
        obtain ⟨a', ty, ov1, ov1', hi1, hc1, hs1, _, heq1⟩ := step.rel.wr x hxW
        have heq := heq1 hxa
        subst heq
        rw [himg] at hi1
        subst hi1
        obtain ⟨a0, ty0, ov0, ov0', hi0, hc0, hs0, _, heq0⟩ := h0.wr x hxW
        rw [himg] at hi0
        injection hi0 with hi0
        subst hi0
        have heq0' := heq0 hxa
        subst heq0'
        -- the type of the actual's cell is the same before and after
        obtain ⟨ovx, htx⟩ := step.tys a' ty0 ov0 hs0
        rw [hs1] at htx
        injection htx with htx
        injection htx with htt _
        subst htt
        have hsa : lookupCell s a' = some (.scalar ty ov0) := by
          rw [hA a' ⟨x, List.mem_cons_self, hxW⟩]; exact hs0
        rw [hc1] at hf
        simp only [cellData] at hf
        rw [writeBack_scalar hal hsa] at hf
        -- no other written dummy of the rest is bound to a'
        have hfresh : ¬ IsTgt W ps a' := by
          rintro ⟨x', hx', hx'W⟩
          have hp' := hsub' _ hx'
          have hne : x' ≠ x := fun e => hnd.1 (e ▸ List.mem_map_of_mem (f := (·.1)) hx')
          obtain ⟨hx'V, _, _, _⟩ := sideOK_mem hok.side hx'W
          obtain ⟨_, b, hib, hfr⟩ := sideOK_mem hok.side hxW
          rw [himg] at hib
          injection hib with hib
          subst hib
          have := hfr x' hx'V hne
          rw [img_dummy hok.su.nodupA hlen hp'] at this
          exact this (by simp [exNames])
        cases ov1 with
        | none =>
          simp only at hf
          -- nothing is copied back; the actual was undefined before the call as well
          have hov0 : ov0 = none := by
            cases ov0 with
            | none => rfl
            | some v0 =>
              obtain ⟨v', hv'⟩ := step.mono x ty v0 hc0
              rw [hc1] at hv'
              injection hv' with hv'
              injection hv' with _ hv'
              cases hv'
          subst hov0
          refine back_fold hok h0 step ps s hsub' hnd.2 hal hout (fun n hn => ?_) (fun n hn hloc => ?_) s' hf
          · obtain ⟨x', hx', hx'W⟩ := hn
            exact hA n ⟨x', List.mem_cons_of_mem _ hx', hx'W⟩
          · by_cases hna : n = a'
            · subst hna; rw [hsa, hs1]
            · refine hB n ?_ hloc
              rintro ⟨x', hx', hx'W⟩
              rcases List.mem_cons.mp hx' with he | he
              · injection he with _ he2
                injection he2 with he2
                exact hna he2
              · exact hn ⟨x', he, hx'W⟩
        | some v =>
          simp only at hf
          rw [step.rel.wt x ty v hc1] at hf
          simp only [Option.map_some] at hf
          refine back_fold hok h0 step ps { s with store := setCell s.store a' (.scalar ty (some v)) } hsub' hnd.2
            hal hout (fun n hn => ?_) (fun n hn hloc => ?_) s' hf
          · have hna : a' ≠ n := fun e => hfresh (e ▸ hn)
            rw [lookup_set_other _ hna]
            obtain ⟨x', hx', hx'W⟩ := hn
            exact hA n ⟨x', List.mem_cons_of_mem _ hx', hx'W⟩
          · by_cases hna : a' = n
            · subst hna; rw [lookup_set_same, hs1]
            · rw [lookup_set_other _ hna]
              refine hB n ?_ hloc
              rintro ⟨x', hx', hx'W⟩
              rcases List.mem_cons.mp hx' with he | he
              · injection he with _ he2
                injection he2 with he2
                exact hna he2.symm
              · exact hn ⟨x', he, hx'W⟩
      · -- dummy that is not written: nothing changes
        have hstay : ps.foldl (backStep u cs1) (some s) = some s' := by
          rcases hok.intentR (x, a) d hp hxW hfd with hin | hnv
          · have : (d.intent == Intent.in_) = true := by rw [hin]; rfl
            rw [this] at hf
            simpa using hf
          · by_cases hi : (d.intent == Intent.in_) = true
            · rw [hi] at hf; simpa using hf
            · simp only [hi, Bool.false_eq_true, if_false] at hf
              obtain ⟨ty, ov, hc⟩ := step.rel.sc x (hok.su.argsD x hxa)
              rw [hc] at hf
              simp only at hf
              rw [writeBack_expr s hnv (hok.noIdx a (zip_mem_fst hp).2)] at hf
              exact hf
        refine back_fold hok h0 step ps s hsub' hnd.2 hal hout (fun n hn => ?_) (fun n hn hloc => ?_) s' hstay
        · obtain ⟨x', hx', hx'W⟩ := hn
          exact hA n ⟨x', List.mem_cons_of_mem _ hx', hx'W⟩
        · refine hB n ?_ hloc
          rintro ⟨x', hx', hx'W⟩
          rcases List.mem_cons.mp hx' with he | he
          · injection he with he1 _
            exact hxW (he1 ▸ hx'W)
          · exact hn ⟨x', he, hx'W⟩

end LokiModel.C28
