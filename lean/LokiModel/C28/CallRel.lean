import LokiModel.C28.Call
/-!
# C28 — the frame built by copy-in satisfies the simulation relation
-/
namespace LokiModel.C28
open LokiModel.Fir
open LokiModel.Expr (Val)
open LokiModel.C31 (lookupAlias_nil resolve_nil lookup_setCell writeAt_eq cellUpdate)

/-- static (decidable) conditions on a call `call u(args)` whose body is covered by the simulation; `W` = the callee variables
the body may write -/
structure CallOK (u : Fir.Unit) (args : List Ex) (W : List String) : Prop where
  su : ScalarUnit u
  len : u.args.length = args.length
  noIdx : ∀ a, a ∈ args → ∀ y subs, a ≠ .idx y subs
  body : okSs (u.decls.map (·.name)) W u.body = true
  side : sideOK (u.args.zip args) (u.decls.map (·.name)) W = true
  intentW : ∀ x d, x ∈ W → x ∈ u.args → findDecl u x = some d → d.intent ≠ .in_
  intentR : ∀ p d, p ∈ u.args.zip args → p.1 ∉ W → findDecl u p.1 = some d → d.intent = .in_ ∨ ∀ y, p.2 ≠ .var y

/-- conditions on the caller state at the call: no ASSOCIATE names; the actual of a written dummy is a scalar variable of the
dummy's type holding a value of that type; the value of the actual of a read-only dummy has the dummy's type (Fortran's argument
type rule) and a plain-variable actual is a scalar; every hoisted local exists in the caller as a scalar of its type -/
structure CallSt (u : Fir.Unit) (args : List Ex) (W : List String) (st : St) : Prop where
  als : st.alias = []
  wr : ∀ p d, p ∈ u.args.zip args → p.1 ∈ W → findDecl u p.1 = some d →
        ∃ a ov, p.2 = .var a ∧ lookupCell st a = some (.scalar d.ty ov) ∧ (∀ v, ov = some v → coerce d.ty v = some v)
  rd : ∀ p d, p ∈ u.args.zip args → p.1 ∉ W → findDecl u p.1 = some d →
        (∀ y, p.2 = .var y → ∃ ty ov, lookupCell st y = some (.scalar ty ov)) ∧
        (∀ v, evalE st [] p.2 = some v → coerce d.ty v = some v)
  loc : ∀ d, d ∈ u.decls → d.name ∉ u.args → ∃ ov, lookupCell st d.name = some (.scalar d.ty ov)

theorem lookupM_zip {u : Fir.Unit} {args : List Ex} (hn : u.args.Nodup) (hlen : u.args.length = args.length)
    {x : String} {a : Ex} (h : (x, a) ∈ u.args.zip args) : lookupM (u.args.zip args) x = some a := by
  unfold lookupM
  have := find_pair_mem (l := u.args.zip args) [] (by rw [zip_fst _ _ hlen]; exact hn) h
  rw [List.append_nil] at this
  rw [this]; rfl

theorem img_dummy {u : Fir.Unit} {args : List Ex} (hn : u.args.Nodup) (hlen : u.args.length = args.length)
    {x : String} {a : Ex} (h : (x, a) ∈ u.args.zip args) : img (u.args.zip args) x = a := by
  unfold img
  simp only [substM, lookupM_zip hn hlen h]

theorem img_local {u : Fir.Unit} {args : List Ex} (hlen : u.args.length = args.length) {x : String}
    (h : x ∉ u.args) : img (u.args.zip args) x = .var x := by
  unfold img
  have : lookupM (u.args.zip args) x = none := by
    unfold lookupM
    have := find_pair_not_mem (l := u.args.zip args) (x := x) [] (by rw [zip_fst _ _ hlen]; exact h)
    rw [List.append_nil] at this
    rw [this]; rfl
  simp only [substM, this]

/-- the frame, written out -/
def frameOf (u : Fir.Unit) (st : St) (cells : List (String × Cell)) : St :=
  { store := cells ++ locCells u u.decls, alias := [], out := st.out }

theorem callFrame_some {u : Fir.Unit} (hu : ScalarUnit u) {st : St} {fargs : List Ex} {cs0 : St}
    (h : callFrame u st fargs = some cs0) :
    ∃ cells, (u.args.zip fargs).mapM (cellOf u st) = some cells ∧ cs0 = frameOf u st cells := by
  rw [callFrame_eq hu] at h
  cases hm : (u.args.zip fargs).mapM (cellOf u st) with
  | none => rw [hm] at h; simp at h
  | some cells =>
    rw [hm] at h
    simp only [Option.map_some, Option.some.injEq] at h
    exact ⟨cells, rfl, h.symm⟩

theorem frame_dummy {u : Fir.Unit} (hu : ScalarUnit u) {st : St} {args : List Ex} (hlen : u.args.length = args.length)
    {cells : List (String × Cell)} (hm : (u.args.zip args).mapM (cellOf u st) = some cells)
    {x : String} {a : Ex} (hp : (x, a) ∈ u.args.zip args) :
    ∃ d data ov, findDecl u x = some d ∧ actualData st a = some data ∧
      fillCell (.scalar d.ty none) data = some (.scalar d.ty ov) ∧
      lookupCell (frameOf u st cells) x = some (.scalar d.ty ov) := by
  obtain ⟨hfst, hall⟩ := mapM_cells hm
  obtain ⟨c, hc, hmem⟩ := hall (x, a) hp
  obtain ⟨d, data, c', h1, h2, h3, hq⟩ := cellOf_some hc
  injection hq with _ hq2
  subst hq2
  obtain ⟨ov, hov, _, _⟩ := fillCell_scalar h3
  subst hov
  refine ⟨d, data, ov, h1, h2, h3, ?_⟩
  unfold lookupCell frameOf
  simp only
  rw [find_pair_mem _ (by rw [hfst, zip_fst _ _ hlen]; exact hu.nodupA) hmem]
  rfl

theorem locCells_nodup {u : Fir.Unit} (hu : ScalarUnit u) : ((locCells u u.decls).map (·.1)).Nodup := by
  unfold locCells
  rw [List.map_map]
  have : ((fun (p : String × Cell) => p.1) ∘ fun (d : Decl) => (d.name, Cell.scalar d.ty none)) = fun d => d.name := rfl
  rw [this]
  exact hu.nodupD.sublist (List.filter_sublist.map _)

theorem frame_not_dummy {u : Fir.Unit} {st : St} {args : List Ex} (hlen : u.args.length = args.length)
    {cells : List (String × Cell)} (hm : (u.args.zip args).mapM (cellOf u st) = some cells)
    {x : String} (hx : x ∉ u.args) :
    lookupCell (frameOf u st cells) x = ((locCells u u.decls).find? (·.1 == x)).map (·.2) := by
  obtain ⟨hfst, _⟩ := mapM_cells hm
  unfold lookupCell frameOf
  simp only
  rw [find_pair_not_mem _ (by rw [hfst, zip_fst _ _ hlen]; exact hx)]

theorem frame_local {u : Fir.Unit} (hu : ScalarUnit u) {st : St} {args : List Ex} (hlen : u.args.length = args.length)
    {cells : List (String × Cell)} (hm : (u.args.zip args).mapM (cellOf u st) = some cells)
    {d : Decl} (hd : d ∈ u.decls) (hx : d.name ∉ u.args) :
    lookupCell (frameOf u st cells) d.name = some (.scalar d.ty none) := by
  rw [frame_not_dummy hlen hm hx]
  have hmem : (d.name, Cell.scalar d.ty none) ∈ locCells u u.decls := by
    unfold locCells
    exact List.mem_map.mpr ⟨d, List.mem_filter.mpr ⟨hd, by simpa using hx⟩, rfl⟩
  have := find_pair_mem [] (locCells_nodup hu) hmem
  rw [List.append_nil] at this
  rw [this]; rfl

theorem frame_not_dummy_none {u : Fir.Unit} {st : St} {args : List Ex} (hlen : u.args.length = args.length)
    {cells : List (String × Cell)} (hm : (u.args.zip args).mapM (cellOf u st) = some cells)
    {x : String} (hx : x ∉ u.args) {ty : Ty} {v : Val} :
    lookupCell (frameOf u st cells) x ≠ some (.scalar ty (some v)) := by
  rw [frame_not_dummy hlen hm hx]
  intro h
  cases hf : (locCells u u.decls).find? (·.1 == x) with
  | none => rw [hf] at h; simp at h
  | some q =>
    rw [hf] at h
    have hq := (find_mem hf).1
    unfold locCells at hq
    obtain ⟨d, _, hd⟩ := List.mem_map.mp hq
    subst hd
    simp at h

/-! ### what copy-in puts into a dummy -/

theorem actualData_var {st : St} (hal : st.alias = []) {a : String} {ty : Ty} {ov : Option Val}
    (hc : lookupCell st a = some (.scalar ty ov)) : actualData st (.var a) = some [ov] := by
  simp [actualData, lookupAlias_nil hal, hc]

theorem actualData_expr (st : St) {e : Ex} (hv : ∀ y, e ≠ .var y) (hi : ∀ y s, e ≠ .idx y s) :
    actualData st e = (evalE st [] e).map fun v => [some v] := by
  cases e with
  | var y => exact absurd rfl (hv y)
  | idx y s => exact absurd rfl (hi y s)
  | lit _ => rfl
  | sec _ _ => rfl
  | neg _ => rfl
  | not _ => rfl
  | bin _ _ _ => rfl
  | call _ _ => rfl

theorem fill_head {ty : Ty} {data : List (Option Val)} {ov : Option Val}
    (h : fillCell (.scalar ty none) data = some (.scalar ty ov)) {v : Val} (hv : ov = some v) :
    ∃ w rest, data = some w :: rest ∧ coerce ty w = some v := by
  obtain ⟨ov2, he, hf, _⟩ := fillCell_scalar h
  injection he with _ he
  subst he
  exact hf v hv

theorem frame_rel {u : Fir.Unit} {args : List Ex} {W : List String} {st cs0 : St} (hok : CallOK u args W)
    (hst : CallSt u args W st) (hcf : callFrame u st args = some cs0) :
    Rel (u.args.zip args) (u.decls.map (·.name)) W u.args cs0 st := by
  obtain ⟨cells, hm, rfl⟩ := callFrame_some hok.su hcf
  have hlen := hok.len
  refine ⟨rfl, hst.als, rfl, ?_, ?_, ?_, ?_⟩
  · -- every variable of the callee is a scalar of the frame
    intro x hx
    obtain ⟨d, hd, rfl⟩ := List.mem_map.mp hx
    by_cases hxa : d.name ∈ u.args
    · obtain ⟨a, hp⟩ := zip_mem_left _ _ hlen _ hxa
      obtain ⟨d', data, ov, _, _, _, hl⟩ := frame_dummy hok.su hlen hm hp
      exact ⟨_, _, hl⟩
    · exact ⟨_, _, frame_local hok.su hlen hm hd hxa⟩
  · -- read-only variables
    intro x hx hxW v hv
    obtain ⟨d0, hd0, rfl⟩ := List.mem_map.mp hx
    by_cases hxa : d0.name ∈ u.args
    · obtain ⟨a, hp⟩ := zip_mem_left _ _ hlen _ hxa
      obtain ⟨d, data, ov, h1, h2, h3, hl⟩ := frame_dummy hok.su hlen hm hp
      rw [readAt_scalar rfl hl] at hv
      obtain ⟨w, rest, hdata, hco⟩ := fill_head h3 hv
      obtain ⟨hsc, hty⟩ := hst.rd (d0.name, a) d hp hxW h1
      rw [img_dummy hok.su.nodupA hlen hp]
      have hev : evalE st [] a = some w := by
        by_cases hvar : ∃ y, a = .var y
        · obtain ⟨y, rfl⟩ := hvar
          obtain ⟨ty, ovy, hy⟩ := hsc y rfl
          rw [actualData_var hst.als hy] at h2
          rw [evalE_var_scalar hst.als hy]
          rw [hdata] at h2
          injection h2 with h2
          injection h2 with h2 _
        · have hnv : ∀ y, a ≠ .var y := fun y e => hvar ⟨y, e⟩
          have hni := hok.noIdx a (zip_mem_fst hp).2
          rw [actualData_expr st hnv hni, hdata] at h2
          cases he : evalE st [] a with
          | none => rw [he] at h2; simp at h2
          | some w' =>
            rw [he] at h2
            simp only [Option.map_some, Option.some.injEq, List.cons.injEq] at h2
            rw [h2.1]
      rw [hev]
      have := hty w hev
      rw [this] at hco
      exact hco
    · rw [readAt_scalar rfl (frame_local hok.su hlen hm hd0 hxa)] at hv
      cases hv
  · -- written variables
    intro x hxW
    obtain ⟨hxV, _, _, _⟩ := sideOK_mem hok.side hxW
    obtain ⟨d0, hd0, rfl⟩ := List.mem_map.mp hxV
    by_cases hxa : d0.name ∈ u.args
    · obtain ⟨a, hp⟩ := zip_mem_left _ _ hlen _ hxa
      obtain ⟨d, data, ov, h1, h2, h3, hl⟩ := frame_dummy hok.su hlen hm hp
      obtain ⟨a', ov', ha, hs, hwt⟩ := hst.wr (d0.name, a) d hp hxW h1
      simp only at ha
      subst ha
      rw [actualData_var hst.als hs] at h2
      injection h2 with h2
      subst h2
      have heq : ov = ov' := by
        cases ov' with
        | none => simp [fillCell] at h3; exact h3.symm
        | some w => simp [fillCell, hwt w rfl] at h3; exact h3.symm
      exact ⟨a', d.ty, ov, ov', img_dummy hok.su.nodupA hlen hp, hl, hs, Or.inr heq, fun _ => heq⟩
    · obtain ⟨ov', hs⟩ := hst.loc d0 hd0 hxa
      exact ⟨d0.name, d0.ty, none, ov', img_local hlen hxa, frame_local hok.su hlen hm hd0 hxa, hs, Or.inl rfl,
        fun hD => absurd hD hxa⟩
  · -- stored values have the type of their cell
    intro x ty v hl
    by_cases hxa : x ∈ u.args
    · obtain ⟨a, hp⟩ := zip_mem_left _ _ hlen _ hxa
      obtain ⟨d, data, ov, h1, h2, h3, hl'⟩ := frame_dummy hok.su hlen hm hp
      rw [hl] at hl'
      injection hl' with hl'
      injection hl' with ht hv
      subst ht
      obtain ⟨w, rest, _, hco⟩ := fill_head h3 hv.symm
      exact coerce_idem hco
    · exact absurd hl (frame_not_dummy_none hlen hm hxa)

end LokiModel.C28
