import LokiModel.Fir.Syntax
/-!
# C30 — model of Loki's array-notation resolution and index normalisation on mini-Fortran (FIR)

Mirrors `loki/transformations/array_indexing/vector_notation.py` (`resolve_vector_notation`,
`ResolveVectorNotationTransformer.visit_Assignment`, `IterationRangeShapeMapper`, `_map_ranges_to_indices`,
`_compute_shifted_index`, `add_/remove_explicit_array_dimensions`) and `array_indices.py`
(`normalize_array_shape_and_access` + `normalize_range_indexing`, `flatten_arrays`, `invert_array_indices`,
`shift_to_zero_indexing`) on the part of the input language FIR has: integer/real/logical explicit-shape arrays,
assignments whose sides are scalars, elements, sections (triplets and fixed subscripts) and whole arrays, inside
DO / DO WHILE / IF / SELECT / ASSOCIATE bodies.  Not modelled: WHERE (`visit_MaskedStatement`), derived-type bounds
(`substitute_derived_type_bounds`), vector subscripts, literal lists, reductions (the real code leaves those statements
alone), `resolve_vector_dimension` (same transformer with a fixed loop_map and `map_unknown_ranges=False`).
`simplify` (applied by the real code to generated index expressions) is NOT modelled: the model emits the unsimplified
sum and the correspondence compares index expressions as polynomials.
Core Lean only.
-/
namespace LokiModel.C30
open LokiModel.Fir
open LokiModel.Expr (Val CmpOp)

/-! ### structural equality of expressions (Loki compares ranges / lower bounds with `==`) -/

mutual
def beqEx : Ex → Ex → Bool
  | .lit a, .lit b => a == b
  | .var x, .var y => x == y
  | .idx x s, .idx y t => x == y && beqExs s t
  | .sec x d, .sec y e => x == y && beqDims d e
  | .neg a, .neg b => beqEx a b
  | .not a, .not b => beqEx a b
  | .bin o a b, .bin p c d => o == p && beqEx a c && beqEx b d
  | .call f s, .call g t => f == g && beqExs s t
  | _, _ => false
def beqExs : List Ex → List Ex → Bool
  | [], [] => true
  | a :: s, b :: t => beqEx a b && beqExs s t
  | _, _ => false
def beqDims : List Dim → List Dim → Bool
  | [], [] => true
  | .at a :: s, .at b :: t => beqEx a b && beqDims s t
  | .rng a b c :: s, .rng d e f :: t => beqO a d && beqO b e && beqO c f && beqDims s t
  | _, _ => false
def beqO : Option Ex → Option Ex → Bool
  | none, none => true
  | some a, some b => beqEx a b
  | _, _ => false
end

/-- a triplet `lo:hi:step` -/
structure Rng where
  lo : Option Ex
  hi : Option Ex
  step : Option Ex

def Rng.beq (a b : Rng) : Bool := beqO a.lo b.lo && beqO a.hi b.hi && beqO a.step b.step

def findD (ds : List Decl) (x : String) : Option Decl := ds.find? (·.name == x)

def isArray (ds : List Decl) (x : String) : Bool :=
  match findD ds x with
  | some d => !d.dims.isEmpty
  | none => false

def declDims (ds : List Decl) (x : String) : List (Ex × Ex) :=
  match findD ds x with
  | some d => d.dims
  | none => []

def isColon : Dim → Bool
  | .rng none none none => true
  | _ => false

def isRng : Dim → Bool
  | .rng _ _ _ => true
  | _ => false

/-! ### generic traversals -/

mutual
/-- rewrite the OUTERMOST array references / variables of an expression with `f`
(`SubstituteExpressions` does not descend into a replaced node) -/
def mapRefs (f : Ex → Ex) : Ex → Ex
  | .lit v => .lit v
  | .var x => f (.var x)
  | .idx x subs => f (.idx x subs)
  | .sec x dims => f (.sec x dims)
  | .neg a => .neg (mapRefs f a)
  | .not a => .not (mapRefs f a)
  | .bin o a b => .bin o (mapRefs f a) (mapRefs f b)
  | .call g args => .call g (mapRefsL f args)
def mapRefsL (f : Ex → Ex) : List Ex → List Ex
  | [] => []
  | e :: es => mapRefs f e :: mapRefsL f es
end

def mapO (f : Ex → Ex) : Option Ex → Option Ex
  | none => none
  | some e => some (f e)

mutual
/-- apply `fe` to every expression position of a statement list that Loki's expression machinery sees
(everything except PRINT, which is an opaque `Intrinsic` node) and `fa` to every assignment -/
def mapStmts (fe : Ex → Ex) (fa : Ex → Ex → List Stmt) : List Stmt → List Stmt
  | [] => []
  | s :: rest => mapStmt fe fa s ++ mapStmts fe fa rest
def mapStmt (fe : Ex → Ex) (fa : Ex → Ex → List Stmt) : Stmt → List Stmt
  | .assign l r => fa l r
  | .doLoop v lo hi st body => [.doLoop v (fe lo) (fe hi) (mapO fe st) (mapStmts fe fa body)]
  | .while c body => [.while (fe c) (mapStmts fe fa body)]
  | .ifte c t e => [.ifte (fe c) (mapStmts fe fa t) (mapStmts fe fa e)]
  | .select e cs d => [.select (fe e) (mapCases fe fa cs) (mapStmts fe fa d)]
  | .assoc bs body => [.assoc (mapBinds fe bs) (mapStmts fe fa body)]
  | .callSub g args => [.callSub g (args.map fe)]
  | .print args => [.print args]
  | .exit => [.exit]
  | .cycle => [.cycle]
  | .nop k t => [.nop k t]
def mapCases (fe : Ex → Ex) (fa : Ex → Ex → List Stmt) : List (List Int × List Stmt) → List (List Int × List Stmt)
  | [] => []
  | (vs, b) :: cs => (vs, mapStmts fe fa b) :: mapCases fe fa cs
def mapBinds (fe : Ex → Ex) : List (String × Ex) → List (String × Ex)
  | [] => []
  | (n, e) :: bs => (n, fe e) :: mapBinds fe bs
end

/-- expression-level transformation applied to a whole unit body -/
def mapBody (f : Ex → Ex) (body : List Stmt) : List Stmt :=
  mapStmts (mapRefs f) (fun l r => [.assign (mapRefs f l) (mapRefs f r)]) body

/-! ### add / remove explicit array dimensions -/

def addExplicitRef (ds : List Decl) : Ex → Ex
  | .var x => if isArray ds x then .sec x ((declDims ds x).map fun _ => .rng none none none) else .var x
  | e => e

def removeExplicitRef : Ex → Ex
  | .sec x dims => if dims.all isColon then .var x else .sec x dims
  | e => e

/-! ### resolve_vector_notation -/

/-- `IterationRangeShapeMapper.map_array`: bare array → all `:`; every `:` → declared `lo:hi` (no descent into subscripts) -/
def qualDims : List (Ex × Ex) → List Dim → List Dim
  | (lo, hi) :: bs, d :: ds => (if isColon d then .rng (some lo) (some hi) none else d) :: qualDims bs ds
  | _, ds => ds

def qualRef (ds : List Decl) : Ex → Ex
  | .var x => if isArray ds x then .sec x ((declDims ds x).map fun (lo, hi) => .rng (some lo) (some hi) none) else .var x
  | .sec x dims => .sec x (qualDims (declDims ds x) dims)
  | e => e

def rangesOf : List Dim → List Rng
  | [] => []
  | .rng a b c :: ds => ⟨a, b, c⟩ :: rangesOf ds
  | .at _ :: ds => rangesOf ds

/-- `loop_map`: range of every DO loop of the routine → its variable (later loops overwrite earlier ones) -/
abbrev LoopMap := List (Rng × String)

mutual
def loopsOf : List Stmt → LoopMap
  | [] => []
  | s :: rest => loopsOfStmt s ++ loopsOf rest
def loopsOfStmt : Stmt → LoopMap
  | .doLoop v lo hi st body => (⟨some lo, some hi, st⟩, v) :: loopsOf body
  | .while _ body => loopsOf body
  | .ifte _ t e => loopsOf t ++ loopsOf e
  | .select _ cs d => loopsOfCases cs ++ loopsOf d
  | .assoc _ body => loopsOf body
  | _ => []
def loopsOfCases : List (List Int × List Stmt) → LoopMap
  | [] => []
  | (_, b) :: cs => loopsOf b ++ loopsOfCases cs
end

/-- dict lookup with "last assignment wins" -/
def lookupLoop (m : LoopMap) (r : Rng) : Option String :=
  (m.reverse.find? fun p => p.1.beq r).map (·.2)

/-- `_map_ranges_to_indices` with `map_unknown_ranges=True`: the loop variable of each LHS range, in order -/
def chooseVars (m : LoopMap) (base : String) : Nat → List Rng → List String → List String
  | _, [], _ => []
  | i, r :: rs, used =>
      let fresh := base ++ "_" ++ toString i
      let v := match lookupLoop m r with
        | some w => if used.contains w then fresh else w
        | none => fresh
      v :: chooseVars m base (i + 1) rs (v :: used)

/-- `_compute_shifted_index` / `is_aligned_dim`: the subscript replacing an RHS range; `none` = the real code raises -/
def rhsIndex (v : String) (l r : Rng) : Option Ex :=
  if beqO l.lo r.lo then some (.var v)
  else match l.lo, r.lo with
    | some a, some c => some (.bin .add (.bin .sub (.var v) a) c)
    | _, _ => none

/-- replace the k-th range of a dimension list by the k-th given subscript (as long as there are subscripts) -/
def replaceRanges : List Dim → List (Option Ex) → Option (List Dim)
  | [], _ => some []
  | .at e :: ds, is => (replaceRanges ds is).map (.at e :: ·)
  | .rng a b c :: ds, [] => (replaceRanges ds []).map (.rng a b c :: ·)
  | .rng _ _ _ :: ds, i :: is => match i with
      | some e => (replaceRanges ds is).map (.at e :: ·)
      | none => none

def atsOf : List Dim → Option (List Ex)
  | [] => some []
  | .at e :: ds => (atsOf ds).map (e :: ·)
  | .rng _ _ _ :: _ => none

/-- an array reference whose subscripts are all scalar is an element (`idx`), otherwise a section -/
def mkRef (x : String) (dims : List Dim) : Ex :=
  match atsOf dims with
  | some subs => .idx x subs
  | none => .sec x dims

def zipIdx (vars : List String) (ls rs : List Rng) : List (Option Ex) :=
  match vars, ls, rs with
  | v :: vs, l :: ls', r :: rs' => rhsIndex v l r :: zipIdx vs ls' rs'
  | _, _, _ => []

mutual
/-- rewrite the sections of the right-hand side (already qualified); `none` = the real code raises -/
def resolveRhs (ds : List Decl) (vars : List String) (lr : List Rng) : Ex → Option Ex
  | .lit v => some (.lit v)
  | .var x =>
      match qualRef ds (.var x) with
      | .sec y dims =>
          if (rangesOf dims).length < lr.length then none else
          (replaceRanges dims (zipIdx vars lr (rangesOf dims))).map (mkRef y)
      | e => some e
  | .idx x subs => some (.idx x subs)
  | .sec x dims0 =>
      let dims := qualDims (declDims ds x) dims0
      if (rangesOf dims).length < lr.length then none else
      (replaceRanges dims (zipIdx vars lr (rangesOf dims))).map (mkRef x)
  | .neg a => (resolveRhs ds vars lr a).map .neg
  | .not a => (resolveRhs ds vars lr a).map .not
  | .bin o a b => do
      let a' ← resolveRhs ds vars lr a
      let b' ← resolveRhs ds vars lr b
      pure (.bin o a' b')
  | .call g args => (resolveRhsL ds vars lr args).map (.call g)
def resolveRhsL (ds : List Decl) (vars : List String) (lr : List Rng) : List Ex → Option (List Ex)
  | [] => some []
  | e :: es => do
      let e' ← resolveRhs ds vars lr e
      let es' ← resolveRhsL ds vars lr es
      pure (e' :: es')
end

/-- the loop nest: the first range is the innermost loop; `none` if a bound is missing (invalid `DO i=2,`) -/
def wrapLoops : List String → List Rng → List Stmt → Option (List Stmt)
  | v :: vs, r :: rs, body =>
      match r.lo, r.hi with
      | some lo, some hi => wrapLoops vs rs [.doLoop v lo hi r.step body]
      | _, _ => none
  | _, _, body => some body

/-- `visit_Assignment`: the statements replacing one assignment, and the loop variables it uses; `none` = failure -/
def resolveAssign (ds : List Decl) (m : LoopMap) (lhs rhs : Ex) : Option (List Stmt × List String) :=
  match lhs with
  | .lit _ | .neg _ | .not _ | .bin _ _ _ | .call _ _ => some ([.assign lhs rhs], [])
  | .idx _ _ => some ([.assign lhs rhs], [])
  | _ =>
    match qualRef ds lhs with
    | .sec x dims =>
        let lr := rangesOf dims
        if lr.isEmpty then some ([.assign lhs rhs], []) else
        let vars := chooseVars m ("i_" ++ x) 0 lr []
        match replaceRanges dims (vars.map fun v => some (.var v)), resolveRhs ds vars lr rhs with
        | some ldims, some rhs' =>
            (wrapLoops vars lr [.assign (mkRef x ldims) rhs']).map fun ss => (ss, vars)
        | _, _ => none
    | _ => some ([.assign lhs rhs], [])

mutual
def resolveStmts (ds : List Decl) (m : LoopMap) : List Stmt → Option (List Stmt × List String)
  | [] => some ([], [])
  | s :: rest => do
      let (a, va) ← resolveStmt ds m s
      let (b, vb) ← resolveStmts ds m rest
      pure (a ++ b, va ++ vb)
def resolveStmt (ds : List Decl) (m : LoopMap) : Stmt → Option (List Stmt × List String)
  | .assign l r => resolveAssign ds m l r
  | .doLoop v lo hi st body => do
      let (b, vs) ← resolveStmts ds m body
      pure ([.doLoop v lo hi st b], vs)
  | .while c body => do
      let (b, vs) ← resolveStmts ds m body
      pure ([.while c b], vs)
  | .ifte c t e => do
      let (t', v1) ← resolveStmts ds m t
      let (e', v2) ← resolveStmts ds m e
      pure ([.ifte c t' e'], v1 ++ v2)
  | .select e cs d => do
      let (cs', v1) ← resolveCases ds m cs
      let (d', v2) ← resolveStmts ds m d
      pure ([.select e cs' d'], v1 ++ v2)
  | .assoc bs body => do
      let (b, vs) ← resolveStmts ds m body
      pure ([.assoc bs b], vs)
  | s => some ([s], [])
def resolveCases (ds : List Decl) (m : LoopMap) :
    List (List Int × List Stmt) → Option (List (List Int × List Stmt) × List String)
  | [] => some ([], [])
  | (vs, b) :: cs => do
      let (b', v1) ← resolveStmts ds m b
      let (cs', v2) ← resolveCases ds m cs
      pure ((vs, b') :: cs', v1 ++ v2)
end

/-- declare the loop variables that are not declared yet (integer scalars, in order of first use) -/
def addIndexDecls : List Decl → List String → List Decl
  | ds, [] => ds
  | ds, v :: vs =>
      if (findD ds v).isSome then addIndexDecls ds vs
      else addIndexDecls (ds ++ [{ name := v, ty := .int, dims := [] }]) vs

def resolveUnit (u : Fir.Unit) : Option Fir.Unit := do
  let (body, vars) ← resolveStmts u.decls (loopsOf u.body) u.body
  pure { u with body := body, decls := addIndexDecls u.decls vars }

/-! ### normalize_array_shape_and_access (followed by normalize_range_indexing) -/

def isLit1 : Ex → Bool
  | .lit (.int 1) => true
  | _ => false

def one : Ex := .lit (.int 1)

/-- `i - lo + 1` -/
def shiftTo1 (lo e : Ex) : Ex := .bin .add (.bin .sub e lo) one

/-- new subscripts of one reference: a section keeps its own stride and its open ends (since the two `fix:` commits; before,
the stride of the DECLARED dimension — none — was used and an open end raised `TypeError`); the `Option` is kept for the
callers, the function no longer fails -/
def normDims : List (Ex × Ex) → List Dim → Option (List Dim)
  | (lo, _) :: bs, d :: ds =>
      if isLit1 lo then (normDims bs ds).map (d :: ·) else
      match d with
      | .at e => (normDims bs ds).map (.at (shiftTo1 lo e) :: ·)
      | .rng a b c => (normDims bs ds).map (.rng (a.map (shiftTo1 lo)) (b.map (shiftTo1 lo)) c :: ·)
  | _, _ => some []

def dimsOfSubs (subs : List Ex) : List Dim := subs.map .at

/-- `none` is encoded by the marker variable `"!raise"` so that the generic traversal can be reused -/
def raiseMark : Ex := .var "!raise"

def normRef (ds : List Decl) : Ex → Ex
  | .idx x subs => match normDims (declDims ds x) (dimsOfSubs subs) with
      | some d => mkRef x d
      | none => raiseMark
  | .sec x dims => match normDims (declDims ds x) dims with
      | some d => mkRef x d
      | none => raiseMark
  | e => e

def normDecl (d : Decl) : Decl :=
  { d with dims := d.dims.map fun (lo, hi) => if isLit1 lo then (lo, hi) else (one, shiftTo1 lo hi) }

/-! ### flatten_arrays -/

def lit (n : Int) : Ex := .lit (.int n)

/-- `new_dims`: fold the last two subscripts until one is left (`shape[-2]` is the extent of the last-but-one dimension) -/
def flattenSubs (s : Int) : List Ex → List Ex → Ex
  | _, [] => lit s
  | _, [i] => i
  | [], i :: _ => i
  | n :: ns, i :: j :: is => .bin .add i (.bin .mul n (.bin .sub (flattenSubs s ns (j :: is)) (lit s)))

/-- extents as Loki sees them after `normalize_array_shape_and_access`: the upper bounds -/
def shapeOf (ds : List Decl) (x : String) : List Ex := (declDims ds x).map (·.2)

def flattenRef (ds : List Decl) (s : Int) (cOrder : Bool) : Ex → Ex
  | .idx x subs =>
      if cOrder then .idx x [flattenSubs s (shapeOf ds x).reverse subs.reverse]
      else .idx x [flattenSubs s (shapeOf ds x) subs]
  | e => e

def prodEx : List Ex → Ex
  | [] => one
  | [e] => e
  | e :: es => .bin .mul e (prodEx es)

def flattenDecl (d : Decl) : Decl :=
  if d.dims.isEmpty then d else { d with dims := [(one, prodEx (d.dims.map (·.2)))] }

/-! ### invert_array_indices, shift_to_zero_indexing -/

def invertRef : Ex → Ex
  | .idx x subs => .idx x subs.reverse
  | .sec x dims => .sec x dims.reverse
  | e => e

def invertDecl (d : Decl) : Decl := { d with dims := d.dims.reverse }

def minus1 (e : Ex) : Ex := .bin .sub e one

def shiftDim : Dim → Dim
  | .at e => .at (minus1 e)
  | .rng a b c => .rng (a.map minus1) b c

def shiftRef : Ex → Ex
  | .idx x subs => .idx x (subs.map minus1)
  | .sec x dims => .sec x (dims.map shiftDim)
  | e => e

/-! ### the transformations on units and programs -/

inductive Op where
  | resolve | normshape | addexp | remexp | pipef | pipec | invert | shift0
deriving Repr, DecidableEq

mutual
def hasRaise : Ex → Bool
  | .var x => x == "!raise"
  | .idx _ s => hasRaiseL s
  | .sec _ d => hasRaiseD d
  | .neg a => hasRaise a
  | .not a => hasRaise a
  | .bin _ a b => hasRaise a || hasRaise b
  | .call _ s => hasRaiseL s
  | .lit _ => false
def hasRaiseL : List Ex → Bool
  | [] => false
  | e :: es => hasRaise e || hasRaiseL es
def hasRaiseD : List Dim → Bool
  | [] => false
  | .at e :: ds => hasRaise e || hasRaiseD ds
  | .rng a b c :: ds => hasRaiseO a || hasRaiseO b || hasRaiseO c || hasRaiseD ds
def hasRaiseO : Option Ex → Bool
  | none => false
  | some e => hasRaise e
end

mutual
def stmtsRaise : List Stmt → Bool
  | [] => false
  | s :: rest => stmtRaise s || stmtsRaise rest
def stmtRaise : Stmt → Bool
  | .assign l r => hasRaise l || hasRaise r
  | .doLoop _ lo hi st body => hasRaise lo || hasRaise hi || hasRaiseO st || stmtsRaise body
  | .while c body => hasRaise c || stmtsRaise body
  | .ifte c t e => hasRaise c || stmtsRaise t || stmtsRaise e
  | .select e cs d => hasRaise e || casesRaise cs || stmtsRaise d
  | .assoc bs body => bindsRaise bs || stmtsRaise body
  | .callSub _ args => hasRaiseL args
  | _ => false
def casesRaise : List (List Int × List Stmt) → Bool
  | [] => false
  | (_, b) :: cs => stmtsRaise b || casesRaise cs
def bindsRaise : List (String × Ex) → Bool
  | [] => false
  | (_, e) :: bs => hasRaise e || bindsRaise bs
end

def normshapeUnit (u : Fir.Unit) : Option Fir.Unit :=
  let body := mapBody (normRef u.decls) u.body
  if stmtsRaise body then none else some { u with body := body, decls := u.decls.map normDecl }

def flattenUnit (s : Int) (cOrder : Bool) (u : Fir.Unit) : Fir.Unit :=
  { u with body := mapBody (flattenRef u.decls s cOrder) u.body, decls := u.decls.map flattenDecl }

def invertUnit (u : Fir.Unit) : Fir.Unit :=
  { u with body := mapBody invertRef u.body, decls := u.decls.map invertDecl }

def shiftUnit (u : Fir.Unit) : Fir.Unit := { u with body := mapBody shiftRef u.body }

def T_unit : Op → Fir.Unit → Option Fir.Unit
  | .resolve, u => resolveUnit u
  | .normshape, u => normshapeUnit u
  | .addexp, u => some { u with body := mapBody (addExplicitRef u.decls) u.body }
  | .remexp, u => some { u with body := mapBody removeExplicitRef u.body }
  | .pipef, u => do
      let u1 ← resolveUnit u
      let u2 ← normshapeUnit u1
      pure (flattenUnit 1 false u2)
  | .pipec, u => do
      let u1 ← resolveUnit u
      let u2 ← normshapeUnit u1
      pure (flattenUnit 0 true (shiftUnit (invertUnit u2)))
  | .invert, u => some (invertUnit u)
  | .shift0, u => some (shiftUnit u)

/-- the transformation applied to every routine of the program; `none` = the real transformation fails -/
def T_model (op : Op) (p : Program) : Option Program := do
  let us ← p.units.mapM (T_unit op)
  pure { p with units := us }

end LokiModel.C30
