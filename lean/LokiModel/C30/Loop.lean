import LokiModel.C30.Resolve
/-!
# C30 — loop invariant: the generated DO loop replays the stores of the array assignment one by one
-/
namespace LokiModel.C30
open LokiModel.Fir
open LokiModel.Expr (Val)

/-- the cell produced by storing `val` at subscripts `is` -/
def newCell (is : List Int) (val : Val) : Cell → Option Cell
  | .scalar ty _ => if is.isEmpty then (coerce ty val).map fun v' => .scalar ty (some v') else none
  | .array ty bs data =>
      (offset bs is).bind fun o => (coerce ty val).bind fun v' =>
        if o < data.length then some (.array ty bs (data.set o (some v'))) else none

theorem writeAt_eq {st : St} (h : st.alias = []) (x : String) (is : List Int) (val : Val) :
    writeAt st x is val =
      ((lookupCell st x).bind (newCell is val)).map fun c => { st with store := setCell st.store x c } := by
  simp only [writeAt, resolve, lookupAlias_nil h]
  cases hc : lookupCell st x with
  | none => simp [hc]
  | some c =>
    cases c with
    | scalar ty w =>
      simp only [hc, newCell, Option.bind_eq_bind, Option.bind_some]
      by_cases he : is.isEmpty = true
      · simp only [he, if_true]
        cases coerce ty val <;> rfl
      · simp [he]
    | array ty bs data =>
      simp only [hc, newCell, Option.bind_eq_bind, Option.bind_some]
      cases offset bs is with
      | none => rfl
      | some o =>
        simp only [Option.bind_some]
        cases coerce ty val with
        | none => rfl
        | some v' =>
          simp only [Option.bind_some]
          by_cases ho : o < data.length
          · simp [ho]
          · simp [ho]

/-- the two states agree on everything except the cell of `v` -/
structure Agr (v : String) (s1 s2 : St) : Prop where
  a1 : s1.alias = []
  a2 : s2.alias = []
  out : s1.out = s2.out
  cells : ∀ y, y ≠ v → lookupCell s1 y = lookupCell s2 y

theorem writeAt_agree {v a : String} {L W W1 : St} (hA : Agr v L W) (hav : a ≠ v) {is : List Int} {val : Val}
    (hw : writeAt W a is val = some W1) :
    ∃ L2, writeAt L a is val = some L2 ∧ Agr v L2 W1 ∧
      (∀ y, y ≠ a → lookupCell W1 y = lookupCell W y) ∧ (∀ y, y ≠ a → lookupCell L2 y = lookupCell L y) := by
  rw [writeAt_eq hA.a2] at hw
  rw [writeAt_eq hA.a1, hA.cells a hav]
  cases hc : (lookupCell W a).bind (newCell is val) with
  | none => simp [hc] at hw
  | some c =>
    simp only [hc, Option.map_some, Option.some.injEq] at hw
    subst hw
    refine ⟨_, rfl, ⟨hA.a1, hA.a2, hA.out, ?_⟩, ?_, ?_⟩
    · intro y hy
      by_cases hya : y = a
      · subst hya; rw [lookupCell_set_same, lookupCell_set_same]
      · rw [lookupCell_set_other _ _ _ _ hya, lookupCell_set_other _ _ _ _ hya]; exact hA.cells y hy
    · intro y hya; exact lookupCell_set_other _ _ _ _ hya
    · intro y hya; exact lookupCell_set_other _ _ _ _ hya

/-- the right-hand side values, the target subscripts (both in the state `st0` before the assignment), then the stores -/
def origFrom (st0 : St) (a : String) (bs : List (Int × Int)) (dims : List Dim) (rhs : Ex) (ps : List (List Nat)) (W : St) :
    Option St := do
  let vals ← ps.mapM fun p => evalE st0 p rhs
  let targets ← ps.mapM fun p => evalSec st0 p bs dims p
  (targets.zip vals).foldlM (fun s (t, v) => writeAt s a t v) W

theorem origFrom_nil (st0 : St) (a : String) (bs : List (Int × Int)) (dims : List Dim) (rhs : Ex) (W : St) :
    origFrom st0 a bs dims rhs [] W = some W := by
  simp [origFrom]

theorem origFrom_cons {st0 : St} {a : String} {bs : List (Int × Int)} {dims : List Dim} {rhs : Ex}
    {x : List Nat} {ps : List (List Nat)} {W st' : St}
    (h : origFrom st0 a bs dims rhs (x :: ps) W = some st') :
    ∃ val t W1, evalE st0 x rhs = some val ∧ evalSec st0 x bs dims x = some t ∧ writeAt W a t val = some W1 ∧
      origFrom st0 a bs dims rhs ps W1 = some st' := by
  simp only [origFrom, List.mapM_cons, Option.bind_eq_bind, Option.pure_def] at h
  cases hv : evalE st0 x rhs with
  | none => simp [hv] at h
  | some val =>
    cases hvs : List.mapM (fun p => evalE st0 p rhs) ps with
    | none => simp [hv, hvs] at h
    | some vals =>
      cases ht : evalSec st0 x bs dims x with
      | none => simp [hv, hvs, ht] at h
      | some t =>
        cases hts : List.mapM (fun p => evalSec st0 p bs dims p) ps with
        | none => simp [hv, hvs, ht, hts] at h
        | some ts =>
          simp only [hv, hvs, ht, hts, Option.bind_some, List.zip_cons_cons, List.foldlM_cons, Option.bind_eq_bind] at h
          cases hw : writeAt W a t val with
          | none => simp [hw] at h
          | some W1 =>
            simp only [hw, Option.bind_some] at h
            refine ⟨val, t, W1, rfl, rfl, hw, ?_⟩
            simp only [origFrom, hvs, hts, Option.bind_eq_bind, Option.bind_some]
            exact h

theorem asInt_some {w : Val} {l : Int} (h : asInt w = some l) : w = .int l := by
  cases w <;> simp [asInt] at h
  rw [h]

theorem bind_asInt_some {o : Option Val} {l : Int} (h : o.bind asInt = some l) : o = some (.int l) := by
  cases o with
  | none => simp at h
  | some w => simp at h; rw [asInt_some h]

/-- everything the loop invariant needs that does not change from iteration to iteration -/
structure LoopCtx (ds : List Decl) (a v : String) (lo hi : Ex) (step : Option Ex) (rhs rhs' : Ex) (st0 : St)
    (b : Int × Int) (l s : Int) : Prop where
  hav : a ≠ v
  a0 : st0.alias = []
  sc0 : ∀ x c, isArray ds x = false → lookupCell st0 x = some c → ∃ ty val, c = .scalar ty val
  rank1 : ∀ x c, (declDims ds x).length = 1 → lookupCell st0 x = some c → ∃ ty b data, c = .array ty [b] data
  lo_sc : scE ds a v lo = true
  lo_val : evalE st0 [] lo = some (.int l)
  step_sc : scO ds a v step = true
  step_val : stepVal st0 [] step = some s
  cov : covE ds a v ⟨some lo, some hi, step⟩ rhs = true
  res : resolveRhs ds [v] [⟨some lo, some hi, step⟩] rhs = some rhs'

theorem loop_inv (p : Program) {ds : List Decl} {a v : String} {lo hi : Ex} {step : Option Ex} {rhs rhs' : Ex}
    {st0 : St} {b : Int × Int} {l s : Int}
    (K : LoopCtx ds a v lo hi step rhs rhs' st0 b l s) :
    ∀ (m j : Nat) (cur : Int) (L W st' : St),
      cur = l + (j : Int) * s →
      Agr v L W → (∃ w, lookupCell L v = some (.scalar .int w)) →
      (∀ y, y ≠ a → lookupCell W y = lookupCell st0 y) →
      origFrom st0 a [b] [.rng (some lo) (some hi) step] rhs ((List.range' j m).map fun k => [k]) W = some st' →
      ∃ st'', doIter p (m + 2 + 1) v [.assign (.idx a [.var v]) rhs'] s m cur L = .ok st'' .normal ∧ Agr v st'' st'
  | 0, j, cur, L, W, st', hcur, hA, ⟨w, hv⟩, hW, ho => by
      simp only [List.range'_zero, List.map_nil, origFrom_nil, Option.some.injEq] at ho
      subst ho
      simp only [doIter]
      rw [writeAt_eq hA.a1, hv]
      simp only [Option.bind_some, newCell, List.isEmpty_nil, if_true, coerce, Option.map_some]
      refine ⟨_, rfl, ⟨hA.a1, hA.a2, hA.out, ?_⟩⟩
      intro y hy
      rw [lookupCell_set_other _ _ _ _ hy]
      exact hA.cells y hy
  | m + 1, j, cur, L, W, st', hcur, hA, ⟨w, hv⟩, hW, ho => by
      rw [List.range'_succ, List.map_cons] at ho
      obtain ⟨val, t, W1, hval, ht, hw, hrest⟩ := origFrom_cons ho
      -- the loop variable is set
      let L1 : St := { L with store := setCell L.store v (.scalar .int (some (.int cur))) }
      have hL1 : writeAt L v [] (.int cur) = some L1 := by
        rw [writeAt_eq hA.a1, hv]
        simp [newCell, coerce, L1]
      have hv1 : lookupCell L1 v = some (.scalar .int (some (.int cur))) := lookupCell_set_same _ _ _
      have hL1a : L1.alias = [] := hA.a1
      have F : Frame ds a v L1 st0 := by
        refine ⟨hL1a, K.a0, ?_, K.sc0⟩
        intro y hyv hya
        rw [lookupCell_set_other _ _ _ _ hyv, hA.cells y hyv, hW y hya]
      have C : IterCtx ds a v ⟨some lo, some hi, step⟩ L1 st0 lo l s cur j :=
        ⟨F, hv1, hcur, rfl, K.lo_sc, K.lo_val, K.step_sc, K.step_val, K.rank1⟩
      have hrhs : evalE L1 [] rhs' = some val := by rw [covE_eval C rhs rhs' K.cov K.res]; exact hval
      -- the target of the original store
      have F0 := frame_refl F
      have htj : t = [cur] := by
        rw [evalSec_rank1, scE_frame F0 lo [j] [] K.lo_sc, K.lo_val] at ht
        have hs : stepVal st0 [j] step = some s := by
          have h1 := K.step_val
          have h2 := K.step_sc
          cases step with
          | none => exact h1
          | some e =>
            simp only [stepVal] at h1 ⊢
            simp only [scO] at h2
            rw [scE_frame F0 e [j] [] h2]; exact h1
        rw [hs] at ht
        simp [asInt] at ht
        rw [← ht, hcur]
      subst htj
      -- the store of the loop body
      have hA1 : Agr v L1 W := by
        refine ⟨hL1a, hA.a2, hA.out, ?_⟩
        intro y hy
        rw [lookupCell_set_other _ _ _ _ hy]; exact hA.cells y hy
      obtain ⟨L2, hL2, hA2, hW1, hL2o⟩ := writeAt_agree hA1 K.hav hw
      have hbody : assignStmt L1 (.idx a [.var v]) rhs' = some L2 := by
        simp only [assignStmt, evalIdx]
        rw [evalE_loopvar hL1a hv1, hrhs]
        simp [asInt, hL2]
      have hv2 : ∃ w, lookupCell L2 v = some (.scalar .int w) :=
        ⟨some (.int cur), by rw [hL2o v (fun h => K.hav h.symm)]; exact hv1⟩
      have hW1' : ∀ y, y ≠ a → lookupCell W1 y = lookupCell st0 y := by
        intro y hy; rw [hW1 y hy]; exact hW y hy
      have hcur' : cur + s = l + ((j + 1 : Nat) : Int) * s := by
        rw [hcur, Int.natCast_add, Int.add_mul]; simp; omega
      obtain ⟨st'', hrun, hfin⟩ := loop_inv p K m (j + 1) (cur + s) L2 W1 st' hcur' hA2 hv2 hW1' hrest
      refine ⟨st'', ?_, hfin⟩
      have e1 : m + 1 + 2 + 1 = (m + 2 + 1) + 1 := by omega
      rw [e1]
      simp only [doIter, hL1]
      have e2 : m + 2 + 1 = (m + 1 + 1) + 1 := by omega
      have hexec : execStmts p (m + 2 + 1) [.assign (.idx a [.var v]) rhs'] L1 = .ok L2 .normal := by
        rw [e2]
        simp only [execStmts]
        have e3 : m + 1 + 1 = (m + 1) + 1 := rfl
        simp only [execStmt, hbody]
      rw [hexec]
      exact hrun

end LokiModel.C30
