import LokiModel.Generated.C30Tables
/-!
# C30 — `visit_Assignment` early exit: an assignment whose right-hand side calls an array reduction (or `present`)
is left alone.  The names come from the regenerated table (`forbidden_ops` of vector_notation.py + fparser's
`Intrinsic_Name.array_reduction_names`); Fortran names are case-insensitive, so the call names are folded to lower case
(the real code folds the call names, resp. compares through Loki's case-insensitive symbol equality).
-/
namespace LokiModel.C30

/-- `true` = the statement is kept as it is -/
def keptByReduction (callNames : List String) : Bool :=
  callNames.any fun c => LokiModel.Generated.C30.reductionNames.contains c.toLower

end LokiModel.C30
