import LokiModel.C30.Model
import LokiModel.Fir.Sem
/-!
# C30 — the loop generated for a rank-1 section assignment computes what the array assignment computes

Helper lemmas for `Props/C30.lean: resolve_sound_partial`: store lemmas, frame lemma for scalar expressions,
the evaluation lemma for resolved right-hand sides, the loop invariant.
-/
namespace LokiModel.C30
open LokiModel.Fir
open LokiModel.Expr (Val)

/-! ### `beqEx` decides syntactic equality -/

mutual
theorem beqEx_eq : ∀ a b : Ex, beqEx a b = true → a = b
  | .lit a, .lit b, h => by simp [beqEx] at h; rw [h]
  | .var x, .var y, h => by simp [beqEx] at h; rw [h]
  | .idx x s, .idx y t, h => by
      simp [beqEx] at h; rw [h.1, beqExs_eq s t h.2]
  | .sec x d, .sec y e, h => by
      simp [beqEx] at h; rw [h.1, beqDims_eq d e h.2]
  | .neg a, .neg b, h => by simp [beqEx] at h; rw [beqEx_eq a b h]
  | .not a, .not b, h => by simp [beqEx] at h; rw [beqEx_eq a b h]
  | .bin o a b, .bin p c d, h => by
      simp [beqEx] at h; rw [h.1.1, beqEx_eq a c h.1.2, beqEx_eq b d h.2]
  | .call f s, .call g t, h => by
      simp [beqEx] at h; rw [h.1, beqExs_eq s t h.2]
  | .lit _, .var _, h | .lit _, .idx _ _, h | .lit _, .sec _ _, h | .lit _, .neg _, h | .lit _, .not _, h
  | .lit _, .bin _ _ _, h | .lit _, .call _ _, h => by simp [beqEx] at h
  | .var _, .lit _, h | .var _, .idx _ _, h | .var _, .sec _ _, h | .var _, .neg _, h | .var _, .not _, h
  | .var _, .bin _ _ _, h | .var _, .call _ _, h => by simp [beqEx] at h
  | .idx _ _, .lit _, h | .idx _ _, .var _, h | .idx _ _, .sec _ _, h | .idx _ _, .neg _, h | .idx _ _, .not _, h
  | .idx _ _, .bin _ _ _, h | .idx _ _, .call _ _, h => by simp [beqEx] at h
  | .sec _ _, .lit _, h | .sec _ _, .var _, h | .sec _ _, .idx _ _, h | .sec _ _, .neg _, h | .sec _ _, .not _, h
  | .sec _ _, .bin _ _ _, h | .sec _ _, .call _ _, h => by simp [beqEx] at h
  | .neg _, .lit _, h | .neg _, .var _, h | .neg _, .idx _ _, h | .neg _, .sec _ _, h | .neg _, .not _, h
  | .neg _, .bin _ _ _, h | .neg _, .call _ _, h => by simp [beqEx] at h
  | .not _, .lit _, h | .not _, .var _, h | .not _, .idx _ _, h | .not _, .sec _ _, h | .not _, .neg _, h
  | .not _, .bin _ _ _, h | .not _, .call _ _, h => by simp [beqEx] at h
  | .bin _ _ _, .lit _, h | .bin _ _ _, .var _, h | .bin _ _ _, .idx _ _, h | .bin _ _ _, .sec _ _, h
  | .bin _ _ _, .neg _, h | .bin _ _ _, .not _, h | .bin _ _ _, .call _ _, h => by simp [beqEx] at h
  | .call _ _, .lit _, h | .call _ _, .var _, h | .call _ _, .idx _ _, h | .call _ _, .sec _ _, h
  | .call _ _, .neg _, h | .call _ _, .not _, h | .call _ _, .bin _ _ _, h => by simp [beqEx] at h
theorem beqExs_eq : ∀ a b : List Ex, beqExs a b = true → a = b
  | [], [], _ => rfl
  | a :: s, b :: t, h => by simp [beqExs] at h; rw [beqEx_eq a b h.1, beqExs_eq s t h.2]
  | [], _ :: _, h | _ :: _, [], h => by simp [beqExs] at h
theorem beqDims_eq : ∀ a b : List Dim, beqDims a b = true → a = b
  | [], [], _ => rfl
  | .at a :: s, .at b :: t, h => by simp [beqDims] at h; rw [beqEx_eq a b h.1, beqDims_eq s t h.2]
  | .rng a b c :: s, .rng d e f :: t, h => by
      simp [beqDims] at h
      rw [beqO_eq a d h.1.1.1, beqO_eq b e h.1.1.2, beqO_eq c f h.1.2, beqDims_eq s t h.2]
  | [], _ :: _, h | _ :: _, [], h | .at _ :: _, .rng _ _ _ :: _, h | .rng _ _ _ :: _, .at _ :: _, h => by
      simp [beqDims] at h
theorem beqO_eq : ∀ a b : Option Ex, beqO a b = true → a = b
  | none, none, _ => rfl
  | some a, some b, h => by simp [beqO] at h; rw [beqEx_eq a b h]
  | none, some _, h | some _, none, h => by simp [beqO] at h
end

/-! ### the covered class -/

mutual
/-- scalar expression: no sections, no whole arrays, does not mention the assigned array `a` or the loop variable `v` -/
def scE (ds : List Decl) (a v : String) : Ex → Bool
  | .lit _ => true
  | .var x => !isArray ds x && x != v && x != a
  | .idx x subs => x != a && x != v && scEs ds a v subs
  | .sec _ _ => false
  | .neg e => scE ds a v e
  | .not e => scE ds a v e
  | .bin _ e1 e2 => scE ds a v e1 && scE ds a v e2
  | .call _ args => scEs ds a v args
def scEs (ds : List Decl) (a v : String) : List Ex → Bool
  | [] => true
  | e :: es => scE ds a v e && scEs ds a v es
end

def scO (ds : List Decl) (a v : String) : Option Ex → Bool
  | none => true
  | some e => scE ds a v e

def isIntLit : Ex → Bool
  | .lit (.int _) => true
  | _ => false

mutual
/-- **the overlap / stride condition, decidable**: the right-hand side reads only scalars, elements of OTHER arrays and
rank-1 sections `x(l':u':s')` of OTHER arrays whose stride is syntactically the stride of the left-hand side and whose
lower bound is syntactically the left-hand lower bound or an integer literal -/
def covE (ds : List Decl) (a v : String) (L : Rng) : Ex → Bool
  | .lit _ => true
  | .var x => !isArray ds x && x != v && x != a
  | .idx x subs => x != a && x != v && scEs ds a v subs
  | .sec x [.rng (some l') _ st'] =>
      x != a && x != v && (declDims ds x).length == 1 && beqO L.step st' && (beqO L.lo (some l') || isIntLit l')
  | .sec _ _ => false
  | .neg e => covE ds a v L e
  | .not e => covE ds a v L e
  | .bin _ e1 e2 => covE ds a v L e1 && covE ds a v L e2
  | .call _ args => covEs ds a v L args
def covEs (ds : List Decl) (a v : String) (L : Rng) : List Ex → Bool
  | [] => true
  | e :: es => covE ds a v L e && covEs ds a v L es
end

/-! ### stores -/

theorem lookupAlias_nil {st : St} (h : st.alias = []) (x : String) : lookupAlias st x = none := by
  simp [lookupAlias, h]

theorem find_setCell_same (store : List (String × Cell)) (x : String) (c : Cell) :
    ((setCell store x c).find? (·.1 == x)) = some (x, c) := by
  induction store with
  | nil => simp [setCell]
  | cons p rest ih =>
    obtain ⟨y, d⟩ := p
    by_cases h : (y == x) = true
    · simp [setCell, h]
    · simp only [setCell, h]
      simp only [Bool.false_eq_true, if_false]
      rw [List.find?_cons]
      simp only [h]
      exact ih

theorem find_setCell_other (store : List (String × Cell)) (x y : String) (c : Cell) (hne : y ≠ x) :
    ((setCell store x c).find? (·.1 == y)) = store.find? (·.1 == y) := by
  induction store with
  | nil =>
    have : (x == y) = false := by simpa using fun h => hne h.symm
    simp [setCell, this]
  | cons p rest ih =>
    obtain ⟨z, d⟩ := p
    by_cases h : (z == x) = true
    · have hz : z = x := by simpa using h
      have h1 : (x == y) = false := by simpa using fun h => hne h.symm
      simp [setCell, h, hz, h1]
    · simp only [setCell, h]
      simp only [Bool.false_eq_true, if_false]
      rw [List.find?_cons, List.find?_cons, ih]

theorem lookupCell_set_same (st : St) (x : String) (c : Cell) :
    lookupCell { st with store := setCell st.store x c } x = some c := by
  simp [lookupCell, find_setCell_same]

theorem lookupCell_set_other (st : St) (x y : String) (c : Cell) (hne : y ≠ x) :
    lookupCell { st with store := setCell st.store x c } y = lookupCell st y := by
  simp [lookupCell, find_setCell_other _ _ _ _ hne]

theorem boundsOf_nil {st : St} (h : st.alias = []) (x : String) :
    boundsOf st x = match lookupCell st x with | some (.array _ bs _) => some bs | _ => none := by
  simp only [boundsOf, lookupAlias_nil h]
  cases lookupCell st x with
  | none => rfl
  | some c => cases c <;> rfl

theorem readAt_nil {st : St} (h : st.alias = []) (x : String) (is : List Int) :
    readAt st x is = match lookupCell st x with
      | some (.scalar _ v) => if is.isEmpty then v else none
      | some (.array _ bs data) => (offset bs is).bind fun o => (data[o]?).bind id
      | none => none := by
  simp only [readAt, resolve, lookupAlias_nil h]
  cases hc : lookupCell st x with
  | none => simp [hc]
  | some c =>
    cases c with
    | scalar ty v => simp [hc]
    | array ty bs data =>
      cases ho : offset bs is with
      | none => simp [hc, ho]
      | some o => cases hd : data[o]? <;> simp [hc, ho, hd]

theorem readAt_congr {st1 st0 : St} (h1 : st1.alias = []) (h0 : st0.alias = []) {x : String}
    (hc : lookupCell st1 x = lookupCell st0 x) (is : List Int) : readAt st1 x is = readAt st0 x is := by
  rw [readAt_nil h1, readAt_nil h0, hc]

theorem boundsOf_congr {st1 st0 : St} (h1 : st1.alias = []) (h0 : st0.alias = []) {x : String}
    (hc : lookupCell st1 x = lookupCell st0 x) : boundsOf st1 x = boundsOf st0 x := by
  rw [boundsOf_nil h1, boundsOf_nil h0, hc]

/-- `st1` and `st0` agree on every cell except those of `v` and `a`; scalars of `ds` are scalar cells -/
structure Frame (ds : List Decl) (a v : String) (st1 st0 : St) : Prop where
  a1 : st1.alias = []
  a0 : st0.alias = []
  cells : ∀ y, y ≠ v → y ≠ a → lookupCell st1 y = lookupCell st0 y
  sc0 : ∀ x c, isArray ds x = false → lookupCell st0 x = some c → ∃ ty val, c = .scalar ty val

theorem evalE_var_scalar {st : St} (h : st.alias = []) {x : String}
    (hs : ∀ c, lookupCell st x = some c → ∃ ty val, c = .scalar ty val) (pos : List Nat) :
    evalE st pos (.var x) = readAt st x [] := by
  have hb : boundsOf st x = none := by
    rw [boundsOf_nil h]
    cases hc : lookupCell st x with
    | none => rfl
    | some c =>
      obtain ⟨ty, val, rfl⟩ := hs c hc
      rfl
  simp [evalE, hb]

mutual
theorem scE_frame {ds : List Decl} {a v : String} {st1 st0 : St} (F : Frame ds a v st1 st0) :
    ∀ (e : Ex) (pos pos' : List Nat), scE ds a v e = true → evalE st1 pos e = evalE st0 pos' e
  | .lit _, _, _, _ => by simp [evalE]
  | .var x, pos, pos', h => by
      simp [scE] at h
      have hx : lookupCell st1 x = lookupCell st0 x := F.cells x h.1.2 h.2
      rw [evalE_var_scalar F.a1 (fun c hc => F.sc0 x c h.1.1 (hx ▸ hc)) pos,
        evalE_var_scalar F.a0 (fun c hc => F.sc0 x c h.1.1 hc) pos']
      exact readAt_congr F.a1 F.a0 hx []
  | .idx x subs, pos, pos', h => by
      simp [scE] at h
      simp only [evalE]
      rw [scEs_frame_idx F subs pos pos' h.2]
      cases evalIdx st0 pos' subs with
      | none => rfl
      | some is => exact readAt_congr F.a1 F.a0 (F.cells x h.1.2 h.1.1) is
  | .sec _ _, _, _, h => by simp [scE] at h
  | .neg e, pos, pos', h => by
      simp [scE] at h
      simp only [evalE]; rw [scE_frame F e pos pos' h]
  | .not e, pos, pos', h => by
      simp [scE] at h
      simp only [evalE]; rw [scE_frame F e pos pos' h]
  | .bin _ e1 e2, pos, pos', h => by
      simp [scE] at h
      simp only [evalE]; rw [scE_frame F e1 pos pos' h.1, scE_frame F e2 pos pos' h.2]
  | .call _ args, pos, pos', h => by
      simp [scE] at h
      simp only [evalE]; rw [scEs_frame_args F args pos pos' h]
theorem scEs_frame_idx {ds : List Decl} {a v : String} {st1 st0 : St} (F : Frame ds a v st1 st0) :
    ∀ (es : List Ex) (pos pos' : List Nat), scEs ds a v es = true → evalIdx st1 pos es = evalIdx st0 pos' es
  | [], _, _, _ => by simp [evalIdx]
  | e :: es, pos, pos', h => by
      simp [scEs] at h
      simp only [evalIdx]; rw [scE_frame F e pos pos' h.1, scEs_frame_idx F es pos pos' h.2]
theorem scEs_frame_args {ds : List Decl} {a v : String} {st1 st0 : St} (F : Frame ds a v st1 st0) :
    ∀ (es : List Ex) (pos pos' : List Nat), scEs ds a v es = true → evalArgs st1 pos es = evalArgs st0 pos' es
  | [], _, _, _ => by simp [evalArgs]
  | e :: es, pos, pos', h => by
      simp [scEs] at h
      simp only [evalArgs]; rw [scE_frame F e pos pos' h.1, scEs_frame_args F es pos pos' h.2]
end

/-! ### resolved right-hand sides -/

mutual
theorem resolveRhs_sc (ds : List Decl) (a v : String) (vars : List String) (lr : List Rng) :
    ∀ e : Ex, scE ds a v e = true → resolveRhs ds vars lr e = some e
  | .lit _, _ => by simp [resolveRhs]
  | .var x, h => by
      simp [scE] at h
      simp [resolveRhs, qualRef, h.1.1]
  | .idx _ _, _ => by simp [resolveRhs]
  | .sec _ _, h => by simp [scE] at h
  | .neg e, h => by
      simp [scE] at h
      simp [resolveRhs, resolveRhs_sc ds a v vars lr e h]
  | .not e, h => by
      simp [scE] at h
      simp [resolveRhs, resolveRhs_sc ds a v vars lr e h]
  | .bin _ e1 e2, h => by
      simp [scE] at h
      simp [resolveRhs, resolveRhs_sc ds a v vars lr e1 h.1, resolveRhs_sc ds a v vars lr e2 h.2]
  | .call _ args, h => by
      simp [scE] at h
      simp [resolveRhs, resolveRhsL_sc ds a v vars lr args h]
theorem resolveRhsL_sc (ds : List Decl) (a v : String) (vars : List String) (lr : List Rng) :
    ∀ es : List Ex, scEs ds a v es = true → resolveRhsL ds vars lr es = some es
  | [], _ => by simp [resolveRhsL]
  | e :: es, h => by
      simp [scEs] at h
      simp [resolveRhsL, resolveRhs_sc ds a v vars lr e h.1, resolveRhsL_sc ds a v vars lr es h.2]
end

/-- value of an optional stride (absent = 1) -/
def stepVal (st : St) (pos : List Nat) : Option Ex → Option Int
  | some e => (evalE st pos e).bind asInt
  | none => some 1

theorem evalE_idx1 (st : St) (pos : List Nat) (x : String) (ix : Ex) :
    evalE st pos (.idx x [ix]) = ((evalE st pos ix).bind asInt).bind fun i => readAt st x [i] := by
  simp only [evalE, evalIdx]
  cases evalE st pos ix with
  | none => rfl
  | some w => cases h : asInt w <;> simp [h]

theorem evalSec_rank1 (st : St) (pos : List Nat) (b : Int × Int) (l' : Ex) (h' st' : Option Ex) (k : Nat) :
    evalSec st pos [b] [.rng (some l') h' st'] [k] =
      ((evalE st pos l').bind asInt).bind fun l =>
        (stepVal st pos st').bind fun s =>
          some [l + (k : Int) * s] := by
  rw [evalSec, evalSec]
  simp only [stepVal]
  cases h1 : evalE st pos l' with
  | none => simp
  | some w =>
    cases h2 : asInt w with
    | none => simp [h2]
    | some l =>
      cases st' with
      | none => simp [h2]
      | some e =>
        cases h3 : evalE st pos e with
        | none => simp [h2]
        | some w2 => cases h4 : asInt w2 <;> simp [h2, h4]

theorem evalE_bin (st : St) (pos : List Nat) (o : BinOp) (a b : Ex) :
    evalE st pos (.bin o a b) = (evalE st pos a).bind fun va => (evalE st pos b).bind fun vb => applyBin o va vb := by
  simp only [evalE]
  rfl

theorem evalE_lit (st : St) (pos : List Nat) (w : Val) : evalE st pos (.lit w) = some w := by
  simp [evalE]

theorem resolveRhs_sec1 {ds : List Decl} {x : String} {dlo dhi : Ex} (hdd : declDims ds x = [(dlo, dhi)])
    (v : String) (L : Rng) (l' : Ex) (h' st' : Option Ex) :
    resolveRhs ds [v] [L] (.sec x [.rng (some l') h' st']) =
      (rhsIndex v L ⟨some l', h', st'⟩).map fun ix => .idx x [ix] := by
  simp only [resolveRhs, hdd, qualDims, isColon]
  cases hri : rhsIndex v L ⟨some l', h', st'⟩ <;> simp [rangesOf, zipIdx, replaceRanges, mkRef, atsOf, hri]

/-- what is known in iteration `j` (loop variable value `c = l + j*s`) -/
structure IterCtx (ds : List Decl) (a v : String) (L : Rng) (st1 st0 : St) (lo : Ex) (l s c : Int) (j : Nat) : Prop where
  frame : Frame ds a v st1 st0
  vcell : lookupCell st1 v = some (.scalar .int (some (.int c)))
  cval : c = l + (j : Int) * s
  lo_eq : L.lo = some lo
  lo_sc : scE ds a v lo = true
  lo_val : evalE st0 [] lo = some (.int l)
  step_sc : scO ds a v L.step = true
  step_val : stepVal st0 [] L.step = some s
  rank1 : ∀ x c, (declDims ds x).length = 1 → lookupCell st0 x = some c → ∃ ty b data, c = .array ty [b] data

theorem frame_refl {ds : List Decl} {a v : String} {st1 st0 : St} (F : Frame ds a v st1 st0) : Frame ds a v st0 st0 :=
  ⟨F.a0, F.a0, fun _ _ _ => rfl, F.sc0⟩

theorem evalE_loopvar {st1 : St} (h1 : st1.alias = []) {v : String} {c : Int}
    (hv : lookupCell st1 v = some (.scalar .int (some (.int c)))) : evalE st1 [] (.var v) = some (.int c) := by
  have hs : ∀ c', lookupCell st1 v = some c' → ∃ ty val, c' = Cell.scalar ty val := by
    intro c' hc; rw [hv] at hc; cases hc; exact ⟨_, _, rfl⟩
  rw [evalE_var_scalar h1 hs [], readAt_nil h1, hv]
  rfl

mutual
theorem covE_eval {ds : List Decl} {a v : String} {L : Rng} {st1 st0 : St} {lo : Ex} {l s c : Int} {j : Nat}
    (C : IterCtx ds a v L st1 st0 lo l s c j) :
    ∀ (e e' : Ex), covE ds a v L e = true → resolveRhs ds [v] [L] e = some e' →
      evalE st1 [] e' = evalE st0 [j] e
  | .lit _, e', _, hr => by
      simp [resolveRhs] at hr; subst hr; simp [evalE]
  | .var x, e', h, hr => by
      have hsc : scE ds a v (.var x) = true := by simpa [covE, scE] using h
      rw [resolveRhs_sc ds a v _ _ _ hsc] at hr
      cases hr
      exact scE_frame C.frame _ _ _ hsc
  | .idx x subs, e', h, hr => by
      have hsc : scE ds a v (.idx x subs) = true := by simpa [covE, scE] using h
      rw [resolveRhs_sc ds a v _ _ _ hsc] at hr
      cases hr
      exact scE_frame C.frame _ _ _ hsc
  | .sec x [], _, h, _ => by simp [covE] at h
  | .sec x (.at _ :: _), _, h, _ => by simp [covE] at h
  | .sec x (.rng none _ _ :: _), _, h, _ => by simp [covE] at h
  | .sec x (.rng (some _) _ _ :: _ :: _), _, h, _ => by simp [covE] at h
  | .sec x [.rng (some l') h' st'], e', h, hr => by
      simp only [covE, Bool.and_eq_true, bne_iff_ne, ne_eq, beq_iff_eq, Bool.or_eq_true] at h
      obtain ⟨⟨⟨⟨hxa, hxv⟩, hrank⟩, hstep⟩, hlo⟩ := h
      have hst : L.step = st' := beqO_eq _ _ hstep
      -- the declared dimension list has exactly one entry
      obtain ⟨dlo, dhi, hdd⟩ : ∃ dlo dhi, declDims ds x = [(dlo, dhi)] := by
        cases hd : declDims ds x with
        | nil => simp [hd] at hrank
        | cons p rest =>
          cases rest with
          | nil => exact ⟨p.1, p.2, rfl⟩
          | cons q r => simp [hd] at hrank
      have hcx : lookupCell st1 x = lookupCell st0 x := C.frame.cells x hxv hxa
      -- the index expression
      have F0 := frame_refl C.frame
      have hstepj : stepVal st0 [j] st' = some s := by
        have h1 := C.step_val
        have h2 := C.step_sc
        rw [hst] at h1 h2
        cases st' with
        | none => exact h1
        | some e =>
          simp only [stepVal] at h1 ⊢
          simp only [scO] at h2
          rw [scE_frame F0 e [j] [] h2]; exact h1
      -- evaluate the original section
      have horig : evalE st0 [j] (.sec x [.rng (some l') h' st']) =
          (match lookupCell st0 x with
            | some (.array _ [b] data) =>
                ((evalE st0 [j] l').bind asInt).bind fun lv => readAt st0 x [lv + (j : Int) * s]
            | _ => none) := by
        simp only [evalE]
        rw [boundsOf_nil C.frame.a0]
        cases hc : lookupCell st0 x with
        | none => rfl
        | some cell =>
          obtain ⟨ty, b, data, rfl⟩ := C.rank1 x cell (by rw [hdd]; rfl) hc
          simp only [Option.bind_eq_bind, Option.bind_some]
          rw [evalSec_rank1, hstepj]
          cases (evalE st0 [j] l').bind asInt <;> simp
      rw [horig]
      rw [resolveRhs_sec1 hdd] at hr
      simp only [rhsIndex] at hr
      rcases hlo with hal | hlit
      · -- aligned: the same lower bound expression
        have hl' : L.lo = some l' := beqO_eq _ _ hal
        have hll : lo = l' := by rw [C.lo_eq] at hl'; exact Option.some.inj hl'
        subst hll
        simp only [hal, if_true] at hr
        simp [mkRef, atsOf] at hr
        subst hr
        rw [evalE_idx1, evalE_loopvar C.frame.a1 C.vcell, scE_frame F0 lo [j] [] C.lo_sc, C.lo_val]
        simp only [Option.bind_eq_bind, Option.bind, asInt]
        cases hc : lookupCell st0 x with
        | none => simp [readAt_nil C.frame.a1, hcx, hc]
        | some cell =>
          obtain ⟨ty, b, data, rfl⟩ := C.rank1 x cell (by rw [hdd]; rfl) hc
          simp only
          rw [readAt_congr C.frame.a1 C.frame.a0 hcx, C.cval]
      · -- integer literal lower bound
        cases l' with
        | lit lv =>
          cases lv with
          | int c' =>
            rw [C.lo_eq] at hr
            by_cases hal : beqO (some lo) (some (Ex.lit (Val.int c'))) = true
            · have hll : lo = Ex.lit (Val.int c') := Option.some.inj (beqO_eq _ _ hal)
              simp only [hal, if_true] at hr
              simp [mkRef, atsOf] at hr
              subst hr
              have hlv := C.lo_val
              rw [hll] at hlv
              simp [evalE] at hlv
              rw [evalE_idx1, evalE_loopvar C.frame.a1 C.vcell]
              simp only [evalE, Option.bind_eq_bind, Option.bind, asInt]
              cases hc : lookupCell st0 x with
              | none => simp [readAt_nil C.frame.a1, hcx, hc]
              | some cell =>
                obtain ⟨ty, b, data, rfl⟩ := C.rank1 x cell (by rw [hdd]; rfl) hc
                simp only
                rw [readAt_congr C.frame.a1 C.frame.a0 hcx, C.cval, hlv]
            · simp only [hal] at hr
              simp [mkRef, atsOf] at hr
              subst hr
              rw [evalE_idx1]
              have hix : evalE st1 [] (Ex.bin BinOp.add (Ex.bin BinOp.sub (Ex.var v) lo) (Ex.lit (Val.int c'))) =
                  some (Val.int (c - l + c')) := by
                rw [evalE_bin, evalE_bin, evalE_lit, evalE_loopvar C.frame.a1 C.vcell,
                  scE_frame C.frame lo [] [] C.lo_sc, C.lo_val]
                rfl
              rw [hix]
              simp only [evalE, Option.bind_eq_bind, Option.bind, asInt]
              cases hc : lookupCell st0 x with
              | none => simp [readAt_nil C.frame.a1, hcx, hc]
              | some cell =>
                obtain ⟨ty, b, data, rfl⟩ := C.rank1 x cell (by rw [hdd]; rfl) hc
                simp only
                rw [readAt_congr C.frame.a1 C.frame.a0 hcx]
                have : c - l + c' = c' + (j : Int) * s := by rw [C.cval]; omega
                rw [this]
          | real _ => simp [isIntLit] at hlit
          | bool _ => simp [isIntLit] at hlit
        | var _ => simp [isIntLit] at hlit
        | idx _ _ => simp [isIntLit] at hlit
        | sec _ _ => simp [isIntLit] at hlit
        | neg _ => simp [isIntLit] at hlit
        | not _ => simp [isIntLit] at hlit
        | bin _ _ _ => simp [isIntLit] at hlit
        | call _ _ => simp [isIntLit] at hlit
  | .neg e, e', h, hr => by
      simp only [covE] at h
      simp only [resolveRhs] at hr
      cases hre : resolveRhs ds [v] [L] e with
      | none => simp [hre] at hr
      | some e1 =>
        simp [hre] at hr; subst hr
        simp only [evalE]; rw [covE_eval C e e1 h hre]
  | .not e, e', h, hr => by
      simp only [covE] at h
      simp only [resolveRhs] at hr
      cases hre : resolveRhs ds [v] [L] e with
      | none => simp [hre] at hr
      | some e1 =>
        simp [hre] at hr; subst hr
        simp only [evalE]; rw [covE_eval C e e1 h hre]
  | .bin o e1 e2, e', h, hr => by
      simp only [covE, Bool.and_eq_true] at h
      simp only [resolveRhs] at hr
      cases hr1 : resolveRhs ds [v] [L] e1 with
      | none => simp [hr1] at hr
      | some a1 =>
        cases hr2 : resolveRhs ds [v] [L] e2 with
        | none => simp [hr1, hr2] at hr
        | some a2 =>
          simp [hr1, hr2] at hr; subst hr
          simp only [evalE]; rw [covE_eval C e1 a1 h.1 hr1, covE_eval C e2 a2 h.2 hr2]
  | .call g args, e', h, hr => by
      simp only [covE] at h
      simp only [resolveRhs] at hr
      cases hre : resolveRhsL ds [v] [L] args with
      | none => simp [hre] at hr
      | some as =>
        simp [hre] at hr; subst hr
        simp only [evalE]; rw [covEs_eval C args as h hre]
theorem covEs_eval {ds : List Decl} {a v : String} {L : Rng} {st1 st0 : St} {lo : Ex} {l s c : Int} {j : Nat}
    (C : IterCtx ds a v L st1 st0 lo l s c j) :
    ∀ (es es' : List Ex), covEs ds a v L es = true → resolveRhsL ds [v] [L] es = some es' →
      evalArgs st1 [] es' = evalArgs st0 [j] es
  | [], es', _, hr => by simp [resolveRhsL] at hr; subst hr; simp [evalArgs]
  | e :: es, es', h, hr => by
      simp only [covEs, Bool.and_eq_true] at h
      simp only [resolveRhsL] at hr
      cases hr1 : resolveRhs ds [v] [L] e with
      | none => simp [hr1] at hr
      | some a1 =>
        cases hr2 : resolveRhsL ds [v] [L] es with
        | none => simp [hr1, hr2] at hr
        | some a2 =>
          simp [hr1, hr2] at hr; subst hr
          simp only [evalArgs]; rw [covE_eval C e a1 h.1 hr1, covEs_eval C es a2 h.2 hr2]
end

end LokiModel.C30
