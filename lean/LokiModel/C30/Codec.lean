import LokiModel.Fir.Codec
import LokiModel.C30.Model
/-!
# C30 — encoder of FIR programs into the wire format (inverse of `Fir.Codec.decProgram`) — driver infrastructure
-/
namespace LokiModel.C30
open LokiModel.Fir Sexp
open LokiModel.Expr (Val CmpOp)

def encOp : BinOp → Sexp
  | .add => atom "add" | .sub => atom "sub" | .mul => atom "mul" | .div => atom "div" | .pow => atom "pow"
  | .and => atom "and" | .or => atom "or"
  | .cmp .eq => atom "eq" | .cmp .ne => atom "ne" | .cmp .lt => atom "lt" | .cmp .le => atom "le"
  | .cmp .gt => atom "gt" | .cmp .ge => atom "ge"

mutual
def encEx : Ex → Sexp
  | .lit v => encVal v
  | .var x => list [atom "v", atom x]
  | .idx x subs => list (atom "idx" :: atom x :: encExs subs)
  | .sec x dims => list (atom "sec" :: atom x :: encDims dims)
  | .neg a => list [atom "neg", encEx a]
  | .not a => list [atom "not", encEx a]
  | .bin o a b => list [atom "bin", encOp o, encEx a, encEx b]
  | .call f args => list (atom "call" :: atom f :: encExs args)
def encExs : List Ex → List Sexp
  | [] => []
  | e :: es => encEx e :: encExs es
def encDims : List Dim → List Sexp
  | [] => []
  | .at e :: ds => list [atom "at", encEx e] :: encDims ds
  | .rng a b c :: ds => list [atom "rng", encO a, encO b, encO c] :: encDims ds
def encO : Option Ex → Sexp
  | none => atom "none"
  | some e => encEx e
end

def encTy : Ty → Sexp
  | .int => atom "int" | .real => atom "real" | .logical => atom "logical"

def encIntent : Intent → Sexp
  | .in_ => atom "in" | .out => atom "out" | .inout => atom "inout" | .none => atom "none"

def encDecl (d : Decl) : Sexp :=
  list [atom "decl", atom d.name, encTy d.ty, encIntent d.intent,
        list (d.dims.map fun (lo, hi) => list [encEx lo, encEx hi]), encO d.param]

mutual
def encStmt : Stmt → Sexp
  | .assign l r => list [atom "assign", encEx l, encEx r]
  | .doLoop v lo hi st body => list [atom "do", atom v, encEx lo, encEx hi, encO st, list (encStmts body)]
  | .while c body => list [atom "while", encEx c, list (encStmts body)]
  | .ifte c t e => list [atom "if", encEx c, list (encStmts t), list (encStmts e)]
  | .select e cs d => list [atom "select", encEx e, list (encCases cs), list (encStmts d)]
  | .assoc bs body => list [atom "assoc", list (encBinds bs), list (encStmts body)]
  | .callSub f args => list (atom "callsub" :: atom f :: encExs args)
  | .print args => list (atom "print" :: encExs args)
  | .exit => list [atom "exit"]
  | .cycle => list [atom "cycle"]
  | .nop k t => list [atom "nop", atom k, str t]
def encStmts : List Stmt → List Sexp
  | [] => []
  | s :: ss => encStmt s :: encStmts ss
def encCases : List (List Int × List Stmt) → List Sexp
  | [] => []
  | (vs, b) :: cs => list [list (vs.map ofInt), list (encStmts b)] :: encCases cs
def encBinds : List (String × Ex) → List Sexp
  | [] => []
  | (n, e) :: bs => list [atom n, encEx e] :: encBinds bs
end

def encUnit (u : Fir.Unit) : Sexp :=
  list [atom "unit", atom u.name, list (u.args.map atom), list (u.decls.map encDecl), list (encStmts u.body)]

def encProgram (p : Program) : Sexp := list (atom "program" :: atom p.main :: p.units.map encUnit)

def decOp' : Sexp → Option Op
  | atom "resolve" => some .resolve | atom "normshape" => some .normshape | atom "addexp" => some .addexp
  | atom "remexp" => some .remexp | atom "pipef" => some .pipef | atom "pipec" => some .pipec
  | atom "invert" => some .invert | atom "shift0" => some .shift0 | _ => none

end LokiModel.C30
