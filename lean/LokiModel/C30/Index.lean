import LokiModel.Fir.Sem
/-!
# C30 — index arithmetic of `flatten_arrays`, `invert_array_indices`, `shift_to_zero_indexing`,
`normalize_array_shape_and_access` (value level, every rank, by induction on the dimension list)
-/
namespace LokiModel.C30

/-- value of the subscript built by `flatten_arrays.new_dims` (order 'F') for extents `ns`, subscripts `is`,
`start_index = s`:  flat(d1..dk) = d1 + n1*(flat(d2..dk) - s), flat(dk) = dk -/
def flatF (s : Int) : List Nat → List Int → Int
  | _, [] => s
  | _, [i] => i
  | [], i :: _ => i
  | n :: ns, i :: j :: is => i + (n : Int) * (flatF s ns (j :: is) - s)

/-- order 'C': the same recursion on reversed lists -/
def flatC (s : Int) (ns : List Nat) (is : List Int) : Int := flatF s ns.reverse is.reverse

/-- the index tuple lies in the box with extents `ns` based at `s` -/
def InBox (s : Int) : List Nat → List Int → Prop
  | [], [] => True
  | n :: ns, i :: is => s ≤ i ∧ i < s + (n : Int) ∧ InBox s ns is
  | _, _ => False

/-- number of elements of the box -/
def prodZ : List Nat → Int
  | [] => 1
  | n :: ns => (n : Int) * prodZ ns

/-- the index tuple lies inside declared bounds `(lo, hi)` per dimension -/
def InBounds : List (Int × Int) → List Int → Prop
  | [], [] => True
  | (lo, hi) :: bs, i :: is => lo ≤ i ∧ i ≤ hi ∧ InBounds bs is
  | _, _ => False

/-- `normalize_array_shape_and_access` on values: i ↦ i - lo + 1 -/
def normIdx : List (Int × Int) → List Int → List Int
  | b :: bs, i :: is => (i - b.1 + 1) :: normIdx bs is
  | _, _ => []

/-- extents of declared bounds -/
def extents (bs : List (Int × Int)) : List Nat := bs.map fun b => (b.2 - b.1 + 1).toNat

theorem flatF_cons2 (s : Int) (n : Nat) (ns : List Nat) (i j : Int) (is : List Int) :
    flatF s (n :: ns) (i :: j :: is) = i + (n : Int) * (flatF s ns (j :: is) - s) := by
  simp [flatF]

theorem flatF_single (s : Int) (ns : List Nat) (i : Int) : flatF s ns [i] = i := by
  cases ns <;> simp [flatF]

theorem prodZ_nonneg : ∀ ns, 0 ≤ prodZ ns
  | [] => by simp [prodZ]
  | n :: ns => by
      simp only [prodZ]
      exact Int.mul_nonneg (Int.natCast_nonneg n) (prodZ_nonneg ns)

/-! ### flattening is a bijection of the box onto `[s, s + size)` -/

theorem flatF_range (s : Int) : ∀ (ns : List Nat) (is : List Int), InBox s ns is → ns ≠ [] →
    s ≤ flatF s ns is ∧ flatF s ns is < s + prodZ ns
  | [], _, _, h => absurd rfl h
  | n :: ns, [], hb, _ => by simp [InBox] at hb
  | [n], [i], hb, _ => by
      simp only [InBox] at hb
      simp only [flatF, prodZ]
      omega
  | [_], _ :: _ :: _, hb, _ => by simp [InBox] at hb
  | _ :: _ :: _, [_], hb, _ => by simp [InBox] at hb
  | n :: m :: ns, i :: j :: is, hb, _ => by
      have hb' : s ≤ i ∧ i < s + (n : Int) ∧ InBox s (m :: ns) (j :: is) := by simpa [InBox] using hb
      obtain ⟨h1, h2, h3⟩ := hb'
      have ih := flatF_range s (m :: ns) (j :: is) h3 (by simp)
      rw [flatF_cons2]
      have hP : prodZ (n :: m :: ns) = (n : Int) * prodZ (m :: ns) := rfl
      rw [hP]
      generalize flatF s (m :: ns) (j :: is) = F at ih ⊢
      generalize prodZ (m :: ns) = P at ih ⊢
      have hn : (0 : Int) ≤ n := Int.natCast_nonneg n
      have a1 : 0 ≤ (n : Int) * (F - s) := Int.mul_nonneg hn (by omega)
      have a2 : (n : Int) * (F - s) ≤ (n : Int) * (P - 1) := Int.mul_le_mul_of_nonneg_left (by omega) hn
      have a3 : (n : Int) * (P - 1) = (n : Int) * P - n := by rw [Int.mul_sub, Int.mul_one]
      omega

theorem divmod_unique (n a b r1 r2 : Int) (ha : 0 ≤ a) (ha' : a < n) (hb : 0 ≤ b) (hb' : b < n)
    (h : a + n * r1 = b + n * r2) : a = b ∧ r1 = r2 := by
  have hn : 0 ≤ n := by omega
  have key : r1 = r2 := by
    rcases Int.lt_trichotomy r1 r2 with hlt | heq | hgt
    · exfalso
      have : n * 1 ≤ n * (r2 - r1) := Int.mul_le_mul_of_nonneg_left (by omega) hn
      rw [Int.mul_sub, Int.mul_one] at this
      omega
    · exact heq
    · exfalso
      have : n * 1 ≤ n * (r1 - r2) := Int.mul_le_mul_of_nonneg_left (by omega) hn
      rw [Int.mul_sub, Int.mul_one] at this
      omega
  subst key
  exact ⟨by omega, rfl⟩

theorem flatF_injective (s : Int) : ∀ (ns : List Nat) (is js : List Int), InBox s ns is → InBox s ns js →
    flatF s ns is = flatF s ns js → is = js
  | [], [], [], _, _, _ => rfl
  | [], [], _ :: _, _, hb, _ => by simp [InBox] at hb
  | [], _ :: _, _, hb, _, _ => by simp [InBox] at hb
  | _ :: _, [], _, hb, _, _ => by simp [InBox] at hb
  | _ :: _, _ :: _, [], _, hb, _ => by simp [InBox] at hb
  | [n], [i], [j], _, _, h => by simpa [flatF] using h
  | [_], _ :: _ :: _, _, hb, _, _ => by simp [InBox] at hb
  | [_], [_], _ :: _ :: _, _, hb, _ => by simp [InBox] at hb
  | _ :: _ :: _, [_], _, hb, _, _ => by simp [InBox] at hb
  | _ :: _ :: _, _ :: _ :: _, [_], _, hb, _ => by simp [InBox] at hb
  | n :: m :: ns, i :: i2 :: is, j :: j2 :: js, hi, hj, h => by
      have hi' : s ≤ i ∧ i < s + (n : Int) ∧ InBox s (m :: ns) (i2 :: is) := by simpa [InBox] using hi
      have hj' : s ≤ j ∧ j < s + (n : Int) ∧ InBox s (m :: ns) (j2 :: js) := by simpa [InBox] using hj
      rw [flatF_cons2, flatF_cons2] at h
      have := divmod_unique n (i - s) (j - s) (flatF s (m :: ns) (i2 :: is) - s) (flatF s (m :: ns) (j2 :: js) - s)
        (by omega) (by omega) (by omega) (by omega) (by omega)
      have ih := flatF_injective s (m :: ns) (i2 :: is) (j2 :: js) hi'.2.2 hj'.2.2 (by omega)
      have hij : i = j := by omega
      rw [hij, ih]

theorem flatF_surjective (s : Int) : ∀ (ns : List Nat) (k : Int), ns ≠ [] → s ≤ k → k < s + prodZ ns →
    ∃ is, InBox s ns is ∧ flatF s ns is = k
  | [], _, h, _, _ => absurd rfl h
  | [n], k, _, h1, h2 => by
      refine ⟨[k], ?_, by simp [flatF]⟩
      simp only [prodZ] at h2
      simp only [InBox]
      exact ⟨h1, by omega, trivial⟩
  | n :: m :: ns, k, _, h1, h2 => by
      have hP : prodZ (n :: m :: ns) = (n : Int) * prodZ (m :: ns) := rfl
      rw [hP] at h2
      have hPn := prodZ_nonneg (m :: ns)
      have hn0 : (0 : Int) ≤ n := Int.natCast_nonneg n
      have hnpos : (0 : Int) < n := by
        rcases Int.lt_or_le 0 (n : Int) with h | h
        · exact h
        · have : (n : Int) = 0 := by omega
          rw [this, Int.zero_mul] at h2
          omega
      have hq0 : 0 ≤ (k - s) / (n : Int) := Int.ediv_nonneg (by omega) hn0
      have hq1 : (k - s) / (n : Int) < prodZ (m :: ns) :=
        Int.ediv_lt_of_lt_mul hnpos (by rw [Int.mul_comm]; omega)
      have hr0 : 0 ≤ (k - s) % (n : Int) := Int.emod_nonneg _ (by omega)
      have hr1 : (k - s) % (n : Int) < n := Int.emod_lt_of_pos _ hnpos
      obtain ⟨is', hb, hf⟩ := flatF_surjective s (m :: ns) (s + (k - s) / (n : Int)) (by simp) (by omega) (by omega)
      cases is' with
      | nil => simp [InBox] at hb
      | cons j js =>
        refine ⟨(s + (k - s) % (n : Int)) :: j :: js, ?_, ?_⟩
        · simp only [InBox]
          refine ⟨by omega, by omega, ?_⟩
          simpa [InBox] using hb
        · rw [flatF_cons2, hf]
          have := Int.emod_add_mul_ediv (k - s) (n : Int)
          have e : s + (k - s) / (n : Int) - s = (k - s) / (n : Int) := by omega
          rw [e]
          omega

/-- **flatten_bijective** (order 'F', any rank, any `start_index`): the flattened subscript lands in `[s, s + size)`,
is injective on the box and reaches every position -/
theorem flatten_bijective (s : Int) (ns : List Nat) (hne : ns ≠ []) :
    (∀ is, InBox s ns is → s ≤ flatF s ns is ∧ flatF s ns is < s + prodZ ns) ∧
    (∀ is js, InBox s ns is → InBox s ns js → flatF s ns is = flatF s ns js → is = js) ∧
    (∀ k, s ≤ k → k < s + prodZ ns → ∃ is, InBox s ns is ∧ flatF s ns is = k) :=
  ⟨fun is h => flatF_range s ns is h hne, fun is js => flatF_injective s ns is js,
   fun k => flatF_surjective s ns k hne⟩

/-! ### reversing the dimension order -/

theorem InBox_append (s : Int) : ∀ (ns : List Nat) (is : List Int) (ms : List Nat) (js : List Int),
    InBox s ns is → InBox s ms js → InBox s (ns ++ ms) (is ++ js)
  | [], [], _, _, _, h => by simpa using h
  | [], _ :: _, _, _, h, _ => by simp [InBox] at h
  | _ :: _, [], _, _, h, _ => by simp [InBox] at h
  | n :: ns, i :: is, ms, js, h, h' => by
      have h1 : s ≤ i ∧ i < s + (n : Int) ∧ InBox s ns is := by simpa [InBox] using h
      show InBox s (n :: (ns ++ ms)) (i :: (is ++ js))
      simp only [InBox]
      exact ⟨h1.1, h1.2.1, InBox_append s ns is ms js h1.2.2 h'⟩

theorem InBox_reverse_mp (s : Int) : ∀ (ns : List Nat) (is : List Int), InBox s ns is → InBox s ns.reverse is.reverse
  | [], [], _ => by simp [InBox]
  | [], _ :: _, h => by simp [InBox] at h
  | _ :: _, [], h => by simp [InBox] at h
  | n :: ns, i :: is, h => by
      have h1 : s ≤ i ∧ i < s + (n : Int) ∧ InBox s ns is := by simpa [InBox] using h
      rw [List.reverse_cons, List.reverse_cons]
      exact InBox_append s _ _ [n] [i] (InBox_reverse_mp s ns is h1.2.2) (by simp [InBox]; omega)

theorem InBox_reverse (s : Int) (ns : List Nat) (is : List Int) : InBox s ns is ↔ InBox s ns.reverse is.reverse :=
  ⟨InBox_reverse_mp s ns is, fun h => by simpa using InBox_reverse_mp s _ _ h⟩

/-- **invert_indices**: reversing the dimension order of the declaration and of every access is a bijection between
the elements of the array and the elements of the array with reversed shape -/
theorem invert_indices (s : Int) (ns : List Nat) :
    (∀ is, InBox s ns is → InBox s ns.reverse is.reverse) ∧
    (∀ is js : List Int, is.reverse = js.reverse → is = js) ∧
    (∀ js, InBox s ns.reverse js → ∃ is, InBox s ns is ∧ is.reverse = js) :=
  ⟨InBox_reverse_mp s ns, fun _ _ h => List.reverse_inj.mp h,
   fun js h => ⟨js.reverse, by simpa using InBox_reverse_mp s _ _ h, by simp⟩⟩

theorem prodZ_append : ∀ (ns ms : List Nat), prodZ (ns ++ ms) = prodZ ns * prodZ ms
  | [], ms => by simp [prodZ]
  | n :: ns, ms => by
      show (n : Int) * prodZ (ns ++ ms) = (n : Int) * prodZ ns * prodZ ms
      rw [prodZ_append ns ms, Int.mul_assoc]

theorem prodZ_reverse : ∀ ns : List Nat, prodZ ns.reverse = prodZ ns
  | [] => rfl
  | n :: ns => by
      rw [List.reverse_cons, prodZ_append, prodZ_reverse ns]
      simp only [prodZ]
      rw [Int.mul_one, Int.mul_comm]

/-- **flatten_bijective_C** (order 'C' = the same recursion on reversed lists) -/
theorem flatten_bijective_C (s : Int) (ns : List Nat) (hne : ns ≠ []) :
    (∀ is, InBox s ns is → s ≤ flatC s ns is ∧ flatC s ns is < s + prodZ ns) ∧
    (∀ is js, InBox s ns is → InBox s ns js → flatC s ns is = flatC s ns js → is = js) ∧
    (∀ k, s ≤ k → k < s + prodZ ns → ∃ is, InBox s ns is ∧ flatC s ns is = k) := by
  have hne' : ns.reverse ≠ [] := by simpa using hne
  refine ⟨fun is h => ?_, fun is js hi hj h => ?_, fun k h1 h2 => ?_⟩
  · have := flatF_range s ns.reverse is.reverse (InBox_reverse_mp s ns is h) hne'
    rw [prodZ_reverse] at this
    exact this
  · exact List.reverse_inj.mp
      (flatF_injective s ns.reverse _ _ (InBox_reverse_mp s ns is hi) (InBox_reverse_mp s ns js hj) h)
  · obtain ⟨js, hb, hf⟩ := flatF_surjective s ns.reverse k hne' h1 (by rw [prodZ_reverse]; exact h2)
    exact ⟨js.reverse, by simpa using InBox_reverse_mp s _ _ hb, by simp [flatC, hf]⟩

/-! ### shifting -/

theorem InBox_shift (s d : Int) : ∀ (ns : List Nat) (is : List Int),
    InBox s ns is ↔ InBox (s - d) ns (is.map (· - d))
  | [], [] => by simp [InBox]
  | [], _ :: _ => by simp [InBox]
  | _ :: _, [] => by simp [InBox]
  | n :: ns, i :: is => by
      simp only [InBox, List.map_cons]
      rw [InBox_shift s d ns is]
      constructor <;> (intro h; exact ⟨by omega, by omega, h.2.2⟩)

theorem map_sub_injective (d : Int) : ∀ is js : List Int, is.map (· - d) = js.map (· - d) → is = js
  | [], [], _ => rfl
  | [], _ :: _, h => by simp at h
  | _ :: _, [], h => by simp at h
  | i :: is, j :: js, h => by
      simp only [List.map_cons, List.cons.injEq] at h
      rw [map_sub_injective d is js h.2]
      have : i = j := by omega
      rw [this]

/-- **shift_to_zero**: subtracting 1 from every subscript maps the 1-based box bijectively onto the 0-based box -/
theorem shift_to_zero (ns : List Nat) :
    (∀ is, InBox 1 ns is → InBox 0 ns (is.map (· - 1))) ∧
    (∀ is js : List Int, is.map (· - 1) = js.map (· - 1) → is = js) ∧
    (∀ ks, InBox 0 ns ks → ∃ is, InBox 1 ns is ∧ is.map (· - 1) = ks) := by
  refine ⟨fun is h => by simpa using (InBox_shift 1 1 ns is).mp h, map_sub_injective 1, fun ks h => ?_⟩
  refine ⟨ks.map (· - (-1)), ?_, ?_⟩
  · simpa using (InBox_shift 0 (-1) ns ks).mp h
  · rw [List.map_map]
    have : ((fun x : Int => x - 1) ∘ fun x => x - (-1)) = id := by funext x; show x - (-1) - 1 = x; omega
    rw [this, List.map_id]

/-- **normalize_shift**: `i ↦ i - lo + 1` maps the declared box bijectively onto the 1-based box of the same extents -/
theorem normalize_into : ∀ (bs : List (Int × Int)) (is : List Int), InBounds bs is → InBox 1 (extents bs) (normIdx bs is)
  | [], [], _ => by simp [InBox, extents, normIdx]
  | [], _ :: _, h => by simp [InBounds] at h
  | _ :: _, [], h => by simp [InBounds] at h
  | (lo, hi) :: bs, i :: is, h => by
      have h1 : lo ≤ i ∧ i ≤ hi ∧ InBounds bs is := by simpa [InBounds] using h
      have ih := normalize_into bs is h1.2.2
      show InBox 1 ((hi - lo + 1).toNat :: extents bs) ((i - lo + 1) :: normIdx bs is)
      simp only [InBox]
      refine ⟨by omega, by omega, ih⟩

theorem normalize_injective : ∀ (bs : List (Int × Int)) (is js : List Int), InBounds bs is → InBounds bs js →
    normIdx bs is = normIdx bs js → is = js
  | [], [], [], _, _, _ => rfl
  | [], [], _ :: _, _, h, _ => by simp [InBounds] at h
  | [], _ :: _, _, h, _, _ => by simp [InBounds] at h
  | _ :: _, [], _, h, _, _ => by simp [InBounds] at h
  | _ :: _, _ :: _, [], _, h, _ => by simp [InBounds] at h
  | (lo, hi) :: bs, i :: is, j :: js, hi', hj', h => by
      have h1 : lo ≤ i ∧ i ≤ hi ∧ InBounds bs is := by simpa [InBounds] using hi'
      have h2 : lo ≤ j ∧ j ≤ hi ∧ InBounds bs js := by simpa [InBounds] using hj'
      simp only [normIdx, List.cons.injEq] at h
      rw [normalize_injective bs is js h1.2.2 h2.2.2 h.2]
      have : i = j := by omega
      rw [this]

theorem normalize_surjective : ∀ (bs : List (Int × Int)) (ks : List Int), InBox 1 (extents bs) ks →
    ∃ is, InBounds bs is ∧ normIdx bs is = ks
  | [], [], _ => ⟨[], by simp [InBounds], by simp [normIdx]⟩
  | [], _ :: _, h => by simp [InBox, extents] at h
  | _ :: _, [], h => by simp [InBox, extents] at h
  | (lo, hi) :: bs, k :: ks, h => by
      have h1 : 1 ≤ k ∧ k < 1 + ((hi - lo + 1).toNat : Int) ∧ InBox 1 (extents bs) ks := by
        simpa [InBox, extents] using h
      obtain ⟨is, hb, hn⟩ := normalize_surjective bs ks h1.2.2
      refine ⟨(k + lo - 1) :: is, ?_, ?_⟩
      · simp only [InBounds]
        exact ⟨by omega, by omega, hb⟩
      · simp only [normIdx, hn]
        congr 1
        omega

theorem normalize_shift (bs : List (Int × Int)) :
    (∀ is, InBounds bs is → InBox 1 (extents bs) (normIdx bs is)) ∧
    (∀ is js, InBounds bs is → InBounds bs js → normIdx bs is = normIdx bs js → is = js) ∧
    (∀ ks, InBox 1 (extents bs) ks → ∃ is, InBounds bs is ∧ normIdx bs is = ks) :=
  ⟨normalize_into bs, normalize_injective bs, normalize_surjective bs⟩

/-! ### the Fortran→C pipeline addresses the element the FIR semantics addresses -/

theorem flatF_one_eq : ∀ (ns : List Nat) (is : List Int), flatF 1 ns is = 1 + flatF 0 ns (is.map (· - 1))
  | _, [] => by simp [flatF]
  | ns, [i] => by rw [flatF_single]; simp [flatF_single]; omega
  | [], i :: j :: is => by simp [flatF]; omega
  | n :: ns, i :: j :: is => by
      simp only [List.map_cons]
      rw [flatF_cons2, flatF_cons2, flatF_one_eq ns (j :: is)]
      simp only [List.map_cons]
      have e : ∀ F : Int, 1 + F - 1 = F - 0 := by intro F; omega
      rw [e]
      omega

/-- the composite of the C pipeline (normalise to 1-based, invert, shift to zero, flatten in order 'C' with
`start_index = 0`) is the zero-based column-major offset -/
theorem c_pipeline_index (bs : List (Int × Int)) (is : List Int) :
    flatC 0 (extents bs).reverse ((normIdx bs is).reverse.map (· - 1)) =
      flatF 0 (extents bs) ((normIdx bs is).map (· - 1)) := by
  simp [flatC, List.map_reverse]

/-- zero-based column-major offset, as a plain recursion -/
def off0 : List Nat → List Int → Int
  | n :: ns, i :: is => i + (n : Int) * off0 ns is
  | _, _ => 0

theorem flatF_zero_eq_off0 : ∀ (ns : List Nat) (is : List Int), ns.length = is.length → flatF 0 ns is = off0 ns is
  | [], [], _ => rfl
  | [], _ :: _, h => by simp at h
  | _ :: _, [], h => by simp at h
  | [n], [i], _ => by simp [flatF, off0]
  | [_], _ :: _ :: _, h => by simp at h
  | _ :: _ :: _, [_], h => by simp at h
  | n :: m :: ns, i :: j :: is, h => by
      rw [flatF_cons2, flatF_zero_eq_off0 (m :: ns) (j :: is) (by simpa using h)]
      simp [off0]

theorem offset_len : ∀ (bs : List (Int × Int)) (is : List Int) (k : Nat), LokiModel.Fir.offset bs is = some k →
    bs.length = is.length
  | [], [], _, _ => rfl
  | [], _ :: _, _, h => by simp [LokiModel.Fir.offset] at h
  | _ :: _, [], _, h => by simp [LokiModel.Fir.offset] at h
  | (lo, hi) :: bs, i :: is, k, h => by
      simp only [LokiModel.Fir.offset] at h
      split at h
      · cases hr : LokiModel.Fir.offset bs is with
        | none => simp [hr] at h
        | some r => simp [offset_len bs is r hr]
      · simp at h

theorem normIdx_len : ∀ (bs : List (Int × Int)) (is : List Int), bs.length = is.length → (normIdx bs is).length = bs.length
  | [], [], _ => rfl
  | [], _ :: _, h => by simp at h
  | _ :: _, [], h => by simp at h
  | _ :: bs, _ :: is, h => by simp [normIdx, normIdx_len bs is (by simpa using h)]

theorem offset_eq_off0 : ∀ (bs : List (Int × Int)) (is : List Int) (k : Nat), LokiModel.Fir.offset bs is = some k →
    (k : Int) = off0 (extents bs) ((normIdx bs is).map (· - 1))
  | [], [], k, h => by
      simp [LokiModel.Fir.offset] at h
      simp [off0, extents, normIdx, ← h]
  | [], _ :: _, _, h => by simp [LokiModel.Fir.offset] at h
  | _ :: _, [], _, h => by simp [LokiModel.Fir.offset] at h
  | (lo, hi) :: bs, i :: is, k, h => by
      simp only [LokiModel.Fir.offset] at h
      split at h
      · rename_i hb
        cases hr : LokiModel.Fir.offset bs is with
        | none => simp [hr] at h
        | some r =>
          have ih := offset_eq_off0 bs is r hr
          rw [hr] at h
          simp only [Option.map_some, Option.some.injEq] at h
          subst h
          show (((i - lo).toNat + (hi - lo + 1).toNat * r : Nat) : Int) =
            (i - lo + 1 - 1) + (((hi - lo + 1).toNat : Nat) : Int) * off0 (extents bs) ((normIdx bs is).map (· - 1))
          rw [← ih]
          simp only [Int.natCast_add, Int.natCast_mul]
          omega
      · simp at h

/-- … and that offset is exactly the address the FIR reference semantics computes (`Fir.offset`) -/
theorem offset_eq_flat (bs : List (Int × Int)) (is : List Int) (k : Nat) (h : LokiModel.Fir.offset bs is = some k) :
    (k : Int) = flatF 0 (extents bs) ((normIdx bs is).map (· - 1)) := by
  rw [flatF_zero_eq_off0]
  · exact offset_eq_off0 bs is k h
  · have hl := offset_len bs is k h
    simp [extents, normIdx_len bs is hl]

theorem offset_isSome_iff : ∀ (bs : List (Int × Int)) (is : List Int),
    (LokiModel.Fir.offset bs is).isSome ↔ InBounds bs is
  | [], [] => by simp [LokiModel.Fir.offset, InBounds]
  | [], _ :: _ => by simp [LokiModel.Fir.offset, InBounds]
  | _ :: _, [] => by simp [LokiModel.Fir.offset, InBounds]
  | (lo, hi) :: bs, i :: is => by
      simp only [LokiModel.Fir.offset, InBounds]
      have ih := offset_isSome_iff bs is
      split
      · rename_i hb
        simp only [Option.isSome_map]
        rw [ih]
        exact ⟨fun h => ⟨hb.1, hb.2, h⟩, fun h => h.2.2⟩
      · rename_i hb
        simp only [Option.isSome_none, Bool.false_eq_true, false_iff]
        intro h
        exact hb ⟨h.1, h.2.1⟩


/-! ### a shifted section enumerates the shifted elements (stride kept, as `normalize_array_shape_and_access` does since its fix) -/

/-- **normalize_section**: the section `a:b:s` of a dimension declared `lo:hi`, rewritten to `a-lo+1 : b-lo+1 : s`, has the same
number of elements and its k-th element is the normalised k-th element of the original section -/
theorem normalize_section (lo a b s : Int) :
    LokiModel.Fir.tripCount (a - lo + 1) (b - lo + 1) s = LokiModel.Fir.tripCount a b s ∧
    ∀ k : Nat, (a - lo + 1) + (k : Int) * s = (a + (k : Int) * s) - lo + 1 := by
  refine ⟨?_, fun k => by omega⟩
  simp only [LokiModel.Fir.tripCount]
  have : b - lo + 1 - (a - lo + 1) + s = b - a + s := by omega
  rw [this]

example : flatF 1 [2, 3, 4] [2, 3, 4] = 24 := by decide
example : flatF 0 [2, 3] [1, 2] = 5 := by decide
example : flatC 0 [3, 2] [2, 1] = 5 := by decide

end LokiModel.C30
