import LokiModel.C30.Loop
/-!
# C30 — soundness of the model's loop for a covered rank-1 section assignment (statement level)
-/
namespace LokiModel.C30
open LokiModel.Fir
open LokiModel.Expr (Val)

/-- the state fits the declarations: no ASSOCIATE names in force, scalars are scalar cells, rank-1 arrays rank-1 cells -/
structure StOK (ds : List Decl) (st : St) : Prop where
  noalias : st.alias = []
  scalar : ∀ x c, isArray ds x = false → lookupCell st x = some c → ∃ ty val, c = .scalar ty val
  rank1 : ∀ x c, (declDims ds x).length = 1 → lookupCell st x = some c → ∃ ty b data, c = .array ty [b] data

/-- the loop variable `_map_ranges_to_indices` chooses for a single range: the variable of a loop of the routine with
the same bounds, else a new name `i_<array>_0` -/
def loopVar (m : LoopMap) (a : String) (L : Rng) : String :=
  match lookupLoop m L with
  | some w => w
  | none => ("i_" ++ a) ++ "_" ++ toString 0

theorem positions_one (n : Nat) : positions [n] = (List.range' 0 n).map fun k => [k] := by
  simp [positions, List.range_eq_range']

theorem assign_sec1_inv {st st' : St} (h0 : st.alias = []) {a : String} {ty : Ty} {b : Int × Int}
    {data : List (Option Val)} (hc : lookupCell st a = some (.array ty [b] data))
    {lo hi : Ex} {step : Option Ex} {rhs : Ex}
    (h : assignStmt st (.sec a [.rng (some lo) (some hi) step]) rhs = some st') :
    ∃ l hh s, (evalE st [] lo).bind asInt = some l ∧ (evalE st [] hi).bind asInt = some hh ∧
      stepVal st [] step = some s ∧ s ≠ 0 ∧
      origFrom st a [b] [.rng (some lo) (some hi) step] rhs ((List.range' 0 (tripCount l hh s)).map fun k => [k]) st
        = some st' := by
  simp only [assignStmt] at h
  rw [boundsOf_nil h0, hc] at h
  simp only [Option.bind_eq_bind, Option.bind_some] at h
  rw [secShape, secShape] at h
  cases hl : (evalE st [] lo).bind asInt with
  | none => simp [hl] at h
  | some l =>
    cases hh : (evalE st [] hi).bind asInt with
    | none => simp [hl, hh] at h
    | some hv =>
      cases step with
      | none =>
        refine ⟨l, hv, 1, rfl, rfl, rfl, by decide, ?_⟩
        simp [hl, hh, positions_one] at h
        simpa [origFrom] using h
      | some e =>
        cases he : (evalE st [] e).bind asInt with
        | none => simp [hl, hh, he] at h
        | some s =>
          by_cases hz : s = 0
          · simp [hl, hh, he, hz] at h
          · refine ⟨l, hv, s, rfl, rfl, he, hz, ?_⟩
            simp [hl, hh, he, hz, positions_one] at h
            simpa [origFrom] using h

theorem rangesOf_one (a b c : Option Ex) : rangesOf [.rng a b c] = [⟨a, b, c⟩] := rfl

theorem resolveAssign_rank1 {ds : List Decl} {m : LoopMap} {a : String} {lo hi : Ex} {step : Option Ex} {rhs : Ex}
    {ss : List Stmt} {vars : List String} (hrank : (declDims ds a).length = 1)
    (h : resolveAssign ds m (.sec a [.rng (some lo) (some hi) step]) rhs = some (ss, vars)) :
    ∃ rhs', resolveRhs ds [loopVar m a ⟨some lo, some hi, step⟩] [⟨some lo, some hi, step⟩] rhs = some rhs' ∧
      ss = [.doLoop (loopVar m a ⟨some lo, some hi, step⟩) lo hi step
              [.assign (.idx a [.var (loopVar m a ⟨some lo, some hi, step⟩)]) rhs']] := by
  obtain ⟨dlo, dhi, hdd⟩ : ∃ dlo dhi, declDims ds a = [(dlo, dhi)] := by
    cases hd : declDims ds a with
    | nil => simp [hd] at hrank
    | cons q rest =>
      cases rest with
      | nil => exact ⟨q.1, q.2, rfl⟩
      | cons _ _ => simp [hd] at hrank
  have hv : chooseVars m ("i_" ++ a) 0 [⟨some lo, some hi, step⟩] [] = [loopVar m a ⟨some lo, some hi, step⟩] := by
    simp only [chooseVars, loopVar]
    cases lookupLoop m ⟨some lo, some hi, step⟩ <;> simp
  simp only [resolveAssign, qualRef, hdd, qualDims, isColon, rangesOf_one, List.isEmpty_cons, Bool.false_eq_true,
    if_false, hv, List.map_cons, List.map_nil, replaceRanges] at h
  cases hr : resolveRhs ds [loopVar m a ⟨some lo, some hi, step⟩] [⟨some lo, some hi, step⟩] rhs with
  | none => simp [hr] at h
  | some rhs' =>
    simp [hr, wrapLoops, mkRef, atsOf] at h
    exact ⟨rhs', rfl, h.1.symm⟩

/-- **statement-level soundness of the model's output for a covered rank-1 section assignment** -/
theorem resolve_rank1_sound (p : Program) (ds : List Decl) (m : LoopMap) (a : String) (lo hi : Ex) (step : Option Ex)
    (rhs : Ex) (st st' : St) (ss : List Stmt) (vars : List String)
    (hmodel : resolveAssign ds m (.sec a [.rng (some lo) (some hi) step]) rhs = some (ss, vars))
    (hrank : (declDims ds a).length = 1)
    (hst : StOK ds st)
    (hvcell : ∃ w, lookupCell st (loopVar m a ⟨some lo, some hi, step⟩) = some (.scalar .int w))
    (hav : a ≠ loopVar m a ⟨some lo, some hi, step⟩)
    (hlo : scE ds a (loopVar m a ⟨some lo, some hi, step⟩) lo = true)
    (hstep : scO ds a (loopVar m a ⟨some lo, some hi, step⟩) step = true)
    (hcov : covE ds a (loopVar m a ⟨some lo, some hi, step⟩) ⟨some lo, some hi, step⟩ rhs = true)
    (horig : assignStmt st (.sec a [.rng (some lo) (some hi) step]) rhs = some st') :
    ∃ f st'', execStmts p f ss st = .ok st'' .normal ∧ Agr (loopVar m a ⟨some lo, some hi, step⟩) st'' st' := by
  obtain ⟨rhs', hres, rfl⟩ := resolveAssign_rank1 hrank hmodel
  generalize loopVar m a ⟨some lo, some hi, step⟩ = v at *
  -- the cell of the assigned array
  have hcell : ∃ ty b data, lookupCell st a = some (.array ty [b] data) := by
    cases hc : lookupCell st a with
    | none =>
      simp only [assignStmt] at horig
      rw [boundsOf_nil hst.noalias, hc] at horig
      simp at horig
    | some c =>
      obtain ⟨ty, b, data, rfl⟩ := hst.rank1 a c hrank hc
      exact ⟨ty, b, data, rfl⟩
  obtain ⟨ty, b, data, hc⟩ := hcell
  obtain ⟨l, hh, s, hl, hhi, hs, hs0, horig'⟩ := assign_sec1_inv hst.noalias hc horig
  have K : LoopCtx ds a v lo hi step rhs rhs' st b l s :=
    ⟨hav, hst.noalias, hst.scalar, hst.rank1, hlo, bind_asInt_some hl, hstep, hs, hcov, hres⟩
  have hA : Agr v st st := ⟨hst.noalias, hst.noalias, rfl, fun _ _ => rfl⟩
  obtain ⟨st'', hrun, hfin⟩ := loop_inv p K (tripCount l hh s) 0 l st st st' (by simp) hA hvcell (fun _ _ => rfl) horig'
  refine ⟨tripCount l hh s + 2 + 1 + 1 + 1, st'', ?_, hfin⟩
  have hrun' : doIter p (tripCount l hh s + 3) v [Stmt.assign (Ex.idx a [Ex.var v]) rhs'] s (tripCount l hh s) l st =
      Res.ok st'' Sig.normal := hrun
  cases step with
  | none =>
    simp only [stepVal, Option.some.injEq] at hs
    subst hs
    simp only [execStmts, execStmt, hl, hhi]
    simp [hrun']
  | some e =>
    simp only [stepVal] at hs
    simp only [execStmts, execStmt, hl, hhi, hs]
    simp [hs0, hrun']

end LokiModel.C30
