import LokiModel.C32.CpProof
/-!
# Constant propagation through DO / DO WHILE loops (repaired `visit_Loop` / `visit_WhileLoop`)

* `Frame`: a body of the covered statement kinds leaves the cell of every scalar name outside `modNames` alone — that is why
  the entries of the map the body is visited with (`mEntry`, everything the loop defines removed) hold at the top of EVERY
  iteration;
* `CpSimL`: the simulation of `CpProof.lean` extended by `doIter` / `whileIter`, EXIT and CYCLE.
-/
namespace LokiModel.C32
open LokiModel.Fir
open LokiModel.Expr (Val CmpOp)


/-! ### the frame property -/

structure Frame (arrs : List String) (P : Program) (f : Nat) : Prop where
  stmts : ∀ ss st st' sig, frameOK arrs ss = true → st.alias = [] → execStmts P f ss st = .ok st' sig →
      st'.alias = [] ∧ ∀ x, arrs.contains x = false → x ∉ modNames arrs ss → lookupCell st' x = lookupCell st x
  stmt : ∀ s st st' sig, frameOKS arrs s = true → st.alias = [] → execStmt P f s st = .ok st' sig →
      st'.alias = [] ∧ ∀ x, arrs.contains x = false → x ∉ modNamesS arrs s → lookupCell st' x = lookupCell st x
  doI : ∀ v body step n cur st st' sig, frameOK arrs body = true → st.alias = [] →
      doIter P f v body step n cur st = .ok st' sig →
      st'.alias = [] ∧ ∀ x, arrs.contains x = false → x ≠ v → x ∉ modNames arrs body → lookupCell st' x = lookupCell st x
  whileI : ∀ c body st st' sig, frameOK arrs body = true → st.alias = [] →
      whileIter P f c body st = .ok st' sig →
      st'.alias = [] ∧ ∀ x, arrs.contains x = false → x ∉ modNames arrs body → lookupCell st' x = lookupCell st x

theorem frame_zero (arrs : List String) (P : Program) : Frame arrs P 0 := by
  constructor
  · intro ss st st' sig _ _ h; simp [execStmts] at h
  · intro s st st' sig _ _ h; simp [execStmt] at h
  · intro v body step n cur st st' sig _ _ h; simp [doIter] at h
  · intro c body st st' sig _ _ h; simp [whileIter] at h

/-- a successful write to `y` leaves the alias table and every other cell alone -/
theorem writeAt_frame {st st' : St} (ha : st.alias = []) {y : String} {is : List Int} {v : Val}
    (h : writeAt st y is v = some st') : st'.alias = [] ∧ ∀ x, x ≠ y → lookupCell st' x = lookupCell st x := by
  obtain ⟨c, c', _, hst, _, _, _⟩ := writeAt_spec ha h
  subst hst
  refine ⟨ha, ?_⟩
  intro x hx
  rw [lookupCell_set]; simp [hx]

theorem frame_succ {arrs : List String} {P : Program} {f : Nat} (ih : Frame arrs P f) : Frame arrs P (f + 1) := by
  constructor
  · -- statement lists
    intro ss st st' sig hok ha h
    cases ss with
    | nil =>
      simp [execStmts] at h
      obtain ⟨e1, _⟩ := h
      subst e1
      exact ⟨ha, fun _ _ _ => rfl⟩
    | cons s rest =>
      simp only [frameOK, Bool.and_eq_true] at hok
      simp only [execStmts] at h
      cases hx : execStmt P f s st with
      | fuel => simp [hx] at h
      | err e => simp [hx] at h
      | ok st1 sig1 =>
        obtain ⟨ha1, hf1⟩ := ih.stmt s st st1 sig1 hok.1 ha hx
        rw [hx] at h
        have hmem : ∀ x, x ∉ modNames arrs (s :: rest) → x ∉ modNamesS arrs s ∧ x ∉ modNames arrs rest := by
          intro x hx'; simp only [modNames, List.mem_append, not_or] at hx'; exact hx'
        cases sig1 with
        | normal =>
          simp only at h
          obtain ⟨ha2, hf2⟩ := ih.stmts rest st1 st' sig hok.2 ha1 h
          exact ⟨ha2, fun x hxa hxm => by rw [hf2 x hxa (hmem x hxm).2, hf1 x hxa (hmem x hxm).1]⟩
        | exit =>
          simp at h; obtain ⟨e1, _⟩ := h; subst e1
          exact ⟨ha1, fun x hxa hxm => hf1 x hxa (hmem x hxm).1⟩
        | cycle =>
          simp at h; obtain ⟨e1, _⟩ := h; subst e1
          exact ⟨ha1, fun x hxa hxm => hf1 x hxa (hmem x hxm).1⟩
  · -- single statements
    intro s st st' sig hok ha h
    cases s with
    | assign l r =>
      simp only [execStmt] at h
      cases hasg : assignStmt st l r with
      | none => simp [hasg] at h
      | some st1 =>
        simp [hasg] at h
        obtain ⟨e1, _⟩ := h
        subst e1
        cases l with
        | var y =>
          simp only [frameOKS] at hok
          have hy : arrs.contains y = false := by simpa using hok
          -- a scalar cell or a missing one: `boundsOf` is `none` or the write goes through the array path; both are writes to `y`
          simp only [assignStmt] at hasg
          cases hb : boundsOf st y with
          | none =>
            simp only [hb] at hasg
            cases hv : evalE st [] r with
            | none => simp [hv] at hasg
            | some v =>
              simp only [hv, Option.bind_eq_bind, Option.bind] at hasg
              obtain ⟨ha1, hf1⟩ := writeAt_frame ha hasg
              refine ⟨ha1, fun x _ hxm => hf1 x ?_⟩
              simp only [modNamesS, hy] at hxm
              simpa using hxm
          | some bs =>
            -- whole-array assignment to a name the model treats as a scalar: every write is a write to `y`
            simp only [hb] at hasg
            cases hvals : List.mapM (fun p => evalE st p r) (positions (List.map extent bs)) with
            | none => simp [hvals] at hasg
            | some vals =>
              simp only [hvals, Option.bind_eq_bind, Option.bind] at hasg
              have key : ∀ (l : List (List Nat × Val)) (s0 s1 : St), s0.alias = [] →
                  List.foldlM (fun s (pv : List Nat × Val) =>
                    writeAt s y (List.map (fun (bk : (Int × Int) × Nat) => bk.1.1 + (bk.2 : Int)) (bs.zip pv.1)) pv.2) s0 l = some s1 →
                  s1.alias = [] ∧ ∀ x, x ≠ y → lookupCell s1 x = lookupCell s0 x := by
                intro l
                induction l with
                | nil => intro s0 s1 h0 hh; simp at hh; subst hh; exact ⟨h0, fun _ _ => rfl⟩
                | cons pv l ihl =>
                  intro s0 s1 h0 hh
                  simp only [List.foldlM, Option.bind_eq_bind, Option.bind] at hh
                  split at hh
                  · simp at hh
                  · rename_i s2 hw
                    obtain ⟨ha2, hf2⟩ := writeAt_frame h0 hw
                    obtain ⟨ha3, hf3⟩ := ihl s2 s1 ha2 hh
                    exact ⟨ha3, fun x hx => by rw [hf3 x hx, hf2 x hx]⟩
              obtain ⟨ha1, hf1⟩ := key _ st st1 ha hasg
              refine ⟨ha1, fun x _ hxm => hf1 x ?_⟩
              simp only [modNamesS, hy] at hxm
              simpa using hxm
        | idx a subs =>
          simp only [frameOKS, Bool.and_eq_true] at hok
          have hac : arrs.contains a = true := hok.1
          simp only [assignStmt, Option.bind_eq_bind, Option.bind] at hasg
          cases hidx : evalIdx st [] subs with
          | none => simp [hidx] at hasg
          | some is =>
            cases hv : evalE st [] r with
            | none => simp [hidx, hv] at hasg
            | some v =>
              simp only [hidx, hv] at hasg
              obtain ⟨ha1, hf1⟩ := writeAt_frame ha hasg
              refine ⟨ha1, fun x hxa _ => hf1 x ?_⟩
              intro e; subst e; rw [hac] at hxa; simp at hxa
        | _ => simp [frameOKS] at hok
    | print args =>
      simp only [execStmt] at h
      split at h
      · simp at h; obtain ⟨e1, _⟩ := h; subst e1
        exact ⟨ha, fun _ _ _ => rfl⟩
      · simp at h
    | nop k t => simp [execStmt] at h; obtain ⟨e1, _⟩ := h; subst e1; exact ⟨ha, fun _ _ _ => rfl⟩
    | exit => simp [execStmt] at h; obtain ⟨e1, _⟩ := h; subst e1; exact ⟨ha, fun _ _ _ => rfl⟩
    | cycle => simp [execStmt] at h; obtain ⟨e1, _⟩ := h; subst e1; exact ⟨ha, fun _ _ _ => rfl⟩
    | ifte c t e =>
      simp only [frameOKS, Bool.and_eq_true] at hok
      simp only [execStmt] at h
      have hmem : ∀ x, x ∉ modNamesS arrs (.ifte c t e) → x ∉ modNames arrs t ∧ x ∉ modNames arrs e := by
        intro x hx'; simp only [modNamesS, List.mem_append, not_or] at hx'; exact hx'
      split at h
      · obtain ⟨ha1, hf1⟩ := ih.stmts t st st' sig hok.1 ha h
        exact ⟨ha1, fun x hxa hxm => hf1 x hxa (hmem x hxm).1⟩
      · obtain ⟨ha1, hf1⟩ := ih.stmts e st st' sig hok.2 ha h
        exact ⟨ha1, fun x hxa hxm => hf1 x hxa (hmem x hxm).2⟩
      · simp at h
    | doLoop v lo hi stp body =>
      simp only [frameOKS, Bool.and_eq_true] at hok
      simp only [execStmt] at h
      split at h
      · split at h
        · simp at h
        · obtain ⟨ha1, hf1⟩ := ih.doI v body _ _ _ st st' sig hok.2 ha h
          refine ⟨ha1, fun x hxa hxm => ?_⟩
          simp only [modNamesS, List.mem_cons, not_or] at hxm
          exact hf1 x hxa hxm.1 hxm.2
      · simp at h
    | «while» c body =>
      simp only [frameOKS] at hok
      simp only [execStmt] at h
      obtain ⟨ha1, hf1⟩ := ih.whileI c body st st' sig hok ha h
      exact ⟨ha1, fun x hxa hxm => hf1 x hxa (by simpa [modNamesS] using hxm)⟩
    | _ => simp [frameOKS] at hok
  · -- doIter
    intro v body step n cur st st' sig hok ha h
    simp only [doIter] at h
    cases hw : writeAt st v [] (.int cur) with
    | none => simp [hw] at h
    | some st1 =>
      simp only [hw] at h
      obtain ⟨ha1, hf1⟩ := writeAt_frame ha hw
      cases n with
      | zero =>
        simp at h; obtain ⟨e1, _⟩ := h; subst e1
        exact ⟨ha1, fun x _ hxv _ => hf1 x hxv⟩
      | succ n' =>
        simp only at h
        cases hb : execStmts P f body st1 with
        | fuel => simp [hb] at h
        | err e => simp [hb] at h
        | ok st2 sig2 =>
          obtain ⟨ha2, hf2⟩ := ih.stmts body st1 st2 sig2 hok ha1 hb
          rw [hb] at h
          cases sig2 with
          | exit =>
            simp at h; obtain ⟨e1, _⟩ := h; subst e1
            exact ⟨ha2, fun x hxa hxv hxm => by rw [hf2 x hxa hxm, hf1 x hxv]⟩
          | normal =>
            simp only at h
            obtain ⟨ha3, hf3⟩ := ih.doI v body step n' (cur + step) st2 st' sig hok ha2 h
            exact ⟨ha3, fun x hxa hxv hxm => by rw [hf3 x hxa hxv hxm, hf2 x hxa hxm, hf1 x hxv]⟩
          | cycle =>
            simp only at h
            obtain ⟨ha3, hf3⟩ := ih.doI v body step n' (cur + step) st2 st' sig hok ha2 h
            exact ⟨ha3, fun x hxa hxv hxm => by rw [hf3 x hxa hxv hxm, hf2 x hxa hxm, hf1 x hxv]⟩
  · -- whileIter
    intro c body st st' sig hok ha h
    simp only [whileIter] at h
    split at h
    · cases hb : execStmts P f body st with
      | fuel => simp [hb] at h
      | err e => simp [hb] at h
      | ok st2 sig2 =>
        obtain ⟨ha2, hf2⟩ := ih.stmts body st st2 sig2 hok ha hb
        rw [hb] at h
        cases sig2 with
        | exit =>
          simp at h; obtain ⟨e1, _⟩ := h; subst e1
          exact ⟨ha2, hf2⟩
        | normal =>
          simp only at h
          obtain ⟨ha3, hf3⟩ := ih.whileI c body st2 st' sig hok ha2 h
          exact ⟨ha3, fun x hxa hxm => by rw [hf3 x hxa hxm, hf2 x hxa hxm]⟩
        | cycle =>
          simp only at h
          obtain ⟨ha3, hf3⟩ := ih.whileI c body st2 st' sig hok ha2 h
          exact ⟨ha3, fun x hxa hxm => by rw [hf3 x hxa hxm, hf2 x hxa hxm]⟩
    · simp at h; obtain ⟨e1, _⟩ := h; subst e1
      exact ⟨ha, fun _ _ _ => rfl⟩
    · simp at h

theorem frame (arrs : List String) (P : Program) : ∀ f, Frame arrs P f
  | 0 => frame_zero arrs P
  | f + 1 => frame_succ (frame arrs P f)

/-! ### maps -/

def KeysScalar (arrs : List String) (m : CMap) : Prop := ∀ x v, CMap.get m x = some v → arrs.contains x = false

theorem get_eraseAll {m : CMap} {xs : List String} {y : String} {v : Val}
    (h : CMap.get (CMap.eraseAll m xs) y = some v) : y ∉ xs ∧ CMap.get m y = some v := by
  induction m with
  | nil => simp [CMap.eraseAll, CMap.get] at h
  | cons p rest ih =>
    simp only [CMap.eraseAll, List.filter] at h
    by_cases hp : xs.contains p.1 = true
    · simp only [hp, Bool.not_true] at h
      have := ih h
      refine ⟨this.1, ?_⟩
      have hpy : (p.1 == y) = false := by
        simp
        intro e; subst e
        exact this.1 (by simpa using hp)
      simp only [CMap.get, List.find?, hpy]
      exact this.2
    · simp only [hp, Bool.not_false] at h
      simp only [CMap.get, List.find?] at h ⊢
      by_cases hpy : (p.1 == y) = true
      · simp only [hpy] at h ⊢
        refine ⟨?_, h⟩
        have e : p.1 = y := by simpa using hpy
        intro hmem; subst e
        exact hp (by simpa using hmem)
      · simp only [hpy] at h ⊢
        exact ih h

theorem keys_set {arrs : List String} {m : CMap} {x : String} {v : Val} (hk : KeysScalar arrs m)
    (hx : arrs.contains x = false) : KeysScalar arrs (CMap.set m x v) := by
  intro y w hg
  rcases get_set hg with ⟨e, _⟩ | ⟨_, hgm⟩
  · subst e; exact hx
  · exact hk y w hgm

theorem keys_erase {arrs : List String} {m : CMap} (x : String) (hk : KeysScalar arrs m) :
    KeysScalar arrs (CMap.erase m x) := fun y w hg => hk y w (get_erase hg).2

theorem keys_eraseAll {arrs : List String} {m : CMap} (xs : List String) (hk : KeysScalar arrs m) :
    KeysScalar arrs (CMap.eraseAll m xs) := fun y w hg => hk y w (get_eraseAll hg).2

theorem keys_merge_left {arrs : List String} {a b : CMap} (hk : KeysScalar arrs a) :
    KeysScalar arrs (CMap.merge a b) := fun y w hg => hk y w (get_merge hg).1

theorem holds_erase {m : CMap} {st : St} (x : String) (hm : Holds m st) : Holds (CMap.erase m x) st :=
  fun y w hg => hm y w (get_erase hg).2

theorem holds_eraseAll {m : CMap} {st : St} (xs : List String) (hm : Holds m st) : Holds (CMap.eraseAll m xs) st :=
  fun y w hg => hm y w (get_eraseAll hg).2

/-- an entry about `x` is a statement about the cell of `x` only (alias-free states) -/
theorem entry_of_cell {st st' : St} (ha : st.alias = []) (ha' : st'.alias = []) {x : String} {w : Val}
    (hc : lookupCell st' x = lookupCell st x) (h : boundsOf st x = none ∧ readAt st x [] = some w) :
    boundsOf st' x = none ∧ readAt st' x [] = some w := by
  obtain ⟨h1, h2⟩ := h
  constructor
  · simp only [boundsOf, lookupAlias_nil ha, lookupAlias_nil ha', hc] at h1 ⊢; exact h1
  · simp only [readAt, resolve_nil ha, resolve_nil ha', Option.bind_eq_bind, Option.bind, hc] at h2 ⊢; exact h2

/-- entries about names a body does not define survive the body -/
theorem holds_frame_body {arrs : List String} {m : CMap} {st st' : St} {names : List String}
    (ha : st.alias = []) (ha' : st'.alias = [])
    (hf : ∀ x, arrs.contains x = false → x ∉ names → lookupCell st' x = lookupCell st x)
    (hk : KeysScalar arrs m) (hout : ∀ x w, CMap.get m x = some w → x ∉ names) (hm : Holds m st) : Holds m st' :=
  fun x w hg => entry_of_cell ha ha' (hf x (hk x w hg) (hout x w hg)) (hm x w hg)

/-! ### the simulation with loops -/

theorem cpOKLS_assign {arrs : List String} {Γ : String → Option Ty} {l r : Ex} {m : CMap}
    (h : cpOKLS arrs Γ (.assign l r) m = true) : cpOKS arrs Γ (.assign l r) m = true := by
  cases l with
  | var x => simpa [cpOKLS] using h
  | idx a subs =>
    simp only [cpOKLS, Bool.and_eq_true] at h
    exact h.2
  | _ => simp [cpOKLS] at h

theorem keys_cpAssign {arrs : List String} {m m' : CMap} {l r : Ex} {s' : Stmt} (hk : KeysScalar arrs m)
    (hc : cpAssign arrs m l r = some (s', m')) : KeysScalar arrs m' := by
  simp only [cpAssign] at hc
  cases hr : cpE m r with
  | none => simp [hr] at hc
  | some r' =>
    simp only [hr, Option.bind_eq_bind, Option.bind] at hc
    cases l with
    | var x =>
      simp only at hc
      split at hc
      · simp at hc; rw [← hc.2]; exact hk
      · rename_i hx
        have hx' : arrs.contains x = false := by simpa using hx
        split at hc
        · simp at hc; rw [← hc.2]; exact keys_set hk hx'
        · simp at hc; rw [← hc.2]; exact keys_erase x hk
    | idx a subs =>
      simp only at hc
      cases hs : cpEs m subs with
      | none => simp [hs] at hc
      | some subs' => simp [hs] at hc; rw [← hc.2]; exact hk
    | _ => simp at hc

theorem bindInt_sound {m : CMap} {st : St} (hm : Holds m st) {e e' : Ex} {i : Int}
    (hc : cpE m e = some e') (hty : typeFold m e = false) (h : (evalE st [] e).bind asInt = some i) :
    (evalE st [] e').bind asInt = some i := by
  cases hv : evalE st [] e with
  | none => simp [hv] at h
  | some v =>
    rw [cpE_sound hm [] e e' v hc hty hv]
    rw [hv] at h; exact h

theorem intConst_bind {e : Ex} {x i : Int} {st : St} (hc : intConst e = some x)
    (h : (evalE st [] e).bind asInt = some i) : i = x := by
  rw [intConst_eval hc] at h
  simpa [asInt] using h.symm

structure CpSimL (arrs : List String) (Γ : String → Option Ty) (P : Program) (f : Nat) : Prop where
  stmts : ∀ ss ss' m m' st st' sig, cpOKL arrs Γ ss m = true → cpStmts arrs ss m = some (ss', m') →
      KeysScalar arrs m → Inv arrs Γ st → Holds m st → execStmts P f ss st = .ok st' sig →
      execStmts P f ss' st = .ok st' sig ∧ Inv arrs Γ st' ∧
        (sig = .normal → Holds m' st' ∧ KeysScalar arrs m') ∧ (hasJump ss = false → sig = .normal)
  stmt : ∀ s s' m m' st st' sig, cpOKLS arrs Γ s m = true → cpStmt arrs s m = some (s', m') →
      KeysScalar arrs m → Inv arrs Γ st → Holds m st → execStmt P f s st = .ok st' sig →
      execStmt P f s' st = .ok st' sig ∧ Inv arrs Γ st' ∧
        (sig = .normal → Holds m' st' ∧ KeysScalar arrs m') ∧ (hasJumpS s = false → sig = .normal)
  doI : ∀ v body body' mEntry mEnd step n cur st st' sig,
      arrs.contains v = false → frameOK arrs body = true → cpOKL arrs Γ body mEntry = true →
      cpStmts arrs body mEntry = some (body', mEnd) → KeysScalar arrs mEntry →
      (∀ x w, CMap.get mEntry x = some w → x ∉ (v :: modNames arrs body)) →
      Inv arrs Γ st → Holds mEntry st → doIter P f v body step n cur st = .ok st' sig →
      doIter P f v body' step n cur st = .ok st' sig ∧ Inv arrs Γ st' ∧ Holds mEntry st' ∧ sig = .normal ∧
        (hasJump body = false → 0 < n → KeysScalar arrs mEnd) ∧
        (hasJump body = false → ∀ mX : CMap, (∀ x w, CMap.get mX x = some w → x ≠ v ∧ CMap.get mEnd x = some w) →
          (0 < n ∨ Holds mX st) → Holds mX st')
  whileI : ∀ c body body' mEntry mEnd st st' sig,
      frameOK arrs body = true → cpOKL arrs Γ body mEntry = true →
      cpStmts arrs body mEntry = some (body', mEnd) → KeysScalar arrs mEntry →
      (∀ x w, CMap.get mEntry x = some w → x ∉ modNames arrs body) →
      Inv arrs Γ st → Holds mEntry st → whileIter P f c body st = .ok st' sig →
      whileIter P f c body' st = .ok st' sig ∧ Inv arrs Γ st' ∧ Holds mEntry st' ∧ sig = .normal ∧
        (hasJump body = false → ∀ mX : CMap, (∀ x w, CMap.get mX x = some w → CMap.get mEnd x = some w) →
          Holds mX st → Holds mX st')

theorem cpSimL_zero (arrs : List String) (Γ : String → Option Ty) (P : Program) : CpSimL arrs Γ P 0 := by
  constructor
  · intro ss ss' m m' st st' sig _ _ _ _ _ h; simp [execStmts] at h
  · intro s s' m m' st st' sig _ _ _ _ _ h; simp [execStmt] at h
  · intro v body body' mEntry mEnd step n cur st st' sig _ _ _ _ _ _ _ _ h; simp [doIter] at h
  · intro c body body' mEntry mEnd st st' sig _ _ _ _ _ _ _ h; simp [whileIter] at h

theorem cpSimL_doI {arrs : List String} {Γ : String → Option Ty} {P : Program} {f : Nat} (ih : CpSimL arrs Γ P f) :
    ∀ v body body' mEntry mEnd step n cur st st' sig,
      arrs.contains v = false → frameOK arrs body = true → cpOKL arrs Γ body mEntry = true →
      cpStmts arrs body mEntry = some (body', mEnd) → KeysScalar arrs mEntry →
      (∀ x w, CMap.get mEntry x = some w → x ∉ (v :: modNames arrs body)) →
      Inv arrs Γ st → Holds mEntry st → doIter P (f + 1) v body step n cur st = .ok st' sig →
      doIter P (f + 1) v body' step n cur st = .ok st' sig ∧ Inv arrs Γ st' ∧ Holds mEntry st' ∧ sig = .normal ∧
        (hasJump body = false → 0 < n → KeysScalar arrs mEnd) ∧
        (hasJump body = false → ∀ mX : CMap, (∀ x w, CMap.get mX x = some w → x ≠ v ∧ CMap.get mEnd x = some w) →
          (0 < n ∨ Holds mX st) → Holds mX st') := by
  intro v body body' mEntry mEnd step n cur st st' sig hv hfr hok hc hk hout hi hm h
  have ha := hi.noAlias
  simp only [doIter] at h ⊢
  cases hw : writeAt st v [] (.int cur) with
  | none => simp [hw] at h
  | some st1 =>
    simp only [hw] at h ⊢
    obtain ⟨c, c', hlc, hst, hkind, _, _⟩ := writeAt_spec ha hw
    have hi1 : Inv arrs Γ st1 := by rw [hst]; exact inv_set hi hlc hkind
    have ha1 := hi1.noAlias
    have carry : ∀ mX : CMap, (∀ x w, CMap.get mX x = some w → x ≠ v) → Holds mX st → Holds mX st1 := by
      intro mX hne hX y w hg
      rw [hst]; exact holds_frame ha hX hlc hkind y w (hne y w hg) hg
    have hm1 : Holds mEntry st1 := carry mEntry (fun x w hg => by
      have := hout x w hg; simp only [List.mem_cons, not_or] at this; exact this.1) hm
    cases n with
    | zero =>
      simp at h
      obtain ⟨e1, e2⟩ := h
      subst e1; subst e2
      refine ⟨rfl, hi1, hm1, rfl, fun _ h0 => absurd h0 (by omega), ?_⟩
      intro _ mX hX hor
      rcases hor with h0 | hX0
      · omega
      · exact carry mX (fun x w hg => (hX x w hg).1) hX0
    | succ n' =>
      simp only at h ⊢
      cases hb : execStmts P f body st1 with
      | fuel => simp [hb] at h
      | err e => simp [hb] at h
      | ok st2 sig2 =>
        obtain ⟨hb', hi2, hnorm2, hjump2⟩ := ih.stmts body body' mEntry mEnd st1 st2 sig2 hok hc hk hi1 hm1 hb
        obtain ⟨_, hcells⟩ := (frame arrs P f).stmts body st1 st2 sig2 hfr ha1 hb
        have ha2 := hi2.noAlias
        have hm2 : Holds mEntry st2 := holds_frame_body ha1 ha2 hcells hk (fun x w hg => by
          have := hout x w hg; simp only [List.mem_cons, not_or] at this; exact this.2) hm1
        rw [hb] at h
        rw [hb']
        cases sig2 with
        | exit =>
          simp at h
          obtain ⟨e1, e2⟩ := h
          subst e1; subst e2
          refine ⟨rfl, hi2, hm2, rfl, fun hj _ => ?_, ?_⟩
          · have := hjump2 hj
            simp at this
          intro hj
          have := hjump2 hj
          simp at this
        | normal =>
          simp only at h ⊢
          obtain ⟨r1, r2, r3, r4, _, r6⟩ := ih.doI v body body' mEntry mEnd step n' (cur + step) st2 st' sig hv hfr hok hc hk hout hi2 hm2 h
          refine ⟨r1, r2, r3, r4, fun _ _ => (hnorm2 rfl).2, ?_⟩
          intro hj mX hX _
          have hEnd : Holds mEnd st2 := (hnorm2 rfl).1
          exact r6 hj mX hX (Or.inr (fun x w hg => hEnd x w (hX x w hg).2))
        | cycle =>
          simp only at h ⊢
          obtain ⟨r1, r2, r3, r4, _, r6⟩ := ih.doI v body body' mEntry mEnd step n' (cur + step) st2 st' sig hv hfr hok hc hk hout hi2 hm2 h
          refine ⟨r1, r2, r3, r4, fun hj _ => ?_, ?_⟩
          · have := hjump2 hj
            simp at this
          intro hj
          have := hjump2 hj
          simp at this

theorem cpSimL_whileI {arrs : List String} {Γ : String → Option Ty} {P : Program} {f : Nat} (ih : CpSimL arrs Γ P f) :
    ∀ c body body' mEntry mEnd st st' sig,
      frameOK arrs body = true → cpOKL arrs Γ body mEntry = true →
      cpStmts arrs body mEntry = some (body', mEnd) → KeysScalar arrs mEntry →
      (∀ x w, CMap.get mEntry x = some w → x ∉ modNames arrs body) →
      Inv arrs Γ st → Holds mEntry st → whileIter P (f + 1) c body st = .ok st' sig →
      whileIter P (f + 1) c body' st = .ok st' sig ∧ Inv arrs Γ st' ∧ Holds mEntry st' ∧ sig = .normal ∧
        (hasJump body = false → ∀ mX : CMap, (∀ x w, CMap.get mX x = some w → CMap.get mEnd x = some w) →
          Holds mX st → Holds mX st') := by
  intro c body body' mEntry mEnd st st' sig hfr hok hc hk hout hi hm h
  have ha := hi.noAlias
  simp only [whileIter] at h ⊢
  cases hcond : evalE st [] c with
  | none => simp [hcond] at h
  | some vc =>
    cases vc with
    | int _ => simp [hcond] at h
    | real _ => simp [hcond] at h
    | bool bb =>
      cases bb with
      | false =>
        simp only [hcond] at h ⊢
        simp at h
        obtain ⟨e1, e2⟩ := h
        subst e1; subst e2
        exact ⟨rfl, hi, hm, rfl, fun _ mX _ hX => hX⟩
      | true =>
        simp only [hcond] at h ⊢
        cases hb : execStmts P f body st with
        | fuel => simp [hb] at h
        | err e => simp [hb] at h
        | ok st2 sig2 =>
          obtain ⟨hb', hi2, hnorm2, hjump2⟩ := ih.stmts body body' mEntry mEnd st st2 sig2 hok hc hk hi hm hb
          obtain ⟨_, hcells⟩ := (frame arrs P f).stmts body st st2 sig2 hfr ha hb
          have ha2 := hi2.noAlias
          have hm2 : Holds mEntry st2 := holds_frame_body ha ha2 hcells hk hout hm
          rw [hb] at h
          rw [hb']
          cases sig2 with
          | exit =>
            simp at h
            obtain ⟨e1, e2⟩ := h
            subst e1; subst e2
            refine ⟨rfl, hi2, hm2, rfl, ?_⟩
            intro hj
            have := hjump2 hj
            simp at this
          | normal =>
            simp only at h ⊢
            obtain ⟨r1, r2, r3, r4, r5⟩ := ih.whileI c body body' mEntry mEnd st2 st' sig hfr hok hc hk hout hi2 hm2 h
            refine ⟨r1, r2, r3, r4, ?_⟩
            intro hj mX hX _
            have hEnd : Holds mEnd st2 := (hnorm2 rfl).1
            exact r5 hj mX hX (fun x w hg => hEnd x w (hX x w hg))
          | cycle =>
            simp only at h ⊢
            obtain ⟨r1, r2, r3, r4, _⟩ := ih.whileI c body body' mEntry mEnd st2 st' sig hfr hok hc hk hout hi2 hm2 h
            refine ⟨r1, r2, r3, r4, ?_⟩
            intro hj
            have := hjump2 hj
            simp at this

theorem keys_merge_right {arrs : List String} {a b : CMap} (hk : KeysScalar arrs b) :
    KeysScalar arrs (CMap.merge a b) := fun y w hg => hk y w (get_merge hg).2

def stepVal (st : St) : Option Ex → Option Int
  | some e => (evalE st [] e).bind asInt
  | none => some 1

theorem optBind_sound {m : CMap} {st : St} (hm : Holds m st) {stp stp' : Option Ex} {s : Int}
    (hc : optCpE m stp = some stp') (hty : optNoFold m stp = true) (h : stepVal st stp = some s) :
    stepVal st stp' = some s := by
  cases stp with
  | none => simp [optCpE] at hc; subst hc; exact h
  | some e =>
    simp only [optCpE] at hc
    cases he : cpE m e with
    | none => simp [he] at hc
    | some e' =>
      simp [he] at hc; subst hc
      simp only [optNoFold] at hty
      exact bindInt_sound hm he (by simpa using hty) h

theorem hasIter_pos {lo hi : Ex} {stp : Option Ex} {st : St} {l h s : Int} (hit : hasIter lo hi stp = true)
    (hl : (evalE st [] lo).bind asInt = some l) (hh : (evalE st [] hi).bind asInt = some h)
    (hs : stepVal st stp = some s) :
    0 < tripCount l h s := by
  unfold hasIter at hit
  split at hit
  · rename_i l0 h0 hl0 hh0
    have e1 := intConst_bind hl0 hl
    have e2 := intConst_bind hh0 hh
    subst e1; subst e2
    cases stp with
    | none => simp [stepVal] at hs; subst hs; simpa using hit
    | some e =>
      simp only [stepVal] at hit hs
      split at hit
      · rename_i s0 hs0
        have e3 := intConst_bind hs0 hs
        subst e3
        simp only [Bool.and_eq_true] at hit
        simpa using hit.2
      · simp at hit
  · simp at hit

theorem cpSimL_stmts {arrs : List String} {Γ : String → Option Ty} {P : Program} {f : Nat} (ih : CpSimL arrs Γ P f) :
    ∀ ss ss' m m' st st' sig, cpOKL arrs Γ ss m = true → cpStmts arrs ss m = some (ss', m') →
      KeysScalar arrs m → Inv arrs Γ st → Holds m st → execStmts P (f + 1) ss st = .ok st' sig →
      execStmts P (f + 1) ss' st = .ok st' sig ∧ Inv arrs Γ st' ∧
        (sig = .normal → Holds m' st' ∧ KeysScalar arrs m') ∧ (hasJump ss = false → sig = .normal) := by
  intro ss ss' m m' st st' sig hok hc hk hi hm h
  cases ss with
  | nil =>
    simp [cpStmts] at hc
    obtain ⟨e1, e2⟩ := hc
    subst e1; subst e2
    simp [execStmts] at h
    obtain ⟨e1, e2⟩ := h
    subst e1; subst e2
    exact ⟨by simp [execStmts], hi, fun _ => ⟨hm, hk⟩, fun _ => rfl⟩
  | cons s rest =>
    simp only [cpOKL, Bool.and_eq_true] at hok
    obtain ⟨hoks, hokr⟩ := hok
    simp only [cpStmts] at hc
    cases hs : cpStmt arrs s m with
    | none => simp [hs] at hc
    | some p1 =>
      obtain ⟨s', m1⟩ := p1
      simp only [hs] at hokr
      cases hr : cpStmts arrs rest m1 with
      | none => simp [hs, hr] at hc
      | some p2 =>
        obtain ⟨r', m2⟩ := p2
        simp [hs, hr] at hc
        obtain ⟨e1, e2⟩ := hc
        subst e1; subst e2
        simp only [execStmts] at h ⊢
        cases hx : execStmt P f s st with
        | fuel => simp [hx] at h
        | err e => simp [hx] at h
        | ok st1 sig1 =>
          obtain ⟨hx', hi1, hnorm1, hjump1⟩ := ih.stmt s s' m m1 st st1 sig1 hoks hs hk hi hm hx
          rw [hx] at h
          rw [hx']
          cases sig1 with
          | normal =>
            simp only at h ⊢
            obtain ⟨q1, q2, q3, q4⟩ := ih.stmts rest r' m1 m2 st1 st' sig hokr hr (hnorm1 rfl).2 hi1 (hnorm1 rfl).1 h
            refine ⟨q1, q2, q3, ?_⟩
            intro hj
            simp only [hasJump, Bool.or_eq_false_iff] at hj
            exact q4 hj.2
          | exit =>
            simp at h ⊢
            obtain ⟨e1, e2⟩ := h
            subst e1; subst e2
            refine ⟨⟨rfl, rfl⟩, hi1, fun hn => by simp at hn, ?_⟩
            intro hj
            simp only [hasJump, Bool.or_eq_false_iff] at hj
            have := hjump1 hj.1
            simp at this
          | cycle =>
            simp at h ⊢
            obtain ⟨e1, e2⟩ := h
            subst e1; subst e2
            refine ⟨⟨rfl, rfl⟩, hi1, fun hn => by simp at hn, ?_⟩
            intro hj
            simp only [hasJump, Bool.or_eq_false_iff] at hj
            have := hjump1 hj.1
            simp at this

theorem execStmt_do (P : Program) (f : Nat) (v : String) (lo hiE : Ex) (stp : Option Ex) (body : List Stmt) (st : St) :
    execStmt P (f + 1) (.doLoop v lo hiE stp body) st =
      match (evalE st [] lo).bind asInt, (evalE st [] hiE).bind asInt, stepVal st stp with
      | some l, some h, some s => if s = 0 then .err "zero step" else doIter P f v body s (tripCount l h s) l st
      | _, _, _ => .err "do bounds" := by
  cases stp with
  | none =>
    simp only [execStmt, stepVal]
    generalize (evalE st [] lo).bind asInt = a
    generalize (evalE st [] hiE).bind asInt = b
    cases a <;> cases b <;> rfl
  | some e =>
    simp only [execStmt, stepVal]
    generalize (evalE st [] lo).bind asInt = a
    generalize (evalE st [] hiE).bind asInt = b
    generalize (evalE st [] e).bind asInt = c
    cases a <;> cases b <;> cases c <;> rfl

theorem cpSimL_stmt {arrs : List String} {Γ : String → Option Ty} {P : Program} {f : Nat} (ih : CpSimL arrs Γ P f) :
    ∀ s s' m m' st st' sig, cpOKLS arrs Γ s m = true → cpStmt arrs s m = some (s', m') →
      KeysScalar arrs m → Inv arrs Γ st → Holds m st → execStmt P (f + 1) s st = .ok st' sig →
      execStmt P (f + 1) s' st = .ok st' sig ∧ Inv arrs Γ st' ∧
        (sig = .normal → Holds m' st' ∧ KeysScalar arrs m') ∧ (hasJumpS s = false → sig = .normal) := by
  intro s s' m m' st st' sig hok hc hk hi hm h
  cases s with
  | assign l r =>
    simp only [cpStmt] at hc
    simp only [execStmt] at h ⊢
    cases ha : assignStmt st l r with
    | none => simp [ha] at h
    | some st1 =>
      simp [ha] at h
      obtain ⟨e1, e2⟩ := h
      subst e1; subst e2
      obtain ⟨l', r', es, ha', hi', hm'⟩ := cp_assign_sound hi hm (cpOKLS_assign hok) hc ha
      subst es
      simp only [ha']
      exact ⟨trivial, hi', fun _ => ⟨hm', keys_cpAssign hk hc⟩, fun _ => trivial⟩
  | print args =>
    simp [cpStmt] at hc
    obtain ⟨e1, e2⟩ := hc
    subst e1; subst e2
    refine ⟨h, ?_⟩
    simp only [execStmt] at h
    split at h
    · simp at h
      obtain ⟨e1, e2⟩ := h
      subst e1; subst e2
      exact ⟨inv_out hi _, fun _ => ⟨holds_out hm _, hk⟩, fun _ => rfl⟩
    · simp at h
  | nop k t =>
    simp [cpStmt] at hc
    obtain ⟨e1, e2⟩ := hc
    subst e1; subst e2
    refine ⟨h, ?_⟩
    simp [execStmt] at h
    obtain ⟨e1, e2⟩ := h
    subst e1; subst e2
    exact ⟨hi, fun _ => ⟨hm, hk⟩, fun _ => rfl⟩
  | exit =>
    simp [cpStmt] at hc
    obtain ⟨e1, e2⟩ := hc
    subst e1; subst e2
    refine ⟨h, ?_⟩
    simp [execStmt] at h
    obtain ⟨e1, e2⟩ := h
    subst e1; subst e2
    exact ⟨hi, fun hn => by simp at hn, fun hj => by simp [hasJumpS] at hj⟩
  | cycle =>
    simp [cpStmt] at hc
    obtain ⟨e1, e2⟩ := hc
    subst e1; subst e2
    refine ⟨h, ?_⟩
    simp [execStmt] at h
    obtain ⟨e1, e2⟩ := h
    subst e1; subst e2
    exact ⟨hi, fun hn => by simp at hn, fun hj => by simp [hasJumpS] at hj⟩
  | ifte c t e =>
    simp only [cpOKLS, Bool.and_eq_true] at hok
    obtain ⟨⟨hty, hokt⟩, hoke⟩ := hok
    have hty' : typeFold m c = false := by simpa using hty
    simp only [cpStmt] at hc
    cases hcc : cpE m c with
    | none => simp [hcc] at hc
    | some c' =>
      cases hct : cpStmts arrs t m with
      | none => simp [hcc, hct] at hc
      | some pt =>
        obtain ⟨t', mt⟩ := pt
        cases hce : cpStmts arrs e m with
        | none => simp [hcc, hct, hce] at hc
        | some pe =>
          obtain ⟨e', me⟩ := pe
          simp [hcc, hct, hce] at hc
          obtain ⟨e1, e2⟩ := hc
          subst e1; subst e2
          simp only [execStmt] at h ⊢
          split at h
          · rename_i hev
            have hev' := cpE_sound hm [] c c' _ hcc hty' hev
            obtain ⟨hx, hi', hn', hj'⟩ := ih.stmts t t' m mt st st' sig hokt hct hk hi hm h
            simp only [hev']
            refine ⟨hx, hi', fun hn => ⟨fun x v hg => (hn' hn).1 x v (get_merge hg).1, keys_merge_left (hn' hn).2⟩, ?_⟩
            intro hj
            simp only [hasJumpS, Bool.or_eq_false_iff] at hj
            exact hj' hj.1
          · rename_i hev
            have hev' := cpE_sound hm [] c c' _ hcc hty' hev
            obtain ⟨hx, hi', hn', hj'⟩ := ih.stmts e e' m me st st' sig hoke hce hk hi hm h
            simp only [hev']
            refine ⟨hx, hi', fun hn => ⟨fun x v hg => (hn' hn).1 x v (get_merge hg).2, keys_merge_right (hn' hn).2⟩, ?_⟩
            intro hj
            simp only [hasJumpS, Bool.or_eq_false_iff] at hj
            exact hj' hj.2
          · simp at h
  | doLoop v lo hiE stp body =>
    simp only [cpOKLS, Bool.and_eq_true] at hok
    obtain ⟨⟨⟨⟨⟨hv, htlo⟩, hthi⟩, htst⟩, hfr⟩, hokb⟩ := hok
    have hv' : arrs.contains v = false := by simpa using hv
    have htlo' : typeFold m lo = false := by simpa using htlo
    have hthi' : typeFold m hiE = false := by simpa using hthi
    simp only [cpStmt] at hc
    cases hclo : cpE m lo with
    | none => simp [hclo] at hc
    | some lo' =>
      cases hchi : cpE m hiE with
      | none => simp [hclo, hchi] at hc
      | some hi' =>
        cases hcst : optCpE m stp with
        | none => simp [hclo, hchi, hcst] at hc
        | some stp' =>
          cases hcb : cpStmts arrs body (CMap.eraseAll m (v :: modNames arrs body)) with
          | none => simp [hclo, hchi, hcst, hcb] at hc
          | some pb =>
            obtain ⟨body', mEnd⟩ := pb
            simp [hclo, hchi, hcst, hcb] at hc
            obtain ⟨e1, e2⟩ := hc
            subst e1; subst e2
            rw [execStmt_do] at h ⊢
            split at h
            · rename_i l hh s hl hhh hs
              have hl' := bindInt_sound hm hclo htlo' hl
              have hh' := bindInt_sound hm hchi hthi' hhh
              have hs' := optBind_sound hm hcst htst hs
              split at h
              · simp at h
              · rename_i hs0
                have hkE : KeysScalar arrs (CMap.eraseAll m (v :: modNames arrs body)) := keys_eraseAll _ hk
                have hmE : Holds (CMap.eraseAll m (v :: modNames arrs body)) st := holds_eraseAll _ hm
                obtain ⟨r1, r2, r3, r4, r5, r6⟩ := ih.doI v body body' _ mEnd s (tripCount l hh s) l st st' sig hv' hfr hokb hcb hkE
                  (fun x w hg => (get_eraseAll hg).1) hi hmE h
                simp only [hl', hh', hs', hs0, if_false]
                refine ⟨r1, r2, fun _ => ?_, fun _ => r4⟩
                unfold loopExit
                by_cases hj : hasJump body = true
                · simp only [hj, if_true]
                  exact ⟨holds_erase v r3, keys_erase v hkE⟩
                · have hj' : hasJump body = false := by simpa using hj
                  simp only [hj', Bool.false_eq_true, if_false]
                  by_cases hit : hasIter lo' hi' stp' = true
                  · simp only [hit, if_true]
                    have hpos := hasIter_pos hit hl' hh' hs'
                    refine ⟨r6 hj' (CMap.erase mEnd v) (fun x w hg => ⟨(get_erase hg).1, (get_erase hg).2⟩) (Or.inl hpos),
                      keys_erase v (r5 hj' hpos)⟩
                  · simp only [hit, Bool.false_eq_true, if_false]
                    refine ⟨r6 hj' (CMap.erase (CMap.merge m mEnd) v)
                        (fun x w hg => ⟨(get_erase hg).1, (get_merge (get_erase hg).2).2⟩)
                        (Or.inr (fun x w hg => hm x w (get_merge (get_erase hg).2).1)),
                      keys_erase v (keys_merge_left hk)⟩
            · simp at h
  | «while» c body =>
    simp only [cpOKLS, Bool.and_eq_true] at hok
    obtain ⟨hfr, hokb⟩ := hok
    simp only [cpStmt] at hc
    cases hcb : cpStmts arrs body (CMap.eraseAll m (modNames arrs body)) with
    | none => simp [hcb] at hc
    | some pb =>
      obtain ⟨body', mEnd⟩ := pb
      simp [hcb] at hc
      obtain ⟨e1, e2⟩ := hc
      subst e1; subst e2
      simp only [execStmt] at h ⊢
      have hkE : KeysScalar arrs (CMap.eraseAll m (modNames arrs body)) := keys_eraseAll _ hk
      have hmE : Holds (CMap.eraseAll m (modNames arrs body)) st := holds_eraseAll _ hm
      obtain ⟨r1, r2, r3, r4, r5⟩ := ih.whileI c body body' _ mEnd st st' sig hfr hokb hcb hkE
        (fun x w hg => (get_eraseAll hg).1) hi hmE h
      refine ⟨r1, r2, fun _ => ?_, fun _ => r4⟩
      unfold loopExit
      by_cases hj : hasJump body = true
      · simp only [hj, if_true]
        exact ⟨r3, hkE⟩
      · have hj' : hasJump body = false := by simpa using hj
        simp only [hj', Bool.false_eq_true, if_false]
        exact ⟨r5 hj' (CMap.merge m mEnd) (fun x w hg => (get_merge hg).2) (fun x w hg => hm x w (get_merge hg).1),
          keys_merge_left hk⟩
  | _ => simp [cpOKLS] at hok

theorem cpSimL {arrs : List String} {Γ : String → Option Ty} {P : Program} : ∀ f, CpSimL arrs Γ P f
  | 0 => cpSimL_zero arrs Γ P
  | f + 1 => ⟨cpSimL_stmts (cpSimL f), cpSimL_stmt (cpSimL f), cpSimL_doI (cpSimL f), cpSimL_whileI (cpSimL f)⟩

end LokiModel.C32
