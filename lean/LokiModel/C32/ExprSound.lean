import LokiModel.C32.Model
/-!
# Soundness of the expression mapper `cpE` with respect to `evalE`

`Holds m st`: every entry `x ↦ v` of the constants map is true in `st` (`x` is a scalar whose value is `v`).
`cpE_sound`: under `Holds m st`, outside the two type-dependent folds (`typeFold`), whenever the original expression has a
value the rewritten expression has the same value.
-/
namespace LokiModel.C32
open LokiModel.Fir
open LokiModel.Expr (Val CmpOp)

def Holds (m : CMap) (st : St) : Prop :=
  ∀ x v, CMap.get m x = some v → boundsOf st x = none ∧ readAt st x [] = some v

theorem holds_nil (st : St) : Holds [] st := by
  intro x v h; simp [CMap.get] at h

theorem substAtom_sound {m : CMap} {st : St} (h : Holds m st) (a : Ex) (pos : List Nat) :
    evalE st pos (substAtom m a) = evalE st pos a := by
  cases a with
  | var x =>
    simp only [substAtom]
    cases hg : CMap.get m x with
    | none => rfl
    | some v =>
      have ⟨hb, hr⟩ := h x v hg
      simp [evalE, hb, hr]
  | _ => rfl

theorem ilit_eval (st : St) (pos : List Nat) (n : Int) : evalE st pos (ilit n) = some (.int n) := by
  unfold ilit
  split
  · simp [evalE]
  · simp [evalE, Val.neg]

theorem intConst_eval {e : Ex} {x : Int} (h : intConst e = some x) (st : St) (pos : List Nat) :
    evalE st pos e = some (.int x) := by
  unfold intConst at h
  split at h
  · simp at h; subst h; simp [evalE]
  · simp at h; subst h; simp [evalE, Val.neg]
  · simp at h

theorem atomListEq_eq : ∀ (xs ys : List Ex), atomListEq xs ys = true → xs = ys
  | [], [], _ => rfl
  | [], _ :: _, h => by simp [atomListEq] at h
  | x :: xs, [], h => by cases x <;> simp [atomListEq] at h
  | x :: xs, y :: ys, h => by
      cases x <;> cases y <;> simp [atomListEq] at h
      · obtain ⟨h1, h2⟩ := h
        rw [h1, atomListEq_eq xs ys h2]
      · obtain ⟨h1, h2⟩ := h
        rw [h1, atomListEq_eq xs ys h2]

theorem atomEq_eq {a b : Ex} (h : atomEq a b = true) : a = b := by
  cases a <;> cases b <;> simp [atomEq] at h
  · rw [h]
  · rw [h]
  · obtain ⟨h1, h2⟩ := h
    rw [h1, atomListEq_eq _ _ h2]

/-! ### value lemmas (one-directional: the original has a value) -/

theorem add_comm' (a b : Val) : Val.add a b = Val.add b a := by
  cases a <;> cases b <;> simp [Val.add, Val.arith, Int.add_comm, Rat.add_comm]

theorem mul_comm' (a b : Val) : Val.mul a b = Val.mul b a := by
  cases a <;> cases b <;> simp [Val.mul, Val.arith, Int.mul_comm, Rat.mul_comm]

theorem zero_add' {v r : Val} (h : Val.add (.int 0) v = some r) : r = v := by
  cases v <;> simp [Val.add, Val.arith, Rat.intCast_zero, Rat.zero_add] at h <;> exact h.symm

theorem one_mul' {v r : Val} (h : Val.mul (.int 1) v = some r) : r = v := by
  cases v <;> simp [Val.mul, Val.arith, Rat.intCast_one] at h <;> exact h.symm

theorem sub_zero' {v r : Val} (h : Val.sub v (.int 0) = some r) : r = v := by
  cases v <;> simp [Val.sub, Val.arith, Rat.intCast_zero, Rat.sub_eq_add_neg, Rat.add_zero] at h <;> exact h.symm

theorem zero_sub' {v r : Val} (h : Val.sub (.int 0) v = some r) : Val.neg v = some r := by
  cases v <;> simp [Val.sub, Val.arith, Val.neg, Rat.intCast_zero, Rat.sub_eq_add_neg, Rat.zero_add] at h ⊢ <;> exact h

theorem sub_lit' {v r : Val} {y : Int} (h : Val.sub v (.int y) = some r) : Val.add (.int (-y)) v = some r := by
  cases v <;> simp [Val.sub, Val.add, Val.arith, Rat.sub_eq_add_neg, Rat.intCast_neg] at h ⊢
  · rw [← h]; congr 1; omega
  · rw [← h, Rat.add_comm]

theorem add_self' {v r : Val} (h : Val.add v v = some r) : Val.mul (.int 2) v = some r := by
  cases v <;> simp [Val.add, Val.mul, Val.arith] at h ⊢
  · rw [← h]; congr 1; omega
  · rw [← h]; congr 1; grind

theorem cmpRat_int (o : CmpOp) (x y : Int) : Val.cmpRat o (x : Rat) (y : Rat) = cmpInt o x y := by
  cases o <;> simp [Val.cmpRat, cmpInt, Rat.intCast_lt_intCast, Rat.intCast_le_intCast]
  · rw [Bool.eq_iff_iff]; simp [Rat.intCast_inj]
  · rw [Bool.eq_iff_iff]; simp [Rat.intCast_inj]

/-! ### the folds -/

theorem evalBin {st : St} {pos : List Nat} {o : BinOp} {a b : Ex} {r : Val}
    (h : evalE st pos (.bin o a b) = some r) :
    ∃ va vb, evalE st pos a = some va ∧ evalE st pos b = some vb ∧ applyBin o va vb = some r := by
  simp only [evalE] at h
  cases ha : evalE st pos a with
  | none => simp [ha] at h
  | some va =>
    cases hb : evalE st pos b with
    | none => simp [ha, hb] at h
    | some vb => exact ⟨va, vb, rfl, rfl, by simpa [ha, hb] using h⟩

theorem evalBin_mk {st : St} {pos : List Nat} {o : BinOp} {a b : Ex} {va vb r : Val}
    (ha : evalE st pos a = some va) (hb : evalE st pos b = some vb) (hr : applyBin o va vb = some r) :
    evalE st pos (.bin o a b) = some r := by
  simp [evalE, ha, hb, hr]

theorem foldAdd_sound {st : St} {pos : List Nat} {a b e' : Ex} {r : Val}
    (hf : foldAdd a b = some e') (h : evalE st pos (.bin .add a b) = some r) : evalE st pos e' = some r := by
  obtain ⟨va, vb, ha, hb, hr⟩ := evalBin h
  simp only [applyBin] at hr
  unfold foldAdd at hf
  split at hf
  · rename_i x y hx hy
    simp at hf; subst hf
    rw [intConst_eval hx] at ha; rw [intConst_eval hy] at hb
    simp at ha hb; subst ha; subst hb
    simp [Val.add, Val.arith] at hr; subst hr
    exact ilit_eval _ _ _
  · rename_i x hx hy
    split at hf
    · simp at hf
    · simp at hf; subst hf
      rw [intConst_eval hx] at ha; simp at ha; subst ha
      split
      · rename_i h0; subst h0
        rw [zero_add' hr]; exact hb
      · exact evalBin_mk (intConst_eval hx st pos) hb hr
  · rename_i y hx hy
    split at hf
    · split at hf
      · simp at hf
      · simp at hf; subst hf
        rw [intConst_eval hy] at hb; simp at hb; subst hb
        split
        · rename_i h0; subst h0
          rw [add_comm'] at hr
          rw [zero_add' hr]; exact ha
        · rw [add_comm'] at hr
          exact evalBin_mk (intConst_eval hy st pos) ha hr
    · simp at hf
  · split at hf
    · simp at hf
    · simp at hf; subst hf
      split
      · rename_i heq
        have := atomEq_eq heq; subst this
        rw [ha] at hb; simp at hb; subst hb
        exact evalBin_mk (o := .mul) (by simp [evalE]) ha (add_self' hr)
      · exact evalBin_mk ha hb hr

theorem isIntLit_false_of {a : Ex} (h : ∀ x, a ≠ .lit (.int x)) : isIntLit a = false := by
  cases a with
  | lit v => cases v with
    | int i => exact absurd rfl (h i)
    | _ => rfl
  | _ => rfl

theorem foldSub_sound {st : St} {pos : List Nat} {a b e' : Ex} {r : Val}
    (hf : foldSub a b = some e') (hty : (!isIntLit a && !isIntLit b && atomEq a b) = false)
    (h : evalE st pos (.bin .sub a b) = some r) : evalE st pos e' = some r := by
  obtain ⟨va, vb, ha, hb, hr⟩ := evalBin h
  simp only [applyBin] at hr
  unfold foldSub at hf
  split at hf
  · simp at hf; subst hf
    simp [evalE] at ha hb; subst ha; subst hb
    simp [Val.sub, Val.arith] at hr; subst hr
    exact ilit_eval _ _ _
  · rename_i x b' hnb
    split at hf
    · simp at hf
    · simp at hf; subst hf
      simp [evalE] at ha; subst ha
      split
      · rename_i h0; subst h0
        simp only [evalE, hb, Option.bind]
        exact zero_sub' hr
      · exact evalBin_mk (by simp [evalE]) hb hr
  · rename_i a' y hna
    split at hf
    · simp at hf
    · simp at hf; subst hf
      simp [evalE] at hb; subst hb
      split
      · rename_i h0; subst h0
        rw [sub_zero' hr]; exact ha
      · exact evalBin_mk (o := .add) (by simp [evalE, Val.neg]) ha (sub_lit' hr)
  · rename_i _ _ hA hB hC
    split at hf
    · simp at hf
    · simp at hf; subst hf
      have h1 : isIntLit a = false := isIntLit_false_of (fun x hx => hA x hx)
      have h2 : isIntLit b = false := isIntLit_false_of (fun y hy => hB y hy)
      simp [h1, h2] at hty
      simp [hty]
      exact evalBin_mk ha hb hr

theorem isZeroLit_eq {a : Ex} (h : isZeroLit a = true) : a = .lit (.int 0) := by
  cases a with
  | lit v => cases v with
    | int i => simp [isZeroLit] at h; rw [h]
    | _ => simp [isZeroLit] at h
  | _ => simp [isZeroLit] at h

theorem foldMul_sound {st : St} {pos : List Nat} {a b e' : Ex} {r : Val}
    (hf : foldMul a b = some e')
    (hty : ((isZeroLit a && !isIntLit b) || (isZeroLit b && !isIntLit a)) = false)
    (h : evalE st pos (.bin .mul a b) = some r) : evalE st pos e' = some r := by
  obtain ⟨va, vb, ha, hb, hr⟩ := evalBin h
  simp only [applyBin] at hr
  unfold foldMul at hf
  split at hf
  · simp at hf; subst hf
    simp [evalE] at ha hb; subst ha; subst hb
    simp [Val.mul, Val.arith] at hr; subst hr
    simp [evalE]
  · rename_i x b' hnb
    split at hf
    · simp at hf
    · simp at hf; subst hf
      have h2 : isIntLit b = false := isIntLit_false_of (fun y hy => hnb y hy)
      simp [evalE] at ha; subst ha
      split
      · rename_i h0; subst h0
        simp [isZeroLit, h2] at hty
      · split
        · rename_i h1; subst h1
          rw [one_mul' hr]; exact hb
        · exact evalBin_mk (by simp [evalE]) hb hr
  · rename_i a' y hna
    split at hf
    · simp at hf
    · simp at hf; subst hf
      have h1 : isIntLit a = false := isIntLit_false_of (fun x hx => hna x hx)
      simp [evalE] at hb; subst hb
      split
      · rename_i h0; subst h0
        simp [isZeroLit, h1] at hty
      · split
        · rename_i h1'; subst h1'
          rw [mul_comm'] at hr
          rw [one_mul' hr]; exact ha
        · rw [mul_comm'] at hr
          exact evalBin_mk (by simp [evalE]) ha hr
  · split at hf
    · simp at hf
    · simp at hf; subst hf
      exact evalBin_mk ha hb hr

theorem isT_eq {e : Ex} (h : isT e = true) : e = .lit (.bool true) := by
  unfold isT at h; split at h
  · rfl
  · simp at h

theorem isF_eq {e : Ex} (h : isF e = true) : e = .lit (.bool false) := by
  unfold isF at h; split at h
  · rfl
  · simp at h

/-- **soundness of the mapper**: under a map that holds in `st`, outside the type-dependent folds, a value of the
original expression is a value of the rewritten one -/
theorem cpE_sound {m : CMap} {st : St} (hm : Holds m st) (pos : List Nat) :
    ∀ (e e' : Ex) (r : Val), cpE m e = some e' → typeFold m e = false → evalE st pos e = some r →
      evalE st pos e' = some r
  | .lit v => by intro e' r hc _ h; simp only [cpE] at hc; split at hc <;> simp at hc; subst hc; exact h
  | .var x => by intro e' r hc _ h; simp only [cpE] at hc; simp at hc; subst hc; rw [substAtom_sound hm]; exact h
  | .idx a subs => by intro e' r hc _ h; simp only [cpE] at hc; simp at hc; subst hc; exact h
  | .sec a dims => by intro e' r hc; simp [cpE] at hc
  | .call f args => by intro e' r hc; simp [cpE] at hc
  | .neg a => by
    intro e' r hc _ h
    simp only [cpE] at hc
    split at hc
    · simp at hc
    · have hs := substAtom_sound hm a pos
      simp only [evalE] at h
      rw [← hs] at h
      split at hc
      · rename_i x hx
        simp at hc; subst hc
        rw [hx] at h
        simp [evalE, Val.neg] at h
        split
        · rename_i h0; subst h0; simp [evalE]; simpa using h
        · simp [evalE, Val.neg]; exact h
      · simp at hc
      · simp at hc; subst hc
        simp only [evalE]; exact h
  | .not a => by
    have ih := cpE_sound hm pos a
    intro e' r hc hty h
    simp only [cpE] at hc
    simp only [typeFold] at hty
    cases hca : cpE m a with
    | none => simp [hca] at hc
    | some a' =>
      simp only [hca] at hc
      simp only [evalE] at h
      cases hva : evalE st pos a with
      | none => simp [hva] at h
      | some va =>
        have ha' := ih a' va hca hty hva
        simp [hva] at h
        split at hc
        · rename_i ht
          simp at hc; subst hc
          rw [isT_eq ht] at ha'; simp [evalE] at ha'; subst ha'
          simp [Val.lnot] at h; simp [evalE, h]
        · split at hc
          · rename_i hf
            simp at hc; subst hc
            rw [isF_eq hf] at ha'; simp [evalE] at ha'; subst ha'
            simp [Val.lnot] at h; simp [evalE, h]
          · simp at hc; subst hc
            simp [evalE, ha', h]
  | .bin o a b => by
    have iha := cpE_sound hm pos a
    have ihb := cpE_sound hm pos b
    intro e' r hc hty h
    cases o with
    | add =>
      simp only [cpE] at hc
      split at hc
      · simp at hc
      · split at hc
        · simp at hc
        · apply foldAdd_sound hc
          obtain ⟨va, vb, ha, hb, hr⟩ := evalBin h
          exact evalBin_mk (by rw [substAtom_sound hm]; exact ha) (by rw [substAtom_sound hm]; exact hb) hr
    | sub =>
      simp only [cpE] at hc
      simp only [typeFold] at hty
      split at hc
      · simp at hc
      · split at hc
        · simp at hc
        · apply foldSub_sound hc hty
          obtain ⟨va, vb, ha, hb, hr⟩ := evalBin h
          exact evalBin_mk (by rw [substAtom_sound hm]; exact ha) (by rw [substAtom_sound hm]; exact hb) hr
    | mul =>
      simp only [cpE] at hc
      simp only [typeFold] at hty
      split at hc
      · simp at hc
      · split at hc
        · simp at hc
        · apply foldMul_sound hc hty
          obtain ⟨va, vb, ha, hb, hr⟩ := evalBin h
          exact evalBin_mk (by rw [substAtom_sound hm]; exact ha) (by rw [substAtom_sound hm]; exact hb) hr
    | div => simp [cpE] at hc
    | pow => simp [cpE] at hc
    | cmp c =>
      simp only [cpE] at hc
      split at hc
      · simp at hc
      · obtain ⟨va, vb, ha, hb, hr⟩ := evalBin h
        rw [← substAtom_sound hm a pos] at ha
        rw [← substAtom_sound hm b pos] at hb
        split at hc
        · simp at hc
        · simp at hc
        · split at hc
          · rename_i x y hx hy
            simp at hc; subst hc
            rw [intConst_eval hx] at ha; rw [intConst_eval hy] at hb
            simp at ha hb; subst ha; subst hb
            simp [applyBin, Val.cmp, Val.toRat?, cmpRat_int] at hr
            simp [evalE, hr]
          · simp at hc; subst hc
            exact evalBin_mk ha hb hr
    | and =>
      simp only [cpE] at hc
      simp only [typeFold, Bool.or_eq_false_iff] at hty
      cases hca : cpE m a with
      | none => simp [hca] at hc
      | some a' =>
        cases hcb : cpE m b with
        | none => simp [hca, hcb] at hc
        | some b' =>
          simp only [hca, hcb] at hc
          obtain ⟨va, vb, ha, hb, hr⟩ := evalBin h
          have ha' := iha a' va hca hty.1 ha
          have hb' := ihb b' vb hcb hty.2 hb
          simp only [applyBin] at hr
          split at hc
          · rename_i hff
            simp at hc; subst hc
            rcases (Bool.or_eq_true _ _).mp hff with hf | hf
            · rw [isF_eq hf] at ha'; simp [evalE] at ha'; subst ha'
              cases vb <;> simp [Val.land] at hr
              simp [evalE, hr]
            · rw [isF_eq hf] at hb'; simp [evalE] at hb'; subst hb'
              cases va <;> simp [Val.land] at hr
              simp [evalE, hr]
          · split at hc
            · rename_i ht
              simp at hc; subst hc
              rw [isT_eq ht] at ha'; simp [evalE] at ha'; subst ha'
              cases vb <;> simp [Val.land] at hr
              rw [hb', ← hr]
            · split at hc
              · rename_i ht
                simp at hc; subst hc
                rw [isT_eq ht] at hb'; simp [evalE] at hb'; subst hb'
                cases va <;> simp [Val.land] at hr
                rw [ha', ← hr]
              · simp at hc; subst hc
                exact evalBin_mk ha' hb' hr
    | or =>
      simp only [cpE] at hc
      simp only [typeFold, Bool.or_eq_false_iff] at hty
      cases hca : cpE m a with
      | none => simp [hca] at hc
      | some a' =>
        cases hcb : cpE m b with
        | none => simp [hca, hcb] at hc
        | some b' =>
          simp only [hca, hcb] at hc
          obtain ⟨va, vb, ha, hb, hr⟩ := evalBin h
          have ha' := iha a' va hca hty.1 ha
          have hb' := ihb b' vb hcb hty.2 hb
          simp only [applyBin] at hr
          split at hc
          · rename_i hff
            simp at hc; subst hc
            rcases (Bool.or_eq_true _ _).mp hff with hf | hf
            · rw [isT_eq hf] at ha'; simp [evalE] at ha'; subst ha'
              cases vb <;> simp [Val.lor] at hr
              simp [evalE, hr]
            · rw [isT_eq hf] at hb'; simp [evalE] at hb'; subst hb'
              cases va <;> simp [Val.lor] at hr
              simp [evalE, hr]
          · split at hc
            · rename_i ht
              simp at hc; subst hc
              rw [isF_eq ht] at ha'; simp [evalE] at ha'; subst ha'
              cases vb <;> simp [Val.lor] at hr
              rw [hb', ← hr]
            · split at hc
              · rename_i ht
                simp at hc; subst hc
                rw [isF_eq ht] at hb'; simp [evalE] at hb'; subst hb'
                cases va <;> simp [Val.lor] at hr
                rw [ha', ← hr]
              · simp at hc; subst hc
                exact evalBin_mk ha' hb' hr

theorem isLogicalShape_noTypeFold (m : CMap) : ∀ e, isLogicalShape e = true → typeFold m e = false
  | .bin o a b => by
    intro h
    have iha := isLogicalShape_noTypeFold m a
    have ihb := isLogicalShape_noTypeFold m b
    cases o <;> simp [isLogicalShape] at h <;> simp [typeFold]
    · exact ⟨iha h.1, ihb h.2⟩
    · exact ⟨iha h.1, ihb h.2⟩
  | .not a => by intro h; simp [isLogicalShape] at h; simp [typeFold]; exact isLogicalShape_noTypeFold m a h
  | .lit _ => by intro _; simp [typeFold]
  | .var _ => by intro _; simp [typeFold]
  | .idx _ _ => by intro _; simp [typeFold]
  | .sec _ _ => by intro _; simp [typeFold]
  | .neg _ => by intro _; simp [typeFold]
  | .call _ _ => by intro _; simp [typeFold]

end LokiModel.C32
