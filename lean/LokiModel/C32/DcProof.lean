import LokiModel.C32.ExprSound
import LokiModel.Fir.Fuel
/-!
# Dead-code removal preserves execution (simulation proof)

`P'` is `P` with every unit body replaced by its `dcStmts` image (`UnitsRel`).  `Sim f` says: whatever the four mutually
recursive interpreter functions of `P` compute with fuel `f` (a finished, non-error run), the corresponding function of
`P'` computes on the transformed statements with some fuel.  Pruned branches are spliced into the enclosing list, so the
fuel needed differs; `Fir/Fuel.lean` (monotonicity) aligns the fuels of the parts.
-/
namespace LokiModel.C32
open LokiModel.Fir
open LokiModel.Expr (Val CmpOp)

/-! ### generic facts about statement lists -/

theorem execStmts_nil (Q : Program) (f : Nat) (st : St) : execStmts Q (f + 1) [] st = .ok st .normal := by
  simp [execStmts]

theorem execStmts_pos {Q : Program} {f : Nat} {ss : List Stmt} {st st' : St} {sig : Sig}
    (h : execStmts Q f ss st = .ok st' sig) : ∃ g, f = g + 1 := by
  cases f with
  | zero => simp [execStmts] at h
  | succ g => exact ⟨g, rfl⟩

theorem execStmt_pos {Q : Program} {f : Nat} {s : Stmt} {st st' : St} {sig : Sig}
    (h : execStmt Q f s st = .ok st' sig) : ∃ g, f = g + 1 := by
  cases f with
  | zero => simp [execStmt] at h
  | succ g => exact ⟨g, rfl⟩

theorem ok_notFuel {st : St} {sig : Sig} : (Res.ok st sig).isFuel = false := rfl

theorem single {Q : Program} {f : Nat} {s : Stmt} {st st' : St} {sig : Sig}
    (h : execStmt Q f s st = .ok st' sig) : execStmts Q (f + 1) [s] st = .ok st' sig := by
  obtain ⟨g, hg⟩ := execStmt_pos h
  subst hg
  simp only [execStmts, h]
  cases sig <;> simp [execStmts]

theorem append_normal {Q : Program} {b : List Stmt} {f2 : Nat} {st1 : St} {r : Res}
    (hb : execStmts Q f2 b st1 = r) (hr : r.isFuel = false) :
    ∀ (a : List Stmt) (f1 : Nat) (st : St), execStmts Q f1 a st = .ok st1 .normal →
      execStmts Q (f1 + f2) (a ++ b) st = r := by
  intro a
  induction a with
  | nil =>
    intro f1 st h
    obtain ⟨g, hg⟩ := execStmts_pos h
    subst hg
    simp [execStmts] at h
    subst h
    simp only [List.nil_append]
    rw [execStmts_mono Q (f := f2) (f' := g + 1 + f2) (by omega) b st (by rw [hb]; exact hr), hb]
  | cons s a ih =>
    intro f1 st h
    obtain ⟨g, hg⟩ := execStmts_pos h
    subst hg
    simp only [execStmts] at h
    cases hs : execStmt Q g s st with
    | fuel => simp [hs] at h
    | err m => simp [hs] at h
    | ok st2 sig =>
      rw [hs] at h
      cases sig with
      | normal =>
        simp only at h
        have := ih g st2 h
        have e : g + 1 + f2 = (g + f2) + 1 := by omega
        rw [e]
        simp only [List.cons_append, execStmts]
        rw [execStmt_mono Q (f := g) (f' := g + f2) (by omega) s st (by rw [hs]; rfl), hs]
        exact this
      | exit => simp at h
      | cycle => simp at h

theorem append_sig {Q : Program} (b : List Stmt) {st1 : St} {sig : Sig} (hsig : sig ≠ .normal) :
    ∀ (a : List Stmt) (f1 : Nat) (st : St), execStmts Q f1 a st = .ok st1 sig →
      execStmts Q f1 (a ++ b) st = .ok st1 sig := by
  intro a
  induction a with
  | nil =>
    intro f1 st h
    obtain ⟨g, hg⟩ := execStmts_pos h
    subst hg
    simp [execStmts] at h
    exact absurd h.2.symm hsig
  | cons s a ih =>
    intro f1 st h
    obtain ⟨g, hg⟩ := execStmts_pos h
    subst hg
    simp only [execStmts, List.cons_append] at h ⊢
    cases hs : execStmt Q g s st with
    | fuel => simp [hs] at h
    | err m => simp [hs] at h
    | ok st2 sig2 =>
      rw [hs] at h
      cases sig2 with
      | normal => simp only at h ⊢; exact ih g st2 h
      | exit => simpa using h
      | cycle => simpa using h

theorem whileIter_mono (p : Program) {f f' : Nat} (hle : f ≤ f') (c body st)
    (h : (whileIter p f c body st).isFuel = false) :
    whileIter p f' c body st = whileIter p f c body st := by
  induction hle with
  | refl => rfl
  | step hle ih => rw [(mono p _).whileI c body st (by rw [ih]; exact h), ih]

/-! ### the transformed program -/

/-- `P'` has the same units as `P` with `dcStmts` applied to every body -/
def UnitsRel (b : Bool) (P P' : Program) : Prop :=
  ∀ g, match findUnit P g with
    | none => findUnit P' g = none
    | some u => ∃ body', dcStmts b u.body = some body' ∧ findUnit P' g = some { u with body := body' }

theorem dcUnits_find (b : Bool) (g : String) : ∀ (us us' : List Fir.Unit), dcUnits b us = some us' →
    match us.find? (·.name == g) with
    | none => us'.find? (·.name == g) = none
    | some u => ∃ body', dcStmts b u.body = some body' ∧ us'.find? (·.name == g) = some { u with body := body' }
  | [], us', h => by simp [dcUnits] at h; subst h; simp
  | u :: us, us', h => by
      simp only [dcUnits] at h
      cases hb : dcStmts b u.body with
      | none => simp [hb] at h
      | some body' =>
        cases hr : dcUnits b us with
        | none => simp [hb, hr] at h
        | some r =>
          simp [hb, hr] at h
          subst h
          have ih := dcUnits_find b g us r hr
          by_cases hn : (u.name == g) = true
          · simp only [List.find?, hn]
            exact ⟨body', hb, rfl⟩
          · simp only [List.find?, hn]
            exact ih

theorem dcProgram_rel {b : Bool} {P P' : Program} (h : dcProgram b P = some P') : UnitsRel b P P' := by
  simp only [dcProgram] at h
  cases hu : dcUnits b P.units with
  | none => simp [hu] at h
  | some us' =>
    simp [hu] at h
    subst h
    intro g
    exact dcUnits_find b g P.units us' hu

theorem dcCases_find (b : Bool) (i : Int) : ∀ (cs cs' : List (List Int × List Stmt)), dcCases b cs = some cs' →
    match cs.find? (fun c => c.1.contains i) with
    | none => cs'.find? (fun c => c.1.contains i) = none
    | some c => ∃ body', dcStmts b c.2 = some body' ∧ cs'.find? (fun c => c.1.contains i) = some (c.1, body')
  | [], cs', h => by simp [dcCases] at h; subst h; simp
  | (vs, body) :: cs, cs', h => by
      simp only [dcCases] at h
      cases hb : dcStmts b body with
      | none => simp [hb] at h
      | some body' =>
        cases hr : dcCases b cs with
        | none => simp [hb, hr] at h
        | some r =>
          simp [hb, hr] at h
          subst h
          have ih := dcCases_find b i cs r hr
          by_cases hn : vs.contains i = true
          · simp only [List.find?, hn]
            exact ⟨body', hb, rfl⟩
          · simp only [List.find?, hn]
            exact ih

/-- the condition rewriting used by `dcStmt` is sound -/
theorem dcCond_sound {b : Bool} {c c' : Ex} {st : St} {r : Val}
    (hc : dcCond b c = some c')
    (h : evalE st [] c = some r) : evalE st [] c' = some r := by
  unfold dcCond at hc
  cases b with
  | false => simp at hc; subst hc; exact h
  | true =>
    simp only [if_true] at hc
    split at hc
    · rename_i hl
      exact cpE_sound (holds_nil st) [] c c' r hc (isLogicalShape_noTypeFold [] c hl) h
    · simp at hc

theorem isCmpOperand_noTypeFold (m : CMap) (e : Ex) (h : isCmpOperand e = true) : typeFold m e = false := by
  cases e with
  | bin o a b => simp [isCmpOperand, isAtom] at h
  | not a => simp [isCmpOperand, isAtom] at h
  | _ => simp [typeFold]

theorem dcSel_sound {b : Bool} {e e' : Ex} {st : St} {r : Val}
    (hc : dcSel b e = some e')
    (h : evalE st [] e = some r) : evalE st [] e' = some r := by
  unfold dcSel at hc
  split at hc
  · rename_i hl
    cases b with
    | false => simp at hc; subst hc; exact h
    | true =>
      simp only [if_true] at hc
      exact cpE_sound (holds_nil st) [] e e' r hc (isCmpOperand_noTypeFold [] e hl) h
  · simp at hc

/-! ### the simulation -/

structure Sim (b : Bool) (P P' : Program) (f : Nat) : Prop where
  stmts : ∀ ss ss' st st' sig, dcStmts b ss = some ss' → execStmts P f ss st = .ok st' sig →
      ∃ f', execStmts P' f' ss' st = .ok st' sig
  stmt : ∀ s ss' st st' sig, dcStmt b s = some ss' → execStmt P f s st = .ok st' sig →
      ∃ f', execStmts P' f' ss' st = .ok st' sig
  doI : ∀ v body body' step n cur st st' sig, dcStmts b body = some body' →
      doIter P f v body step n cur st = .ok st' sig → ∃ f', doIter P' f' v body' step n cur st = .ok st' sig
  whileI : ∀ c body body' st st' sig, dcStmts b body = some body' →
      whileIter P f c body st = .ok st' sig → ∃ f', whileIter P' f' c body' st = .ok st' sig

theorem sim_zero (b : Bool) (P P' : Program) : Sim b P P' 0 := by
  constructor
  · intro ss ss' st st' sig _ h; simp [execStmts] at h
  · intro s ss' st st' sig _ h; simp [execStmt] at h
  · intro v body body' step n cur st st' sig _ h; simp [doIter] at h
  · intro c body body' st st' sig _ h; simp [whileIter] at h

/-- statements that `dcStmt` leaves alone and whose execution does not look at the program -/
theorem simple_stmt {P P' : Program} {f : Nat} {s : Stmt} {st st' : St} {sig : Sig}
    (hsame : ∀ g, execStmt P' (g + 1) s st = execStmt P (g + 1) s st)
    (h : execStmt P (f + 1) s st = .ok st' sig) : ∃ f', execStmts P' f' [s] st = .ok st' sig :=
  ⟨f + 2, single (by rw [hsame]; exact h)⟩

theorem sim_stmts {b : Bool} {P P' : Program} {f : Nat} (ih : Sim b P P' f) :
    ∀ ss ss' st st' sig, dcStmts b ss = some ss' → execStmts P (f + 1) ss st = .ok st' sig →
      ∃ f', execStmts P' f' ss' st = .ok st' sig := by
  intro ss ss' st st' sig hd h
  cases ss with
  | nil =>
    simp [dcStmts] at hd; subst hd
    simp [execStmts] at h
    exact ⟨1, by simp [execStmts, h.1, h.2]⟩
  | cons s rest =>
    simp only [dcStmts] at hd
    cases ha : dcStmt b s with
    | none => simp [ha] at hd
    | some a =>
      cases hb : dcStmts b rest with
      | none => simp [ha, hb] at hd
      | some bb =>
        simp [ha, hb] at hd
        subst hd
        simp only [execStmts] at h
        cases hs : execStmt P f s st with
        | fuel => simp [hs] at h
        | err m => simp [hs] at h
        | ok st1 sig1 =>
          rw [hs] at h
          obtain ⟨f1, h1⟩ := ih.stmt s a st st1 sig1 ha hs
          cases sig1 with
          | normal =>
            simp only at h
            obtain ⟨f2, h2⟩ := ih.stmts rest bb st1 st' sig hb h
            exact ⟨f1 + f2, append_normal h2 rfl a f1 st h1⟩
          | exit =>
            simp at h
            obtain ⟨e1, e2⟩ := h
            subst e1; subst e2
            exact ⟨f1, append_sig bb (by simp) a f1 st h1⟩
          | cycle =>
            simp at h
            obtain ⟨e1, e2⟩ := h
            subst e1; subst e2
            exact ⟨f1, append_sig bb (by simp) a f1 st h1⟩

theorem sim_doI {b : Bool} {P P' : Program} {f : Nat} (ih : Sim b P P' f) :
    ∀ v body body' step n cur st st' sig, dcStmts b body = some body' →
      doIter P (f + 1) v body step n cur st = .ok st' sig → ∃ f', doIter P' f' v body' step n cur st = .ok st' sig := by
  intro v body body' step n cur st st' sig hd h
  simp only [doIter] at h
  cases hw : writeAt st v [] (.int cur) with
  | none => simp [hw] at h
  | some st1 =>
    simp only [hw] at h
    cases n with
    | zero =>
      simp at h
      exact ⟨1, by simp [doIter, hw, h.1, h.2]⟩
    | succ n' =>
      simp only at h
      cases hb : execStmts P f body st1 with
      | fuel => simp [hb] at h
      | err m => simp [hb] at h
      | ok st2 sig2 =>
        rw [hb] at h
        obtain ⟨f1, h1⟩ := ih.stmts body body' st1 st2 sig2 hd hb
        cases sig2 with
        | exit =>
          simp at h
          exact ⟨f1 + 1, by simp [doIter, hw, h1, h.1, h.2]⟩
        | normal =>
          simp only at h
          obtain ⟨f2, h2⟩ := ih.doI v body body' step n' (cur + step) st2 st' sig hd h
          refine ⟨max f1 f2 + 1, ?_⟩
          simp only [doIter, hw]
          rw [execStmts_mono P' (f := f1) (f' := max f1 f2) (by omega) body' st1 (by rw [h1]; rfl), h1]
          simp only
          rw [doIter_mono P' (f := f2) (f' := max f1 f2) (by omega) v body' step n' (cur + step) st2 (by rw [h2]; rfl), h2]
        | cycle =>
          simp only at h
          obtain ⟨f2, h2⟩ := ih.doI v body body' step n' (cur + step) st2 st' sig hd h
          refine ⟨max f1 f2 + 1, ?_⟩
          simp only [doIter, hw]
          rw [execStmts_mono P' (f := f1) (f' := max f1 f2) (by omega) body' st1 (by rw [h1]; rfl), h1]
          simp only
          rw [doIter_mono P' (f := f2) (f' := max f1 f2) (by omega) v body' step n' (cur + step) st2 (by rw [h2]; rfl), h2]

theorem sim_whileI {b : Bool} {P P' : Program} {f : Nat} (ih : Sim b P P' f) :
    ∀ c body body' st st' sig, dcStmts b body = some body' →
      whileIter P (f + 1) c body st = .ok st' sig → ∃ f', whileIter P' f' c body' st = .ok st' sig := by
  intro c body body' st st' sig hd h
  simp only [whileIter] at h
  split at h
  · rename_i hc
    cases hb : execStmts P f body st with
    | fuel => simp [hb] at h
    | err m => simp [hb] at h
    | ok st2 sig2 =>
      rw [hb] at h
      obtain ⟨f1, h1⟩ := ih.stmts body body' st st2 sig2 hd hb
      cases sig2 with
      | exit =>
        simp at h
        exact ⟨f1 + 1, by simp [whileIter, hc, h1, h.1, h.2]⟩
      | normal =>
        simp only at h
        obtain ⟨f2, h2⟩ := ih.whileI c body body' st2 st' sig hd h
        refine ⟨max f1 f2 + 1, ?_⟩
        simp only [whileIter, hc]
        rw [execStmts_mono P' (f := f1) (f' := max f1 f2) (by omega) body' st (by rw [h1]; rfl), h1]
        simp only
        rw [whileIter_mono P' (f := f2) (f' := max f1 f2) (by omega) c body' st2 (by rw [h2]; rfl), h2]
      | cycle =>
        simp only at h
        obtain ⟨f2, h2⟩ := ih.whileI c body body' st2 st' sig hd h
        refine ⟨max f1 f2 + 1, ?_⟩
        simp only [whileIter, hc]
        rw [execStmts_mono P' (f := f1) (f' := max f1 f2) (by omega) body' st (by rw [h1]; rfl), h1]
        simp only
        rw [whileIter_mono P' (f := f2) (f' := max f1 f2) (by omega) c body' st2 (by rw [h2]; rfl), h2]
  · rename_i hc
    simp at h
    obtain ⟨e1, e2⟩ := h
    subst e1; subst e2
    exact ⟨1, by simp [whileIter, hc]⟩
  · simp at h

theorem sim_stmt {b : Bool} {P P' : Program} (hrel : UnitsRel b P P') {f : Nat} (ih : Sim b P P' f) :
    ∀ s ss' st st' sig, dcStmt b s = some ss' → execStmt P (f + 1) s st = .ok st' sig →
      ∃ f', execStmts P' f' ss' st = .ok st' sig := by
  intro s ss' st st' sig hd h
  cases s with
  | assign l r =>
    simp [dcStmt] at hd; subst hd
    exact simple_stmt (fun g => by simp [execStmt]) h
  | print args =>
    simp [dcStmt] at hd; subst hd
    exact simple_stmt (fun g => by simp [execStmt]) h
  | exit =>
    simp [dcStmt] at hd; subst hd
    exact simple_stmt (fun g => by simp [execStmt]) h
  | cycle =>
    simp [dcStmt] at hd; subst hd
    exact simple_stmt (fun g => by simp [execStmt]) h
  | nop k t =>
    simp [dcStmt] at hd; subst hd
    exact simple_stmt (fun g => by simp [execStmt]) h
  | doLoop v lo hi stp body =>
    simp only [dcStmt] at hd
    cases hb : dcStmts b body with
    | none => simp [hb] at hd
    | some body' =>
      simp [hb] at hd; subst hd
      simp only [execStmt] at h
      split at h
      · rename_i l hh s hl hhh hs
        split at h
        · simp at h
        · rename_i hs0
          obtain ⟨f1, h1⟩ := ih.doI v body body' s (tripCount l hh s) l st st' sig hb h
          exact ⟨f1 + 2, single (by simp only [execStmt, hl, hhh, hs, hs0, if_false]; exact h1)⟩
      · simp at h
  | «while» c body =>
    simp only [dcStmt] at hd
    cases hb : dcStmts b body with
    | none => simp [hb] at hd
    | some body' =>
      simp [hb] at hd; subst hd
      simp only [execStmt] at h
      obtain ⟨f1, h1⟩ := ih.whileI c body body' st st' sig hb h
      exact ⟨f1 + 2, single (by simp only [execStmt]; exact h1)⟩
  | assoc binds body =>
    simp only [dcStmt] at hd
    cases hb : dcStmts b body with
    | none => simp [hb] at hd
    | some body' =>
      simp [hb] at hd; subst hd
      simp only [execStmt] at h
      split at h
      · rename_i st1 hbind
        cases hx : execStmts P f body st1 with
        | fuel => simp [hx] at h
        | err m => simp [hx] at h
        | ok st2 sig2 =>
          obtain ⟨f1, h1⟩ := ih.stmts body body' st1 st2 sig2 hb hx
          rw [hx] at h
          exact ⟨f1 + 2, single (by simp only [execStmt, hbind, h1]; exact h)⟩
      · simp at h
  | ifte c thn els =>
    simp only [dcStmt] at hd
    cases ht : dcStmts b thn with
    | none => simp [ht] at hd
    | some t' =>
      cases he : dcStmts b els with
      | none => simp [ht, he] at hd
      | some e' =>
        cases hc : dcCond b c with
        | none => simp [ht, he, hc] at hd
        | some c' =>
          simp only [ht, he, hc, Option.bind_eq_bind, Option.bind] at hd
          simp only [execStmt] at h
          split at h
          · -- condition true
            rename_i hev
            have hev' := dcCond_sound hc hev
            obtain ⟨f1, h1⟩ := ih.stmts thn t' st st' sig ht h
            split at hd
            · simp at hd; subst hd; exact ⟨f1, h1⟩
            · simp [evalE] at hev'
            · simp at hd; subst hd
              exact ⟨f1 + 2, single (by simp only [execStmt, hev']; exact h1)⟩
          · rename_i hev
            have hev' := dcCond_sound hc hev
            obtain ⟨f1, h1⟩ := ih.stmts els e' st st' sig he h
            split at hd
            · simp [evalE] at hev'
            · simp at hd; subst hd; exact ⟨f1, h1⟩
            · simp at hd; subst hd
              exact ⟨f1 + 2, single (by simp only [execStmt, hev']; exact h1)⟩
          · simp at h
  | select e cases dflt =>
    simp only [dcStmt] at hd
    cases hc : dcSel b e with
    | none => simp [hc] at hd
    | some e' =>
      cases hcs : dcCases b cases with
      | none => simp [hc, hcs] at hd
      | some cs' =>
        cases hdf : dcStmts b dflt with
        | none => simp [hc, hcs, hdf] at hd
        | some d' =>
          simp only [hc, hcs, hdf, Option.bind_eq_bind, Option.bind] at hd
          simp only [execStmt] at h
          split at h
          · rename_i i hev
            cases hv : evalE st [] e with
            | none => simp [hv] at hev
            | some v =>
              have hev' := dcSel_sound hc hv
              have hi : (evalE st [] e').bind asInt = some i := by rw [hev']; rw [hv] at hev; exact hev
              have hfind := dcCases_find b i cases cs' hcs
              -- the kept SELECT executes like the original one
              have keep : ∃ f', execStmts P' f' [Stmt.select e' cs' d'] st = .ok st' sig := by
                split at h
                · rename_i c hf
                  rw [hf] at hfind
                  obtain ⟨body', hb', hf'⟩ := hfind
                  obtain ⟨f1, h1⟩ := ih.stmts c.2 body' st st' sig hb' h
                  exact ⟨f1 + 2, single (by simp only [execStmt, hi, hf']; exact h1)⟩
                · rename_i hf
                  rw [hf] at hfind
                  obtain ⟨f1, h1⟩ := ih.stmts dflt d' st st' sig hdf h
                  exact ⟨f1 + 2, single (by simp only [execStmt, hi, hfind]; exact h1)⟩
              split at hd
              · simp at hd; subst hd; exact keep
              · split at hd
                · rename_i cc hcc
                  have hcv := intConst_eval hcc st []
                  rw [hev'] at hcv
                  simp at hcv; subst hcv
                  rw [hv] at hev
                  simp [asInt] at hev; subst hev
                  split at hd
                  · rename_i p hp
                    simp at hd; subst hd
                    split at h
                    · rename_i c hf
                      rw [hf] at hfind
                      obtain ⟨body', hb', hf'⟩ := hfind
                      rw [hf'] at hp
                      simp at hp; subst hp
                      exact ih.stmts c.2 body' st st' sig hb' h
                    · rename_i hf
                      rw [hf] at hfind
                      rw [hfind] at hp
                      simp at hp
                  · simp at hd; subst hd; exact keep
                · simp at hd
          · simp at h
  | callSub g args =>
    simp [dcStmt] at hd; subst hd
    have hr := hrel g
    simp only [execStmt] at h
    cases hu : findUnit P g with
    | none => simp [hu] at h
    | some u =>
      rw [hu] at hr
      obtain ⟨body', hb', hu'⟩ := hr
      simp only [hu] at h
      split at h
      · simp at h
      · rename_i hlen
        split at h
        · simp at h
        · rename_i fargs hfa
          split at h
          · simp at h
          · rename_i cs hcs
            cases hx : execStmts P f u.body cs with
            | fuel => simp [hx] at h
            | err m => simp [hx] at h
            | ok cs' sig2 =>
              obtain ⟨f1, h1⟩ := ih.stmts u.body body' cs cs' sig2 hb' hx
              rw [hx] at h
              refine ⟨f1 + 2, single ?_⟩
              simp only [execStmt, hu', hlen, if_false, hfa]
              have hfd : ∀ x, findDecl { name := u.name, args := u.args, decls := u.decls, body := body' } x
                  = findDecl u x := fun x => rfl
              simp only [hfd, hcs, h1]
              exact h

theorem sim_succ {b : Bool} {P P' : Program} (hrel : UnitsRel b P P') {f : Nat} (ih : Sim b P P' f) :
    Sim b P P' (f + 1) :=
  ⟨sim_stmts ih, sim_stmt hrel ih, sim_doI ih, sim_whileI ih⟩

theorem sim {b : Bool} {P P' : Program} (hrel : UnitsRel b P P') : ∀ f, Sim b P P' f
  | 0 => sim_zero b P P'
  | f + 1 => sim_succ hrel (sim hrel f)

end LokiModel.C32
