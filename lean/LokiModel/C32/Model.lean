import LokiModel.Fir.Sem
/-!
# C32 model: dead-code removal and constant propagation on FIR programs

Mirrors (for the part of FIR described below)

* `loki/transformations/remove_code.py`: `RemoveDeadCodeTransformer.visit_Conditional / visit_MultiConditional`
  (`do_remove_dead_code`) — `dcStmts`;
* `loki/transformations/constant_propagation.py`: `ConstantPropagationMapper` (`cpE`), `ConstantPropagationTransformer.
  visit_Assignment / visit_Conditional / visit_Loop / visit_WhileLoop / visit_CallStatement` (as repaired by the fix:
  commits be169e3, 7abc3d8) and the generic `Transformer` traversal of every other node kind (`cpStmts`),
  `generate_declarations_map` (`declMap`) — open defects included (see `LokiModel/Findings/C32.lean`).

## Covered expression class (`cpE` returns `none` outside it)

`ConstantPropagationMapper` is `SimplifyMapper` (all of C08) plus the lookup of variables in the constants map.  The
model covers the expressions on which that machinery acts by literal folding / unit laws / reordering only:

* atoms: non-negative literals, scalar variables (looked up in the map), array elements (returned unchanged:
  `map_array` is overridden and does not recurse into subscripts);
* `-a`, `a + b`, `a - b`, `a * b` for atoms `a`, `b` (integer literals or non-literals; `a + b` also with a negated
  literal `a`, which is what the mapper itself produces for `v - 2`);
* comparisons of atoms / negated integer literals (folded when both sides are integer constants; real literals are not
  "constant" for `is_constant`);
* `.not.`, `.and.`, `.or.` over logical atoms, comparisons and each other (`LogicEvaluation`).

`simplify` itself (used by dead-code removal) is `cpE []`.
The constants map is an association list `name ↦ literal value`: in FIR there are no initialised arrays, so keys
`(name, indices)` with non-empty indices never exist and every array operation on the map is a no-op.
Core Lean only.
-/
namespace LokiModel.C32
open LokiModel.Fir
open LokiModel.Expr (Val CmpOp)

/-! ### the constants map -/

abbrev CMap := List (String × Val)

def CMap.get (m : CMap) (x : String) : Option Val := (m.find? (·.1 == x)).map (·.2)
def CMap.erase (m : CMap) (x : String) : CMap := m.filter (fun p => !(p.1 == x))
def CMap.set (m : CMap) (x : String) (v : Val) : CMap := (x, v) :: CMap.erase m x

/-- `key in a and key in b and a[key] == b[key]` (merge at a conditional) -/
def CMap.merge (a b : CMap) : CMap := a.filter (fun p => CMap.get a p.1 == some p.2 && CMap.get b p.1 == some p.2)

/-! ### atoms -/

def ilit (n : Int) : Ex := if 0 ≤ n then .lit (.int n) else .neg (.lit (.int (-n)))

/-- integer constant in the sense of `is_constant`: an `IntLiteral` or a minus-prefixed one -/
def intConst : Ex → Option Int
  | .lit (.int n) => some n
  | .neg (.lit (.int n)) => some (-n)
  | _ => none

def atomListEq : List Ex → List Ex → Bool
  | [], [] => true
  | .lit a :: xs, .lit b :: ys => a == b && atomListEq xs ys
  | .var a :: xs, .var b :: ys => a == b && atomListEq xs ys
  | _, _ => false

/-- equality of two atoms as the real code sees it (canonical strings) — on atoms whose subscripts are atoms -/
def atomEq : Ex → Ex → Bool
  | .lit a, .lit b => a == b
  | .var a, .var b => a == b
  | .idx a xs, .idx b ys => a == b && atomListEq xs ys
  | _, _ => false

def isAtom : Ex → Bool
  | .lit (.int n) => 0 ≤ n
  | .lit (.real q) => 0 ≤ q
  | .lit (.bool _) => true
  | .var _ => true
  | .idx _ _ => true
  | _ => false

/-- `map_scalar` / `map_array`: `constants_map.get((basename, dimensions), expr)` -/
def substAtom (m : CMap) : Ex → Ex
  | .var x => match CMap.get m x with
      | some v => .lit v
      | none => .var x
  | e => e

/-! ### `ConstantPropagationMapper` on the covered class -/

/-- operand classification after substitution: integer literal, or anything else that is an atom -/
def foldAdd (a b : Ex) : Option Ex :=
  match intConst a, intConst b with
  | some x, some y => some (ilit (x + y))
  | some x, none => if !isAtom b then none else some (if x = 0 then b else .bin .add a b)
  | none, some y =>
      match b with
      | .lit _ => if !isAtom a then none else some (if y = 0 then a else .bin .add b a)
      | _ => none
  | none, none =>
      if !(isAtom a && isAtom b) then none
      else some (if atomEq a b then .bin .mul (.lit (.int 2)) a else .bin .add a b)

def foldSub (a b : Ex) : Option Ex :=
  match a, b with
  | .lit (.int x), .lit (.int y) => some (ilit (x - y))
  | .lit (.int x), b => if !isAtom b then none else some (if x = 0 then .neg b else .bin .sub a b)
  | a, .lit (.int y) => if !isAtom a then none else some (if y = 0 then a else .bin .add (.neg (.lit (.int y))) a)
  | a, b => if !(isAtom a && isAtom b) then none
            else some (if atomEq a b then .lit (.int 0) else .bin .sub a b)

def foldMul (a b : Ex) : Option Ex :=
  match a, b with
  | .lit (.int x), .lit (.int y) => some (.lit (.int (x * y)))
  | .lit (.int x), b => if !isAtom b then none
                        else some (if x = 0 then .lit (.int 0) else if x = 1 then b else .bin .mul a b)
  | a, .lit (.int y) => if !isAtom a then none
                        else some (if y = 0 then .lit (.int 0) else if y = 1 then a else .bin .mul b a)
  | a, b => if !(isAtom a && isAtom b) then none else some (.bin .mul a b)

def cmpInt (o : CmpOp) (x y : Int) : Bool :=
  match o with
  | .eq => x == y | .ne => x != y | .lt => x < y | .le => x ≤ y | .gt => y < x | .ge => y ≤ x

/-- an operand of a comparison: an atom or a negated integer literal -/
def isCmpOperand : Ex → Bool
  | .neg (.lit (.int n)) => 0 < n
  | e => isAtom e

def realOrBoolLit : Ex → Bool
  | .lit (.real _) => true
  | .lit (.bool _) => true
  | _ => false

def isT : Ex → Bool
  | .lit (.bool true) => true
  | _ => false
def isF : Ex → Bool
  | .lit (.bool false) => true
  | _ => false

def isIntLit : Ex → Bool
  | .lit (.int _) => true
  | _ => false
def isZeroLit : Ex → Bool
  | .lit (.int n) => n == 0
  | _ => false

/-- the two folds of the mapper that are value-preserving only for INTEGER operands (`v - v → 0`, `0 * v → 0`: for a
real `v` the original value is the real zero).  `true` = one of them fires at this node. -/
def typeFold (m : CMap) : Ex → Bool
  | .bin .sub a b =>
      let a' := substAtom m a; let b' := substAtom m b
      !isIntLit a' && !isIntLit b' && atomEq a' b'
  | .bin .mul a b =>
      let a' := substAtom m a; let b' := substAtom m b
      (isZeroLit a' && !isIntLit b') || (isZeroLit b' && !isIntLit a')
  | .not a => typeFold m a
  | .bin .and a b => typeFold m a || typeFold m b
  | .bin .or a b => typeFold m a || typeFold m b
  | _ => false

/-- expressions of logical shape (conditions) -/
def isLogicalShape : Ex → Bool
  | .lit (.bool _) => true
  | .var _ => true
  | .idx _ _ => true
  | .bin (.cmp _) _ _ => true
  | .not a => isLogicalShape a
  | .bin .and a b => isLogicalShape a && isLogicalShape b
  | .bin .or a b => isLogicalShape a && isLogicalShape b
  | _ => false

/-- the mapper on the covered class; `none` = outside the class -/
def cpE (m : CMap) : Ex → Option Ex
  | .lit v => if isAtom (.lit v) then some (.lit v) else none
  | .var x => some (substAtom m (.var x))
  | .idx a subs => some (.idx a subs)
  | .neg a =>
      if !isAtom a then none else
      match substAtom m a with
      | .lit (.int x) => some (if x = 0 then .lit (.int 0) else .neg (.lit (.int x)))
      | .lit _ => none
      | a' => some (.neg a')
  | .bin .add a b =>
      if !(isCmpOperand a && isAtom b) then none else
      let a' := substAtom m a; let b' := substAtom m b
      if realOrBoolLit a' || realOrBoolLit b' then none else foldAdd a' b'
  | .bin .sub a b =>
      if !(isAtom a && isAtom b) then none else
      let a' := substAtom m a; let b' := substAtom m b
      if realOrBoolLit a' || realOrBoolLit b' then none else foldSub a' b'
  | .bin .mul a b =>
      if !(isAtom a && isAtom b) then none else
      let a' := substAtom m a; let b' := substAtom m b
      if realOrBoolLit a' || realOrBoolLit b' then none else foldMul a' b'
  | .bin (.cmp o) a b =>
      if !(isCmpOperand a && isCmpOperand b) then none else
      let a' := substAtom m a; let b' := substAtom m b
      match a', b' with
      | .lit (.bool _), _ => none
      | _, .lit (.bool _) => none
      | _, _ =>
        match intConst a', intConst b' with
        | some x, some y => some (.lit (.bool (cmpInt o x y)))
        | _, _ => some (.bin (.cmp o) a' b')
  | .not a =>
      match cpE m a with
      | some a' => if isT a' then some (.lit (.bool false)) else if isF a' then some (.lit (.bool true)) else some (.not a')
      | none => none
  | .bin .and a b =>
      match cpE m a, cpE m b with
      | some a', some b' =>
          if isF a' || isF b' then some (.lit (.bool false))
          else if isT a' then some b'
          else if isT b' then some a'
          else some (.bin .and a' b')
      | _, _ => none
  | .bin .or a b =>
      match cpE m a, cpE m b with
      | some a', some b' =>
          if isT a' || isT b' then some (.lit (.bool true))
          else if isF a' then some b'
          else if isF b' then some a'
          else some (.bin .or a' b')
      | _, _ => none
  | _ => none

def cpEs (m : CMap) : List Ex → Option (List Ex)
  | [] => some []
  | e :: es => do
      let e' ← cpE m e
      let es' ← cpEs m es
      pure (e' :: es')

/-- `simplify` on the covered class -/
def simp (e : Ex) : Option Ex := cpE [] e

/-! ### dead-code removal (`RemoveDeadCodeTransformer`) -/

/-- the condition as `visit_Conditional` tests it: simplified when `use_simplify` (covered class: logical shapes) -/
def dcCond (useSimp : Bool) (c : Ex) : Option Ex :=
  if useSimp then (if isLogicalShape c then simp c else none) else some c

/-- the SELECT expression as `visit_MultiConditional` uses it (covered class: atoms and negated integer literals) -/
def dcSel (useSimp : Bool) (e : Ex) : Option Ex :=
  if isCmpOperand e then (if useSimp then simp e else some e) else none

mutual
/-- one statement becomes a list (a pruned conditional is replaced by the statements of the chosen branch, which
`Transformer.visit_tuple` splices into the enclosing body) -/
def dcStmt (useSimp : Bool) : Stmt → Option (List Stmt)
  | .ifte c thn els => do
      let t' ← dcStmts useSimp thn
      let e' ← dcStmts useSimp els
      let c' ← dcCond useSimp c
      match c' with
      | .lit (.bool true) => pure t'
      | .lit (.bool false) => pure e'
      | _ => pure [.ifte c' t' e']
  | .select e cases dflt => do
      let e' ← dcSel useSimp e
      let cs' ← dcCases useSimp cases
      let d' ← dcStmts useSimp dflt
      match e' with
      | .var _ => pure [.select e' cs' d']
      | _ =>
        match intConst e' with
        | some c =>
            match cs'.find? (fun p => p.1.contains c) with
            | some p => pure p.2
            | none => pure [.select e' cs' d']
        | none => none           -- `symbolic_op(expr, eq, v)` on a general expression: outside the model
  | .doLoop v lo hi st body => do pure [.doLoop v lo hi st (← dcStmts useSimp body)]
  | .while c body => do pure [.while c (← dcStmts useSimp body)]
  | .assoc binds body => do pure [.assoc binds (← dcStmts useSimp body)]
  | s => some [s]
def dcStmts (useSimp : Bool) : List Stmt → Option (List Stmt)
  | [] => some []
  | s :: rest => do
      let a ← dcStmt useSimp s
      let b ← dcStmts useSimp rest
      pure (a ++ b)
def dcCases (useSimp : Bool) : List (List Int × List Stmt) → Option (List (List Int × List Stmt))
  | [] => some []
  | (vs, body) :: rest => do
      let b ← dcStmts useSimp body
      let r ← dcCases useSimp rest
      pure ((vs, b) :: r)
end

def dcUnits (useSimp : Bool) : List Fir.Unit → Option (List Fir.Unit)
  | [] => some []
  | u :: us => do
      let b ← dcStmts useSimp u.body
      let r ← dcUnits useSimp us
      pure ({ u with body := b } :: r)

def dcProgram (useSimp : Bool) (p : Program) : Option Program := do
  pure { p with units := ← dcUnits useSimp p.units }

/-! ### constant propagation (`ConstantPropagationTransformer`) -/

def CMap.eraseAll (m : CMap) (xs : List String) : CMap := m.filter (fun p => !xs.contains p.1)

/-- the scalar variables among the arguments of a CALL (`_call_modified_arguments` for a callee that is not known: every
variable argument; array arguments are no-ops on the map) -/
def callNames (arrs : List String) : List Ex → List String
  | [] => []
  | .var x :: rest => if arrs.contains x then callNames arrs rest else x :: callNames arrs rest
  | _ :: rest => callNames arrs rest

mutual
/-- `_modified_symbols`: the scalar names a body may (re)define — assignment targets, DO variables, variables handed to
procedures (array targets do nothing to the map) -/
def modNames (arrs : List String) : List Stmt → List String
  | [] => []
  | s :: rest => modNamesS arrs s ++ modNames arrs rest
def modNamesS (arrs : List String) : Stmt → List String
  | .assign (.var x) _ => if arrs.contains x then [] else [x]
  | .doLoop v _ _ _ body => v :: modNames arrs body
  | .while _ body => modNames arrs body
  | .ifte _ t e => modNames arrs t ++ modNames arrs e
  | .select _ cases d => modNamesC arrs cases ++ modNames arrs d
  | .assoc _ body => modNames arrs body
  | .callSub _ args => callNames arrs args
  | _ => []
def modNamesC (arrs : List String) : List (List Int × List Stmt) → List String
  | [] => []
  | (_, b) :: rest => modNames arrs b ++ modNamesC arrs rest
end

mutual
/-- `FindNodes((ExitStmt, CycleStmt))` finds something -/
def hasJump : List Stmt → Bool
  | [] => false
  | s :: rest => hasJumpS s || hasJump rest
def hasJumpS : Stmt → Bool
  | .exit => true
  | .cycle => true
  | .doLoop _ _ _ _ body => hasJump body
  | .while _ body => hasJump body
  | .ifte _ t e => hasJump t || hasJump e
  | .select _ cases d => hasJumpC cases || hasJump d
  | .assoc _ body => hasJump body
  | _ => false
def hasJumpC : List (List Int × List Stmt) → Bool
  | [] => false
  | (_, b) :: rest => hasJump b || hasJumpC rest
end

/-- `visit_Assignment`: the rewritten statement and the updated map -/
def cpAssign (arrs : List String) (m : CMap) (lhs rhs : Ex) : Option (Stmt × CMap) := do
  let rhs' ← cpE m rhs
  match lhs with
  | .var x =>
      if arrs.contains x then pure (.assign lhs rhs', m)                  -- whole array: nothing recorded
      else match rhs' with
        | .lit v => pure (.assign lhs rhs', CMap.set m x v)               -- `update_constants_map`
        | _ => pure (.assign lhs rhs', CMap.erase m x)                    -- `invalidate_constants_map`
  | .idx a subs => do
      let subs' ← cpEs m subs
      pure (.assign (.idx a subs') rhs', m)
  | _ => none

def optCpE (m : CMap) : Option Ex → Option (Option Ex)
  | none => some none
  | some e => (cpE m e).map some

/-- `_has_iterations`: constant bounds and a non-empty `get_pyrange` -/
def hasIter (lo hi : Ex) (st : Option Ex) : Bool :=
  match intConst lo, intConst hi with
  | some l, some h =>
      match st with
      | none => 0 < tripCount l h 1
      | some e => match intConst e with
          | some s => s != 0 && 0 < tripCount l h s
          | none => false
  | _, _ => false

/-- the map once a loop has been left (`_visit_loop_body`): `mEntry` = what the loop never touches, `mEnd` = the map at the
end of the body -/
def loopExit (jump once : Bool) (m mEntry mEnd : CMap) : CMap :=
  if jump then mEntry else if once then mEnd else CMap.merge m mEnd

mutual
def cpStmt (arrs : List String) : Stmt → CMap → Option (Stmt × CMap)
  | .assign l r, m => cpAssign arrs m l r
  | .ifte c t e, m => do
      let c' ← cpE m c
      let (t', mt) ← cpStmts arrs t m
      let (e', me) ← cpStmts arrs e m
      pure (.ifte c' t' e', CMap.merge mt me)
  | .doLoop v lo hi st body, m => do
      let lo' ← cpE m lo
      let hi' ← cpE m hi
      let st' ← optCpE m st
      -- nothing the loop (re)defines is a known constant at the top of an iteration
      let mEntry := CMap.eraseAll m (v :: modNames arrs body)
      let (body', mEnd) ← cpStmts arrs body mEntry
      pure (.doLoop v lo' hi' st' body', CMap.erase (loopExit (hasJump body) (hasIter lo' hi' st') m mEntry mEnd) v)
  | .while c body, m => do
      let mEntry := CMap.eraseAll m (modNames arrs body)
      let (b', mEnd) ← cpStmts arrs body mEntry
      pure (.while c b', loopExit (hasJump body) false m mEntry mEnd)
  | .callSub f args, m => some (.callSub f args, CMap.eraseAll m (callNames arrs args))
  -- every other node kind is rebuilt by the generic `Transformer.visit_Node`: children in order, same map
  | .select e cases d, m => do
      let (cs', m1) ← cpCases arrs cases m
      let (d', m2) ← cpStmts arrs d m1
      pure (.select e cs' d', m2)
  | .assoc binds body, m => do
      let (b', m') ← cpStmts arrs body m
      pure (.assoc binds b', m')
  | s, m => some (s, m)
def cpStmts (arrs : List String) : List Stmt → CMap → Option (List Stmt × CMap)
  | [], m => some ([], m)
  | s :: rest, m => do
      let (s', m1) ← cpStmt arrs s m
      let (r', m2) ← cpStmts arrs rest m1
      pure (s' :: r', m2)
def cpCases (arrs : List String) :
    List (List Int × List Stmt) → CMap → Option (List (List Int × List Stmt) × CMap)
  | [], m => some ([], m)
  | (vs, b) :: rest, m => do
      let (b', m1) ← cpStmts arrs b m
      let (r', m2) ← cpCases arrs rest m1
      pure ((vs, b') :: r', m2)
end

/-- `generate_declarations_map`: PARAMETER values (non-negative literals in the covered class) -/
def declMap : List Decl → Option CMap
  | [] => some []
  | d :: ds => do
      let m ← declMap ds
      match d.param with
      | none => pure m
      | some (.lit v) => if isAtom (.lit v) && d.dims.isEmpty then pure (CMap.set m d.name v) else none
      | some _ => none

def arraysOf (ds : List Decl) : List String := (ds.filter (fun d => !d.dims.isEmpty)).map (·.name)

def cpUnit (u : Fir.Unit) : Option Fir.Unit := do
  let m ← declMap u.decls
  let (b, _) ← cpStmts (arraysOf u.decls) u.body m
  pure { u with body := b }

def cpUnits : List Fir.Unit → Option (List Fir.Unit)
  | [] => some []
  | u :: us => do
      let u' ← cpUnit u
      let r ← cpUnits us
      pure (u' :: r)

def cpProgram (p : Program) : Option Program := do
  pure { p with units := ← cpUnits p.units }

/-! ### the domain of the constant-propagation theorem

Loop-free bodies: scalar and array-element assignments, IF/ELSE, PRINT, comments.  `cpOK` is computed along the model's own
run (it needs the constants map at every statement) and additionally asks that
* no type-dependent fold fires (`typeFold`),
* a recorded literal has the declared type of the variable it is assigned to (otherwise the assignment converts the value
  and the map entry is wrong: known-finding class `cp-literal-type-conversion`). -/

def litTy : Val → Ty
  | .int _ => .int
  | .real _ => .real
  | .bool _ => .logical

mutual
def cpOKS (arrs : List String) (Γ : String → Option Ty) : Stmt → CMap → Bool
  | .assign (.var x) r, m =>
      !arrs.contains x && !typeFold m r &&
      (match cpE m r with
       | some (.lit v) => Γ x == some (litTy v)
       | _ => true)
  | .assign (.idx _ subs) r, m => !subs.isEmpty && !typeFold m r && subs.all (fun e => !typeFold m e)
  | .ifte c t e, m => !typeFold m c && cpOK arrs Γ t m && cpOK arrs Γ e m
  | .print _, _ => true
  | .nop _ _, _ => true
  | _, _ => false
def cpOK (arrs : List String) (Γ : String → Option Ty) : List Stmt → CMap → Bool
  | [], _ => true
  | s :: rest, m =>
      cpOKS arrs Γ s m &&
      (match cpStmt arrs s m with
       | some (_, m1) => cpOK arrs Γ rest m1
       | none => false)
end

/-! ### the domain of the constant-propagation theorem with loops (`C32_constprop_sound`) -/

mutual
/-- statement kinds of the loop theorem with well-sorted targets: scalar targets and DO variables outside `arrs`, element
targets inside -/
def frameOK (arrs : List String) : List Stmt → Bool
  | [] => true
  | s :: rest => frameOKS arrs s && frameOK arrs rest
def frameOKS (arrs : List String) : Stmt → Bool
  | .assign (.var x) _ => !arrs.contains x
  | .assign (.idx a subs) _ => arrs.contains a && !subs.isEmpty
  | .ifte _ t e => frameOK arrs t && frameOK arrs e
  | .doLoop v _ _ _ body => !arrs.contains v && frameOK arrs body
  | .while _ body => frameOK arrs body
  | .print _ => true
  | .nop _ _ => true
  | .exit => true
  | .cycle => true
  | _ => false
end

def optNoFold (m : CMap) : Option Ex → Bool
  | none => true
  | some e => !typeFold m e

mutual
/-- the domain of `C32_constprop_sound`: `cpOK` plus DO / DO WHILE loops (bodies in `frameOK`), EXIT, CYCLE -/
def cpOKLS (arrs : List String) (Γ : String → Option Ty) : Stmt → CMap → Bool
  | .assign (.var x) r, m => cpOKS arrs Γ (.assign (.var x) r) m
  | .assign (.idx a subs) r, m => arrs.contains a && cpOKS arrs Γ (.assign (.idx a subs) r) m
  | .ifte c t e, m => !typeFold m c && cpOKL arrs Γ t m && cpOKL arrs Γ e m
  | .doLoop v lo hi st body, m =>
      !arrs.contains v && !typeFold m lo && !typeFold m hi && optNoFold m st && frameOK arrs body &&
      cpOKL arrs Γ body (CMap.eraseAll m (v :: modNames arrs body))
  | .while _ body, m => frameOK arrs body && cpOKL arrs Γ body (CMap.eraseAll m (modNames arrs body))
  | .print _, _ => true
  | .nop _ _, _ => true
  | .exit, _ => true
  | .cycle, _ => true
  | _, _ => false
def cpOKL (arrs : List String) (Γ : String → Option Ty) : List Stmt → CMap → Bool
  | [], _ => true
  | s :: rest, m =>
      cpOKLS arrs Γ s m &&
      (match cpStmt arrs s m with
       | some (_, m1) => cpOKL arrs Γ rest m1
       | none => false)
end

def declTy (ds : List Decl) (x : String) : Option Ty := (ds.find? (·.name == x)).map (·.ty)

end LokiModel.C32
