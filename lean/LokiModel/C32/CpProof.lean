import LokiModel.C32.ExprSound
/-!
# Constant propagation is sound on loop-free bodies

Invariant: `Holds m st` (every entry of the constants map is true in the current state) together with `Inv` (no
ASSOCIATE aliases; names the model treats as scalars are scalar cells of their declared type).
-/
namespace LokiModel.C32
open LokiModel.Fir
open LokiModel.Expr (Val CmpOp)

/-! ### stores -/

theorem find_setCell (x : String) (c : Cell) (y : String) : ∀ (store : List (String × Cell)),
    ((setCell store x c).find? (·.1 == y)).map (·.2) =
      if y = x then some c else (store.find? (·.1 == y)).map (·.2)
  | [] => by
      by_cases h : y = x
      · subst h; simp [setCell]
      · have : (x == y) = false := by simp; exact fun e => h e.symm
        simp [setCell, h, this]
  | (z, d) :: rest => by
      have ih := find_setCell x c y rest
      by_cases hzx : (z == x) = true
      · have ezx : z = x := by simpa using hzx
        subst ezx
        by_cases h : y = z
        · subst h; simp [setCell]
        · have : (z == y) = false := by simp; exact fun e => h e.symm
          simp [setCell, h, this]
      · have nzx : ¬ z = x := by simpa using hzx
        have hzx' : (z == x) = false := by simpa using nzx
        by_cases h : y = x
        · subst h
          simp [setCell, hzx', List.find?] at ih ⊢
          exact ih
        · by_cases hzy : (z == y) = true
          · simp [setCell, hzx', List.find?, hzy, h]
          · have hzy' : (z == y) = false := by simpa using hzy
            simp [setCell, hzx', List.find?, hzy', h] at ih ⊢
            exact ih

/-- two cells of the same kind (scalar/array), type and bounds -/
def SameKind : Cell → Cell → Prop
  | .scalar t _, .scalar t' _ => t = t'
  | .array t bs _, .array t' bs' _ => t = t' ∧ bs = bs'
  | _, _ => False

structure Inv (arrs : List String) (Γ : String → Option Ty) (st : St) : Prop where
  noAlias : st.alias = []
  scal : ∀ x c, arrs.contains x = false → lookupCell st x = some c → ∃ ty v, c = .scalar ty v ∧ Γ x = some ty

theorem lookupAlias_nil {st : St} (h : st.alias = []) (x : String) : lookupAlias st x = none := by
  simp [lookupAlias, h]

theorem resolve_nil {st : St} (h : st.alias = []) (x : String) (is : List Int) : resolve st x is = some (x, is) := by
  simp [resolve, lookupAlias_nil h]

/-- what a successful write does (alias-free state) -/
theorem writeAt_spec {st st' : St} (ha : st.alias = []) {x : String} {is : List Int} {v : Val}
    (h : writeAt st x is v = some st') :
    ∃ c c', lookupCell st x = some c ∧ st' = { st with store := setCell st.store x c' } ∧ SameKind c c' ∧
      (∀ ty ov, c = .scalar ty ov → is = [] ∧ ∃ v', coerce ty v = some v' ∧ c' = .scalar ty (some v')) ∧
      (∀ ty bs d, c = .array ty bs d → is ≠ [] ∨ bs = []) := by
  simp only [writeAt, resolve_nil ha, Option.bind_eq_bind, Option.bind] at h
  cases hc : lookupCell st x with
  | none => simp [hc] at h
  | some c =>
    simp only [hc] at h
    cases c with
    | scalar ty ov =>
      simp only at h
      split at h
      · rename_i hemp
        cases hco : coerce ty v with
        | none => simp [hco] at h
        | some v' =>
          simp [hco] at h
          refine ⟨_, .scalar ty (some v'), rfl, h.symm, rfl, ?_, ?_⟩
          · intro ty' ov' e
            cases e
            exact ⟨by simpa using hemp, v', hco, rfl⟩
          · intro ty' bs d e; cases e
      · simp at h
    | array ty bs data =>
      simp only at h
      cases ho : offset bs is with
      | none => simp [ho] at h
      | some o =>
        cases hco : coerce ty v with
        | none => simp [ho, hco] at h
        | some v' =>
          simp only [ho, hco] at h
          split at h
          · simp at h
            refine ⟨_, .array ty bs (data.set o (some v')), rfl, h.symm, ⟨rfl, rfl⟩, ?_, ?_⟩
            · intro ty' ov' e; cases e
            · intro ty' bs' d e
              cases e
              cases is with
              | nil =>
                right
                cases bs with
                | nil => rfl
                | cons b bs => simp [offset] at ho
              | cons i is => left; simp
          · simp at h

theorem lookupCell_set (st : St) (x : String) (c : Cell) (y : String) :
    lookupCell { st with store := setCell st.store x c } y = if y = x then some c else lookupCell st y := by
  simp only [lookupCell]
  exact find_setCell x c y st.store

theorem boundsOf_set {st : St} (ha : st.alias = []) {x : String} {c c' : Cell}
    (hc : lookupCell st x = some c) (hk : SameKind c c') (y : String) :
    boundsOf { st with store := setCell st.store x c' } y = boundsOf st y := by
  have ha' : ({ st with store := setCell st.store x c' } : St).alias = [] := ha
  simp only [boundsOf, lookupAlias_nil ha, lookupAlias_nil ha', lookupCell_set]
  by_cases h : y = x
  · subst h
    simp only [if_true, hc]
    cases c <;> cases c' <;> simp [SameKind] at hk ⊢
    exact hk.2.symm
  · simp [h]

theorem readAt_set_ne {st : St} (ha : st.alias = []) {x y : String} (c' : Cell) (h : y ≠ x) (is : List Int) :
    readAt { st with store := setCell st.store x c' } y is = readAt st y is := by
  have ha' : ({ st with store := setCell st.store x c' } : St).alias = [] := ha
  simp [readAt, resolve_nil ha, resolve_nil ha', lookupCell_set, h]

theorem inv_set {arrs : List String} {Γ : String → Option Ty} {st : St} (hi : Inv arrs Γ st) {x : String} {c c' : Cell}
    (hc : lookupCell st x = some c) (hk : SameKind c c') :
    Inv arrs Γ { st with store := setCell st.store x c' } := by
  constructor
  · exact hi.noAlias
  · intro y cy hy hl
    rw [lookupCell_set] at hl
    by_cases h : y = x
    · subst h
      simp at hl; subst hl
      obtain ⟨ty, v, e, hg⟩ := hi.scal y c hy hc
      subst e
      cases c' with
      | scalar t' v' => simp [SameKind] at hk; subst hk; exact ⟨ty, v', rfl, hg⟩
      | array t' bs d => simp [SameKind] at hk
    · simp [h] at hl
      exact hi.scal y cy hy hl

/-! ### the map -/

theorem get_erase {m : CMap} {x y : String} {v : Val} (h : CMap.get (CMap.erase m x) y = some v) :
    y ≠ x ∧ CMap.get m y = some v := by
  induction m with
  | nil => simp [CMap.erase, CMap.get] at h
  | cons p rest ih =>
    simp only [CMap.erase, List.filter] at h
    by_cases hp : (p.1 == x) = true
    · simp only [hp, Bool.not_true] at h
      have := ih h
      refine ⟨this.1, ?_⟩
      have hpy : (p.1 == y) = false := by
        have e : p.1 = x := by simpa using hp
        simp [e]; exact fun e' => this.1 e'.symm
      simp only [CMap.get, List.find?, hpy]
      exact this.2
    · simp only [hp, Bool.not_false] at h
      simp only [CMap.get, List.find?] at h ⊢
      by_cases hpy : (p.1 == y) = true
      · simp only [hpy] at h ⊢
        refine ⟨?_, h⟩
        intro e; subst e
        exact hp hpy
      · simp only [hpy] at h ⊢
        exact ih h

theorem get_merge {a b : CMap} {x : String} {v : Val} (h : CMap.get (CMap.merge a b) x = some v) :
    CMap.get a x = some v ∧ CMap.get b x = some v := by
  unfold CMap.get CMap.merge at h
  generalize hf : List.find? (fun p : String × Val => p.1 == x) _ = o at h
  cases o with
  | none => simp at h
  | some p =>
    simp at h
    have hk : (p.1 == x) = true := by have := List.find?_some hf; simpa using this
    have hmem := List.mem_of_find?_eq_some hf
    have hq := (List.mem_filter.mp hmem).2
    have e : p.1 = x := by simpa using hk
    simp at hq
    rw [← e, ← h]
    exact hq

theorem coerce_litTy (v : Val) : coerce (litTy v) v = some v := by
  cases v <;> simp [coerce, litTy]

theorem cpEs_sound {m : CMap} {st : St} (hm : Holds m st) (pos : List Nat) :
    ∀ (subs subs' : List Ex) (is : List Int), cpEs m subs = some subs' →
      subs.all (fun e => !typeFold m e) = true → evalIdx st pos subs = some is → evalIdx st pos subs' = some is
  | [], subs', is, hc, _, h => by simp [cpEs] at hc; subst hc; exact h
  | e :: es, subs', is, hc, hty, h => by
      simp only [cpEs] at hc
      cases he : cpE m e with
      | none => simp [he] at hc
      | some e' =>
        cases hes : cpEs m es with
        | none => simp [he, hes] at hc
        | some es' =>
          simp [he, hes] at hc; subst hc
          simp only [List.all_cons, Bool.and_eq_true] at hty
          simp only [evalIdx] at h ⊢
          cases hv : evalE st pos e with
          | none => simp [hv] at h
          | some v =>
            have hv' := cpE_sound hm pos e e' v he (by simpa using hty.1) hv
            simp only [hv, hv'] at h ⊢
            cases hi : asInt v with
            | none => simp [hi] at h
            | some i =>
              cases hr : evalIdx st pos es with
              | none => simp [hi, hr] at h
              | some r =>
                have hr' := cpEs_sound hm pos es es' r hes hty.2 hr
                simp [hi, hr, hr'] at h ⊢
                exact h

theorem evalIdx_nil {st : St} {pos : List Nat} : ∀ {subs : List Ex}, evalIdx st pos subs = some [] → subs = []
  | [], _ => rfl
  | e :: es, h => by
      simp only [evalIdx] at h
      cases hv : evalE st pos e with
      | none => simp [hv] at h
      | some v =>
        cases hi : asInt v with
        | none => simp [hv, hi] at h
        | some i =>
          cases hr : evalIdx st pos es with
          | none => simp [hv, hi, hr] at h
          | some r => simp [hv, hi, hr] at h

theorem boundsOf_scalar {st : St} (ha : st.alias = []) {x : String}
    (h : ∀ c, lookupCell st x = some c → ∃ ty v, c = .scalar ty v) : boundsOf st x = none := by
  simp only [boundsOf, lookupAlias_nil ha]
  cases hc : lookupCell st x with
  | none => rfl
  | some c =>
    obtain ⟨ty, v, e⟩ := h c hc
    subst e; rfl

/-- a write to `x` keeps every entry about another name -/
theorem holds_frame {m : CMap} {st : St} (ha : st.alias = []) (hm : Holds m st) {x : String} {c c' : Cell}
    (hc : lookupCell st x = some c) (hk : SameKind c c') (y : String) (w : Val) (hy : y ≠ x)
    (hg : CMap.get m y = some w) :
    boundsOf { st with store := setCell st.store x c' } y = none ∧
      readAt { st with store := setCell st.store x c' } y [] = some w := by
  obtain ⟨h1, h2⟩ := hm y w hg
  exact ⟨by rw [boundsOf_set ha hc hk]; exact h1, by rw [readAt_set_ne ha c' hy]; exact h2⟩

theorem get_set {m : CMap} {x y : String} {v w : Val} (h : CMap.get (CMap.set m x v) y = some w) :
    (y = x ∧ w = v) ∨ (y ≠ x ∧ CMap.get m y = some w) := by
  simp only [CMap.set, CMap.get, List.find?] at h
  by_cases hxy : (x == y) = true
  · simp only [hxy] at h
    left
    exact ⟨by have : x = y := by simpa using hxy
              exact this.symm, by simpa using h.symm⟩
  · simp only [hxy] at h
    right
    have := get_erase (m := m) (x := x) (y := y) (v := w) h
    exact this

theorem cp_assign_sound {arrs : List String} {Γ : String → Option Ty} {m m' : CMap} {st st' : St} {l r : Ex} {s' : Stmt}
    (hi : Inv arrs Γ st) (hm : Holds m st) (hok : cpOKS arrs Γ (.assign l r) m = true)
    (hc : cpAssign arrs m l r = some (s', m')) (h : assignStmt st l r = some st') :
    ∃ l' r', s' = .assign l' r' ∧ assignStmt st l' r' = some st' ∧ Inv arrs Γ st' ∧ Holds m' st' := by
  have ha := hi.noAlias
  simp only [cpAssign] at hc
  cases hr : cpE m r with
  | none => simp [hr] at hc
  | some r' =>
    simp only [hr, Option.bind_eq_bind, Option.bind] at hc
    cases l with
    | var x =>
      simp only [cpOKS, Bool.and_eq_true] at hok
      obtain ⟨⟨hx, hty⟩, hlit⟩ := hok
      have hx' : arrs.contains x = false := by simpa using hx
      have hty' : typeFold m r = false := by simpa using hty
      have hb : boundsOf st x = none :=
        boundsOf_scalar ha (fun c hc' => by obtain ⟨ty, v, e, _⟩ := hi.scal x c hx' hc'; exact ⟨ty, v, e⟩)
      simp only [assignStmt, hb] at h
      cases hv : evalE st [] r with
      | none => simp [hv] at h
      | some v =>
        simp only [hv, Option.bind_eq_bind, Option.bind] at h
        have hv' := cpE_sound hm [] r r' v hr hty' hv
        obtain ⟨c, c', hlc, hst, hk, hsc, _⟩ := writeAt_spec ha h
        obtain ⟨ty, ov, ec, hg⟩ := hi.scal x c hx' hlc
        obtain ⟨_, v', hco, ec'⟩ := hsc ty ov ec
        have hinv : Inv arrs Γ st' := by rw [hst]; exact inv_set hi hlc hk
        have hassign : assignStmt st (.var x) r' = some st' := by
          simp only [assignStmt, hb, hv', Option.bind_eq_bind, Option.bind]; exact h
        have herase : Holds (CMap.erase m x) st' := by
          intro y w hgy
          obtain ⟨hne, hgm⟩ := get_erase hgy
          rw [hst]; exact holds_frame ha hm hlc hk y w hne hgm
        simp only [hx', Bool.false_eq_true, if_false] at hc
        split at hc
        · rename_i v0
          simp at hc
          obtain ⟨e1, e2⟩ := hc
          subst e1; subst e2
          refine ⟨_, _, rfl, hassign, hinv, ?_⟩
          simp [evalE] at hv'; subst hv'
          simp only [hr] at hlit
          have hty2 : ty = litTy v0 := by
            have : Γ x = some (litTy v0) := by simpa using hlit
            rw [hg] at this; simpa using this
          have hv0 : v' = v0 := by
            rw [hty2, coerce_litTy] at hco; simpa using hco.symm
          intro y w hgy
          rcases get_set hgy with ⟨e1, e2⟩ | ⟨hne, hgm⟩
          · subst e1; subst e2
            rw [hst]
            constructor
            · rw [boundsOf_set ha hlc hk]; exact hb
            · subst ec'
              have ha2 : ({ st with store := setCell st.store y (Cell.scalar ty (some v')) } : St).alias = [] := ha
              have hl2 : lookupCell { st with store := setCell st.store y (Cell.scalar ty (some v')) } y
                  = some (Cell.scalar ty (some v')) := by
                rw [lookupCell_set]; simp
              simp only [readAt, resolve_nil ha2, Option.bind_eq_bind, Option.bind, hl2]
              simp [hv0]
          · rw [hst]; exact holds_frame ha hm hlc hk y w hne hgm
        · simp at hc
          obtain ⟨e1, e2⟩ := hc
          subst e1; subst e2
          exact ⟨_, _, rfl, hassign, hinv, herase⟩
    | idx a subs =>
      simp only [cpOKS, Bool.and_eq_true] at hok
      obtain ⟨⟨hne, hty⟩, hsubs⟩ := hok
      have hty' : typeFold m r = false := by simpa using hty
      cases hs : cpEs m subs with
      | none => simp [hs] at hc
      | some subs' =>
        simp [hs] at hc
        obtain ⟨e1, e2⟩ := hc
        subst e1; subst e2
        simp only [assignStmt, Option.bind_eq_bind, Option.bind] at h
        cases hidx : evalIdx st [] subs with
        | none => simp [hidx] at h
        | some is =>
          cases hv : evalE st [] r with
          | none => simp [hidx, hv] at h
          | some v =>
            simp only [hidx, hv] at h
            have hv' := cpE_sound hm [] r r' v hr hty' hv
            have hidx' := cpEs_sound hm [] subs subs' is hs hsubs hidx
            obtain ⟨c, c', hlc, hst, hk, hsc, har⟩ := writeAt_spec ha h
            refine ⟨_, _, rfl, ?_, ?_, ?_⟩
            · simp only [assignStmt, hidx', hv', Option.bind_eq_bind, Option.bind]; exact h
            · rw [hst]; exact inv_set hi hlc hk
            · intro y w hgy
              by_cases hya : y = a
              · subst hya
                exfalso
                obtain ⟨hb, hrd⟩ := hm y w hgy
                cases c with
                | scalar ty ov =>
                  obtain ⟨hnil, _⟩ := hsc ty ov rfl
                  subst hnil
                  have := evalIdx_nil hidx
                  subst this
                  simp at hne
                | array ty bs d =>
                  simp [boundsOf, lookupAlias_nil ha, hlc] at hb
              · rw [hst]; exact holds_frame ha hm hlc hk y w hya hgy
    | _ => simp [cpOKS] at hok

theorem holds_out {m : CMap} {st : St} (hm : Holds m st) (o : List (List Val)) : Holds m { st with out := o } := by
  intro x v hg
  obtain ⟨h1, h2⟩ := hm x v hg
  exact ⟨by simpa [boundsOf, lookupAlias, lookupCell] using h1, by simpa [readAt, resolve, lookupAlias, lookupCell] using h2⟩

theorem inv_out {arrs : List String} {Γ : String → Option Ty} {st : St} (hi : Inv arrs Γ st) (o : List (List Val)) :
    Inv arrs Γ { st with out := o } :=
  ⟨hi.noAlias, fun x c hx hl => hi.scal x c hx (by simpa [lookupCell] using hl)⟩

structure CpSim (arrs : List String) (Γ : String → Option Ty) (P : Program) (f : Nat) : Prop where
  stmts : ∀ ss ss' m m' st st' sig, cpOK arrs Γ ss m = true → cpStmts arrs ss m = some (ss', m') →
      Inv arrs Γ st → Holds m st → execStmts P f ss st = .ok st' sig →
      execStmts P f ss' st = .ok st' sig ∧ Inv arrs Γ st' ∧ Holds m' st' ∧ sig = .normal
  stmt : ∀ s s' m m' st st' sig, cpOKS arrs Γ s m = true → cpStmt arrs s m = some (s', m') →
      Inv arrs Γ st → Holds m st → execStmt P f s st = .ok st' sig →
      execStmt P f s' st = .ok st' sig ∧ Inv arrs Γ st' ∧ Holds m' st' ∧ sig = .normal

theorem cpSim_zero (arrs : List String) (Γ : String → Option Ty) (P : Program) : CpSim arrs Γ P 0 := by
  constructor
  · intro ss ss' m m' st st' sig _ _ _ _ h; simp [execStmts] at h
  · intro s s' m m' st st' sig _ _ _ _ h; simp [execStmt] at h

theorem cpSim_succ {arrs : List String} {Γ : String → Option Ty} {P : Program} {f : Nat} (ih : CpSim arrs Γ P f) :
    CpSim arrs Γ P (f + 1) := by
  constructor
  · intro ss ss' m m' st st' sig hok hc hi hm h
    cases ss with
    | nil =>
      simp [cpStmts] at hc
      obtain ⟨e1, e2⟩ := hc
      subst e1; subst e2
      simp [execStmts] at h ⊢
      obtain ⟨e1, e2⟩ := h
      subst e1
      exact ⟨⟨rfl, e2⟩, hi, hm, e2.symm⟩
    | cons s rest =>
      simp only [cpOK, Bool.and_eq_true] at hok
      obtain ⟨hoks, hokr⟩ := hok
      simp only [cpStmts] at hc
      cases hs : cpStmt arrs s m with
      | none => simp [hs] at hc
      | some p1 =>
        obtain ⟨s', m1⟩ := p1
        simp only [hs] at hokr
        cases hr : cpStmts arrs rest m1 with
        | none => simp [hs, hr] at hc
        | some p2 =>
          obtain ⟨r', m2⟩ := p2
          simp [hs, hr] at hc
          obtain ⟨e1, e2⟩ := hc
          subst e1; subst e2
          simp only [execStmts] at h ⊢
          cases hx : execStmt P f s st with
          | fuel => simp [hx] at h
          | err e => simp [hx] at h
          | ok st1 sig1 =>
            obtain ⟨hx', hi1, hm1, hsig⟩ := ih.stmt s s' m m1 st st1 sig1 hoks hs hi hm hx
            subst hsig
            rw [hx] at h
            rw [hx']
            simp only at h ⊢
            exact ih.stmts rest r' m1 m2 st1 st' sig hokr hr hi1 hm1 h
  · intro s s' m m' st st' sig hok hc hi hm h
    cases s with
    | assign l r =>
      simp only [cpStmt] at hc
      simp only [execStmt] at h ⊢
      cases ha : assignStmt st l r with
      | none => simp [ha] at h
      | some st1 =>
        simp [ha] at h
        obtain ⟨e1, e2⟩ := h
        subst e1; subst e2
        obtain ⟨l', r', es, ha', hi', hm'⟩ := cp_assign_sound hi hm hok hc ha
        subst es
        simp only [ha']
        exact ⟨trivial, hi', hm', trivial⟩
    | print args =>
      simp [cpStmt] at hc
      obtain ⟨e1, e2⟩ := hc
      subst e1; subst e2
      refine ⟨h, ?_⟩
      simp only [execStmt] at h
      split at h
      · simp at h
        obtain ⟨e1, e2⟩ := h
        subst e1
        exact ⟨inv_out hi _, holds_out hm _, e2.symm⟩
      · simp at h
    | nop k t =>
      simp [cpStmt] at hc
      obtain ⟨e1, e2⟩ := hc
      subst e1; subst e2
      refine ⟨h, ?_⟩
      simp [execStmt] at h
      obtain ⟨e1, e2⟩ := h
      subst e1
      exact ⟨hi, hm, e2.symm⟩
    | ifte c t e =>
      simp only [cpOKS, Bool.and_eq_true] at hok
      obtain ⟨⟨hty, hokt⟩, hoke⟩ := hok
      have hty' : typeFold m c = false := by simpa using hty
      simp only [cpStmt] at hc
      cases hcc : cpE m c with
      | none => simp [hcc] at hc
      | some c' =>
        cases hct : cpStmts arrs t m with
        | none => simp [hcc, hct] at hc
        | some pt =>
          obtain ⟨t', mt⟩ := pt
          cases hce : cpStmts arrs e m with
          | none => simp [hcc, hct, hce] at hc
          | some pe =>
            obtain ⟨e', me⟩ := pe
            simp [hcc, hct, hce] at hc
            obtain ⟨e1, e2⟩ := hc
            subst e1; subst e2
            simp only [execStmt] at h ⊢
            split at h
            · rename_i hev
              have hev' := cpE_sound hm [] c c' _ hcc hty' hev
              obtain ⟨hx, hi', hm', hsg⟩ := ih.stmts t t' m mt st st' sig hokt hct hi hm h
              simp only [hev']
              exact ⟨hx, hi', fun x v hg => hm' x v (get_merge hg).1, hsg⟩
            · rename_i hev
              have hev' := cpE_sound hm [] c c' _ hcc hty' hev
              obtain ⟨hx, hi', hm', hsg⟩ := ih.stmts e e' m me st st' sig hoke hce hi hm h
              simp only [hev']
              exact ⟨hx, hi', fun x v hg => hm' x v (get_merge hg).2, hsg⟩
            · simp at h
    | _ => simp [cpOKS] at hok

theorem cpSim {arrs : List String} {Γ : String → Option Ty} {P : Program} : ∀ f, CpSim arrs Γ P f
  | 0 => cpSim_zero arrs Γ P
  | f + 1 => cpSim_succ (cpSim f)

end LokiModel.C32
