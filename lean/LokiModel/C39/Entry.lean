import LokiModel.C39.Model
/-!
# C39 — every entry point gets a guard for every parametrised dummy it declares

The model processes *every* unit of the processing order that is an entry point (any number of drivers, any number of names in
`entry_points`) with the user's dictionary, and `processUnit` puts `guards` in front of the body: nothing in the model remembers
which guards were generated for another unit.
-/
namespace LokiModel.C39
open LokiModel.Fir

theorem lookupExact_split {dic : Dic} {a : String} {v : Int} (h : lookupExact dic a = some v) :
    ∃ l1 l2, dic = l1 ++ (a, v) :: l2 := by
  induction dic with
  | nil => simp [lookupExact] at h
  | cons kv rest ih =>
    simp only [lookupExact, List.find?] at h
    by_cases hk : (kv.1 == a) = true
    · simp [hk] at h
      have : kv.1 = a := by simpa using hk
      exact ⟨[], rest, by cases kv; simp_all⟩
    · have hk' : (kv.1 == a) = false := by simpa using hk
      simp only [hk'] at h
      obtain ⟨l1, l2, e⟩ := ih (by simpa [lookupExact] using h)
      exact ⟨kv :: l1, l2, by simp [e]⟩

theorem find_self {args : List String} {q : String → Bool} {a : String} (hm : a ∈ args) (hq : q a = true) :
    ∃ a', args.find? q = some a' ∧ q a' = true := by
  cases h : args.find? q with
  | none => exact absurd hq (by simpa using (List.find?_eq_none.mp h) a hm)
  | some a' => exact ⟨a', rfl, List.find?_some h⟩

/-- the guard of a parametrised dummy is part of `guards` -/
theorem guards_complete (cfg : Cfg) (dic : Dic) (args : List String) (a : String) (v : Int)
    (hm : a ∈ args) (hlow : a.toLower = a) (hv : lookupExact dic a = some v) :
    ∃ l r, guards cfg dic args = l ++ guard cfg (pfx ++ a) v ++ r := by
  obtain ⟨l1, l2, e⟩ := lookupExact_split hv
  have hex : hasExact dic a = true := by
    rw [e]; simp [hasExact]
  obtain ⟨a', hf, hq⟩ := find_self (q := fun a' => hasExact dic a' && a' == a.toLower) hm (by simp [hex, hlow])
  have ha' : a' = a := by
    simp only [Bool.and_eq_true] at hq
    have := hq.2
    rw [hlow] at this
    simpa using this
  subst ha'
  refine ⟨l1.flatMap (fun kv => match args.find? (fun a => hasExact dic a && a == kv.1.toLower) with
      | some a => guard cfg (pfx ++ a) kv.2 | none => []),
    l2.flatMap (fun kv => match args.find? (fun a => hasExact dic a && a == kv.1.toLower) with
      | some a => guard cfg (pfx ++ a) kv.2 | none => []), ?_⟩
  unfold guards
  have key : ∀ (g : String × Int → List Stmt), dic.flatMap g = l1.flatMap g ++ (g (a', v) ++ l2.flatMap g) := by
    intro g; rw [e]; simp
  rw [key]
  simp only [hf, List.append_assoc]
  rfl

/-- an entry point processed without error (PARAMETER mode) starts with the guards -/
theorem processUnit_entry_body (cfg : Cfg) (p : Program) (dic : Dic) (u u' : Fir.Unit) (upd : List (String × Dic))
    (hne : dic.isEmpty = false) (hrbv : cfg.rbv = false)
    (h : processUnit cfg p true dic u = .ok (u', upd)) : ∃ rest, u'.body = guards cfg dic u.args ++ rest := by
  unfold processUnit at h
  simp only [hne, Bool.false_eq_true, if_false, Bool.true_and, if_true, hrbv] at h
  split at h
  · cases h
  · cases h1 : renamedDecls dic u with
    | error e => simp [h1, bind, Except.bind] at h
    | ok nd =>
      cases h2 : callsStmts p dic u.body with
      | error e => simp [h1, h2, bind, Except.bind] at h
      | ok bu =>
        cases h3 : splitDecls dic (u.decls ++ nd) with
        | error e => simp [h1, h2, h3, bind, Except.bind] at h
        | ok pr =>
          simp only [h1, h2, h3, bind, Except.bind, pure, Except.pure] at h
          split at h
          · cases h
          · simp at h
            exact ⟨bu.1, by rw [← h.1]⟩

/-- units are only added to the list of processed units -/
theorem runAll_acc (cfg : Cfg) (p : Program) : ∀ (order : List String) (trafo : List (String × Dic)) (acc ds : List Done) (e : Option String),
    runAll cfg p order trafo acc = (ds, e) → ∀ d ∈ acc, d ∈ ds
  | [], _, acc, ds, e, h, d, hd => by simp [runAll] at h; rw [← h.1]; exact hd
  | name :: rest, trafo, acc, ds, e, h, d, hd => by
      simp only [runAll] at h
      split at h
      · exact runAll_acc cfg p rest _ _ _ _ h d hd
      · split at h
        · simp at h; rw [← h.1]; exact hd
        · exact runAll_acc cfg p rest _ _ _ _ h d (by simp [hd])

/-- every entry point of the processing order is processed as an entry point, with the user's dictionary -/
theorem runAll_entry (cfg : Cfg) (p : Program) : ∀ (order : List String) (trafo : List (String × Dic)) (acc ds : List Done),
    runAll cfg p order trafo acc = (ds, none) → ∀ name ∈ order, isEntry cfg p name = true → ∀ u, findUnit p name = some u →
      ∃ d ∈ ds, d.name = name ∧ ∃ upd, processUnit cfg p true cfg.dic u = .ok (d.unit, upd)
  | [], _, _, _, _, name, hm, _, _, _ => by simp at hm
  | n :: rest, trafo, acc, ds, h, name, hm, he, u, hu => by
      simp only [runAll] at h
      cases List.mem_cons.mp hm with
      | inl heq =>
        subst heq
        simp only [hu, he, if_true] at h
        split at h
        · simp at h
        · rename_i u' upd hp
          refine ⟨{ name := name, entry := true, dic := cfg.dic, unit := u' }, ?_, rfl, upd, hp⟩
          exact runAll_acc cfg p rest _ _ _ _ h _ (by simp)
      | inr hm' =>
        split at h
        · exact runAll_entry cfg p rest _ _ _ h name hm' he u hu
        · split at h
          · simp at h
          · exact runAll_entry cfg p rest _ _ _ h name hm' he u hu

end LokiModel.C39
