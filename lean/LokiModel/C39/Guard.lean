import LokiModel.C39.Model
/-!
# C39 — the entry-point guard: fires first for a non-matching value, is transparent for the matching one
-/
namespace LokiModel.C39
open LokiModel.Fir
open LokiModel.Expr (Val CmpOp)

theorem cmp_ne_int (w v : Int) : Val.cmp .ne (.int w) (.int v) = some (.bool (w != v)) := by
  simp [Val.cmp, Val.toRat?, Val.cmpRat]
  by_cases h : w = v
  · simp [h]
  · have h2 : ¬ ((w : Rat) = (v : Rat)) := by
      intro hh; exact h (Rat.intCast_inj.mp hh)
    have e1 : ((w : Rat) == (v : Rat)) = false := by simpa using h2
    have e2 : (w == v) = false := by simpa using h
    simp [bne, e1, e2]

theorem evalE_litInt' (st : St) (pos : List Nat) (v : Int) : evalE st pos (litInt v) = some (.int v) := by
  unfold litInt
  split
  · simp [evalE, Val.neg]
  · simp [evalE]

/-- the guard variable is a scalar holding the integer `w` -/
structure Holds (st : St) (y : String) (w : Int) : Prop where
  scalar : boundsOf st y = none
  value : readAt st y [] = some (.int w)

theorem guard_cond {st : St} {y : String} {w : Int} (h : Holds st y w) (v : Int) :
    evalE st [] (.bin (.cmp .ne) (.var y) (litInt v)) = some (.bool (w != v)) := by
  simp [evalE, h.scalar, h.value, evalE_litInt', applyBin, cmp_ne_int]

/-- **non-matching value**: whatever follows the guard, the run ends at the guard's abort with signal `exit`; the only effect is
the guard's own report (default abort: one line with the received value; `error stop` callback: nothing) -/
theorem guard_fires_stmts (cfg : Cfg) (P : Program) (y : String) (v w : Int) (rest : List Stmt) (st : St) (f : Nat)
    (h : Holds st y w) (hne : w ≠ v) :
    execStmts P (f + 7) (guard cfg y v ++ rest) st =
      .ok { st with out := if cfg.printAbort then st.out ++ [[.int w]] else st.out } .exit := by
  have hc := guard_cond h v
  have hb : (w != v) = true := by simpa using hne
  rw [hb] at hc
  cases hp : cfg.printAbort with
  | true =>
    simp only [guard, abortStmts, hp, List.cons_append, List.nil_append, execStmts, execStmt, hc, if_true]
    simp [printVals, h.scalar, evalE, h.value]
  | false =>
    simp [guard, abortStmts, hp, execStmts, execStmt, hc]

/-- **matching value**: the guard does nothing (two units of fuel are used up) -/
theorem guard_passes_stmts (cfg : Cfg) (P : Program) (y : String) (v : Int) (rest : List Stmt) (st : St) (f : Nat)
    (h : Holds st y v) :
    execStmts P (f + 4) (guard cfg y v ++ rest) st = execStmts P (f + 2) rest st := by
  have hc := guard_cond h v
  have hb : (v != v) = false := by simp
  rw [hb] at hc
  simp [guard, execStmts, execStmt, hc]

end LokiModel.C39
