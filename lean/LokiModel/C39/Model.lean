import LokiModel.Fir.Subst
/-!
# C39 — model of `ParametriseTransformation` (loki/transformations/parametrise.py) on FIR programs

The Scheduler processes the units of a call tree in topological order (`Cfg.order`, taken from the real Scheduler and checked
against it on every run).  A unit is an *entry point* (a driver — there may be several, `Cfg.roots` —, or a routine named in `entry_points`) and is processed with
the user's dictionary `dic2p`, or it is processed with the dictionary its callers left in `item.trafo_data` (`{}` if none).
`processUnit` follows `transform_subroutine` step by step:

1. entry point: every dummy whose name is a key (exact string comparison, `arg.name not in vars2p`) is renamed
   `parametrised_<name>` (a new declaration is appended at the end of the spec; `Subroutine.arguments` asserts that it has an
   INTENT), and for every key, in dictionary order, a guard `IF (parametrised_k /= value) THEN <abort> END IF` is put in front
   of the body; other units lose the dummies that are keys;
2. every CALL to a unit of the tree resets the callee's dictionary and enters `last dummy that receives the variable ↦
   dic2p[variable name]` for every key that occurs among the actual arguments (comparison up to letter case, lookup exact);
   all actual arguments that are key variables are removed;
3. every declared variable that matches a key up to case is re-declared `PARAMETER` with the value `dic2p[name]` (exact lookup,
   `KeyError` otherwise), the new declarations are inserted in front of the first remaining declaration (`IndexError` when none
   remains);
4. `replace_by_value`: `inline_constant_parameters(routine, external_only=False)` substitutes *all* PARAMETERs of the unit in
   declarations and body — except in PRINT statements, whose values `SubstituteExpressions` does not reach — and removes their
   declarations (a PARAMETER whose value is not a literal leaves a declaration of a non-symbol behind: the IR is corrupt).

Representation of the abort (FIR has neither character data nor STOP): the default `PRINT *, "<msg>: ", v; STOP 1` is
`print v; exit`, the callback of the docstring (`error stop "<msg>"`) is `exit`.  At the top level of the main unit `exit` ends
the run (`execStmts` returns the first non-normal result) with signal `exit` and the state reached; in a called unit it is the
error "exit/cycle outside loop".  Core Lean only.
-/
namespace LokiModel.C39
open LokiModel.Fir
open LokiModel.Expr (Val CmpOp)

abbrev Dic := List (String × Int)

structure Cfg where
  dic : Dic
  rbv : Bool
  entry : Option (List String)
  printAbort : Bool
  order : List String
  /-- units with role `driver` (seed routines of the Scheduler); `[]` stands for the main unit alone -/
  roots : List String := []

def pfx : String := "parametrised_"

/-- an integer as the frontend/exporter shows it: negative numbers are negated literals -/
def litInt (v : Int) : Ex := if v < 0 then .neg (.lit (.int (-v))) else .lit (.int v)

def hasExact (dic : Dic) (x : String) : Bool := dic.any (·.1 == x)
def lookupExact (dic : Dic) (x : String) : Option Int := (dic.find? (·.1 == x)).map (·.2)
/-- a key equals the (lower-case) name `x` up to letter case -/
def hasCI (dic : Dic) (x : String) : Bool := dic.any (fun kv => kv.1.toLower == x)
def lookupCI (dic : Dic) (x : String) : Option Int := (dic.find? (fun kv => kv.1.toLower == x)).map (·.2)

def isEntry (cfg : Cfg) (p : Program) (name : String) : Bool :=
  match cfg.entry with
  | none => if cfg.roots.isEmpty then name == p.main else cfg.roots.contains name
  | some es => es.contains name

/-! ### step 1: guards -/

def abortStmts (cfg : Cfg) (y : String) : List Stmt :=
  if cfg.printAbort then [.print [.var y], .exit] else [.exit]

def guard (cfg : Cfg) (y : String) (v : Int) : List Stmt :=
  [.nop "comment" "Sanity check for parametrised variable",
   .ifte (.bin (.cmp .ne) (.var y) (litInt v)) (.nop "comment" "Stop execution" :: abortStmts cfg y) []]

/-- guards in dictionary order (the real code prepends them walking the dictionary backwards) -/
def guards (cfg : Cfg) (dic : Dic) (args : List String) : List Stmt :=
  dic.flatMap fun kv =>
    match args.find? (fun a => hasExact dic a && a == kv.1.toLower) with
    | some a => guard cfg (pfx ++ a) kv.2
    | none => []

/-! ### step 2: calls -/

def isVar (y : String) : Ex → Bool
  | .var z => z == y
  | _ => false

/-- dummy of the callee that `arg_map_reversed` returns for the variable `y`: the last one paired with that actual -/
def lastDummy (y : String) : List String → List Ex → Option String
  | d :: ds, a :: as => match lastDummy y ds as with
      | some r => some r
      | none => if isVar y a then some d else none
  | _, _ => none

def dicSet (d : Dic) (k : String) (v : Int) : Dic :=
  if hasExact d k then d.map (fun kv => if kv.1 == k then (k, v) else kv) else d ++ [(k, v)]

/-- the dictionary a call leaves at its callee -/
def callDic (dic : Dic) (gargs : List String) (args : List Ex) : Dic → Dic → Except String Dic
  | [], acc => .ok acc
  | (k, _) :: rest, acc =>
      let y := k.toLower
      if args.any (isVar y) then
        match lastDummy y gargs args, lookupExact dic y with
        | some d, some v => callDic dic gargs args rest (dicSet acc d v)
        | _, _ => .error "keyerror"
      else callDic dic gargs args rest acc

def keepArg (dic : Dic) : Ex → Bool
  | .var z => !(hasCI dic z)
  | _ => true

mutual
/-- rewrite the calls of a statement list; the second component lists the dictionaries left at callees, in FindNodes order -/
def callsStmts (p : Program) (dic : Dic) : List Stmt → Except String (List Stmt × List (String × Dic))
  | [] => .ok ([], [])
  | s :: ss => do
      let (s', u1) ← callsStmt p dic s
      let (ss', u2) ← callsStmts p dic ss
      pure (s' :: ss', u1 ++ u2)
def callsStmt (p : Program) (dic : Dic) : Stmt → Except String (Stmt × List (String × Dic))
  | .callSub g args =>
      match findUnit p g with
      | none => .ok (.callSub g args, [])
      | some gu => do
          let d ← callDic dic gu.args args dic []
          pure (.callSub g (args.filter (keepArg dic)), [(g, d)])
  | .doLoop v lo hi st body => do
      let (b, u) ← callsStmts p dic body
      pure (.doLoop v lo hi st b, u)
  | .while c body => do
      let (b, u) ← callsStmts p dic body
      pure (.while c b, u)
  | .ifte c t e => do
      let (t', u1) ← callsStmts p dic t
      let (e', u2) ← callsStmts p dic e
      pure (.ifte c t' e', u1 ++ u2)
  | .select e cs d => do
      let (cs', u1) ← callsCases p dic cs
      let (d', u2) ← callsStmts p dic d
      pure (.select e cs' d', u1 ++ u2)
  | .assoc bs body => do
      let (b, u) ← callsStmts p dic body
      pure (.assoc bs b, u)
  | s => .ok (s, [])
def callsCases (p : Program) (dic : Dic) : List (List Int × List Stmt) → Except String (List (List Int × List Stmt) × List (String × Dic))
  | [] => .ok ([], [])
  | (vs, b) :: cs => do
      let (b', u1) ← callsStmts p dic b
      let (cs', u2) ← callsCases p dic cs
      pure ((vs, b') :: cs', u1 ++ u2)
end

/-! ### step 3: declarations -/

/-- (parameter declarations, remaining declarations) -/
def splitDecls (dic : Dic) : List Decl → Except String (List Decl × List Decl)
  | [] => .ok ([], [])
  | d :: ds => do
      let (ps, rs) ← splitDecls dic ds
      if hasCI dic d.name then
        match lookupExact dic d.name with
        | some v => pure ({ d with intent := .none, param := some (litInt v) } :: ps, rs)
        | none => .error "keyerror"
      else pure (ps, d :: rs)

/-! ### step 4: `inline_constant_parameters(external_only=False)` -/

def isLit : Ex → Bool
  | .lit _ => true
  | _ => false

mutual
/-- substitution of the scalar `x` in statements; PRINT values are not reached by Loki's `SubstituteExpressions` -/
def substStmts (x : String) (r : Ex) : List Stmt → List Stmt
  | [] => []
  | s :: ss => substStmt x r s :: substStmts x r ss
def substStmt (x : String) (r : Ex) : Stmt → Stmt
  | .assign l e => .assign (substE x r l) (substE x r e)
  | .doLoop v lo hi st body => .doLoop v (substE x r lo) (substE x r hi) (substO x r st) (substStmts x r body)
  | .while c body => .while (substE x r c) (substStmts x r body)
  | .ifte c t e => .ifte (substE x r c) (substStmts x r t) (substStmts x r e)
  | .select e cs d => .select (substE x r e) (substCases x r cs) (substStmts x r d)
  | .assoc bs body => .assoc (substBinds x r bs) (substStmts x r body)
  | .callSub g args => .callSub g (substEs x r args)
  | .print args => .print args
  | .exit => .exit
  | .cycle => .cycle
  | .nop k t => .nop k t
def substCases (x : String) (r : Ex) : List (List Int × List Stmt) → List (List Int × List Stmt)
  | [] => []
  | (vs, b) :: cs => (vs, substStmts x r b) :: substCases x r cs
def substBinds (x : String) (r : Ex) : List (String × Ex) → List (String × Ex)
  | [] => []
  | (n, e) :: bs => (n, substE x r e) :: substBinds x r bs
end

def substDecl (x : String) (r : Ex) (d : Decl) : Decl :=
  { d with dims := d.dims.map fun b => (substE x r b.1, substE x r b.2) }

/-- the PARAMETERs of a declaration list with their values -/
def paramEnv (ds : List Decl) : List (String × Ex) :=
  ds.filterMap fun d => d.param.map fun e => (d.name, e)

/-- all PARAMETERs replaced by their (literal) values, their declarations removed -/
def inlineParams (decls : List Decl) (body : List Stmt) : List Decl × List Stmt :=
  let env := paramEnv decls
  let rest := decls.filter (·.param.isNone)
  (env.foldl (fun ds xe => ds.map (substDecl xe.1 xe.2)) rest,
   env.foldl (fun b xe => substStmts xe.1 xe.2 b) body)

/-! ### one unit -/

def renamedDecls (dic : Dic) (u : Fir.Unit) : Except String (List Decl) :=
  u.args.foldr (fun a acc => do
    let rest ← acc
    if hasExact dic a then
      match findDecl u a with
      | some d => pure ({ d with name := pfx ++ a } :: rest)
      | none => pure rest
    else pure rest) (.ok [])

/-- `Subroutine.arguments` setter: a new argument must have an INTENT -/
def intentAssertion (dic : Dic) (u : Fir.Unit) : Bool :=
  u.args.any fun a => hasExact dic a && (match findDecl u a with | some d => d.intent == .none | none => false)

def processUnit (cfg : Cfg) (p : Program) (entry : Bool) (dic : Dic) (u : Fir.Unit) :
    Except String (Fir.Unit × List (String × Dic)) :=
  if dic.isEmpty then .ok (u, []) else do
    -- 1
    if entry && intentAssertion dic u then throw "assertion"
    let args' := if entry then u.args.map (fun a => if hasExact dic a then pfx ++ a else a)
                 else u.args.filter (fun a => !(hasExact dic a))
    let newDecls ← if entry then renamedDecls dic u else pure []
    let pre := if entry then guards cfg dic u.args else []
    -- 2
    let (body, upd) ← callsStmts p dic u.body
    -- 3
    let (ps, rs) ← splitDecls dic (u.decls ++ newDecls)
    if !ps.isEmpty && rs.isEmpty then throw "indexerror"
    let decls := ps ++ rs
    let body := pre ++ body
    -- 4
    let (decls, body) := if cfg.rbv then inlineParams decls body else (decls, body)
    pure ({ u with args := args', decls := decls, body := body }, upd)

/-! ### the call tree -/

structure Done where
  name : String
  entry : Bool
  dic : Dic
  unit : Fir.Unit

def setTrafo (t : List (String × Dic)) (g : String) (d : Dic) : List (String × Dic) :=
  if t.any (·.1 == g) then t.map (fun kv => if kv.1 == g then (g, d) else kv) else t ++ [(g, d)]

def getTrafo (t : List (String × Dic)) (g : String) : Dic := ((t.find? (·.1 == g)).map (·.2)).getD []

/-- units processed in `order`; stops at the first exception -/
def runAll (cfg : Cfg) (p : Program) : List String → List (String × Dic) → List Done → List Done × Option String
  | [], _, acc => (acc, none)
  | name :: rest, trafo, acc =>
      match findUnit p name with
      | none => runAll cfg p rest trafo acc
      | some u =>
          let entry := isEntry cfg p name
          let dic := if entry then cfg.dic else getTrafo trafo name
          match processUnit cfg p entry dic u with
          | .error e => (acc, some e)
          | .ok (u', upd) =>
              runAll cfg p rest (upd.foldl (fun t gd => setTrafo t gd.1 gd.2) trafo)
                (acc ++ [{ name := name, entry := entry, dic := dic, unit := u' }])

/-- `inline_constant_parameters` leaves the declaration of a non-symbol behind when a PARAMETER's value is not a literal -/
def corrupt (cfg : Cfg) (p : Program) (ds : List Done) : Bool :=
  cfg.rbv && ds.any fun d => !d.dic.isEmpty &&
    (match findUnit p d.name with
     | some u => u.decls.any fun dc => match dc.param with | some e => !(isLit e) | none => false
     | none => false)

def transformProgram (cfg : Cfg) (p : Program) : Except String Program :=
  match runAll cfg p cfg.order [] [] with
  | (_, some e) => .error e
  | (ds, none) =>
      if corrupt cfg p ds then .error "corrupt-declaration" else
      .ok { p with units := p.units.map fun u => match ds.find? (·.name == u.name) with | some d => d.unit | none => u }

/-! ### known-finding classes (decidable; mirrored in harness/props/c39.py `classes_of`) -/

mutual
def callsOf : List Stmt → List (String × List Ex)
  | [] => []
  | s :: ss => callsOfStmt s ++ callsOf ss
def callsOfStmt : Stmt → List (String × List Ex)
  | .callSub g args => [(g, args)]
  | .doLoop _ _ _ _ body => callsOf body
  | .while _ body => callsOf body
  | .ifte _ t e => callsOf t ++ callsOf e
  | .select _ cs d => callsOfCases cs ++ callsOf d
  | .assoc _ body => callsOf body
  | _ => []
def callsOfCases : List (List Int × List Stmt) → List (String × List Ex)
  | [] => []
  | (_, b) :: cs => callsOf b ++ callsOfCases cs
end

/-- what a call *should* leave at its callee: every dummy that receives a key variable, with that key's value -/
def idealMap (dic : Dic) : List String → List Ex → Dic
  | d :: ds, a :: as =>
      (match a with
       | .var y => match lookupCI dic y with | some v => [(d, v)] | none => []
       | _ => []) ++ idealMap dic ds as
  | _, _ => []

def sameSet (a b : Dic) : Bool := a.all (b.contains ·) && b.all (a.contains ·)

/-- the call sites of the tree disagree with the dictionary their callee is processed with -/
def KnownInconsistentCalls (p : Program) (ds : List Done) : Bool :=
  ds.any fun d =>
    match findUnit p d.name with
    | none => false
    | some u => (callsOf u.body).any fun c =>
        match findUnit p c.1, ds.find? (·.name == c.1) with
        | some gu, some gd =>
            let ideal := idealMap d.dic gu.args c.2
            if gd.entry then !ideal.isEmpty else !(sameSet ideal gd.dic)
        | _, _ => false

mutual
def exMentions (x : String) : Ex → Bool
  | .lit _ => false
  | .var y => y == x
  | .idx y es => y == x || exsMention x es
  | .sec y ds => y == x || dimsMention x ds
  | .neg a => exMentions x a
  | .not a => exMentions x a
  | .bin _ a b => exMentions x a || exMentions x b
  | .call _ es => exsMention x es
def exsMention (x : String) : List Ex → Bool
  | [] => false
  | e :: es => exMentions x e || exsMention x es
def dimsMention (x : String) : List Dim → Bool
  | [] => false
  | .at e :: ds => exMentions x e || dimsMention x ds
  | .rng lo hi st :: ds => oMentions x lo || oMentions x hi || oMentions x st || dimsMention x ds
def oMentions (x : String) : Option Ex → Bool
  | none => false
  | some e => exMentions x e
end

mutual
def printMentions (xs : List String) : List Stmt → Bool
  | [] => false
  | s :: ss => printMentionsStmt xs s || printMentions xs ss
def printMentionsStmt (xs : List String) : Stmt → Bool
  | .print args => xs.any fun x => exsMention x args
  | .doLoop _ _ _ _ body => printMentions xs body
  | .while _ body => printMentions xs body
  | .ifte _ t e => printMentions xs t || printMentions xs e
  | .select _ cs d => printMentionsCases xs cs || printMentions xs d
  | .assoc _ body => printMentions xs body
  | _ => false
def printMentionsCases (xs : List String) : List (List Int × List Stmt) → Bool
  | [] => false
  | (_, b) :: cs => printMentions xs b || printMentionsCases xs cs
end

/-- `replace_by_value` and a PRINT statement of a processed unit mentions a PARAMETER (old or new): the name stays, its
declaration goes -/
def KnownRbvPrint (cfg : Cfg) (p : Program) (ds : List Done) : Bool :=
  cfg.rbv && ds.any fun d => !d.dic.isEmpty &&
    (match findUnit p d.name with
     | some u => printMentions ((u.decls.filter fun dc => dc.param.isSome || hasCI d.dic dc.name).map (·.name)) u.body
     | none => false)

def classesOf (cfg : Cfg) (p : Program) : List String :=
  let r := runAll cfg p cfg.order [] []
  (if r.2 == some "keyerror" then ["param-key-case"] else []) ++
  (if r.2 == some "assertion" then ["param-no-intent"] else []) ++
  (if r.2 == some "indexerror" then ["param-all-decls-removed"] else []) ++
  (if KnownInconsistentCalls p r.1 then ["param-inconsistent-calls"] else []) ++
  (if corrupt cfg p r.1 then ["param-rbv-nonliteral-parameter"] else []) ++
  (if KnownRbvPrint cfg p r.1 then ["param-rbv-print"] else [])

end LokiModel.C39
