import LokiModel.C39.Model
import LokiModel.Fir.Fuel
/-!
# C39 — the substitution lemma lifted to statements, and the guard

`Inv x v st`: the variable `x` is an integer scalar cell holding `v` and no ASSOCIATE name is active.
`safeStmts x ss`: the statements never write `x` (documented use of the transformation: the parametrised dummy is read only) and
stay inside the statement class covered by the proof (no ASSOCIATE, no array-section target, no actual argument mentioning `x`).
-/
namespace LokiModel.C39
open LokiModel.Fir
open LokiModel.Expr (Val CmpOp)

structure Inv (x : String) (v : Int) (st : St) : Prop where
  noAlias : st.alias = []
  cell : lookupCell st x = some (.scalar .int (some (.int v)))

theorem evalE_litInt (st : St) (pos : List Nat) (v : Int) : evalE st pos (litInt v) = some (.int v) := by
  unfold litInt
  split
  · simp [evalE, Val.neg]
  · simp [evalE]

theorem lookupAlias_nil {st : St} (h : st.alias = []) (y : String) : lookupAlias st y = none := by
  simp [lookupAlias, h]

theorem resolve_nil {st : St} (h : st.alias = []) (y : String) (subs : List Int) : resolve st y subs = some (y, subs) := by
  simp [resolve, lookupAlias_nil h]

theorem substOK_of_inv {x : String} {v : Int} {st : St} (h : Inv x v st) : SubstOK st x (litInt v) where
  scalar := by simp [boundsOf, lookupAlias_nil h.noAlias, h.cell]
  same := by
    intro pos
    rw [evalE_litInt]
    simp [readAt, resolve_nil h.noAlias, h.cell]

theorem setCell_find_ne {x y : String} (hne : y ≠ x) (c : Cell) :
    ∀ store : List (String × Cell), (setCell store y c).find? (·.1 == x) = store.find? (·.1 == x)
  | [] => by simp [setCell, List.find?, hne]
  | (z, d) :: rest => by
      simp only [setCell]
      split
      · rename_i hz
        have : z = y := by simpa using hz
        subst this
        have hzx : (z == x) = false := by simpa using hne
        simp [List.find?, hzx]
      · simp only [List.find?]
        split
        · rfl
        · exact setCell_find_ne hne c rest

theorem inv_setCell {x : String} {v : Int} {st : St} (h : Inv x v st) {y : String} (hne : y ≠ x) (c : Cell) :
    Inv x v { st with store := setCell st.store y c } where
  noAlias := h.noAlias
  cell := by
    have := h.cell
    simp only [lookupCell] at this ⊢
    rw [setCell_find_ne hne]; exact this

theorem writeAt_inv {x : String} {v : Int} {st st' : St} (h : Inv x v st) {y : String} (hne : y ≠ x) {is : List Int} {w : Val}
    (hw : writeAt st y is w = some st') : Inv x v st' := by
  unfold writeAt at hw
  rw [resolve_nil h.noAlias] at hw
  simp only [Option.bind_eq_bind, Option.bind] at hw
  cases hc : lookupCell st y with
  | none => simp [hc] at hw
  | some c =>
    simp only [hc] at hw
    cases c with
    | scalar ty ov =>
      simp only at hw
      split at hw
      · cases hco : coerce ty w with
        | none => simp [hco] at hw
        | some w' =>
          simp [hco] at hw
          subst hw
          exact inv_setCell h hne _
      · simp at hw
    | array ty bs data =>
      simp only at hw
      cases ho : offset bs is with
      | none => simp [ho] at hw
      | some o =>
        simp only [ho] at hw
        cases hco : coerce ty w with
        | none => simp [hco] at hw
        | some w' =>
          simp only [hco] at hw
          split at hw
          · simp at hw; subst hw; exact inv_setCell h hne _
          · simp at hw

theorem inv_out {x : String} {v : Int} {st : St} (h : Inv x v st) (o : List (List Val)) : Inv x v { st with out := o } where
  noAlias := h.noAlias
  cell := h.cell

/-! ### the covered statement class -/

def safeLhs (x : String) : Ex → Bool
  | .var y => y != x
  | .idx y _ => y != x
  | _ => false

mutual
def safeStmts (x : String) : List Stmt → Bool
  | [] => true
  | s :: ss => safeStmt x s && safeStmts x ss
def safeStmt (x : String) : Stmt → Bool
  | .assign l _ => safeLhs x l
  | .doLoop w _ _ _ body => w != x && safeStmts x body
  | .while _ body => safeStmts x body
  | .ifte _ t e => safeStmts x t && safeStmts x e
  | .select _ cs d => safeCases x cs && safeStmts x d
  | .assoc _ _ => false
  | .callSub _ args => !(exsMention x args)
  | _ => true
def safeCases (x : String) : List (List Int × List Stmt) → Bool
  | [] => true
  | (_, b) :: cs => safeStmts x b && safeCases x cs
end

mutual
theorem substE_noMention (x : String) (r : Ex) : ∀ e : Ex, exMentions x e = false → substE x r e = e
  | .lit v, _ => by simp [substE]
  | .var y, h => by
      have : (y == x) = false := by simpa [exMentions] using h
      simp [substE, this]
  | .idx y es, h => by
      simp only [exMentions, Bool.or_eq_false_iff] at h
      simp only [substE]; rw [substEs_noMention x r es h.2]
  | .sec y ds, h => by
      simp only [exMentions, Bool.or_eq_false_iff] at h
      simp only [substE]; rw [substDims_noMention x r ds h.2]
  | .neg a, h => by
      simp only [exMentions] at h
      simp only [substE]; rw [substE_noMention x r a h]
  | .not a, h => by
      simp only [exMentions] at h
      simp only [substE]; rw [substE_noMention x r a h]
  | .bin o a b, h => by
      simp only [exMentions, Bool.or_eq_false_iff] at h
      simp only [substE]; rw [substE_noMention x r a h.1, substE_noMention x r b h.2]
  | .call f es, h => by
      simp only [exMentions] at h
      simp only [substE]; rw [substEs_noMention x r es h]
theorem substEs_noMention (x : String) (r : Ex) : ∀ es : List Ex, exsMention x es = false → substEs x r es = es
  | [], _ => by simp [substEs]
  | e :: es, h => by
      simp only [exsMention, Bool.or_eq_false_iff] at h
      simp only [substEs]; rw [substE_noMention x r e h.1, substEs_noMention x r es h.2]
theorem substDims_noMention (x : String) (r : Ex) : ∀ ds : List Dim, dimsMention x ds = false → substDims x r ds = ds
  | [], _ => by simp [substDims]
  | .at e :: ds, h => by
      simp only [dimsMention, Bool.or_eq_false_iff] at h
      simp only [substDims]; rw [substE_noMention x r e h.1, substDims_noMention x r ds h.2]
  | .rng lo hi st :: ds, h => by
      simp only [dimsMention, Bool.or_eq_false_iff] at h
      simp only [substDims]
      rw [substO_noMention x r lo h.1.1.1, substO_noMention x r hi h.1.1.2, substO_noMention x r st h.1.2,
          substDims_noMention x r ds h.2]
theorem substO_noMention (x : String) (r : Ex) : ∀ o : Option Ex, oMentions x o = false → substO x r o = o
  | none, _ => by simp [substO]
  | some e, h => by
      simp only [oMentions] at h
      simp only [substO]; rw [substE_noMention x r e h]
end

/-! ### assignment -/

theorem assign_eq {st : St} {x : String} {r : Ex} (hok : SubstOK st x r) (lhs rhs : Ex) (hs : safeLhs x lhs = true) :
    assignStmt st (substE x r lhs) (substE x r rhs) = assignStmt st lhs rhs := by
  cases lhs with
  | var y =>
    have hy : (y == x) = false := by simpa [safeLhs] using hs
    have hsub : substE x r (.var y) = .var y := by simp [substE, hy]
    rw [hsub]
    simp only [assignStmt]
    cases boundsOf st y with
    | none => simp only [evalE_subst hok]
    | some bs =>
      have : (fun p => evalE st p (substE x r rhs)) = fun p => evalE st p rhs := by
        funext p; exact evalE_subst hok rhs p
      simp only [this]
  | idx y subs =>
    simp only [substE, assignStmt, evalIdx_subst hok, evalE_subst hok]
  | lit v => simp [safeLhs] at hs
  | sec y ds => simp [safeLhs] at hs
  | neg a => simp [safeLhs] at hs
  | not a => simp [safeLhs] at hs
  | bin o a b => simp [safeLhs] at hs
  | call f es => simp [safeLhs] at hs

theorem foldlM_inv {x : String} {v : Int} {α : Type} (F : St → α → Option St)
    (hF : ∀ s a s', Inv x v s → F s a = some s' → Inv x v s') :
    ∀ (l : List α) (s s' : St), Inv x v s → l.foldlM F s = some s' → Inv x v s'
  | [], s, s', h, hf => by
      simp [List.foldlM] at hf; subst hf; exact h
  | a :: l, s, s', h, hf => by
      simp only [List.foldlM_cons] at hf
      cases h1 : F s a with
      | none => simp [h1] at hf
      | some s1 =>
        simp [h1] at hf
        exact foldlM_inv F hF l s1 s' (hF s a s1 h h1) hf

theorem assign_inv {st st' : St} {x : String} {v : Int} (h : Inv x v st) (lhs rhs : Ex) (hs : safeLhs x lhs = true)
    (ha : assignStmt st lhs rhs = some st') : Inv x v st' := by
  cases lhs with
  | var y =>
    have hy : y ≠ x := by simpa [safeLhs] using hs
    simp only [assignStmt] at ha
    cases hb : boundsOf st y with
    | none =>
      simp only [hb] at ha
      cases he : evalE st [] rhs with
      | none => simp [he] at ha
      | some w => simp [he] at ha; exact writeAt_inv h hy ha
    | some bs =>
      simp only [hb] at ha
      cases hm : (positions (bs.map extent)).mapM fun p => evalE st p rhs with
      | none => simp [hm] at ha
      | some vals =>
        simp [hm] at ha
        refine foldlM_inv _ ?_ _ st st' h ha
        intro s a s' hi hw
        exact writeAt_inv hi hy hw
  | idx y subs =>
    have hy : y ≠ x := by simpa [safeLhs] using hs
    simp only [assignStmt] at ha
    cases hi : evalIdx st [] subs with
    | none => simp [hi] at ha
    | some is =>
      cases he : evalE st [] rhs with
      | none => simp [hi, he] at ha
      | some w => simp [hi, he] at ha; exact writeAt_inv h hy ha
  | lit v => simp [safeLhs] at hs
  | sec y ds => simp [safeLhs] at hs
  | neg a => simp [safeLhs] at hs
  | not a => simp [safeLhs] at hs
  | bin o a b => simp [safeLhs] at hs
  | call f es => simp [safeLhs] at hs

/-! ### calls: copy-out never touches `x` when no actual argument mentions it -/

def rootOK (x : String) : Ex → Prop
  | .var y => y ≠ x
  | .idx y _ => y ≠ x
  | _ => True

theorem rootOK_of_noMention {x : String} {a : Ex} (h : exMentions x a = false) : rootOK x a := by
  cases a with
  | var y => simpa [rootOK, exMentions] using h
  | idx y es =>
    simp only [exMentions, Bool.or_eq_false_iff] at h
    simpa [rootOK] using h.1
  | _ => simp [rootOK]

theorem rootOK_args {x : String} : ∀ {args : List Ex}, exsMention x args = false → ∀ a ∈ args, rootOK x a
  | [], _, a, ha => by simp at ha
  | e :: es, h, a, ha => by
      simp only [exsMention, Bool.or_eq_false_iff] at h
      cases ha with
      | head => exact rootOK_of_noMention h.1
      | tail _ hm => exact rootOK_args h.2 a hm

theorem freeze_rootOK {x : String} {st : St} (hal : st.alias = []) {a fa : Ex} (h : rootOK x a)
    (hf : freezeActual st a = some fa) : rootOK x fa := by
  cases a with
  | idx y subs =>
    simp only [freezeActual] at hf
    cases hi : evalIdx st [] subs with
    | none => simp [hi] at hf
    | some is =>
      simp [hi, resolve_nil hal] at hf
      subst hf
      simpa [rootOK] using h
  | var y => simp [freezeActual] at hf; subst hf; exact h
  | lit v => simp [freezeActual] at hf; subst hf; exact h
  | sec y ds => simp [freezeActual] at hf; subst hf; exact h
  | neg a => simp [freezeActual] at hf; subst hf; exact h
  | not a => simp [freezeActual] at hf; subst hf; exact h
  | bin o a b => simp [freezeActual] at hf; subst hf; exact h
  | call f es => simp [freezeActual] at hf; subst hf; exact h

theorem mapM_freeze_rootOK {x : String} {st : St} (hal : st.alias = []) :
    ∀ {args fargs : List Ex}, (∀ a ∈ args, rootOK x a) → args.mapM (freezeActual st) = some fargs → ∀ fa ∈ fargs, rootOK x fa
  | [], fargs, _, hm, fa, hfa => by
      simp at hm; subst hm; simp at hfa
  | a :: as, fargs, h, hm, fa, hfa => by
      simp only [List.mapM_cons] at hm
      cases h1 : freezeActual st a with
      | none => simp [h1] at hm
      | some b =>
        cases h2 : as.mapM (freezeActual st) with
        | none => simp [h1, h2] at hm
        | some bs =>
          simp [h1, h2] at hm
          subst hm
          cases hfa with
          | head => exact freeze_rootOK hal (h a (by simp)) h1
          | tail _ hmem => exact mapM_freeze_rootOK hal (fun a' ha' => h a' (by simp [ha'])) h2 fa hmem

theorem writeBack_inv {x : String} {v : Int} {s s' : St} (h : Inv x v s) {a : Ex} (hr : rootOK x a) {vals : List (Option Val)}
    (hw : writeBack s a vals = some s') : Inv x v s' := by
  cases a with
  | var y =>
    have hy : y ≠ x := hr
    simp only [writeBack, lookupAlias_nil h.noAlias] at hw
    cases hc : lookupCell s y with
    | none => simp [hc] at hw
    | some c =>
      simp only [hc] at hw
      cases c with
      | scalar ty ov =>
        simp only at hw
        split at hw
        · rename_i w rest
          cases hco : coerce ty w with
          | none => simp [hco] at hw
          | some w' => simp [hco] at hw; subst hw; exact inv_setCell h hy _
        · simp at hw; subst hw; exact h
      | array ty bs data =>
        simp at hw; subst hw; exact inv_setCell h hy _
  | idx y subs =>
    have hy : y ≠ x := hr
    simp only [writeBack] at hw
    cases hi : evalIdx s [] subs with
    | none => simp [hi] at hw
    | some is =>
      simp only [hi, resolve_nil h.noAlias, Option.bind_eq_bind, Option.bind] at hw
      cases hc : lookupCell s y with
      | none => simp [hc] at hw
      | some c =>
        simp only [hc] at hw
        cases c with
        | array ty bs data =>
          simp only at hw
          cases ho : offset bs is with
          | none => simp [ho] at hw
          | some o => simp [ho] at hw; subst hw; exact inv_setCell h hy _
        | scalar ty ov =>
          simp only at hw
          split at hw
          · rename_i w rest
            cases hco : coerce ty w with
            | none => simp [hco] at hw
            | some w' => simp [hco] at hw; subst hw; exact inv_setCell h hy _
          · simp at hw; subst hw; exact h
  | lit v => simp [writeBack] at hw; subst hw; exact h
  | sec y ds => simp [writeBack] at hw; subst hw; exact h
  | neg a => simp [writeBack] at hw; subst hw; exact h
  | not a => simp [writeBack] at hw; subst hw; exact h
  | bin o a b => simp [writeBack] at hw; subst hw; exact h
  | call f es => simp [writeBack] at hw; subst hw; exact h

theorem foldl_opt_inv {x : String} {v : Int} {α : Type} (F : Option St → α → Option St) (P : α → Prop)
    (hnone : ∀ a, F none a = none)
    (hF : ∀ s a s', Inv x v s → P a → F (some s) a = some s' → Inv x v s') :
    ∀ (l : List α) (acc : Option St) (s' : St), (∀ a ∈ l, P a) → (∀ s, acc = some s → Inv x v s) →
      l.foldl F acc = some s' → Inv x v s'
  | [], acc, s', _, hacc, hf => by
      simp at hf; exact hacc s' hf
  | a :: l, acc, s', hP, hacc, hf => by
      simp only [List.foldl_cons] at hf
      refine foldl_opt_inv F P hnone hF l (F acc a) s' (fun b hb => hP b (by simp [hb])) ?_ hf
      intro s1 h1
      cases acc with
      | none => rw [hnone] at h1; cases h1
      | some s0 => exact hF s0 a s1 (hacc s0 rfl) (hP a (by simp)) h1

theorem safeCases_find {x : String} {q : List Int × List Stmt → Bool} :
    ∀ {cs : List (List Int × List Stmt)} {c}, safeCases x cs = true → cs.find? q = some c → safeStmts x c.2 = true
  | [], c, _, hf => by simp at hf
  | (vs, b) :: cs, c, hs, hf => by
      simp only [safeCases, Bool.and_eq_true] at hs
      simp only [List.find?] at hf
      split at hf
      · cases hf; exact hs.1
      · exact safeCases_find hs.2 hf

/-! ### executing safe statements preserves the invariant -/

structure Pres (P : Program) (x : String) (v : Int) (f : Nat) : Prop where
  stmts : ∀ ss st st' sig, Inv x v st → safeStmts x ss = true → execStmts P f ss st = .ok st' sig → Inv x v st'
  stmt : ∀ s st st' sig, Inv x v st → safeStmt x s = true → execStmt P f s st = .ok st' sig → Inv x v st'
  doI : ∀ w body step n cur st st' sig, Inv x v st → w ≠ x → safeStmts x body = true →
      doIter P f w body step n cur st = .ok st' sig → Inv x v st'
  whileI : ∀ c body st st' sig, Inv x v st → safeStmts x body = true → whileIter P f c body st = .ok st' sig → Inv x v st'

theorem pres_zero (P : Program) (x : String) (v : Int) : Pres P x v 0 := by
  constructor
  · intro ss st st' sig _ _ h; simp [execStmts] at h
  · intro s st st' sig _ _ h; simp [execStmt] at h
  · intro w body step n cur st st' sig _ _ _ h; simp [doIter] at h
  · intro c body st st' sig _ _ h; simp [whileIter] at h

theorem pres_succ (P : Program) (x : String) (v : Int) (f : Nat) (ih : Pres P x v f) : Pres P x v (f + 1) := by
  constructor
  · -- execStmts
    intro ss st st' sig hi hs h
    cases ss with
    | nil => simp [execStmts] at h; rw [← h.1]; exact hi
    | cons s rest =>
      simp only [safeStmts, Bool.and_eq_true] at hs
      simp only [execStmts] at h
      cases hr : execStmt P f s st with
      | fuel => simp [hr] at h
      | err m => simp [hr] at h
      | ok st1 sg =>
        have h1 := ih.stmt s st st1 sg hi hs.1 hr
        rw [hr] at h
        cases sg with
        | normal => exact ih.stmts rest st1 st' sig h1 hs.2 h
        | exit => simp at h; rw [← h.1]; exact h1
        | cycle => simp at h; rw [← h.1]; exact h1
  · -- execStmt
    intro s st st' sig hi hs h
    cases s with
    | assign lhs rhs =>
      simp only [safeStmt] at hs
      simp only [execStmt] at h
      cases ha : assignStmt st lhs rhs with
      | none => simp [ha] at h
      | some st1 => simp [ha] at h; rw [← h.1]; exact assign_inv hi lhs rhs hs ha
    | doLoop w lo hi' step body =>
      simp only [safeStmt, Bool.and_eq_true] at hs
      have hw : w ≠ x := by simpa using hs.1
      simp only [execStmt] at h
      split at h
      · split at h
        · cases h
        · exact ih.doI _ _ _ _ _ _ _ _ hi hw hs.2 h
      · cases h
    | «while» c body =>
      simp only [safeStmt] at hs
      simp only [execStmt] at h
      exact ih.whileI _ _ _ _ _ hi hs h
    | ifte c t e =>
      simp only [safeStmt, Bool.and_eq_true] at hs
      simp only [execStmt] at h
      split at h
      · exact ih.stmts _ _ _ _ hi hs.1 h
      · exact ih.stmts _ _ _ _ hi hs.2 h
      · cases h
    | select e cases dflt =>
      simp only [safeStmt, Bool.and_eq_true] at hs
      simp only [execStmt] at h
      split at h
      · split at h
        · rename_i c hc
          exact ih.stmts _ _ _ _ hi (safeCases_find hs.1 hc) h
        · exact ih.stmts _ _ _ _ hi hs.2 h
      · cases h
    | assoc binds body => simp [safeStmt] at hs
    | callSub g args =>
      simp only [safeStmt, Bool.not_eq_true'] at hs
      simp only [execStmt] at h
      split at h
      · cases h
      · rename_i u hu
        split at h
        · cases h
        · split at h
          · cases h
          · rename_i fargs hfa
            split at h
            · cases h
            · rename_i cs hcs
              split at h
              · rename_i cs' hb
                split at h
                · rename_i stf hback
                  simp at h
                  rw [← h.1]
                  have hroots := mapM_freeze_rootOK (x := x) hi.noAlias (rootOK_args hs) hfa
                  refine foldl_opt_inv (x := x) (v := v) _ (fun pa : String × Ex => rootOK x pa.2) ?_ ?_ _ _ stf ?_ ?_ hback
                  · intro a; rfl
                  · intro s pa s' hsI hpa hstep
                    simp only [Option.bind_eq_bind, Option.bind] at hstep
                    cases hd : findDecl u pa.1 with
                    | none => simp [hd] at hstep
                    | some d =>
                      simp only [hd] at hstep
                      split at hstep
                      · simp at hstep; rw [← hstep]; exact hsI
                      · cases hc : (cs'.store.find? (·.1 == pa.1)).map (·.2) with
                        | none => simp [hc] at hstep
                        | some c =>
                          simp only [hc] at hstep
                          exact writeBack_inv hsI hpa hstep
                  · intro pa hpa
                    exact hroots pa.2 (List.of_mem_zip hpa).2
                  · intro s0 hs0
                    cases hs0
                    exact inv_out hi _
                · cases h
              · cases h
              · rename_i hno
                exact (hno _ _ h).elim
    | print args =>
      simp only [execStmt] at h
      split at h
      · simp at h; rw [← h.1]; exact inv_out hi _
      · cases h
    | exit => simp [execStmt] at h; rw [← h.1]; exact hi
    | cycle => simp [execStmt] at h; rw [← h.1]; exact hi
    | nop k t => simp [execStmt] at h; rw [← h.1]; exact hi
  · -- doIter
    intro w body step n cur st st' sig hi hw hs h
    simp only [doIter] at h
    split at h
    · cases h
    · rename_i st1 hwr
      have h1 := writeAt_inv hi hw hwr
      cases n with
      | zero => simp at h; rw [← h.1]; exact h1
      | succ n' =>
        simp only at h
        cases hb : execStmts P f body st1 with
        | fuel => simp [hb] at h
        | err m => simp [hb] at h
        | ok st2 sg =>
          have h2 := ih.stmts body st1 st2 sg h1 hs hb
          rw [hb] at h
          cases sg with
          | exit => simp at h; rw [← h.1]; exact h2
          | normal => exact ih.doI _ _ _ _ _ _ _ _ h2 hw hs h
          | cycle => exact ih.doI _ _ _ _ _ _ _ _ h2 hw hs h
  · -- whileIter
    intro c body st st' sig hi hs h
    simp only [whileIter] at h
    split at h
    · cases hb : execStmts P f body st with
      | fuel => simp [hb] at h
      | err m => simp [hb] at h
      | ok st2 sg =>
        have h2 := ih.stmts body st st2 sg hi hs hb
        rw [hb] at h
        cases sg with
        | exit => simp at h; rw [← h.1]; exact h2
        | normal => exact ih.whileI _ _ _ _ _ h2 hs h
        | cycle => exact ih.whileI _ _ _ _ _ h2 hs h
    · simp at h; rw [← h.1]; exact hi
    · cases h

theorem pres (P : Program) (x : String) (v : Int) : ∀ f, Pres P x v f
  | 0 => pres_zero P x v
  | f + 1 => pres_succ P x v f (pres P x v f)

/-! ### the substituted statements execute like the original ones -/

theorem find_substCases (x : String) (r : Ex) (q : List Int → Bool) :
    ∀ cs : List (List Int × List Stmt),
      (substCases x r cs).find? (fun c => q c.1) = (cs.find? (fun c => q c.1)).map (fun c => (c.1, substStmts x r c.2))
  | [] => by simp [substCases]
  | (vs, b) :: cs => by
      simp only [substCases, List.find?]
      cases q vs with
      | true => simp
      | false => simpa using find_substCases x r q cs

structure Sim (P : Program) (x : String) (v : Int) (f : Nat) : Prop where
  stmts : ∀ ss st, Inv x v st → safeStmts x ss = true →
      execStmts P f (substStmts x (litInt v) ss) st = execStmts P f ss st
  stmt : ∀ s st, Inv x v st → safeStmt x s = true → execStmt P f (substStmt x (litInt v) s) st = execStmt P f s st
  doI : ∀ w body step n cur st, Inv x v st → w ≠ x → safeStmts x body = true →
      doIter P f w (substStmts x (litInt v) body) step n cur st = doIter P f w body step n cur st
  whileI : ∀ c body st, Inv x v st → safeStmts x body = true →
      whileIter P f (substE x (litInt v) c) (substStmts x (litInt v) body) st = whileIter P f c body st

theorem sim_zero (P : Program) (x : String) (v : Int) : Sim P x v 0 := by
  constructor
  · intro ss st _ _; simp [execStmts]
  · intro s st _ _; simp [execStmt]
  · intro w body step n cur st _ _ _; simp [doIter]
  · intro c body st _ _; simp [whileIter]

theorem sim_succ (P : Program) (x : String) (v : Int) (f : Nat) (ih : Sim P x v f) : Sim P x v (f + 1) := by
  have pr := pres P x v f
  constructor
  · -- execStmts
    intro ss st hi hs
    cases ss with
    | nil => simp [substStmts]
    | cons s rest =>
      simp only [safeStmts, Bool.and_eq_true] at hs
      simp only [substStmts, execStmts]
      rw [ih.stmt s st hi hs.1]
      cases hr : execStmt P f s st with
      | fuel => rfl
      | err m => rfl
      | ok st1 sg =>
        cases sg with
        | normal => exact ih.stmts rest st1 (pr.stmt s st st1 _ hi hs.1 hr) hs.2
        | exit => rfl
        | cycle => rfl
  · -- execStmt
    intro s st hi hs
    have hok := substOK_of_inv hi
    cases s with
    | assign lhs rhs =>
      simp only [safeStmt] at hs
      simp only [substStmt, execStmt]
      rw [assign_eq hok lhs rhs hs]
    | doLoop w lo hi' step body =>
      simp only [safeStmt, Bool.and_eq_true] at hs
      have hw : w ≠ x := by simpa using hs.1
      simp only [substStmt, execStmt, evalE_subst hok]
      generalize (evalE st [] lo).bind asInt = a
      generalize (evalE st [] hi').bind asInt = b
      cases step with
      | none =>
        simp only [substO]
        cases a <;> cases b <;> try rfl
        simp only
        exact ih.doI _ _ _ _ _ _ hi hw hs.2
      | some e =>
        simp only [substO, evalE_subst hok]
        generalize (evalE st [] e).bind asInt = c
        cases a <;> cases b <;> cases c <;> try rfl
        rename_i l hh sv
        simp only
        by_cases hs0 : sv = 0
        · simp [hs0]
        · simp only [hs0, if_false]
          exact ih.doI _ _ _ _ _ _ hi hw hs.2
    | «while» c body =>
      simp only [safeStmt] at hs
      simp only [substStmt, execStmt]
      exact ih.whileI _ _ _ hi hs
    | ifte c t e =>
      simp only [safeStmt, Bool.and_eq_true] at hs
      simp only [substStmt, execStmt, evalE_subst hok]
      cases evalE st [] c with
      | none => rfl
      | some w =>
        cases w with
        | int i => rfl
        | real q => rfl
        | bool bb =>
          cases bb with
          | true => exact ih.stmts _ _ hi hs.1
          | false => exact ih.stmts _ _ hi hs.2
    | select e cases dflt =>
      simp only [safeStmt, Bool.and_eq_true] at hs
      simp only [substStmt, execStmt, evalE_subst hok]
      cases (evalE st [] e).bind asInt with
      | none => rfl
      | some i =>
        simp only
        rw [find_substCases x (litInt v) (fun vs => vs.contains i) cases]
        cases hc : cases.find? (fun c => c.1.contains i) with
        | none => simp only [Option.map]; exact ih.stmts _ _ hi hs.2
        | some c => simp only [Option.map]; exact ih.stmts _ _ hi (safeCases_find hs.1 hc)
    | assoc binds body => simp [safeStmt] at hs
    | callSub g args =>
      simp only [safeStmt, Bool.not_eq_true'] at hs
      simp only [substStmt]
      rw [substEs_noMention x (litInt v) args hs]
    | print args => rfl
    | exit => rfl
    | cycle => rfl
    | nop k t => rfl
  · -- doIter
    intro w body step n cur st hi hw hs
    simp only [doIter]
    cases hwr : writeAt st w [] (.int cur) with
    | none => rfl
    | some st1 =>
      have h1 := writeAt_inv hi hw hwr
      cases n with
      | zero => rfl
      | succ n' =>
        simp only
        rw [ih.stmts body st1 h1 hs]
        cases hb : execStmts P f body st1 with
        | fuel => rfl
        | err m => rfl
        | ok st2 sg =>
          have h2 := pr.stmts body st1 st2 sg h1 hs hb
          cases sg with
          | exit => rfl
          | normal => exact ih.doI _ _ _ _ _ _ h2 hw hs
          | cycle => exact ih.doI _ _ _ _ _ _ h2 hw hs
  · -- whileIter
    intro c body st hi hs
    have hok := substOK_of_inv hi
    simp only [whileIter, evalE_subst hok]
    cases evalE st [] c with
    | none => rfl
    | some w =>
      cases w with
      | int i => rfl
      | real q => rfl
      | bool bb =>
        cases bb with
        | false => rfl
        | true =>
          simp only
          rw [ih.stmts body st hi hs]
          cases hb : execStmts P f body st with
          | fuel => rfl
          | err m => rfl
          | ok st2 sg =>
            have h2 := pr.stmts body st st2 sg hi hs hb
            cases sg with
            | exit => rfl
            | normal => exact ih.whileI _ _ _ h2 hs
            | cycle => exact ih.whileI _ _ _ h2 hs

theorem sim (P : Program) (x : String) (v : Int) : ∀ f, Sim P x v f
  | 0 => sim_zero P x v
  | f + 1 => sim_succ P x v f (sim P x v f)

end LokiModel.C39
