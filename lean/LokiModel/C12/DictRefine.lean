import LokiModel.C12.Lemmas
/-!
# C12: `CaseInsensitiveDict` / `CaseInsensitiveDefaultDict` refine a mapping keyed by the lower-cased key
-/
namespace LokiModel.C12

theorem dinv_aset {d : DSt} {k : Name} (v : Nat) (h : DInv d) (hk : lower k = k) : DInv (aset k v d) := by
  intro kv hkv
  rcases mem_aset hkv with h1 | h1
  · rw [h1]; exact hk
  · exact h kv h1

theorem dinv_aerase {d : DSt} (k : Name) (h : DInv d) : DInv (aerase k d) :=
  fun kv hkv => h kv (mem_aerase hkv)

theorem dinv_foldl {l : List (Name × Nat)} (f : Name → Name) (hf : ∀ kv : Name × Nat, kv ∈ l → lower (f kv.1) = f kv.1) :
    ∀ d : DSt, DInv d → DInv (l.foldl (fun e kv => aset (f kv.1) kv.2 e) d) := by
  induction l with
  | nil => intro d h; exact h
  | cons x xs ih =>
    intro d h
    exact ih (fun kv hkv => hf kv (List.mem_cons_of_mem _ hkv)) _ (dinv_aset _ h (hf x List.mem_cons_self))

theorem draw_lookup {d : DSt} {k : Name} (hd : DInv d)
    (hK : (k != lower k && (alookup (lower k) d).isSome) = false) : alookup k d = alookup (lower k) d := by
  by_cases hk : k = lower k
  · exact congrArg (fun x => alookup x d) hk
  · simp [hk] at hK
    rw [hK]
    cases h : alookup k d with
    | none => rfl
    | some v =>
      have := hd _ (alookup_mem h)
      exact absurd this.symm hk

theorem draw_erase {d : DSt} {k : Name} {v : Nat} (hd : DInv d) (h : alookup k d = some v) :
    aerase k d = aerase (lower k) d := by
  have := hd _ (alookup_mem h)
  simp only at this
  rw [this]

structure DRef (kind : DKind) (d : DSt) (op : DOp) : Prop where
  st : dabs (dstep kind d op).1 = (dspecStep kind (dabs d) op).1
  out : (dstep kind d op).2 = (dspecStep kind (dabs d) op).2
  inv : DInv (dstep kind d op).1

theorem dref_erase (kind : DKind) (d : DSt) (k : Name) (hi : DInv d)
    (hK : (k != lower k && (alookup (lower k) d).isSome) = false) :
    DRef kind d (.del k) ∧ DRef kind d (.pop k) ∧ DRef kind d (.popd k) := by
  have e := draw_lookup hi hK
  cases hl : alookup (lower k) d with
  | none =>
    rw [hl] at e
    refine ⟨?_, ?_, ?_⟩ <;> constructor <;> simp [dstep, dspecStep, e, hl, dabs, hi]
  | some v =>
    rw [hl] at e
    have e2 := draw_erase hi e
    have e3 : dabs (aerase k d) = (dabs d).del (lower k) := by rw [e2, dabs_aerase]
    have hl' : dabs d (lower k) = some v := hl
    refine ⟨?_, ?_, ?_⟩ <;> constructor <;>
      simp only [dstep, dspecStep, e, hl', e3] <;> first | rfl | exact dinv_aerase k hi

theorem dstep_refines (kind : DKind) (d : DSt) (op : DOp) (hi : DInv d) (hK : DKnown kind d op = false) :
    DRef kind d op := by
  cases op with
  | set k v => exact ⟨dabs_aset _ _ _, rfl, dinv_aset v hi (lower_idem k)⟩
  | get k => exact ⟨rfl, rfl, hi⟩
  | contains k => exact ⟨rfl, rfl, hi⟩
  | getitem k =>
    cases hl : alookup (lower k) d with
    | some v => constructor <;> simp [dstep, dspecStep, dabs, hl, hi]
    | none =>
      have hl' : dabs d (lower k) = none := hl
      cases kind with
      | ordered => constructor <;> simp [dstep, dspecStep, hl, hl', hi]
      | dflt =>
        constructor <;> simp only [dstep, dspecStep, hl, hl']
        · exact dabs_aset _ _ _
        · exact dinv_aset 0 hi (lower_idem k)
  | del k => exact (dref_erase kind d k hi (by simpa [DKnown] using hK)).1
  | pop k => exact (dref_erase kind d k hi (by simpa [DKnown] using hK)).2.1
  | popd k => exact (dref_erase kind d k hi (by simpa [DKnown] using hK)).2.2
  | setdefault k v =>
    have core : ∀ k' : Name, k' = lower k →
        dabs (match alookup k' d with | some w => (d, Out.val w) | none => (aset k' v d, Out.val v)).1 =
          (match dabs d (lower k) with | some w => (dabs d, Out.val w) | none => ((dabs d).upd (lower k) v, Out.val v)).1 ∧
        (match alookup k' d with | some w => (d, Out.val w) | none => (aset k' v d, Out.val v)).2 =
          (match dabs d (lower k) with | some w => (dabs d, Out.val w) | none => ((dabs d).upd (lower k) v, Out.val v)).2 ∧
        DInv (match alookup k' d with | some w => (d, Out.val w) | none => (aset k' v d, Out.val v)).1 := by
      intro k' hk'
      subst hk'
      have : dabs d (lower k) = alookup (lower k) d := rfl
      rw [this]
      cases alookup (lower k) d with
      | some w => exact ⟨rfl, rfl, hi⟩
      | none => exact ⟨dabs_aset _ _ _, rfl, dinv_aset v hi (lower_idem k)⟩
    cases kind with
    | ordered =>
      have := core (lower k) rfl
      exact ⟨this.1, this.2.1, this.2.2⟩
    | dflt =>
      have hk : k = lower k := by simpa [DKnown] using hK
      have := core k hk
      exact ⟨this.1, this.2.1, this.2.2⟩
  | update kvs =>
    cases kind with
    | ordered =>
      refine ⟨dabs_foldl_aset lower kvs d, rfl, dinv_foldl lower (fun kv _ => lower_idem kv.1) d hi⟩
    | dflt =>
      have hk : ∀ kv ∈ kvs, id kv.1 = lower kv.1 := by
        intro kv hkv
        have : kvs.any (fun kv => kv.1 != lower kv.1) = false := by simpa [DKnown] using hK
        rw [List.any_eq_false] at this
        simpa using this kv hkv
      refine ⟨?_, rfl, ?_⟩
      · show dabs (merge d kvs) = updAll lower (dabs d) kvs
        rw [dabs_merge, updAll_congr id lower kvs _ hk]
      · exact dinv_foldl id (fun kv hkv => by rw [hk kv hkv]; exact lower_idem _) d hi

end LokiModel.C12
