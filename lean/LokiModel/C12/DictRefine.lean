import LokiModel.C12.Lemmas
/-!
# C12: `CaseInsensitiveDict` / `CaseInsensitiveDefaultDict` refine a mapping keyed by the lower-cased key
-/
namespace LokiModel.C12

structure DRef (kind : DKind) (d : DSt) (op : DOp) : Prop where
  st : dabs (dstep kind d op).1 = (dspecStep kind (dabs d) op).1
  out : (dstep kind d op).2 = (dspecStep kind (dabs d) op).2

theorem dref_erase (kind : DKind) (d : DSt) (k : Name) (dv : Nat) :
    DRef kind d (.del k) ∧ DRef kind d (.pop k) ∧ DRef kind d (.popd k) ∧ DRef kind d (.popdv k dv) := by
  have hd : dabs d (lower k) = alookup (lower k) d := rfl
  cases hl : alookup (lower k) d with
  | none =>
    rw [hl] at hd
    refine ⟨?_, ?_, ?_, ?_⟩ <;> constructor <;> simp [dstep, dspecStep, hl, hd]
  | some v =>
    rw [hl] at hd
    refine ⟨?_, ?_, ?_, ?_⟩ <;> constructor <;>
      simp only [dstep, dspecStep, hl, hd, dabs_aerase]

theorem dstep_refines (kind : DKind) (d : DSt) (op : DOp) : DRef kind d op := by
  cases op with
  | set k v => exact ⟨dabs_aset _ _ _, rfl⟩
  | get k => exact ⟨rfl, rfl⟩
  | getd k dv => exact ⟨rfl, rfl⟩
  | contains k => exact ⟨rfl, rfl⟩
  | getitem k =>
    have hd : dabs d (lower k) = alookup (lower k) d := rfl
    cases hl : alookup (lower k) d with
    | some v => rw [hl] at hd; constructor <;> simp [dstep, dspecStep, hl, hd]
    | none =>
      rw [hl] at hd
      cases kind with
      | ordered => constructor <;> simp [dstep, dspecStep, hl, hd]
      | dflt =>
        constructor <;> simp only [dstep, dspecStep, hl, hd]
        exact dabs_aset _ _ _
  | del k => exact (dref_erase kind d k 0).1
  | pop k => exact (dref_erase kind d k 0).2.1
  | popd k => exact (dref_erase kind d k 0).2.2.1
  | popdv k dv => exact (dref_erase kind d k dv).2.2.2
  | setdefault k v =>
    have hd : dabs d (lower k) = alookup (lower k) d := rfl
    cases hl : alookup (lower k) d with
    | some w => rw [hl] at hd; constructor <;> simp [dstep, dspecStep, hl, hd]
    | none =>
      rw [hl] at hd
      constructor <;> simp only [dstep, dspecStep, hl, hd]
      exact dabs_aset _ _ _
  | update kvs => exact ⟨dabs_foldl_aset lower kvs d, rfl⟩

end LokiModel.C12
