import LokiModel.C12.Spec
/-!
# C12 helper lemmas: key normalisation, association lists, invariants
-/
namespace LokiModel.C12

/-! ## `fold` is idempotent -/

theorem lookup_mem {c d : Char} : ∀ {l : List (Char × Char)}, l.lookup c = some d → (c, d) ∈ l
  | [], h => by simp [List.lookup] at h
  | (a, b) :: r, h => by
    simp only [List.lookup] at h
    split at h
    · rename_i heq
      have : c = a := by simpa using heq
      simp at h; subst h; subst this; simp
    · exact List.mem_cons_of_mem _ (lookup_mem h)

/-- table fact (checked by evaluation on the generated table): lower-case images are fixed points -/
theorem lowerTable_closed : ∀ p ∈ lowerTable, lowerTable.lookup p.2 = none := by decide

/-- table fact: the cut character is not changed by lower-casing and is not a lower-case image -/
theorem cutChar_fix : lowerTable.lookup cutChar = none := by decide

theorem lowerC_idem (c : Char) : lowerC (lowerC c) = lowerC c := by
  unfold lowerC
  cases h : lowerTable.lookup c with
  | none => simp [h]
  | some d =>
    have h2 : lowerTable.lookup d = none := lowerTable_closed (c, d) (lookup_mem h)
    simp [h2]

theorem lower_idem (s : Name) : lower (lower s) = lower s := by
  simp [lower, List.map_map, Function.comp_def, lowerC_idem]

theorem lower_takeWhile (p : Char → Bool) : ∀ (s : Name), (∀ c ∈ s, lowerC c = c) → lower (s.takeWhile p) = s.takeWhile p
  | [], _ => rfl
  | c :: r, h => by
    simp only [List.takeWhile]
    split
    · have hc := h c (by simp)
      have := lower_takeWhile p r (fun x hx => h x (by simp [hx]))
      simp only [lower, List.map_cons, hc] at this ⊢
      rw [this]
    · rfl

theorem takeWhile_idem (p : Char → Bool) : ∀ (s : Name), (s.takeWhile p).takeWhile p = s.takeWhile p
  | [] => rfl
  | c :: r => by
    simp only [List.takeWhile]
    split
    · rename_i h; simp only [List.takeWhile, h, takeWhile_idem p r]
    · rfl

theorem fold_idem (s : Name) : fold (fold s) = fold s := by
  unfold fold cut
  have h : ∀ c ∈ lower s, lowerC c = c := by
    intro c hc
    simp only [lower, List.mem_map] at hc
    obtain ⟨a, _, rfl⟩ := hc
    exact lowerC_idem a
  rw [lower_takeWhile _ _ h, takeWhile_idem]

/-! ## association lists -/

theorem alookup_aset (n k : Name) (v : Nat) : ∀ e, alookup n (aset k v e) = if n = k then some v else alookup n e
  | [] => by simp [aset, alookup]
  | (k', v') :: r => by
    have ih := alookup_aset n k v r
    by_cases h : k = k'
    · subst h
      by_cases h2 : n = k <;> simp [aset, alookup, h2]
    · by_cases h2 : n = k
      · subst h2; simp [aset, alookup, h, ih]
      · simp [aset, alookup, h, h2, ih]

theorem alookup_aerase (n k : Name) : ∀ e, alookup n (aerase k e) = if n = k then none else alookup n e
  | [] => by simp [aerase, alookup]
  | (k', v') :: r => by
    have ih := alookup_aerase n k r
    by_cases h : k = k'
    · subst h
      by_cases h2 : n = k
      · subst h2; simpa [aerase, alookup] using ih
      · simp [aerase, alookup, h2, ih]
    · by_cases h2 : n = k
      · subst h2; simp [aerase, alookup, h, ih]
      · simp [aerase, alookup, h, h2, ih]

theorem mem_aset {x : Name × Nat} {k : Name} {v : Nat} : ∀ {e}, x ∈ aset k v e → x = (k, v) ∨ x ∈ e
  | [], h => by simp [aset] at h; exact Or.inl h
  | (k', v') :: r, h => by
    by_cases hk : k = k'
    · subst hk
      simp [aset] at h
      rcases h with h | h
      · exact Or.inl h
      · exact Or.inr (List.mem_cons_of_mem _ h)
    · simp [aset, hk] at h
      rcases h with h | h
      · exact Or.inr (by rw [h]; exact List.mem_cons_self)
      · rcases mem_aset h with h | h
        · exact Or.inl h
        · exact Or.inr (List.mem_cons_of_mem _ h)

theorem mem_aerase {x : Name × Nat} {k : Name} : ∀ {e}, x ∈ aerase k e → x ∈ e
  | [], h => by simp [aerase] at h
  | (k', v') :: r, h => by
    by_cases hk : k = k'
    · simp [aerase, hk] at h
      exact List.mem_cons_of_mem _ (mem_aerase (by simpa [hk] using h))
    · simp [aerase, hk] at h
      rcases h with h | h
      · rw [h]; exact List.mem_cons_self
      · exact List.mem_cons_of_mem _ (mem_aerase h)

theorem alookup_mem {k : Name} {v : Nat} : ∀ {e}, alookup k e = some v → (k, v) ∈ e
  | [], h => by simp [alookup] at h
  | (k', v') :: r, h => by
    by_cases hk : k = k'
    · subst hk; simp [alookup] at h; subst h; exact List.mem_cons_self
    · simp [alookup, hk] at h; exact List.mem_cons_of_mem _ (alookup_mem h)

theorem alookup_none_of_not_key {k : Name} : ∀ {e : List (Name × Nat)}, k ∉ e.map Prod.fst → alookup k e = none
  | [], _ => rfl
  | (k', v') :: r, h => by
    simp at h
    simp [alookup, h.1]
    exact alookup_none_of_not_key (by simpa using h.2)

theorem key_aset {a k : Name} {v : Nat} {e : List (Name × Nat)} (h : a ∈ (aset k v e).map Prod.fst) :
    a = k ∨ a ∈ e.map Prod.fst := by
  simp only [List.mem_map] at h ⊢
  obtain ⟨x, hx, rfl⟩ := h
  rcases mem_aset hx with h | h
  · exact Or.inl (by rw [h])
  · exact Or.inr ⟨x, h, rfl⟩

theorem nodup_aset (k : Name) (v : Nat) : ∀ {e : List (Name × Nat)}, (e.map Prod.fst).Nodup → ((aset k v e).map Prod.fst).Nodup
  | [], _ => by simp [aset]
  | (k', v') :: r, h => by
    simp only [List.map_cons, List.nodup_cons] at h
    by_cases hk : k = k'
    · simp only [aset, hk, if_true, List.map_cons, List.nodup_cons]; exact h
    · simp only [aset, hk, if_false, List.map_cons, List.nodup_cons]
      refine ⟨fun hm => ?_, nodup_aset k v h.2⟩
      rcases key_aset hm with h1 | h1
      · exact hk h1.symm
      · exact h.1 h1

theorem nodup_aerase (k : Name) : ∀ {e : List (Name × Nat)}, (e.map Prod.fst).Nodup → ((aerase k e).map Prod.fst).Nodup
  | [], _ => by simp [aerase]
  | (k', v') :: r, h => by
    simp only [List.map_cons, List.nodup_cons] at h
    by_cases hk : k = k'
    · simp only [aerase, hk, if_true]; exact nodup_aerase k' h.2
    · simp only [aerase, hk, if_false, List.map_cons, List.nodup_cons]
      refine ⟨fun hm => ?_, nodup_aerase k h.2⟩
      simp only [List.mem_map] at hm
      obtain ⟨x, hx, hx2⟩ := hm
      exact h.1 (List.mem_map.mpr ⟨x, mem_aerase hx, hx2⟩)

/-! ## `EntsOk` -/

theorem entsOk_nil : EntsOk [] := ⟨by simp, by simp⟩

theorem entsOk_aset {e : List (Name × Nat)} {k : Name} (v : Nat) (h : EntsOk e) (hk : fold k = k) : EntsOk (aset k v e) :=
  ⟨fun kv hkv => by
    rcases mem_aset hkv with h1 | h1
    · rw [h1]; exact hk
    · exact h.1 kv h1, nodup_aset k v h.2⟩

theorem entsOk_aerase {e : List (Name × Nat)} (k : Name) (h : EntsOk e) : EntsOk (aerase k e) :=
  ⟨fun kv hkv => h.1 kv (mem_aerase hkv), nodup_aerase k h.2⟩

theorem entsOk_buildWith_aux (kvs : List (Name × Nat)) : ∀ d, EntsOk d → EntsOk (kvs.foldl (fun d kv => aset (fold kv.1) kv.2 d) d) := by
  induction kvs with
  | nil => intro d h; exact h
  | cons x xs ih => intro d h; exact ih _ (entsOk_aset _ h (fold_idem _))

theorem entsOk_buildWith (kvs : List (Name × Nat)) : EntsOk (buildWith fold kvs) :=
  entsOk_buildWith_aux kvs [] entsOk_nil

theorem entsOk_merge (o : List (Name × Nat)) (ho : ∀ kv ∈ o, fold kv.1 = kv.1) : ∀ e, EntsOk e → EntsOk (merge e o) := by
  unfold merge
  induction o with
  | nil => intro e h; exact h
  | cons x xs ih =>
    intro e h
    exact ih (fun kv hkv => ho kv (List.mem_cons_of_mem _ hkv)) _ (entsOk_aset _ h (ho x List.mem_cons_self))

theorem entsOk_updEnts (e kvs : List (Name × Nat)) (h : EntsOk e) : EntsOk (updEnts e kvs) :=
  entsOk_merge _ (entsOk_buildWith kvs).1 e h

/-! ## abstraction of association lists -/

theorem dabs_aset (k : Name) (v : Nat) (e : DSt) : dabs (aset k v e) = (dabs e).upd k v := by
  funext n; simp [dabs, AMap.upd, alookup_aset]

theorem dabs_aerase (k : Name) (e : DSt) : dabs (aerase k e) = (dabs e).del k := by
  funext n; simp [dabs, AMap.del, alookup_aerase]

/-- sequential update of a mapping with keys normalised by `f` -/
def updAll (f : Name → Name) (m : AMap) (l : List (Name × Nat)) : AMap := l.foldl (fun m kv => m.upd (f kv.1) kv.2) m

theorem dabs_foldl_aset (f : Name → Name) (l : List (Name × Nat)) : ∀ d : DSt,
    dabs (l.foldl (fun d kv => aset (f kv.1) kv.2 d) d) = updAll f (dabs d) l := by
  induction l with
  | nil => intro d; rfl
  | cons x xs ih => intro d; simp only [List.foldl_cons, updAll]; rw [ih, dabs_aset]; rfl

theorem updAll_split (f : Name → Name) (l : List (Name × Nat)) : ∀ (m : AMap) (n : Name),
    updAll f m l n = match updAll f (fun _ => none) l n with | some v => some v | none => m n := by
  induction l with
  | nil => intro m n; rfl
  | cons x xs ih =>
    intro m n
    simp only [updAll, List.foldl_cons] at ih ⊢
    rw [ih (m.upd (f x.1) x.2) n, ih (AMap.upd (fun _ => none) (f x.1) x.2) n]
    cases List.foldl (fun m kv => AMap.upd m (f kv.1) kv.2) (fun _ => none) xs n with
    | some v => rfl
    | none =>
      by_cases h : n = f x.1 <;> simp [AMap.upd, h]

theorem updAll_id_nodup : ∀ (l : List (Name × Nat)), (l.map Prod.fst).Nodup → updAll id (fun _ => none) l = dabs l
  | [], _ => by funext n; rfl
  | x :: xs, h => by
    simp only [List.map_cons, List.nodup_cons] at h
    funext n
    have ih := updAll_id_nodup xs h.2
    have := updAll_split id xs (AMap.upd (fun _ => none) x.1 x.2) n
    simp only [updAll, List.foldl_cons, id] at this ih ⊢
    rw [this, ih]
    obtain ⟨k, v⟩ := x
    by_cases hn : n = k
    · subst hn
      have : alookup n xs = none := alookup_none_of_not_key h.1
      simp [this, AMap.upd, dabs, alookup]
    · cases h2 : dabs xs n <;> simp [AMap.upd, dabs, alookup, hn] at h2 ⊢ <;> simp [h2]

theorem updAll_congr (f g : Name → Name) : ∀ (l : List (Name × Nat)) (m : AMap), (∀ kv ∈ l, f kv.1 = g kv.1) → updAll f m l = updAll g m l
  | [], _, _ => rfl
  | x :: xs, m, h => by
    simp only [updAll, List.foldl_cons]
    rw [h x List.mem_cons_self]
    exact updAll_congr f g xs _ (fun kv hkv => h kv (List.mem_cons_of_mem _ hkv))

theorem dabs_merge (o : List (Name × Nat)) (e : DSt) : dabs (merge e o) = updAll id (dabs e) o :=
  dabs_foldl_aset id o e

/-- `SymbolTable.update` (dict comprehension, then `dict.update`) is the sequential update by folded key -/
theorem dabs_updEnts (e kvs : List (Name × Nat)) : dabs (updEnts e kvs) = updAll fold (dabs e) kvs := by
  funext n
  have hb : dabs (buildWith fold kvs) = updAll fold (fun _ => none) kvs := by
    have e0 : dabs [] = fun _ => none := by funext n; rfl
    have := dabs_foldl_aset fold kvs []
    rw [e0] at this
    exact this
  unfold updEnts
  rw [dabs_merge, updAll_split id, updAll_id_nodup _ (entsOk_buildWith kvs).2, hb, updAll_split fold kvs (dabs e) n]

theorem dabs_updEnts_self (e : List (Name × Nat)) (h : EntsOk e) : dabs (updEnts [] e) = dabs e := by
  rw [dabs_updEnts, updAll_congr fold id e _ (fun kv hkv => h.1 kv hkv)]
  exact updAll_id_nodup e h.2

end LokiModel.C12
