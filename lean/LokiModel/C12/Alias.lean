import LokiModel.C12.Lemmas
/-!
# C12, object identity: the clone discipline of `SymbolTable` keeps table entries unshared

A second, smaller model of ONE `SymbolTable` in which `SymbolAttributes` objects have identities: a heap maps object
ids to their content, the table stores object ids, the caller holds object ids (handles).  It mirrors where the code
copies and where it does not:

* `__setitem__`, `setdefault`: `value.clone()` — a fresh object is stored;
* `lookup` / `get` / `__getitem__`: `value.clone()` — a fresh object is returned;
* `pop` (inherited from `dict`): the stored object itself is returned, and removed from the table;
* `handle.tag = c`: in-place mutation of the object a handle points to.

Theorems: no reachable state shares an object between the table and the caller or between two entries (`HInv`), hence
mutating any object the caller holds never changes what the table maps names to (`mutate_view`), and what `set` stores
is the content the handle had at that moment (`set_view`).
-/
namespace LokiModel.C12.Alias
open LokiModel.C12

structure HSt where
  heap : List Nat
  ents : List (Name × Nat)
  hs : List Nat

inductive HOp where
  | new (c : Nat) | mutate (h c : Nat) | set (k : Name) (h : Nat) | setdefault (k : Name) (h : Nat)
  | get (k : Name) | pop (k : Name) | del (k : Name)

def content (s : HSt) (id : Nat) : Nat := s.heap.getD id 0

def hstep (s : HSt) : HOp → HSt
  | .new c => { s with heap := s.heap ++ [c], hs := s.hs ++ [s.heap.length] }
  | .mutate h c =>
    match s.hs[h]? with
    | some id => { s with heap := s.heap.set id c }
    | none => s
  | .set k h =>
    match s.hs[h]? with
    | some id => { s with heap := s.heap ++ [content s id], ents := aset (fold k) s.heap.length s.ents }
    | none => s
  | .setdefault k h =>
    match s.hs[h]? with
    | some id =>
      match alookup (fold k) s.ents with
      | some _ => { s with heap := s.heap ++ [content s id] }      -- `default.clone()` is made and dropped
      | none => { s with heap := s.heap ++ [content s id], ents := aset (fold k) s.heap.length s.ents }
    | none => s
  | .get k =>
    match alookup (fold k) s.ents with
    | some id => { s with heap := s.heap ++ [content s id], hs := s.hs ++ [s.heap.length] }
    | none => s
  | .pop k =>
    match alookup k s.ents with
    | some id => { s with ents := aerase k s.ents, hs := s.hs ++ [id] }
    | none => s
  | .del k => { s with ents := aerase k s.ents }

def hrun (s : HSt) : List HOp → HSt
  | [] => s
  | op :: ops => hrun (hstep s op) ops

/-- the table as the by-value model sees it -/
def view (s : HSt) : List (Name × Nat) := s.ents.map fun kv => (kv.1, content s kv.2)

structure HInv (s : HSt) : Prop where
  entsValid : ∀ kv ∈ s.ents, kv.2 < s.heap.length
  hsValid : ∀ id ∈ s.hs, id < s.heap.length
  disjoint : ∀ kv ∈ s.ents, kv.2 ∉ s.hs
  nodup : (s.ents.map Prod.snd).Nodup

theorem val_aset {k : Name} {v a : Nat} {e : List (Name × Nat)} (h : a ∈ (aset k v e).map Prod.snd) :
    a = v ∨ a ∈ e.map Prod.snd := by
  simp only [List.mem_map] at h ⊢
  obtain ⟨y, hy, rfl⟩ := h
  rcases mem_aset hy with h | h
  · exact Or.inl (by rw [h])
  · exact Or.inr ⟨y, h, rfl⟩

theorem nodup_vals_aset (k : Name) (v : Nat) : ∀ {e : List (Name × Nat)}, v ∉ e.map Prod.snd →
    (e.map Prod.snd).Nodup → ((aset k v e).map Prod.snd).Nodup
  | [], _, _ => by simp [aset]
  | (k', v') :: r, hv, h => by
    simp only [List.map_cons, List.nodup_cons, List.mem_cons, not_or] at h hv
    by_cases hk : k = k'
    · simp only [aset, hk, if_true, List.map_cons, List.nodup_cons]; exact ⟨hv.2, h.2⟩
    · simp only [aset, hk, if_false, List.map_cons, List.nodup_cons]
      refine ⟨fun hm => ?_, nodup_vals_aset k v hv.2 h.2⟩
      rcases val_aset hm with h1 | h1
      · exact hv.1 h1.symm
      · exact h.1 h1

theorem val_aerase {k : Name} {a : Nat} {e : List (Name × Nat)} (h : a ∈ (aerase k e).map Prod.snd) : a ∈ e.map Prod.snd := by
  simp only [List.mem_map] at h ⊢
  obtain ⟨y, hy, rfl⟩ := h
  exact ⟨y, mem_aerase hy, rfl⟩

theorem nodup_vals_aerase (k : Name) : ∀ {e : List (Name × Nat)}, (e.map Prod.snd).Nodup → ((aerase k e).map Prod.snd).Nodup
  | [], _ => by simp [aerase]
  | (k', v') :: r, h => by
    simp only [List.map_cons, List.nodup_cons] at h
    by_cases hk : k = k'
    · simp only [aerase, hk, if_true]; exact nodup_vals_aerase k' h.2
    · simp only [aerase, hk, if_false, List.map_cons, List.nodup_cons]
      exact ⟨fun hm => h.1 (val_aerase hm), nodup_vals_aerase k h.2⟩

/-- the object handed out by `pop` is no longer stored -/
theorem popped_gone {k : Name} {id : Nat} : ∀ {e : List (Name × Nat)}, alookup k e = some id → (e.map Prod.snd).Nodup →
    id ∉ (aerase k e).map Prod.snd
  | [], h, _ => by simp [alookup] at h
  | (k', v') :: r, h, hn => by
    simp only [List.map_cons, List.nodup_cons] at hn
    by_cases hk : k = k'
    · subst hk
      simp [alookup] at h; subst h
      simp only [aerase, if_true]
      exact fun hm => hn.1 (val_aerase hm)
    · simp [alookup, hk] at h
      simp only [aerase, hk, if_false, List.map_cons, List.mem_cons, not_or]
      refine ⟨fun heq => ?_, popped_gone h hn.2⟩
      have : id ∈ r.map Prod.snd := List.mem_map.mpr ⟨(k, id), alookup_mem h, rfl⟩
      exact hn.1 (heq ▸ this)

theorem hinv_init : HInv ⟨[], [], []⟩ := ⟨by simp, by simp, by simp, by simp⟩

/-- the no-sharing invariant is kept by every operation -/
theorem hinv_step (s : HSt) (op : HOp) (hi : HInv s) : HInv (hstep s op) := by
  have grow : ∀ c : Nat, ∀ n : Nat, n < s.heap.length → n < (s.heap ++ [c]).length := by
    intro c n h; simp; omega
  have storeFresh : ∀ (k : Name) (c : Nat), HInv { s with heap := s.heap ++ [c], ents := aset k s.heap.length s.ents } := by
    intro k c
    have hfresh : s.heap.length ∉ s.ents.map Prod.snd := by
      intro hm
      obtain ⟨kv, hkv, heq⟩ := List.mem_map.mp hm
      have := hi.entsValid kv hkv
      omega
    refine ⟨fun kv hkv => ?_, fun id hid => grow c id (hi.hsValid id hid), fun kv hkv => ?_, nodup_vals_aset k _ hfresh hi.nodup⟩
    · rcases mem_aset hkv with h | h
      · rw [h]; simp
      · exact grow c _ (hi.entsValid kv h)
    · rcases mem_aset hkv with h | h
      · rw [h]; intro hm; exact absurd (hi.hsValid _ hm) (Nat.lt_irrefl _)
      · exact hi.disjoint kv h
  cases op with
  | new c =>
    simp only [hstep]
    refine ⟨fun kv hkv => grow c _ (hi.entsValid kv hkv), fun id hid => ?_, fun kv hkv hm => ?_, hi.nodup⟩
    · rcases List.mem_append.mp hid with h | h
      · exact grow c _ (hi.hsValid id h)
      · simp at h; subst h; simp
    · rcases List.mem_append.mp hm with h | h
      · exact hi.disjoint kv hkv h
      · simp at h; have := hi.entsValid kv hkv; omega
  | mutate h c =>
    simp only [hstep]
    cases s.hs[h]? with
    | none => exact hi
    | some id =>
      exact ⟨fun kv hkv => by simpa using hi.entsValid kv hkv, fun i hid => by simpa using hi.hsValid i hid,
        hi.disjoint, hi.nodup⟩
  | set k h =>
    simp only [hstep]
    cases s.hs[h]? with
    | none => exact hi
    | some id => exact storeFresh _ _
  | setdefault k h =>
    simp only [hstep]
    cases s.hs[h]? with
    | none => exact hi
    | some id =>
      cases alookup (fold k) s.ents with
      | none => exact storeFresh _ _
      | some _ =>
        exact ⟨fun kv hkv => grow _ _ (hi.entsValid kv hkv), fun i hid => grow _ _ (hi.hsValid i hid), hi.disjoint, hi.nodup⟩
  | get k =>
    simp only [hstep]
    cases alookup (fold k) s.ents with
    | none => exact hi
    | some id =>
      refine ⟨fun kv hkv => grow _ _ (hi.entsValid kv hkv), fun i hid => ?_, fun kv hkv hm => ?_, hi.nodup⟩
      · rcases List.mem_append.mp hid with h | h
        · exact grow _ _ (hi.hsValid i h)
        · simp at h; subst h; simp
      · rcases List.mem_append.mp hm with h | h
        · exact hi.disjoint kv hkv h
        · simp at h; have := hi.entsValid kv hkv; omega
  | pop k =>
    simp only [hstep]
    cases hl : alookup k s.ents with
    | none => exact hi
    | some id =>
      refine ⟨fun kv hkv => hi.entsValid kv (mem_aerase hkv), fun i hid => ?_, fun kv hkv hm => ?_, nodup_vals_aerase k hi.nodup⟩
      · rcases List.mem_append.mp hid with h | h
        · exact hi.hsValid i h
        · simp at h; subst h; exact hi.entsValid _ (alookup_mem hl)
      · rcases List.mem_append.mp hm with h | h
        · exact hi.disjoint kv (mem_aerase hkv) h
        · simp at h
          exact popped_gone hl hi.nodup (h ▸ List.mem_map.mpr ⟨kv, hkv, rfl⟩)
  | del k =>
    exact ⟨fun kv hkv => hi.entsValid kv (mem_aerase hkv), hi.hsValid, fun kv hkv => hi.disjoint kv (mem_aerase hkv),
      nodup_vals_aerase k hi.nodup⟩

/-- every state reachable from the empty table by any history has no shared objects -/
theorem no_sharing (ops : List HOp) : HInv (hrun ⟨[], [], []⟩ ops) := by
  suffices h : ∀ s, HInv s → HInv (hrun s ops) from h _ hinv_init
  induction ops with
  | nil => intro s h; exact h
  | cons op ops ih => intro s h; exact ih _ (hinv_step s op h)

/-- **independent copies**: in a state without sharing (every reachable state), mutating an object held by the caller
does not change what the table maps any name to -/
theorem mutate_view (s : HSt) (hi : HInv s) (h c : Nat) : view (hstep s (.mutate h c)) = view s := by
  simp only [hstep]
  cases hh : s.hs[h]? with
  | none => rfl
  | some id =>
    simp only [view]
    apply List.map_congr_left
    intro kv hkv
    have hne : id ≠ kv.2 := by
      intro heq
      exact hi.disjoint kv hkv (heq ▸ List.mem_of_getElem? hh)
    simp [content, List.getD_eq_getElem?_getD, List.getElem?_set_ne hne]

/-- what `t[k] = handle` stores is the content the handle has now (a copy), whatever is stored elsewhere stays -/
theorem set_view (s : HSt) (hi : HInv s) (k : Name) (h id : Nat) (hh : s.hs[h]? = some id) :
    alookup (fold k) (view (hstep s (.set k h))) = some (content s id) ∧
    ∀ n, n ≠ fold k → alookup n (view (hstep s (.set k h))) = alookup n (view s) := by
  have ext : ∀ (c : Nat) (e : List (Name × Nat)), (∀ kv ∈ e, kv.2 < s.heap.length) →
      (e.map fun kv => (kv.1, (s.heap ++ [c]).getD kv.2 0)) = e.map fun kv => (kv.1, s.heap.getD kv.2 0) := by
    intro c e hv
    apply List.map_congr_left
    intro kv hkv
    simp [List.getD_eq_getElem?_getD, List.getElem?_append_left (hv kv hkv)]
  have key : ∀ (c : Nat) (e : List (Name × Nat)) (n : Name), (∀ kv ∈ e, kv.2 < s.heap.length) →
      alookup n ((aset (fold k) s.heap.length e).map fun kv => (kv.1, (s.heap ++ [c]).getD kv.2 0)) =
        if n = fold k then some c else alookup n (e.map fun kv => (kv.1, s.heap.getD kv.2 0)) := by
    intro c e n
    induction e with
    | nil => intro _; by_cases hn : n = fold k <;> simp [aset, alookup, hn, List.getD_eq_getElem?_getD]
    | cons x xs ih =>
      intro hv
      have hvx : ∀ kv ∈ xs, kv.2 < s.heap.length := fun kv hkv => hv kv (List.mem_cons_of_mem _ hkv)
      have ih' := ih hvx
      have hx := hv x List.mem_cons_self
      obtain ⟨k', v'⟩ := x
      by_cases hk : fold k = k'
      · subst hk
        by_cases hn : n = fold k
        · simp [aset, alookup, hn, List.getD_eq_getElem?_getD]
        · simp only [aset, if_true, List.map_cons, alookup, hn, if_false]
          rw [ext c xs hvx]
      · by_cases hn : n = k'
        · subst hn
          have : ¬ n = fold k := fun h => hk h.symm
          simp only at hx
          simp [aset, alookup, hk, this, List.getD_eq_getElem?_getD, List.getElem?_append_left hx]
        · simp only [aset, hk, if_false, List.map_cons, alookup, hn]
          exact ih'
  simp only [hstep, hh, view, content]
  constructor
  · rw [key _ s.ents (fold k) hi.entsValid]; simp
  · intro n hn; rw [key _ s.ents n hi.entsValid]; simp [hn]

end LokiModel.C12.Alias
