import LokiModel.C12.Lemmas
/-!
# C12: every step of the model refines the specification
-/
namespace LokiModel.C12

@[simp] theorem abs_hs (s : St) : (abs s).hs = s.hs := rfl
@[simp] theorem abs_tabs (s : St) : (abs s).tabs = s.tabs.map absTab := rfl
theorem abs_get (s : St) (i : Nat) : (abs s).tabs[i]? = s.tabs[i]?.map absTab := by simp
@[simp] theorem absTab_map (t : Tab) : (absTab t).map = dabs t.ents := rfl
@[simp] theorem absTab_parent (t : Tab) : (absTab t).parent = t.parent := rfl
@[simp] theorem absTab_isScope (t : Tab) : (absTab t).isScope = t.isScope := rfl

theorem abs_setEnts (s : St) (i : Nat) (t : Tab) (e : List (Name × Nat)) :
    abs (setEnts s i t e) = aSetMap (abs s) i (absTab t) (dabs e) := by
  simp [abs, setEnts, setTab, aSetMap, List.map_set, absTab]
  rfl

theorem abs_setTab (s : St) (i : Nat) (t : Tab) : abs (setTab s i t) = { abs s with tabs := (abs s).tabs.set i (absTab t) } := by
  simp [abs, setTab, List.map_set]

theorem abs_valid (s : St) (p : Option Nat) : aValidParent (abs s) p = validParent s p := by
  cases p <;> simp [aValidParent, validParent]

theorem abs_scopedParent (s : St) (p : Option Nat) : aScopedParent (abs s) p = scopedParent s p := by
  cases p with
  | none => rfl
  | some p => simp only [aScopedParent, scopedParent, abs_get]; cases s.tabs[p]? <;> rfl

theorem lookupF_abs : ∀ (f : Nat) (tabs : List Tab) (i : Nat) (n : Name) (r : Bool),
    lookupF f tabs i n r = specLookupF f (tabs.map absTab) i n r
  | 0, _, _, _, _ => rfl
  | f + 1, tabs, i, n, r => by
    simp only [lookupF, specLookupF, List.getElem?_map]
    cases tabs[i]? with
    | none => rfl
    | some t =>
      simp only [Option.map_some, absTab_map, absTab_parent, dabs]
      cases alookup n t.ents with
      | some v => rfl
      | none =>
        cases r with
        | false => rfl
        | true =>
          cases t.parent with
          | none => rfl
          | some p => simp only [if_true]; exact lookupF_abs f tabs p n true

theorem lookup_abs (s : St) (i : Nat) (k : Name) (r : Bool) :
    lookup s i k r = specLookupF ((abs s).tabs.length + 1) (abs s).tabs i (fold k) r := by
  simp [lookup, lookupF_abs]

theorem ret_abs (s : St) (o : Out) : abs (ret s o).1 = (aRet (abs s) o).1 ∧ (ret s o).2 = (aRet (abs s) o).2 := by
  cases o <;> simp [ret, aRet, abs]

/-! ## invariant preservation -/

theorem inv_hs (s : St) (hs : List Nat) (h : Inv s) : Inv { s with hs := hs } := h

theorem ret_inv (s : St) (o : Out) (h : Inv s) : Inv (ret s o).1 := by
  cases o <;> exact h

theorem scoped_set {tabs : List Tab} {i p : Nat} {t t' : Tab} (ht : tabs[i]? = some t) (hs : t'.isScope = t.isScope)
    (h : ∃ tp : Tab, tabs[p]? = some tp ∧ tp.isScope = true) : ∃ tp : Tab, (tabs.set i t')[p]? = some tp ∧ tp.isScope = true := by
  obtain ⟨tp, h1, h2⟩ := h
  have hi : i < tabs.length := by
    rcases Nat.lt_or_ge i tabs.length with h | h
    · exact h
    · rw [List.getElem?_eq_none h] at ht; cases ht
  by_cases hp : i = p
  · subst hp
    refine ⟨t', by simp [hi], ?_⟩
    rw [ht] at h1; cases h1; rw [hs]; exact h2
  · exact ⟨tp, by rw [List.getElem?_set_ne hp]; exact h1, h2⟩

theorem inv_setTab {s : St} {i : Nat} {t t' : Tab} (h : Inv s) (ht : s.tabs[i]? = some t) (hok : TabOk t')
    (hs : t'.isScope = t.isScope)
    (hp : t'.isScope = true → ∀ p, t'.sparent = some p → ∃ tp : Tab, s.tabs[p]? = some tp ∧ tp.isScope = true) :
    Inv (setTab s i t') := by
  refine ⟨fun u hu => ?_, fun j u hj hsc p hpp => ?_⟩
  · rcases List.mem_or_eq_of_mem_set hu with h1 | h1
    · exact h.1 u h1
    · rw [h1]; exact hok
  · simp only [setTab] at hj ⊢
    apply scoped_set ht hs
    by_cases hij : i = j
    · subst hij
      have hi : i < s.tabs.length := by
        rcases Nat.lt_or_ge i s.tabs.length with h | h
        · exact h
        · rw [List.getElem?_eq_none h] at ht; cases ht
      simp [hi] at hj
      subst hj
      exact hp hsc p hpp
    · rw [List.getElem?_set_ne hij] at hj
      exact h.2 j u hj hsc p hpp

theorem inv_setEnts {s : St} {i : Nat} {t : Tab} {e : List (Name × Nat)} (h : Inv s) (ht : s.tabs[i]? = some t)
    (he : EntsOk e) : Inv (setEnts s i t e) := by
  have hm : t ∈ s.tabs := List.mem_of_getElem? ht
  exact inv_setTab h ht ⟨he, (h.1 t hm).2⟩ rfl (fun hsc p hpp => h.2 i t ht hsc p hpp)

theorem inv_append {s : St} {t : Tab} (h : Inv s) (hok : TabOk t)
    (hp : t.isScope = true → ∀ p, t.sparent = some p → ∃ tp : Tab, s.tabs[p]? = some tp ∧ tp.isScope = true) :
    Inv { s with tabs := s.tabs ++ [t] } := by
  have lift : ∀ p : Nat, (∃ tp : Tab, s.tabs[p]? = some tp ∧ tp.isScope = true) →
      ∃ tp : Tab, (s.tabs ++ [t])[p]? = some tp ∧ tp.isScope = true := by
    intro p ⟨tp, h1, h2⟩
    have hpl : p < s.tabs.length := by
      rcases Nat.lt_or_ge p s.tabs.length with h | h
      · exact h
      · rw [List.getElem?_eq_none h] at h1; cases h1
    exact ⟨tp, by rw [List.getElem?_append_left hpl]; exact h1, h2⟩
  refine ⟨fun u hu => ?_, fun j u hj hsc p hpp => ?_⟩
  · rcases List.mem_append.mp hu with h1 | h1
    · exact h.1 u h1
    · simp at h1; rw [h1]; exact hok
  · apply lift
    simp only at hj
    by_cases hjl : j < s.tabs.length
    · rw [List.getElem?_append_left hjl] at hj
      exact h.2 j u hj hsc p hpp
    · rw [List.getElem?_append_right (by omega)] at hj
      have : j - s.tabs.length = 0 := by
        rcases Nat.eq_zero_or_pos (j - s.tabs.length) with h | h
        · exact h
        · rw [List.getElem?_eq_none (by simp; omega)] at hj; cases hj
      rw [this] at hj
      simp at hj
      subst hj
      exact hp hsc p hpp

/-! ## per-op refinement -/

/-- appending the concrete table `t` / the abstract table `a` commutes with `abs` and keeps the invariant -/
def Ref' (s : St) (t : Tab) (a : ATab) : Prop :=
  abs { s with tabs := s.tabs ++ [t] } = { abs s with tabs := (abs s).tabs ++ [a] } ∧ Inv { s with tabs := s.tabs ++ [t] }

structure Ref (s : St) (op : Op) : Prop where
  st : abs (step s op).1 = (specStep (abs s) op).1
  out : (step s op).2 = (specStep (abs s) op).2
  inv : Inv (step s op).1

theorem absTab_nil (p : Option Nat) (b : Bool) (sp : Option Nat) : absTab ⟨[], p, b, sp⟩ = ⟨fun _ => none, p, b⟩ := by
  simp only [absTab]; congr

theorem lookup_nonrec {s : St} {i : Nat} {t : Tab} (k : Name) (ht : s.tabs[i]? = some t) :
    lookup s i k false = match alookup (fold k) t.ents with | some v => .val v | none => .none := by
  simp only [lookup, lookupF, ht]
  cases alookup (fold k) t.ents <;> simp

theorem ref_new (s : St) (c : Nat) (hi : Inv s) : Ref s (.new c) := ⟨rfl, rfl, hi⟩

theorem ref_mutate (s : St) (h c : Nat) (hi : Inv s) : Ref s (.mutate h c) := by
  by_cases hh : h < s.hs.length
  · refine ⟨?_, ?_, ?_⟩
    · simp [step, specStep, hh, abs]
    · simp [step, specStep, hh]
    · simp only [step, hh, if_true]; exact hi
  · refine ⟨?_, ?_, ?_⟩
    · simp [step, specStep, hh]
    · simp [step, specStep, hh]
    · simp only [step, hh, if_false]; exact hi

theorem ref_newtab (s : St) (p : Option Nat) (hi : Inv s) : Ref s (.newtab p) := by
  have hv := abs_valid s p
  constructor
  · simp only [step, specStep, hv]; split
    · simp only [abs, List.map_append, List.map_cons, List.map_nil, absTab_nil]
    · rfl
  · simp only [step, specStep, hv]; split <;> rfl
  · simp only [step]; split
    · exact inv_append hi ⟨entsOk_nil, by simp⟩ (by simp)
    · exact hi

theorem scopedParent_some {s : St} {q : Nat} (h : scopedParent s (some q) = true) :
    ∃ tp : Tab, s.tabs[q]? = some tp ∧ tp.isScope = true := by
  simp only [scopedParent] at h
  cases hq : s.tabs[q]? with
  | none => simp [hq] at h
  | some tp => simp [hq] at h; exact ⟨tp, rfl, h⟩

theorem ref_newscope (s : St) (p : Option Nat) (hi : Inv s) : Ref s (.newscope p) := by
  have hv := abs_scopedParent s p
  constructor
  · simp only [step, specStep, hv]; split
    · simp only [abs, List.map_append, List.map_cons, List.map_nil, absTab_nil]
    · rfl
  · simp only [step, specStep, hv]; split <;> rfl
  · simp only [step]; split
    · rename_i hsp
      refine inv_append hi ⟨entsOk_nil, fun _ => rfl⟩ (fun _ q hq => ?_)
      simp only at hq; subst hq
      exact scopedParent_some hsp
    · exact hi

theorem ref_set (s : St) (i : Nat) (k : Name) (h : Nat) (hi : Inv s) : Ref s (.set i k h) := by
  cases ht : s.tabs[i]? with
  | none => constructor <;> simp [step, specStep, ht, hi]
  | some t =>
    cases hh : s.hs[h]? with
    | none => constructor <;> simp [step, specStep, ht, hh, hi]
    | some c =>
      have hm := hi.1 t (List.mem_of_getElem? ht)
      constructor
      · simp only [step, specStep, abs_get, ht, hh, abs_hs, Option.map_some]
        rw [abs_setEnts, dabs_aset]; rfl
      · simp [step, specStep, ht, hh]
      · simp only [step, ht, hh]; exact inv_setEnts hi ht (entsOk_aset _ hm.1 (fold_idem k))

theorem ref_setdefault (s : St) (i : Nat) (k : Name) (h : Option Nat) (hi : Inv s) : Ref s (.setdefault i k h) := by
  cases ht : s.tabs[i]? with
  | none => constructor <;> simp [step, specStep, ht, hi]
  | some t =>
    have hm := hi.1 t (List.mem_of_getElem? ht)
    have core : ∀ c : Nat,
        abs (match alookup (fold k) t.ents with
              | some v => (s, Out.val v)
              | none => (setEnts s i t (aset (fold k) c t.ents), Out.val c)).1 =
          (match (absTab t).map (fold k) with
              | some v => (abs s, Out.val v)
              | none => (aSetMap (abs s) i (absTab t) ((absTab t).map.upd (fold k) c), Out.val c)).1 ∧
        (match alookup (fold k) t.ents with
              | some v => (s, Out.val v)
              | none => (setEnts s i t (aset (fold k) c t.ents), Out.val c)).2 =
          (match (absTab t).map (fold k) with
              | some v => (abs s, Out.val v)
              | none => (aSetMap (abs s) i (absTab t) ((absTab t).map.upd (fold k) c), Out.val c)).2 ∧
        Inv (match alookup (fold k) t.ents with
              | some v => (s, Out.val v)
              | none => (setEnts s i t (aset (fold k) c t.ents), Out.val c)).1 := by
      intro c
      cases hl : alookup (fold k) t.ents with
      | some v => simp [dabs, hl, hi]
      | none =>
        simp only [absTab_map, dabs, hl]
        refine ⟨?_, trivial, inv_setEnts hi ht (entsOk_aset _ hm.1 (fold_idem k))⟩
        rw [abs_setEnts, dabs_aset]
    cases h with
    | none =>
      have := core 0
      refine ⟨?_, ?_, ?_⟩
      · simp only [step, specStep, abs_get, ht, Option.map_some]; exact this.1
      · simp only [step, specStep, abs_get, ht, Option.map_some]; exact this.2.1
      · simp only [step, ht]; exact this.2.2
    | some h' =>
      cases hh : s.hs[h']? with
      | none => constructor <;> simp [step, specStep, ht, hh, hi]
      | some c =>
        have := core c
        refine ⟨?_, ?_, ?_⟩
        · simp only [step, specStep, abs_get, ht, Option.map_some, abs_hs, hh]; exact this.1
        · simp only [step, specStep, abs_get, ht, Option.map_some, abs_hs, hh]; exact this.2.1
        · simp only [step, ht, hh]; exact this.2.2

theorem ref_update (s : St) (i : Nat) (kvs : List (Name × Nat)) (hi : Inv s) : Ref s (.update i kvs) := by
  cases ht : s.tabs[i]? with
  | none => constructor <;> simp [step, specStep, ht, hi]
  | some t =>
    cases hh : resolve s.hs kvs with
    | none => constructor <;> simp [step, specStep, ht, hh, hi]
    | some kcs =>
      have hm := hi.1 t (List.mem_of_getElem? ht)
      constructor
      · simp only [step, specStep, abs_get, ht, hh, abs_hs, Option.map_some]
        rw [abs_setEnts, dabs_updEnts]; rfl
      · simp [step, specStep, ht, hh]
      · simp only [step, ht, hh]; exact inv_setEnts hi ht (entsOk_updEnts _ _ hm.1)

theorem ref_get (s : St) (i : Nat) (k : Name) (hi : Inv s) : Ref s (.get i k) := by
  cases ht : s.tabs[i]? with
  | none => constructor <;> simp [step, specStep, ht, hi]
  | some t =>
    have e : lookup s i k false = (match (absTab t).map (fold k) with | some v => Out.val v | none => Out.none) :=
      lookup_nonrec k ht
    constructor
    · simp only [step, specStep, abs_get, ht, Option.map_some, e]; exact (ret_abs s _).1
    · simp only [step, specStep, abs_get, ht, Option.map_some, e]; exact (ret_abs s _).2
    · simp only [step, ht]; exact ret_inv s _ hi

theorem ref_getitem (s : St) (i : Nat) (k : Name) (hi : Inv s) : Ref s (.getitem i k) := by
  cases ht : s.tabs[i]? with
  | none => constructor <;> simp [step, specStep, ht, hi]
  | some t =>
    have e := lookup_nonrec k ht
    cases hl : alookup (fold k) t.ents with
    | none => rw [hl] at e; constructor <;> simp [step, specStep, ht, e, hl, dabs, hi]
    | some v =>
      rw [hl] at e
      constructor
      · simp only [step, specStep, abs_get, ht, Option.map_some, e, absTab_map, dabs, hl]; exact (ret_abs s _).1
      · simp only [step, specStep, abs_get, ht, Option.map_some, e, absTab_map, dabs, hl]; exact (ret_abs s _).2
      · simp only [step, ht, e]; exact ret_inv s _ hi

theorem ref_getd (s : St) (i : Nat) (k : Name) (d : Nat) (hi : Inv s) : Ref s (.getd i k d) := by
  cases ht : s.tabs[i]? with
  | none => constructor <;> simp [step, specStep, ht, hi]
  | some t =>
    have e := lookup_nonrec k ht
    cases hl : alookup (fold k) t.ents with
    | none => rw [hl] at e; constructor <;> simp [step, specStep, ht, e, hl, dabs, hi]
    | some v =>
      rw [hl] at e
      constructor
      · simp only [step, specStep, abs_get, ht, Option.map_some, e, absTab_map, dabs, hl]; exact (ret_abs s _).1
      · simp only [step, specStep, abs_get, ht, Option.map_some, e, absTab_map, dabs, hl]; exact (ret_abs s _).2
      · simp only [step, ht, e]; exact ret_inv s _ hi

theorem ref_lookup (s : St) (i : Nat) (k : Name) (r : Bool) (hi : Inv s) : Ref s (.lookup i k r) := by
  cases ht : s.tabs[i]? with
  | none => constructor <;> simp [step, specStep, ht, hi]
  | some t =>
    constructor
    · simp only [step, specStep, abs_get, ht, Option.map_some, lookup_abs]; exact (ret_abs s _).1
    · simp only [step, specStep, abs_get, ht, Option.map_some, lookup_abs]; exact (ret_abs s _).2
    · simp only [step, ht]; exact ret_inv s _ hi

theorem ref_contains (s : St) (i : Nat) (k : Name) (hi : Inv s) : Ref s (.contains i k) := by
  cases ht : s.tabs[i]? with
  | none => constructor <;> simp [step, specStep, ht, hi]
  | some t => constructor <;> simp [step, specStep, ht, hi, dabs]

theorem ref_del (s : St) (i : Nat) (k : Name) (hi : Inv s) : Ref s (.del i k) := by
  cases ht : s.tabs[i]? with
  | none => constructor <;> simp [step, specStep, ht, hi]
  | some t =>
    have hm := hi.1 t (List.mem_of_getElem? ht)
    cases hl : alookup (fold k) t.ents with
    | none => constructor <;> simp [step, specStep, ht, hl, dabs, hi]
    | some v =>
      constructor
      · simp only [step, specStep, abs_get, ht, Option.map_some, absTab_map, dabs, hl]
        rw [abs_setEnts, dabs_aerase]
      · simp [step, specStep, ht, hl, dabs]
      · simp only [step, ht, hl]; exact inv_setEnts hi ht (entsOk_aerase _ hm.1)

theorem ref_pop (s : St) (i : Nat) (k : Name) (hi : Inv s) : Ref s (.pop i k) := by
  cases ht : s.tabs[i]? with
  | none => constructor <;> simp [step, specStep, ht, hi]
  | some t =>
    have hm := hi.1 t (List.mem_of_getElem? ht)
    cases hl : alookup (fold k) t.ents with
    | none => constructor <;> simp [step, specStep, ht, hl, dabs, hi]
    | some v =>
      have e3 : abs (setEnts s i t (aerase (fold k) t.ents)) = aSetMap (abs s) i (absTab t) ((absTab t).map.del (fold k)) := by
        rw [abs_setEnts, dabs_aerase]; rfl
      constructor
      · simp only [step, specStep, abs_get, ht, Option.map_some, absTab_map, dabs, hl]
        rw [← absTab_map, ← e3]; exact (ret_abs _ _).1
      · simp only [step, specStep, abs_get, ht, Option.map_some, absTab_map, dabs, hl]
        rw [← absTab_map, ← e3]; exact (ret_abs _ _).2
      · simp only [step, ht, hl]; exact ret_inv _ _ (inv_setEnts hi ht (entsOk_aerase _ hm.1))

theorem ref_popd (s : St) (i : Nat) (k : Name) (hi : Inv s) : Ref s (.popd i k) := by
  cases ht : s.tabs[i]? with
  | none => constructor <;> simp [step, specStep, ht, hi]
  | some t =>
    have hm := hi.1 t (List.mem_of_getElem? ht)
    cases hl : alookup (fold k) t.ents with
    | none => constructor <;> simp [step, specStep, ht, hl, dabs, hi]
    | some v =>
      have e3 : abs (setEnts s i t (aerase (fold k) t.ents)) = aSetMap (abs s) i (absTab t) ((absTab t).map.del (fold k)) := by
        rw [abs_setEnts, dabs_aerase]; rfl
      constructor
      · simp only [step, specStep, abs_get, ht, Option.map_some, absTab_map, dabs, hl]
        rw [← absTab_map, ← e3]; exact (ret_abs _ _).1
      · simp only [step, specStep, abs_get, ht, Option.map_some, absTab_map, dabs, hl]
        rw [← absTab_map, ← e3]; exact (ret_abs _ _).2
      · simp only [step, ht, hl]; exact ret_inv _ _ (inv_setEnts hi ht (entsOk_aerase _ hm.1))

theorem ref_popdv (s : St) (i : Nat) (k : Name) (d : Nat) (hi : Inv s) : Ref s (.popdv i k d) := by
  cases ht : s.tabs[i]? with
  | none => constructor <;> simp [step, specStep, ht, hi]
  | some t =>
    have hm := hi.1 t (List.mem_of_getElem? ht)
    cases hl : alookup (fold k) t.ents with
    | none => constructor <;> simp [step, specStep, ht, hl, dabs, hi]
    | some v =>
      have e3 : abs (setEnts s i t (aerase (fold k) t.ents)) = aSetMap (abs s) i (absTab t) ((absTab t).map.del (fold k)) := by
        rw [abs_setEnts, dabs_aerase]; rfl
      constructor
      · simp only [step, specStep, abs_get, ht, Option.map_some, absTab_map, dabs, hl]
        rw [← absTab_map, ← e3]; exact (ret_abs _ _).1
      · simp only [step, specStep, abs_get, ht, Option.map_some, absTab_map, dabs, hl]
        rw [← absTab_map, ← e3]; exact (ret_abs _ _).2
      · simp only [step, ht, hl]; exact ret_inv _ _ (inv_setEnts hi ht (entsOk_aerase _ hm.1))

theorem absTab_clone (t : Tab) (par : Option Nat) (h : EntsOk t.ents) :
    absTab ⟨updEnts [] t.ents, par, false, none⟩ = ⟨(absTab t).map, par, false⟩ := by
  have := dabs_updEnts_self t.ents h
  unfold dabs at this
  simp only [absTab]
  rw [this]

theorem ref_clone (s : St) (i : Nat) (pk : PK) (hi : Inv s) : Ref s (.clone i pk) := by
  cases ht : s.tabs[i]? with
  | none => constructor <;> simp [step, specStep, ht, hi]
  | some t =>
    have hm := hi.1 t (List.mem_of_getElem? ht)
    have hok : ∀ par, TabOk ⟨updEnts [] t.ents, par, false, none⟩ :=
      fun par => ⟨entsOk_updEnts [] _ entsOk_nil, by simp⟩
    have happ : ∀ par, Ref' s ⟨updEnts [] t.ents, par, false, none⟩ ⟨(absTab t).map, par, false⟩ := by
      intro par
      exact ⟨by simp only [abs, List.map_append, List.map_cons, List.map_nil, absTab_clone t par hm.1],
        inv_append hi (hok par) (by simp)⟩
    cases pk with
    | none =>
      have := happ none
      exact ⟨by simpa [step, specStep, ht] using this.1, by simp [step, specStep, ht], by simpa [step, ht] using this.2⟩
    | some p =>
      by_cases hp : p < s.tabs.length
      · have := happ (some p)
        exact ⟨by simpa [step, specStep, ht, hp] using this.1, by simp [step, specStep, ht, hp],
          by simpa [step, ht, hp] using this.2⟩
      · constructor <;> simp [step, specStep, ht, hp, hi]
    | inherit =>
      have := happ t.parent
      exact ⟨by simpa [step, specStep, ht] using this.1, by simp [step, specStep, ht], by simpa [step, ht] using this.2⟩

theorem ref_setparent (s : St) (i : Nat) (p : Option Nat) (hi : Inv s) : Ref s (.setparent i p) := by
  cases ht : s.tabs[i]? with
  | none => constructor <;> simp [step, specStep, ht, hi]
  | some t =>
    have hm := hi.1 t (List.mem_of_getElem? ht)
    have hv := abs_valid s p
    by_cases hc : (!t.isScope && validParent s p) = true
    · have hsc : t.isScope = false := by simp at hc; exact hc.1
      refine ⟨?_, ?_, ?_⟩
      · simp only [step, specStep, abs_get, ht, Option.map_some, absTab_isScope, hv, hc, if_true]
        rw [abs_setTab]; rfl
      · simp only [step, specStep, abs_get, ht, Option.map_some, absTab_isScope, hv, hc, if_true]
      · simp only [step, ht, hc, if_true]
        exact inv_setTab hi ht ⟨hm.1, by simp [hsc]⟩ rfl (by simp [hsc])
    · constructor <;> simp [step, specStep, ht, hv, hc, hi]

theorem setlike {s : St} {i : Nat} {t : Tab} {e : List (Name × Nat)} {m : AMap} (hi : Inv s) (ht : s.tabs[i]? = some t)
    (he : EntsOk e) (hm : dabs e = m) : abs (setEnts s i t e) = aSetMap (abs s) i (absTab t) m ∧ Inv (setEnts s i t e) :=
  ⟨by rw [abs_setEnts, hm], inv_setEnts hi ht he⟩

theorem ref_declare (s : St) (i : Nat) (k : Name) (c : Nat) (fail : Bool) (hi : Inv s) : Ref s (.declare i k c fail) := by
  cases ht : s.tabs[i]? with
  | none => constructor <;> simp [step, specStep, ht, hi]
  | some t =>
    have hm := hi.1 t (List.mem_of_getElem? ht)
    have sl := setlike (m := (dabs t.ents).upd (fold k) c) hi ht (entsOk_aset c hm.1 (fold_idem k)) (dabs_aset _ _ _)
    cases hsc : t.isScope with
    | false => constructor <;> simp [step, specStep, ht, hsc, hi]
    | true =>
      cases fail <;> cases hl : alookup (fold k) t.ents <;>
        first
        | (constructor <;> simp [step, specStep, ht, hsc, hl, hi, dabs]; done)
        | exact ⟨by simpa [step, specStep, ht, hsc, hl, dabs] using sl.1, by simp [step, specStep, ht, hsc, hl, dabs],
            by simpa [step, ht, hsc, hl] using sl.2⟩

theorem ref_supdate (s : St) (i : Nat) (k : Name) (c : Nat) (fail : Bool) (hi : Inv s) : Ref s (.supdate i k c fail) := by
  cases ht : s.tabs[i]? with
  | none => constructor <;> simp [step, specStep, ht, hi]
  | some t =>
    have hm := hi.1 t (List.mem_of_getElem? ht)
    have sl := setlike (m := (dabs t.ents).upd (fold k) c) hi ht (entsOk_aset c hm.1 (fold_idem k)) (dabs_aset _ _ _)
    cases hsc : t.isScope with
    | false => constructor <;> simp [step, specStep, ht, hsc, hi]
    | true =>
      cases fail <;> cases hl : alookup (fold k) t.ents <;>
        first
        | (constructor <;> simp [step, specStep, ht, hsc, hl, hi, dabs]; done)
        | exact ⟨by simpa [step, specStep, ht, hsc, hl, dabs] using sl.1, by simp [step, specStep, ht, hsc, hl, dabs],
            by simpa [step, ht, hsc, hl] using sl.2⟩

theorem ref_gettype (s : St) (i : Nat) (k : Name) (r fail : Bool) (hi : Inv s) : Ref s (.gettype i k r fail) := by
  cases ht : s.tabs[i]? with
  | none => constructor <;> simp [step, specStep, ht, hi]
  | some t =>
    cases hsc : t.isScope with
    | false => constructor <;> simp [step, specStep, ht, hsc, hi]
    | true =>
      refine ⟨?_, ?_, ?_⟩
      · simp only [step, specStep, abs_get, ht, Option.map_some, absTab_isScope, hsc, lookup_abs]
        generalize specLookupF _ _ _ _ _ = o
        cases o <;> cases fail <;> simp [ret, aRet, abs]
      · simp only [step, specStep, abs_get, ht, Option.map_some, absTab_isScope, hsc, lookup_abs]
        generalize specLookupF _ _ _ _ _ = o
        cases o <;> cases fail <;> simp [ret, aRet]
      · simp only [step, ht, hsc]
        generalize lookup s i k r = o
        cases o <;> cases fail <;> simp [ret] <;> exact hi

theorem symscopeF_abs {tabs : List Tab} (hok : ∀ t ∈ tabs, TabOk t) (hsc : ScopeOk tabs) :
    ∀ (f i : Nat) (n : Name) (t : Tab), tabs[i]? = some t → t.isScope = true →
      symscopeF f tabs i n = specScopeF f (tabs.map absTab) i (fold n)
  | 0, _, _, _, _, _ => rfl
  | f + 1, i, n, t, ht, hs => by
    simp only [symscopeF, specScopeF, List.getElem?_map, ht, Option.map_some, absTab_map, absTab_parent, dabs]
    have hp := (hok t (List.mem_of_getElem? ht)).2 hs
    by_cases hl : (alookup (fold n) t.ents).isSome = true
    · simp only [hl, if_true]
    · simp only [hl]
      rw [hp]
      cases hpar : t.parent with
      | none => rfl
      | some p =>
        obtain ⟨tp, h1, h2⟩ := hsc i t ht hs p (by rw [hp, hpar])
        exact symscopeF_abs hok hsc f p n tp h1 h2

theorem ref_symscope (s : St) (i : Nat) (k : Name) (hi : Inv s) : Ref s (.symscope i k) := by
  cases ht : s.tabs[i]? with
  | none => constructor <;> simp [step, specStep, ht, hi]
  | some t =>
    cases hsc : t.isScope with
    | false => constructor <;> simp [step, specStep, ht, hsc, hi]
    | true =>
      have := symscopeF_abs hi.1 hi.2 (s.tabs.length + 1) i k t ht hsc
      constructor <;> simp [step, specStep, ht, hsc, hi, this]

theorem ref_reparent (s : St) (i : Nat) (p : Option Nat) (hi : Inv s) : Ref s (.reparent i p) := by
  cases ht : s.tabs[i]? with
  | none => constructor <;> simp [step, specStep, ht, hi]
  | some t =>
    have hm := hi.1 t (List.mem_of_getElem? ht)
    have hv := abs_scopedParent s p
    by_cases hc : (!t.isScope || !scopedParent s p) = true
    · constructor <;> simp only [step, specStep, abs_get, ht, Option.map_some, absTab_isScope, hv, hc, if_true] <;> first | rfl | exact hi
    · have hsp : scopedParent s p = true := by simp at hc; exact hc.2
      refine ⟨?_, ?_, ?_⟩
      · simp only [step, specStep, abs_get, ht, Option.map_some, absTab_isScope, hv, hc]
        simp only [Bool.false_eq_true, if_false]
        rw [abs_setTab]; rfl
      · simp [step, specStep, ht, hv, hc]
      · simp only [step, ht, hc]
        simp only [Bool.false_eq_true, if_false]
        refine inv_setTab hi ht ⟨hm.1, fun _ => rfl⟩ rfl (fun _ q hq => ?_)
        simp only at hq; subst hq
        exact scopedParent_some hsp

end LokiModel.C12
