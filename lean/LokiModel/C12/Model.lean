import LokiModel.Generated.C12Tables
/-!
# C12 model: symbol tables and case-insensitive dictionaries as state machines

Mirrors (line by line, defects included)

* `loki/types/symbol_table.py` — `SymbolTable` (`_not_case_sensitive_format_lookup_name`, `_lookup_formatted_name`,
  `lookup`, `__contains__`, `__getitem__`, `get`, `__setitem__`, `__delitem__`, `pop`, `setdefault`, `update`, `clone`,
  the `parent` setter),
* `loki/types/scope.py` — `Scope.__post_init__`, `_reset_parent`, `declare`, `update`, `get_type`, `get_symbol_scope`,
* `loki/tools/util.py` — `CaseInsensitiveDict` (an `OrderedDict`: `update`/`setdefault` go through the overridden
  `__setitem__`/`__contains__`; `__delitem__`/`pop` are overridden) and `CaseInsensitiveDefaultDict` (a `defaultdict`
  with `__setitem__`, `__getitem__`, `get`, `__contains__`, `__delitem__`, `pop`, `setdefault`, `update` overridden).
  (State after the `fix:` commits recorded in `known_findings.json`; the former behaviour is kept as regression
  statements in `LokiModel/Findings/C12.lean`.)

Python `dict` = association list in insertion order; a name is a `List Char`; `str.lower` is the generated ASCII table
`lowerTable`; the value of a `SymbolAttributes` object is a natural number (its `tag`; `0` = the
`SymbolAttributes(BasicType.DEFERRED)` default of `setdefault`); dictionary values are naturals too (the harness maps
`0, 1, 2, 3` to the falsy payloads `0, '', (), False`); values are held by value (every `clone()` in the code is a
copy; the identity side of "independent copies" is checked by the correspondence run, see `harness/props/c12.py`).
Core Lean only.
-/
namespace LokiModel.C12

abbrev Name := List Char

/-! ## key normalisation -/

/-- `str.lower` on one ASCII character (table generated from Python) -/
def lowerC (c : Char) : Char := (lowerTable.lookup c).getD c

/-- `name.lower()` -/
def lower (s : Name) : Name := s.map lowerC

/-- `name.partition('(')[0]` -/
def cut (s : Name) : Name := s.takeWhile (fun c => c != cutChar)

/-- `SymbolTable._not_case_sensitive_format_lookup_name` -/
def fold (s : Name) : Name := cut (lower s)

/-! ## Python `dict` as association list (insertion order, unique keys) -/

def alookup (k : Name) : List (Name × Nat) → Option Nat
  | [] => none
  | (k', v) :: r => if k = k' then some v else alookup k r

/-- `d[k] = v`: overwrite in place or append -/
def aset (k : Name) (v : Nat) : List (Name × Nat) → List (Name × Nat)
  | [] => [(k, v)]
  | (k', v') :: r => if k = k' then (k', v) :: r else (k', v') :: aset k v r

/-- `del d[k]` for a present key -/
def aerase (k : Name) : List (Name × Nat) → List (Name × Nat)
  | [] => []
  | (k', v') :: r => if k = k' then aerase k r else (k', v') :: aerase k r

/-- `{f(k): v for k, v in items}` -/
def buildWith (f : Name → Name) (kvs : List (Name × Nat)) : List (Name × Nat) :=
  kvs.foldl (fun d kv => aset (f kv.1) kv.2 d) []

/-- `dict.update(d, other)` for a dict `other` -/
def merge (d other : List (Name × Nat)) : List (Name × Nat) :=
  other.foldl (fun e kv => aset kv.1 kv.2 e) d

/-- `SymbolTable.update`: `other = {format_lookup_name(k): v.clone() for k, v in …}; super().update(other)` -/
def updEnts (e kvs : List (Name × Nat)) : List (Name × Nat) := merge e (buildWith fold kvs)

/-! ## symbol tables and scopes -/

structure Tab where
  /-- the `dict` part of the `SymbolTable` -/
  ents : List (Name × Nat)
  /-- `SymbolTable._parent` (index of the parent table) -/
  parent : Option Nat
  /-- the table is the `symbol_attrs` of a `Scope` object -/
  isScope : Bool
  /-- `Scope._parent` of that scope -/
  sparent : Option Nat
deriving Repr

structure St where
  tabs : List Tab
  /-- handles: `SymbolAttributes` objects held by the caller (arguments and returned copies), by value -/
  hs : List Nat
deriving Repr

def St.init : St := ⟨[], []⟩

/-- the `parent=` argument of `SymbolTable.clone` -/
inductive PK where
  | inherit | none | some (p : Nat)
deriving Repr, DecidableEq

inductive Op where
  | new (c : Nat)                                   -- `SymbolAttributes('integer', tag=c)`
  | mutate (h c : Nat)                              -- `handle.tag = c`
  | newtab (p : Option Nat)                         -- `SymbolTable(parent=…)`
  | newscope (p : Option Nat)                       -- `Scope(parent=…)`
  | set (i : Nat) (k : Name) (h : Nat)              -- `t[k] = handle`
  | setdefault (i : Nat) (k : Name) (h : Option Nat)
  | update (i : Nat) (kvs : List (Name × Nat))      -- `t.update({k: handle, …})`
  | get (i : Nat) (k : Name)
  | getd (i : Nat) (k : Name) (d : Nat)             -- `t.get(k, d)` with an explicit (non-`SymbolAttributes`) default `d`
  | getitem (i : Nat) (k : Name)
  | lookup (i : Nat) (k : Name) (recursive : Bool)
  | contains (i : Nat) (k : Name)
  | del (i : Nat) (k : Name)
  | pop (i : Nat) (k : Name)
  | popd (i : Nat) (k : Name)                       -- `t.pop(k, None)`
  | popdv (i : Nat) (k : Name) (d : Nat)            -- `t.pop(k, d)` with an explicit default `d`
  | clone (i : Nat) (pk : PK)
  | setparent (i : Nat) (p : Option Nat)            -- `t.parent = …` (bare tables only)
  | declare (i : Nat) (k : Name) (c : Nat) (fail : Bool)
  | supdate (i : Nat) (k : Name) (c : Nat) (fail : Bool)   -- `Scope.update(k, fail=…, dtype='integer', tag=c)`
  | gettype (i : Nat) (k : Name) (recursive fail : Bool)
  | symscope (i : Nat) (k : Name)                   -- `Scope.get_symbol_scope`
  | reparent (i : Nat) (p : Option Nat)             -- `Scope._reset_parent`
deriving Repr

inductive Out where
  | unit | none | val (c : Nat) | bool (b : Bool) | keyError | valueError | scope (i : Nat) | recursion | bad
  | dflt (d : Nat)      -- the caller's explicit default object was returned
deriving Repr, DecidableEq

/-- `SymbolTable._lookup_formatted_name(name, recursive)`; the fuel bounds the recursion through parents
(`tabs.length + 1` steps without a hit can only happen on a cyclic chain, where Python raises `RecursionError`) -/
def lookupF : Nat → List Tab → Nat → Name → Bool → Out
  | 0, _, _, _, _ => .recursion
  | f + 1, tabs, i, n, r =>
    match tabs[i]? with
    | none => .none
    | some t =>
      match alookup n t.ents with
      | some v => .val v
      | none =>
        if r then
          match t.parent with
          | some p => lookupF f tabs p n r
          | none => .none
        else .none

/-- `SymbolTable.lookup` -/
def lookup (s : St) (i : Nat) (k : Name) (r : Bool) : Out := lookupF (s.tabs.length + 1) s.tabs i (fold k) r

/-- `Scope.get_symbol_scope`: `while scope is not None: if name in scope.symbol_attrs: return scope; scope = scope.parent` -/
def symscopeF : Nat → List Tab → Nat → Name → Out
  | 0, _, _, _ => .recursion
  | f + 1, tabs, i, n =>
    match tabs[i]? with
    | none => .none
    | some t =>
      if (alookup (fold n) t.ents).isSome then .scope i
      else match t.sparent with
        | some p => symscopeF f tabs p n
        | none => .none

def setTab (s : St) (i : Nat) (t : Tab) : St := { s with tabs := s.tabs.set i t }

def setEnts (s : St) (i : Nat) (t : Tab) (e : List (Name × Nat)) : St := setTab s i { t with ents := e }

/-- a returned `SymbolAttributes` becomes a new handle of the caller -/
def ret (s : St) (o : Out) : St × Out :=
  match o with
  | .val c => ({ s with hs := s.hs ++ [c] }, o)
  | _ => (s, o)

/-- resolve `(key, handle)` pairs to `(key, value)` pairs; `none` if a handle does not exist -/
def resolve (hs : List Nat) : List (Name × Nat) → Option (List (Name × Nat))
  | [] => some []
  | (k, h) :: r =>
    match hs[h]?, resolve hs r with
    | some c, some r' => some ((k, c) :: r')
    | _, _ => none

def validParent (s : St) (p : Option Nat) : Bool :=
  match p with
  | none => true
  | some p => p < s.tabs.length

def scopedParent (s : St) (p : Option Nat) : Bool :=
  match p with
  | none => true
  | some p => match s.tabs[p]? with
    | some t => t.isScope
    | none => false

def step (s : St) (op : Op) : St × Out :=
  match op with
  | .new c => ({ s with hs := s.hs ++ [c] }, .unit)
  | .mutate h c => if h < s.hs.length then ({ s with hs := s.hs.set h c }, .unit) else (s, .bad)
  | .newtab p =>
    if validParent s p then ({ s with tabs := s.tabs ++ [⟨[], p, false, none⟩] }, .unit) else (s, .bad)
  | .newscope p =>
    -- `__post_init__`: `_reset_parent(parent)`; `symbol_attrs.parent = None if parent is None else parent.symbol_attrs`
    if scopedParent s p then ({ s with tabs := s.tabs ++ [⟨[], p, true, p⟩] }, .unit) else (s, .bad)
  | .set i k h =>
    match s.tabs[i]?, s.hs[h]? with
    | some t, some c => (setEnts s i t (aset (fold k) c t.ents), .unit)      -- `super().__setitem__(fold(key), value.clone())`
    | _, _ => (s, .bad)
  | .setdefault i k h =>
    match s.tabs[i]?, (match h with | none => some 0 | some h => s.hs[h]?) with
    | some t, some c =>
      -- `return super().setdefault(fold(key), default.clone()).clone()`: a copy of the existing or of the new entry
      -- (the copy is handed out but not tracked as a handle)
      match alookup (fold k) t.ents with
      | some v => (s, .val v)
      | none => (setEnts s i t (aset (fold k) c t.ents), .val c)
    | _, _ => (s, .bad)
  | .update i kvs =>
    match s.tabs[i]?, resolve s.hs kvs with
    | some t, some kcs => (setEnts s i t (updEnts t.ents kcs), .unit)
    | _, _ => (s, .bad)
  | .get i k =>
    match s.tabs[i]? with
    | some _ => ret s (lookup s i k false)               -- `value.clone() if value is not None else default`
    | none => (s, .bad)
  | .getd i k d =>
    match s.tabs[i]? with
    | some _ =>
      -- `value = self.lookup(key, recursive=False); return value.clone() if value is not None else default`
      match lookup s i k false with
      | .none => (s, .dflt d)
      | o => ret s o
    | none => (s, .bad)
  | .getitem i k =>
    match s.tabs[i]? with
    | some _ =>
      match lookup s i k false with
      | .none => (s, .keyError)
      | o => ret s o
    | none => (s, .bad)
  | .lookup i k r =>
    match s.tabs[i]? with
    | some _ => ret s (lookup s i k r)
    | none => (s, .bad)
  | .contains i k =>
    match s.tabs[i]? with
    | some t => (s, .bool (alookup (fold k) t.ents).isSome)
    | none => (s, .bad)
  | .del i k =>
    match s.tabs[i]? with
    | some t =>
      -- `__delitem__`: `super().__delitem__(self.format_lookup_name(key))`
      match alookup (fold k) t.ents with
      | some _ => (setEnts s i t (aerase (fold k) t.ents), .unit)
      | none => (s, .keyError)
    | none => (s, .bad)
  | .pop i k =>
    match s.tabs[i]? with
    | some t =>
      -- `pop`: `super().pop(self.format_lookup_name(key), *args)`; the stored object itself is handed out
      match alookup (fold k) t.ents with
      | some v => ret (setEnts s i t (aerase (fold k) t.ents)) (.val v)
      | none => (s, .keyError)
    | none => (s, .bad)
  | .popd i k =>
    match s.tabs[i]? with
    | some t =>
      match alookup (fold k) t.ents with
      | some v => ret (setEnts s i t (aerase (fold k) t.ents)) (.val v)
      | none => (s, .none)
    | none => (s, .bad)
  | .popdv i k d =>
    match s.tabs[i]? with
    | some t =>
      match alookup (fold k) t.ents with
      | some v => ret (setEnts s i t (aerase (fold k) t.ents)) (.val v)
      | none => (s, .dflt d)
    | none => (s, .bad)
  | .clone i pk =>
    match s.tabs[i]? with
    | some t =>
      -- `if self.parent is not None and 'parent' not in kwargs: kwargs['parent'] = self.parent`;
      -- `obj = type(self)(**kwargs); obj.update(self)`
      let par : Option (Option Nat) :=
        match pk with
        | .some p => if p < s.tabs.length then some (some p) else none
        | .none => some none
        | .inherit => some t.parent
      match par with
      | some par => ({ s with tabs := s.tabs ++ [⟨updEnts [] t.ents, par, false, none⟩] }, .unit)
      | none => (s, .bad)
    | none => (s, .bad)
  | .setparent i p =>
    match s.tabs[i]? with
    | some t => if !t.isScope && validParent s p then (setTab s i { t with parent := p }, .unit) else (s, .bad)
    | none => (s, .bad)
  | .declare i k c fail =>
    match s.tabs[i]? with
    | some t =>
      if !t.isScope then (s, .bad)
      else if fail && (alookup (fold k) t.ents).isSome then (s, .valueError)
      else (setEnts s i t (aset (fold k) c t.ents), .unit)
    | none => (s, .bad)
  | .supdate i k c fail =>
    match s.tabs[i]? with
    | some t =>
      if !t.isScope then (s, .bad)
      else if fail && !(alookup (fold k) t.ents).isSome then (s, .valueError)
      else if (alookup (fold k) t.ents).isSome then
        (setEnts s i t (aset (fold k) c t.ents), .unit)     -- `symbol_attrs[name] = symbol_attrs[name].clone(**kwargs)`
      else (setEnts s i t (aset (fold k) c t.ents), .unit)  -- `symbol_attrs[name] = SymbolAttributes(**kwargs)`
    | none => (s, .bad)
  | .gettype i k r fail =>
    match s.tabs[i]? with
    | some t =>
      if !t.isScope then (s, .bad)
      else match lookup s i k r with
        | .none => if fail then (s, .keyError) else (s, .none)
        | o => ret s o
    | none => (s, .bad)
  | .symscope i k =>
    match s.tabs[i]? with
    | some t => if !t.isScope then (s, .bad) else (s, symscopeF (s.tabs.length + 1) s.tabs i k)
    | none => (s, .bad)
  | .reparent i p =>
    match s.tabs[i]? with
    | some t =>
      if !t.isScope || !scopedParent s p then (s, .bad)
      else
        -- `_reset_parent`: `_parent = ref(parent)`;
        -- `symbol_attrs.parent = self.parent.symbol_attrs if self.parent is not None else None`
        (setTab s i { t with sparent := p, parent := p }, .unit)
    | none => (s, .bad)

/-- run a history, collecting the outputs -/
def run (s : St) : List Op → St × List Out
  | [] => (s, [])
  | op :: ops =>
    let r := step s op
    let rr := run r.1 ops
    (rr.1, r.2 :: rr.2)

/-! ## `CaseInsensitiveDict` / `CaseInsensitiveDefaultDict` (string keys, integer values) -/

inductive DKind where
  | ordered   -- `CaseInsensitiveDict(OrderedDict)`
  | dflt      -- `CaseInsensitiveDefaultDict(defaultdict)` with `default_factory = int` (value 0)
deriving Repr, DecidableEq

inductive DOp where
  | set (k : Name) (v : Nat)
  | get (k : Name)
  | getd (k : Name) (d : Nat)        -- `d.get(k, default)`
  | getitem (k : Name)
  | contains (k : Name)
  | del (k : Name)
  | pop (k : Name)
  | popd (k : Name)
  | popdv (k : Name) (d : Nat)       -- `d.pop(k, default)`
  | setdefault (k : Name) (v : Nat)
  | update (kvs : List (Name × Nat))
deriving Repr

abbrev DSt := List (Name × Nat)

def dstep (kind : DKind) (d : DSt) (op : DOp) : DSt × Out :=
  match op with
  | .set k v => (aset (lower k) v d, .unit)
  | .get k => (d, match alookup (lower k) d with | some v => .val v | none => .none)
  | .getd k dv => (d, match alookup (lower k) d with | some v => .val v | none => .val dv)   -- `super().get(key, default)`
  | .getitem k =>
    match alookup (lower k) d with
    | some v => (d, .val v)
    | none =>
      match kind with
      | .ordered => (d, .keyError)
      | .dflt => (aset (lower k) 0 d, .val 0)      -- `__missing__`: `self[key] = default_factory()` with the folded key
  | .contains k => (d, .bool (alookup (lower k) d).isSome)
  | .del k =>
    match alookup (lower k) d with
    | some _ => (aerase (lower k) d, .unit)
    | none => (d, .keyError)
  | .pop k =>
    match alookup (lower k) d with
    | some v => (aerase (lower k) d, .val v)
    | none => (d, .keyError)
  | .popd k =>
    match alookup (lower k) d with
    | some v => (aerase (lower k) d, .val v)
    | none => (d, .none)
  | .popdv k dv =>
    match alookup (lower k) d with
    | some v => (aerase (lower k) d, .val v)
    | none => (d, .val dv)
  | .setdefault k v =>
    -- ordered: `OrderedDict.setdefault` on a subclass (`key in self` → `self[key]`, else `self[key] = default`);
    -- default dict: the override lower-cases the key and calls `dict.setdefault`
    match alookup (lower k) d with
    | some w => (d, .val w)
    | none => (aset (lower k) v d, .val v)
  | .update kvs =>
    -- ordered: `MutableMapping.update`; default dict: the override; both `self[k] = v` item by item
    (kvs.foldl (fun e kv => aset (lower kv.1) kv.2 e) d, .unit)

def drun (kind : DKind) (d : DSt) : List DOp → DSt × List Out
  | [] => (d, [])
  | op :: ops =>
    let r := dstep kind d op
    let rr := drun kind r.1 ops
    (rr.1, r.2 :: rr.2)

end LokiModel.C12
